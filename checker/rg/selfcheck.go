package rg

import (
	"encoding/json"
	"fmt"
	"go/token"
	"os"
	"os/exec"
	"path/filepath"
	"sort"
	"strings"
)

// mutationSelfCheck (thorough tier): every seeded property-breaking change under <verif>/seeded that was written against
// this property and is recorded as caught by its check is applied to a scratch copy of the CURRENT working tree of the repository (outside /repo and
// /verif) and re-analysed in a child process; the check must fire on the copy. A patch that no longer applies to the
// current tree is skipped and noted. This is the standing positive example for rules whose finding count on the real
// tree is zero; nothing is executed, the copies are only analysed.
func (c *C) mutationSelfCheck(verif string) {
	seedRoot := filepath.Join(verif, "seeded")
	ents, err := os.ReadDir(seedRoot)
	if err != nil {
		c.AddNote("no seeded changes directory: mutation self-check skipped")
		return
	}
	self, err := os.Executable()
	if err != nil {
		c.AddNote("cannot locate own executable: mutation self-check skipped")
		return
	}
	var names []string
	for _, e := range ents {
		if e.IsDir() {
			names = append(names, e.Name())
		}
	}
	sort.Strings(names)
	tried, fired, skipped := 0, 0, 0
	// Every scratch copy is compiled under its own path and would add ~0.3 GB to the shared Go build cache (a few hundred
	// copies fill a disk): the children get a hard-linked clone of a cache that was warmed once on the repository itself,
	// and the clone goes away with the copy.
	warm, err := os.MkdirTemp("", "rgcache-")
	if err != nil {
		c.AddNote("cannot create scratch dir: %v", err)
		return
	}
	defer os.RemoveAll(warm)
	{
		wv := filepath.Join(warm, "verif")
		os.MkdirAll(wv, 0o755)
		if b, err := os.ReadFile(filepath.Join(verif, "known_findings.json")); err == nil {
			os.WriteFile(filepath.Join(wv, "known_findings.json"), b, 0o644)
		}
		w := exec.Command(self, "-prop", c.Prop, "-tier", "quick", "-repo", c.P.Repo, "-verif", wv)
		w.Env = append(os.Environ(), "RG_WORK="+filepath.Join(warm, "work"), "GOCACHE="+filepath.Join(warm, "gocache"))
		w.CombinedOutput()
		os.RemoveAll(wv)
		os.RemoveAll(filepath.Join(warm, "work"))
	}
	for _, name := range names {
		// the standing positive examples of a property are the changes written against it; the changes written against
		// other properties that this check also reports are covered by tools/regress.sh
		if !strings.HasPrefix(name, c.Prop) {
			continue
		}
		dir := filepath.Join(seedRoot, name)
		mb, err := os.ReadFile(filepath.Join(dir, "meta.json"))
		if err != nil {
			continue
		}
		var meta struct {
			Caught []string `json:"caught_by_checks"`
			Rules  []string `json:"caught_by_rules"`
		}
		if json.Unmarshal(mb, &meta) != nil {
			continue
		}
		mine := false
		for _, p := range meta.Caught {
			if p == c.Prop {
				mine = true
			}
		}
		if !mine {
			continue
		}
		scratch, err := os.MkdirTemp("", "rgseed-"+name+"-")
		if err != nil {
			c.AddNote("cannot create scratch dir: %v", err)
			return
		}
		func() {
			defer os.RemoveAll(scratch)
			cp := exec.Command("rsync", "-a", "--exclude", ".git", c.P.Repo+"/", scratch+"/repo/")
			if out, err := cp.CombinedOutput(); err != nil {
				c.AddNote("seed %s: copy failed: %v %s", name, err, firstLines(string(out), 2))
				skipped++
				return
			}
			ap := exec.Command("git", "apply", "--whitespace=nowarn", filepath.Join(dir, "patch.diff"))
			ap.Dir = filepath.Join(scratch, "repo")
			if out, err := ap.CombinedOutput(); err != nil {
				c.AddNote("seed %s: patch does not apply to the current tree (skipped): %s", name, firstLines(string(out), 1))
				skipped++
				return
			}
			tried++
			os.MkdirAll(filepath.Join(scratch, "verif"), 0o755)
			if b, err := os.ReadFile(filepath.Join(verif, "known_findings.json")); err == nil {
				os.WriteFile(filepath.Join(scratch, "verif", "known_findings.json"), b, 0o644)
			}
			child := exec.Command(self, "-prop", c.Prop, "-tier", "quick", "-repo", filepath.Join(scratch, "repo"), "-verif", filepath.Join(scratch, "verif"))
			child.Env = append(os.Environ(), "RG_WORK="+filepath.Join(scratch, "work"))
			if _, err := os.Stat(filepath.Join(warm, "gocache")); err == nil {
				if exec.Command("cp", "-al", filepath.Join(warm, "gocache"), filepath.Join(scratch, "gocache")).Run() == nil {
					child.Env = append(child.Env, "GOCACHE="+filepath.Join(scratch, "gocache"))
				}
			}
			out, _ := child.CombinedOutput()
			got := strings.Contains(string(out), "VIOLATION property="+c.Prop)
			var rules []string
			for _, r := range meta.Rules {
				if strings.Contains(string(out), " "+r+" ") {
					rules = append(rules, r)
				}
			}
			if got {
				fired++
			}
			c.Add("SEED", "seeded/"+name, "the check fires on a scratch copy of the current tree with this property-breaking change applied", token.NoPos, got,
				fmt.Sprintf("recorded rules %v; rules that fired now: %v", meta.Rules, rules))
		}()
	}
	c.Count("seeded_changes_tried", tried)
	c.Count("seeded_changes_detected", fired)
	c.Count("seeded_changes_skipped", skipped)
}
