package rg

import (
	"os"
	"fmt"

	"go/token"
	"go/types"
	"strings"

	"golang.org/x/tools/go/ssa"
)

// callName is the short name used in order facts: function or method name.
func callName(ci ssa.CallInstruction) string {
	cc := ci.Common()
	if cc.IsInvoke() {
		return cc.Method.Name()
	}
	if f := cc.StaticCallee(); f != nil {
		n := f.Name()
		// instances of generic functions: the name without its type arguments
		if i := strings.Index(n, "["); i > 0 {
			n = n[:i]
		}
		return n
	}
	if b, ok := cc.Value.(*ssa.Builtin); ok {
		return "builtin." + b.Name()
	}
	return ""
}

// condName gives a stable name to a boolean condition: field:<f>, call:<f>, cmp:<field><op><const>.
func condName(v ssa.Value) (name string, flipped bool) {
	// one bit of a flag word kept in a field: w.flags&K != 0, w.flags.has(K)
	if k, ok := flagBitTested(v); ok {
		var word ssa.Value
		switch x := v.(type) {
		case *ssa.Call:
			word = x.Call.Args[0]
		case *ssa.BinOp:
			for _, side := range []ssa.Value{x.X, x.Y} {
				if and, ok := side.(*ssa.BinOp); ok && and.Op == token.AND {
					word = and.X
					if _, isK := constInt(and.X); isK {
						word = and.Y
					}
				}
			}
		}
		if u, ok := word.(*ssa.UnOp); ok && u.Op == token.MUL {
			if fa, ok := u.X.(*ssa.FieldAddr); ok {
				return fmt.Sprintf("bit:%s&%d", fieldName(fa), k), false
			}
		}
	}
	switch x := v.(type) {
	case *ssa.UnOp:
		if x.Op == token.NOT {
			n, f := condName(x.X)
			return n, !f
		}
		if x.Op == token.MUL {
			if fa, ok := x.X.(*ssa.FieldAddr); ok {
				return "field:" + fieldName(fa), false
			}
		}
	case *ssa.Call:
		// strings.EqualFold(word, "const"): a comparison of the word with that constant, whatever its letter case
		if cf := x.Call.StaticCallee(); cf != nil && cf.Pkg != nil && (cf.Pkg.Pkg.Path() == "strings" || cf.Pkg.Pkg.Path() == "bytes") && cf.Name() == "EqualFold" && len(x.Call.Args) == 2 {
			for _, a := range x.Call.Args {
				if str, ok := constString(a); ok {
					return fmt.Sprintf("cmp:%q==EqualFold()", str), false
				}
			}
		}
		if n := callName(x); n != "" {
			if purePredicates[n] && len(x.Call.Args) == 1 {
				return "pure:" + n + "(" + canon(x.Call.Args[0]) + ")", false
			}
			return "call:" + n, false
		}
	case *ssa.Field:
		if st, ok := x.X.Type().Underlying().(*types.Struct); ok {
			return "field:" + st.Field(x.Field).Name(), false
		}
	case *ssa.Extract:
		// the ok of a comma-ok call (only named for the rules that ask for it)
		if condNameOK && x.Index > 0 {
			if call, ok := x.Tuple.(*ssa.Call); ok {
				if bt, isB := x.Type().Underlying().(*types.Basic); isB && bt.Kind() == types.Bool {
					if n := callName(call); n != "" {
						return "ok:" + n + "#" + call.Name(), false
					}
				}
			}
		}
	case *ssa.BinOp:
		var side func(v ssa.Value) string
		side = func(v ssa.Value) string {
			if k, ok := constInt(v); ok {
				return fmt.Sprint(k)
			}
			if isNilConst(v) {
				return "nil"
			}
			if str, ok := constString(v); ok {
				return fmt.Sprintf("%q", str)
			}
			if u, ok := v.(*ssa.UnOp); ok && u.Op == token.MUL {
				if fa, ok := u.X.(*ssa.FieldAddr); ok {
					return fieldName(fa)
				}
			}
			if f, ok := v.(*ssa.Field); ok {
				if st, ok := f.X.Type().Underlying().(*types.Struct); ok {
					return st.Field(f.Field).Name()
				}
			}
			if c, ok := v.(*ssa.Call); ok {
				if bi, ok := c.Call.Value.(*ssa.Builtin); ok && bi.Name() == "len" {
					return "len(" + side(c.Call.Args[0]) + ")"
				}
				return callName(c) + "()"
			}
			if p, ok := v.(*ssa.Parameter); ok {
				return paramCanon(p)
			}
			if cv, ok := v.(*ssa.Convert); ok {
				return side(cv.X)
			}
			if condNameOK && v.Name() != "" {
				return "%" + v.Name() // value-specific name (for the rules that switch it on)
			}
			return "?"
		}
		l, r := side(x.X), side(x.Y)
		if l != "?" || r != "?" {
			// canonical form: only "<" and "==" are used; a<=b is !(b<a), a>b is b<a, a>=b is !(a<b), a!=b is !(a==b)
			switch x.Op {
			case token.LSS:
				return "cmp:" + l + "<" + r, false
			case token.GTR:
				return "cmp:" + r + "<" + l, false
			case token.LEQ:
				return "cmp:" + r + "<" + l, true
			case token.GEQ:
				return "cmp:" + l + "<" + r, true
			case token.EQL, token.NEQ:
				if r < l {
					l, r = r, l
				}
				return "cmp:" + l + "==" + r, x.Op == token.NEQ
			}
			return "cmp:" + l + x.Op.String() + r, false
		}
	}
	return "", false
}

// condNameOK makes condName name the boolean result of a comma-ok call ("ok:<callee>"); switched on by single rules.
var condNameOK bool

// purePredicates are side-effect-free tests of their single argument: two evaluations on the same argument agree,
// so a path state holding both outcomes is infeasible and is dropped.
var purePredicates = map[string]bool{"IsEmptySnap": true, "IsEmptyHardState": true}

// errSources: the calls whose error result is the value x (through extracts / phis).
func errSources(x ssa.Value) []string {
	var out []string
	seen := map[ssa.Value]bool{}
	var walk func(v ssa.Value, d int)
	walk = func(v ssa.Value, d int) {
		if seen[v] || d > 5 {
			return
		}
		seen[v] = true
		switch y := v.(type) {
		case *ssa.Call:
			if n := callName(y); n != "" {
				out = append(out, n)
			}
		case *ssa.Extract:
			walk(y.Tuple, d+1)
		case *ssa.Phi:
			for _, e := range y.Edges {
				walk(e, d+1)
			}
		case *ssa.MakeInterface:
			walk(y.X, d+1)
		case *ssa.ChangeInterface:
			walk(y.X, d+1)
		case *ssa.UnOp:
			// a named result kept in a cell (functions with defers): the value is the latest store in the same block
			al, ok := y.X.(*ssa.Alloc)
			if !ok || y.Op != token.MUL {
				return
			}
			var last ssa.Value
			for _, in := range y.Block().Instrs {
				if in == ssa.Instruction(y) {
					break
				}
				if st, ok := in.(*ssa.Store); ok && st.Addr == ssa.Value(al) {
					last = st.Val
				}
			}
			if last != nil {
				walk(last, d+1)
			}
		}
	}
	walk(x, 0)
	return out
}

// OrderFlow is a path-state flow of call/edge facts: its elements are whole fact sets, one per class of paths
// (joined by union, collapsed to their intersection when more than maxPathStates accumulate), so that
// disjunctive guards ("validated OR a CRC record") are decided path by path.
type OrderFlow struct {
	Fn *ssa.Function
	F  *Flow
}

const maxPathStates = 600

func encState(s Set) string { return strings.Join(s.Sorted(), "\x00") }
func decState(e string) Set {
	s := Set{}
	if e == "" {
		return s
	}
	for _, f := range strings.Split(e, "\x00") {
		s[f] = true
	}
	return s
}

func collapse(states Set) Set {
	if len(states) <= maxPathStates {
		return states
	}
	var inter Set
	for e := range states {
		d := decState(e)
		if inter == nil {
			inter = d
			continue
		}
		for f := range inter {
			if !d[f] {
				delete(inter, f)
			}
		}
	}
	return Set{encState(inter): true}
}

// orderFlow: vocab lists the facts worth tracking (exact names, or prefixes ending in '*'); nil = everything.
func (c *C) orderFlow(fn *ssa.Function, reset func(ssa.Instruction) bool, allEdges bool, vocab ...string) *OrderFlow {
	keep := func(f string) bool {
		if len(vocab) == 0 || strings.HasPrefix(f, "PHIV|") || strings.HasPrefix(f, "T|pure:") || strings.HasPrefix(f, "F|pure:") {
			return true
		}
		for _, v := range vocab {
			if v == f || (strings.HasSuffix(v, "*") && strings.HasPrefix(f, v[:len(v)-1])) {
				return true
			}
		}
		return false
	}
	prune := func(s Set) Set {
		if len(vocab) == 0 {
			return s
		}
		for f := range s {
			if !keep(f) {
				delete(s, f)
			}
		}
		return s
	}
	tr1 := func(in ssa.Instruction, s Set) Set {
		if reset != nil && reset(in) {
			s = Set{}
		}
		if ci, ok := in.(ssa.CallInstruction); ok {
			if _, isGo := in.(*ssa.Go); !isGo {
				if _, isDefer := in.(*ssa.Defer); !isDefer {
					if n := callName(ci); n != "" {
						s["C|"+n] = true
						if k := recordKind(ci); k != "" {
							s["C|"+n+"#"+k] = true
						}
					}
					// a first-party helper: what holds at every one of its returns holds after the call
					// (helpers that report an error are summarised on their success edge instead, see edge1)
					// (for a helper that reports an error this is what holds at all of its returns, failed or not; what
					// holds at its successful returns is added on the caller's success edge, see edge1)
					if cf := callee(ci); cf != nil && cf != fn {
						for f := range c.helperSummary(cf, false, allEdges, vocab) {
							s[f] = true
						}
					}
				}
			}
		}
		if st, ok := in.(*ssa.Store); ok {
			if fa, ok := st.Addr.(*ssa.FieldAddr); ok {
				s["W|"+fieldName(fa)] = true
			}
		}
		if _, ok := in.(*ssa.Send); ok {
			s["SEND"] = true
		}
		return s
	}
	tr := func(in ssa.Instruction, states Set) (Set, bool) {
		if noReturnCall(in) {
			return nil, true
		}
		out := Set{}
		for e := range states {
			out[encState(prune(tr1(in, decState(e))))] = true
		}
		return collapse(out), false
	}
	edge1 := func(cond ssa.Value, neg bool, s Set) Set {
		if bo, ok := cond.(*ssa.BinOp); ok && (bo.Op == token.EQL || bo.Op == token.NEQ) {
			var x ssa.Value
			if isNilConst(bo.Y) {
				x = bo.X
			} else if isNilConst(bo.X) {
				x = bo.Y
			}
			if x != nil && isErrorType(x.Type()) {
				isNil := (bo.Op == token.EQL) != neg
				for _, n := range errSources(x) {
					if isNil {
						s["OK|"+n] = true
					} else {
						s["ERR|"+n] = true
					}
				}
				for _, call := range errSourceCalls(x) {
					if k := recordKind(call); k != "" {
						if isNil {
							s["OK|"+callName(call)+"#"+k] = true
						} else {
							s["ERR|"+callName(call)+"#"+k] = true
						}
					}
				}
				if isNil {
					// the helper succeeded: everything that holds at each of its nil-error returns holds here
					for _, call := range errSourceCalls(x) {
						if cf := call.Call.StaticCallee(); cf != nil && cf != fn {
							for f := range c.helperSummary(cf, true, allEdges, vocab) {
								s[f] = true
							}
						}
					}
				}
				return s
			}
		}
		if n, flip := condName(cond); n != "" {
			if neg != flip {
				s["F|"+n] = true
			} else {
				s["T|"+n] = true
			}
		}
		return s
	}
	valByName := map[string]ssa.Value{}
	// resolveBranch interprets a branch on value v (taken with polarity neg) in state n; returns false if infeasible.
	var resolveBranch func(v ssa.Value, neg bool, n Set, depth int) bool
	resolveBranch = func(v ssa.Value, neg bool, n Set, depth int) bool {
		phi, isPhi := v.(*ssa.Phi)
		if !isPhi || depth > 4 {
			edge1(v, neg, n)
			return true
		}
		if (!neg && n["PHIV|"+phi.Name()+"|F"]) || (neg && n["PHIV|"+phi.Name()+"|T"]) {
			return false
		}
		feasible := true
		for f := range n {
			if strings.HasPrefix(f, "PHIV|"+phi.Name()+"|E|") {
				if inner := valByName[f[len("PHIV|"+phi.Name()+"|E|"):]]; inner != nil {
					if !resolveBranch(inner, neg, n, depth+1) {
						feasible = false
					}
				}
			}
		}
		for f := range n {
			if strings.HasPrefix(f, "PHIV|"+phi.Name()+"|") {
				delete(n, f)
			}
		}
		// the flag's value is known from here on: a second test of it (if grant {..}; ..; if grant {..}) follows the first
		if feasible {
			if neg {
				n["PHIV|"+phi.Name()+"|F"] = true
			} else {
				n["PHIV|"+phi.Name()+"|T"] = true
			}
		}
		return feasible
	}
	// boolean phis of constants (short-circuit || and && chains): remember which constant the path selected
	phiFacts := func(from, to *ssa.BasicBlock, s Set) {
		for _, in := range to.Instrs {
			phi, ok := in.(*ssa.Phi)
			if !ok {
				break
			}
			if bt, isB := phi.Type().Underlying().(*types.Basic); !isB || bt.Kind() != types.Bool {
				continue
			}
			for i, p := range to.Preds {
				if p != from {
					continue
				}
				delete(s, "PHIV|"+phi.Name()+"|T")
				delete(s, "PHIV|"+phi.Name()+"|F")
				for f := range s {
					if strings.HasPrefix(f, "PHIV|"+phi.Name()+"|E|") {
						delete(s, f)
					}
				}
				if cst, ok := phi.Edges[i].(*ssa.Const); ok && cst.Value != nil {
					if cst.Value.ExactString() == "true" {
						s["PHIV|"+phi.Name()+"|T"] = true
					} else {
						s["PHIV|"+phi.Name()+"|F"] = true
					}
				} else {
					// the path selected a computed value: remember which one, it is interpreted when the phi is branched on
					s["PHIV|"+phi.Name()+"|E|"+phi.Edges[i].Name()] = true
					valByName[phi.Edges[i].Name()] = phi.Edges[i]
				}
			}
		}
	}
	edgeGen := func(from, to *ssa.BasicBlock, states Set) Set {
		cond, neg, ok := branchCond(from, to)
		// a branch on the boolean result of a first-party helper (for p.step() { }): what held inside the helper where
		// it returned that truth value holds on this edge -- one path class per way the helper has of returning it
		var helperStates []Set
		if ok {
			cv, cneg := cond, neg
			for {
				u, isNot := cv.(*ssa.UnOp)
				if !isNot || u.Op != token.NOT {
					break
				}
				cv, cneg = u.X, !cneg
			}
			if call, isCall := cv.(*ssa.Call); isCall && isBoolType(call.Type()) {
				if cf := callee(call); cf != nil && cf != fn {
					if hs := c.helperBoolStates(cf, !cneg, allEdges, vocab, 0); len(hs) > 0 && len(hs) <= 16 {
						helperStates = hs
					}
				}
			}
		}
		out := Set{}
		for e := range states {
			n := decState(e)
			infeasible := false
			if ok {
				if os.Getenv("RG_DBG_OF") != "" && fn.Name() == os.Getenv("RG_DBG_OF") {
					if _, isPhi := cond.(*ssa.Phi); isPhi {
						fmt.Fprintf(os.Stderr, "OF %s edge %d->%d cond %s neg=%v state %v\n", fn.Name(), from.Index, to.Index, cond.Name(), neg, n)
					}
				}
				if !resolveBranch(cond, neg, n, 0) {
					infeasible = true
				}
			}
			phiFacts(from, to, n)
			for f := range n {
				if (strings.HasPrefix(f, "T|pure:") || strings.HasPrefix(f, "T|ok:")) && n["F|"+f[2:]] {
					infeasible = true
				}
			}
			if !infeasible {
				if len(helperStates) == 0 {
					out[encState(prune(n))] = true
				} else {
					for _, h := range helperStates {
						m := Set{}
						for f := range n {
							m[f] = true
						}
						for f := range h {
							m[f] = true
						}
						out[encState(prune(m))] = true
					}
				}
			}
		}
		return collapse(out)
	}
	var edgeOK func(from, to *ssa.BasicBlock) bool
	if !allEdges {
		edgeOK = func(from, to *ssa.BasicBlock) bool { return !IsErrEdge(from, to) }
	}
	of := &OrderFlow{Fn: fn}
	of.F = &Flow{Fn: fn, Must: false, Entry: Set{"": true}, Transfer: tr, EdgeGen: edgeGen, EdgeOK: edgeOK}
	of.F.Run()
	return of
}

// States returns the path states before instruction in.
func (of *OrderFlow) States(in ssa.Instruction) ([]Set, bool) {
	st, live := of.F.Before(in)
	if !live {
		return nil, false
	}
	var out []Set
	for e := range st {
		out = append(out, decState(e))
	}
	return out, true
}

// ordOb is one ordering / must-pass-through obligation.
type ordOb struct {
	Pkg, Fn  string // package path (first-party relative or full) and "Func" / "Type.Method"
	At       string // "ret-nil" (error result nil), "ret-true", "ret-ok" (any non-error-edge return), "call:<name>", "store:<field>", "send"
	NeedAll  []string
	NeedAny  []string
	Unless   []string // exempt when one of these facts holds on every path
	IfMay    []string // only applies to path states where one of these facts holds (empty = always)
	AllEdges bool     // evaluate on the full CFG instead of the success subgraph
	What     string
}

// retResults returns, for each result index, the values possibly returned (looking through spilled result cells).
func retResults(ret *ssa.Return) [][]ssa.Value {
	out := make([][]ssa.Value, len(ret.Results))
	for i, v := range ret.Results {
		if u, ok := v.(*ssa.UnOp); ok {
			if al, ok := u.X.(*ssa.Alloc); ok {
				var last ssa.Value
				for _, in := range ret.Block().Instrs {
					if st, ok := in.(*ssa.Store); ok && st.Addr == al {
						last = st.Val
					}
				}
				if last != nil {
					out[i] = []ssa.Value{last}
					continue
				}
				for _, r := range *al.Referrers() {
					if st, ok := r.(*ssa.Store); ok && st.Addr == al {
						out[i] = append(out[i], st.Val)
					}
				}
				if len(out[i]) == 0 {
					out[i] = []ssa.Value{v} // a record built field by field (composite literal), not a spilled result
				}
				continue
			}
		}
		out[i] = []ssa.Value{v}
	}
	return out
}

func (c *C) checkOrder(rule string, obs []ordOb) {
	flows := map[string]*OrderFlow{}
	vocabOf := func(fnTop *ssa.Function, ob ordOb) []string {
		var vocab []string
		for _, o2 := range obs {
			if o2.Pkg == ob.Pkg && o2.Fn == ob.Fn && o2.AllEdges == ob.AllEdges {
				vocab = append(vocab, o2.NeedAll...)
				vocab = append(vocab, o2.NeedAny...)
				vocab = append(vocab, o2.Unless...)
				vocab = append(vocab, o2.IfMay...)
			}
		}
		return vocab
	}
	// evalIn evaluates one obligation inside fn; prefix holds the facts known to hold when fn is entered (used when the
	// program point the obligation talks about lives in a helper of the function it names)
	var evalIn func(fn *ssa.Function, ob ordOb, vocab []string, prefix Set, depth int) (int, []string)
	evalIn = func(fn *ssa.Function, ob ordOb, vocab []string, prefix Set, depth int) (int, []string) {
		fk := fmt.Sprint(fn.String(), ob.AllEdges, strings.Join(vocab, ","))
		of := flows[fk]
		if of == nil {
			of = c.orderFlow(fn, nil, ob.AllEdges, vocab...)
			flows[fk] = of
		}
		matched := 0
		var bad []string
		// the facts at a call of a helper, as a prefix for an evaluation inside the helper
		prefixAt := func(in ssa.Instruction) (Set, bool) {
			states, live := of.States(in)
			if !live {
				return nil, false
			}
			var inter Set
			for _, st := range states {
				cur := Set{}
				for f := range prefix {
					cur[f] = true
				}
				for f := range st {
					if strings.HasPrefix(f, "C|") || strings.HasPrefix(f, "W|") || strings.HasPrefix(f, "OK|") || f == "SEND" {
						cur[f] = true
					}
				}
				if inter == nil {
					inter = cur
				} else {
					for f := range inter {
						if !cur[f] {
							delete(inter, f)
						}
					}
				}
			}
			if inter == nil {
				inter = Set{}
			}
			// the call itself has happened once the helper is entered
			if ci, ok := in.(ssa.CallInstruction); ok {
				if n := callName(ci); n != "" {
					inter["C|"+n] = true
				}
			}
			return inter, true
		}
		helperOK := func(cf *ssa.Function) bool {
			return cf != nil && cf != fn && cf.Blocks != nil && cf.Pkg != nil && depth < 2 &&
				(firstParty(cf) || strings.HasPrefix(cf.Pkg.Pkg.Path(), "go.etcd.io/etcd/"))
		}
		for _, b := range fn.Blocks {
			for _, in := range b.Instrs {
				hit := false
				switch {
				case strings.HasPrefix(ob.At, "ret"):
					ret, ok := in.(*ssa.Return)
					if !ok {
						break
					}
					rr := retResults(ret)
					switch ob.At {
					case "ret-nil":
						if len(rr) == 0 {
							break
						}
						last := rr[len(rr)-1]
						if len(ret.Results) > 0 && isErrorType(ret.Results[len(ret.Results)-1].Type()) {
							for _, v := range last {
								if isNilConst(v) {
									hit = true
								}
							}
							// `return helper(...)`: the nil returns of the helper are the nil returns of this function
							onErrEdge := len(b.Preds) == 1 && IsErrEdge(b.Preds[0], b)
							if !hit && len(last) == 1 && !onErrEdge {
								for _, call := range errSourceCalls(last[0]) {
									if call.Block() != b {
										continue // not `return helper(...)` but a value tested earlier
									}
									if cf := call.Call.StaticCallee(); helperOK(cf) && returnsError(cf) {
										if pre, live := prefixAt(call); live {
											m2, b2 := evalIn(cf, ob, vocab, pre, depth+1)
											matched += m2
											bad = append(bad, b2...)
										}
									}
								}
							}
						}
					case "ret-true":
						for _, vs := range rr {
							for _, v := range vs {
								if cst, ok := v.(*ssa.Const); ok && cst.Value != nil && cst.Value.ExactString() == "true" {
									hit = true
								}
							}
						}
					case "ret-ok":
						hit = true
					case "ret-err":
						// a return that hands back an error (anything but the nil constant in the error position)
						if len(rr) > 0 && len(ret.Results) > 0 && isErrorType(ret.Results[len(ret.Results)-1].Type()) {
							for _, v := range rr[len(rr)-1] {
								if !isNilConst(v) {
									hit = true
								}
							}
						}
					}
				case strings.HasPrefix(ob.At, "call:"):
					if ci, ok := in.(ssa.CallInstruction); ok && callName(ci) == ob.At[5:] {
						if _, isDefer := in.(*ssa.Defer); !isDefer {
							hit = true
						}
					}
				case strings.HasPrefix(ob.At, "store:"):
					if st, ok := in.(*ssa.Store); ok {
						if fa, ok := st.Addr.(*ssa.FieldAddr); ok && fieldName(fa) == ob.At[6:] {
							hit = true
						}
					}
				case ob.At == "send":
					_, hit = in.(*ssa.Send)
				case ob.At == "make":
					_, hit = in.(*ssa.MakeSlice)
				}
				if !hit {
					continue
				}
				states, live := of.States(in)
				if !live {
					continue
				}
				matched++
				for _, st := range states {
					must := st
					if len(prefix) > 0 {
						must = Set{}
						for f := range st {
							must[f] = true
						}
						for f := range prefix {
							must[f] = true
						}
					}
					if len(ob.IfMay) > 0 {
						any := false
						for _, f := range ob.IfMay {
							any = any || must[f]
						}
						if !any {
							continue
						}
					}
					exempt := false
					for _, f := range ob.Unless {
						exempt = exempt || must[f]
					}
					if exempt {
						continue
					}
					ok := true
					for _, f := range ob.NeedAll {
						if !must[f] {
							ok = false
						}
					}
					if len(ob.NeedAny) > 0 {
						any := false
						for _, f := range ob.NeedAny {
							any = any || must[f]
						}
						ok = ok && any
					}
					if !ok {
						have := must.Sorted()
						if len(have) > 16 {
							have = have[:16]
						}
						bad = append(bad, c.pos(in.Pos())+" (a path reaches it with only: "+strings.Join(have, " ")+")")
						break
					}
				}
			}
		}
		// the program point lives in a helper (a call:/store: obligation whose target moved out of the named function)
		if matched == 0 && (strings.HasPrefix(ob.At, "call:") || strings.HasPrefix(ob.At, "store:")) {
			for _, b := range fn.Blocks {
				for _, in := range b.Instrs {
					call, ok := in.(*ssa.Call)
					if !ok {
						continue
					}
					if cf := callee(call); helperOK(cf) {
						if pre, live := prefixAt(call); live {
							m2, b2 := evalIn(cf, ob, vocab, pre, depth+1)
							matched += m2
							bad = append(bad, b2...)
						}
					}
				}
			}
		}
		return matched, bad
	}
	for _, ob := range obs {
		fn := c.P.Func(ob.Pkg, ob.Fn)
		if fn == nil {
			c.Undecided(rule, "anchor "+ob.Pkg+" "+ob.Fn)
			continue
		}
		matched, bad := evalIn(fn, ob, vocabOf(fn, ob), nil, 0)
		detail := strings.Join(bad, "; ")
		if matched == 0 {
			detail = "no program point matches '" + ob.At + "' any more: the obligation cannot be checked (undecided)"
		}
		need := strings.Join(ob.NeedAll, "+")
		if len(ob.NeedAny) > 0 {
			need += " any(" + strings.Join(ob.NeedAny, ",") + ")"
		}
		c.Add(rule, fnName(fn), ob.What+" ["+ob.At+" needs "+need+"]", fn.Pos(), len(bad) == 0 && matched > 0, detail)
	}
}

func returnsError(fn *ssa.Function) bool {
	r := fn.Signature.Results()
	return r.Len() > 0 && isErrorType(r.At(r.Len()-1).Type())
}

// errSourceCalls: the static calls whose error result is the value x (through extracts, phis and result cells).
func errSourceCalls(x ssa.Value) []*ssa.Call {
	var out []*ssa.Call
	seen := map[ssa.Value]bool{}
	var walk func(v ssa.Value, d int)
	walk = func(v ssa.Value, d int) {
		if seen[v] || d > 5 {
			return
		}
		seen[v] = true
		switch y := v.(type) {
		case *ssa.Call:
			out = append(out, y)
		case *ssa.Extract:
			walk(y.Tuple, d+1)
		case *ssa.Phi:
			for _, e := range y.Edges {
				walk(e, d+1)
			}
		case *ssa.UnOp:
			al, ok := y.X.(*ssa.Alloc)
			if !ok || y.Op != token.MUL {
				return
			}
			var last ssa.Value
			for _, in := range y.Block().Instrs {
				if in == ssa.Instruction(y) {
					break
				}
				if st, ok := in.(*ssa.Store); ok && st.Addr == ssa.Value(al) {
					last = st.Val
				}
			}
			if last != nil {
				walk(last, d+1)
			}
		}
	}
	walk(x, 0)
	return out
}

var summaryDepth int

// helperSummary: the call/store/success facts (C|, W|, OK|, SEND) that hold on every path of a first-party helper to a
// return (onlyNil: to a return whose error result is nil). Facts about branch conditions are not exported: their names
// refer to the helper's own variables. Recursion and depth are bounded; an unanalysable helper exports nothing.
func (c *C) helperSummary(fn *ssa.Function, onlyNil bool, allEdges bool, vocab []string) Set {
	if fn == nil || fn.Blocks == nil || fn.Pkg == nil || summaryDepth >= 2 {
		return nil
	}
	if !(firstParty(fn) || strings.HasPrefix(fn.Pkg.Pkg.Path(), "go.etcd.io/etcd/")) {
		return nil
	}
	key := fmt.Sprintf("%s|%v|%v|%s", fn.String(), onlyNil, allEdges, strings.Join(vocab, ","))
	if c.sumMemo == nil {
		c.sumMemo = map[string]Set{}
	}
	if r, ok := c.sumMemo[key]; ok {
		return r
	}
	c.sumMemo[key] = nil
	summaryDepth++
	defer func() { summaryDepth-- }()
	of := c.orderFlow(fn, nil, allEdges, vocab...)
	var inter Set
	for _, b := range fn.Blocks {
		if len(b.Instrs) == 0 {
			continue
		}
		ret, ok := b.Instrs[len(b.Instrs)-1].(*ssa.Return)
		if !ok {
			continue
		}
		if onlyNil {
			rr := retResults(ret)
			if len(rr) == 0 {
				continue
			}
			mayNil := false
			for _, v := range rr[len(rr)-1] {
				if _, isC := v.(*ssa.Const); (!isC && !sentinelError(v)) || isNilConst(v) {
					mayNil = true
				}
			}
			// `if err != nil { return ..., err }`: the block is entered on the error edge of the value it returns
			if mayNil && len(b.Preds) == 1 && IsErrEdge(b.Preds[0], b) {
				mayNil = false
			}
			if !mayNil {
				continue
			}
		}
		states, live := of.States(ret)
		if !live {
			continue
		}
		// `return f(...)`: when this return hands back nil, f succeeded
		tail := Set{}
		if onlyNil {
			rr := retResults(ret)
			if vs := rr[len(rr)-1]; len(vs) == 1 {
				for _, n := range errSources(vs[0]) {
					tail["OK|"+n] = true
				}
				for _, call := range errSourceCalls(vs[0]) {
					if k := recordKind(call); k != "" {
						tail["OK|"+callName(call)+"#"+k] = true
					}
				}
				for _, call := range errSourceCalls(vs[0]) {
					if cf := call.Call.StaticCallee(); cf != nil && cf != fn {
						for f := range c.helperSummary(cf, true, allEdges, vocab) {
							tail[f] = true
						}
					}
				}
			}
		}
		for _, st := range states {
			exp := Set{}
			for f := range tail {
				exp[f] = true
			}
			for f := range st {
				if strings.HasPrefix(f, "C|") || strings.HasPrefix(f, "W|") || strings.HasPrefix(f, "OK|") || f == "SEND" {
					exp[f] = true
				}
				// a comparison the obligation names literally (T|cmp:Crc==Update()): such names are made of field and
				// callee names, not of the helper's variables, so the validation may live in a helper (checkEnvelope)
				if strings.HasPrefix(f, "T|cmp:") || strings.HasPrefix(f, "F|cmp:") {
					for _, v := range vocab {
						if v == f && !strings.ContainsAny(f, "?*") && !strings.Contains(f, ":p") {
							exp[f] = true
						}
					}
				}
			}
			if inter == nil {
				inter = exp
			} else {
				for f := range inter {
					if !exp[f] {
						delete(inter, f)
					}
				}
			}
		}
	}
	c.sumMemo[key] = inter
	return inter
}

// recordKind: for a call that encodes a WAL record built in place (encode(&walpb.Record{Type: K, ...})), the constant K.
func recordKind(ci ssa.CallInstruction) string {
	if callName(ci) != "encode" {
		return ""
	}
	for _, a := range ci.Common().Args {
		al, ok := a.(*ssa.Alloc)
		if !ok || namedOf(al.Type()) != "Record" || al.Referrers() == nil {
			continue
		}
		for _, r := range *al.Referrers() {
			fa, ok := r.(*ssa.FieldAddr)
			if !ok || fieldName(fa) != "Type" || fa.Referrers() == nil {
				continue
			}
			for _, rr := range *fa.Referrers() {
				if st, ok := rr.(*ssa.Store); ok && st.Addr == ssa.Value(fa) {
					if k, ok := constInt(st.Val); ok {
						return fmt.Sprint(k)
					}
				}
			}
		}
	}
	return ""
}

// helperBoolStates: the path states (exported facts only) with which first-party function fn returns the boolean `want`.
func (c *C) helperBoolStates(fn *ssa.Function, want bool, allEdges bool, vocab []string, depth int) []Set {
	if fn == nil || fn.Blocks == nil || fn.Pkg == nil || depth > 2 || summaryDepth >= 2 {
		return nil
	}
	if !(firstParty(fn) || strings.HasPrefix(fn.Pkg.Pkg.Path(), "go.etcd.io/etcd/")) {
		return nil
	}
	if fn.Signature.Results().Len() != 1 || !isBoolType(fn.Signature.Results().At(0).Type()) {
		return nil
	}
	summaryDepth++
	defer func() { summaryDepth-- }()
	of := c.orderFlow(fn, nil, allEdges, vocab...)
	export := func(st Set) Set {
		exp := Set{}
		for f := range st {
			if strings.HasPrefix(f, "C|") || strings.HasPrefix(f, "W|") || strings.HasPrefix(f, "OK|") || strings.HasPrefix(f, "ERR|") || f == "SEND" {
				exp[f] = true
			}
			// comparisons the obligation names literally (field and callee names, not the helper's variables)
			if strings.HasPrefix(f, "T|cmp:") || strings.HasPrefix(f, "F|cmp:") {
				for _, v := range vocab {
					if v == f && !strings.ContainsAny(f, "?*") && !strings.Contains(f, ":p") {
						exp[f] = true
					}
				}
			}
		}
		return exp
	}
	literal := func(f string) bool {
		for _, v := range vocab {
			if v == f && !strings.ContainsAny(f, "?*") && !strings.Contains(f, ":p") {
				return true
			}
		}
		return false
	}
	seen := map[string]bool{}
	var out []Set
	add := func(s Set) {
		k := encState(s)
		if !seen[k] {
			seen[k] = true
			out = append(out, s)
		}
	}
	for _, b := range fn.Blocks {
		if len(b.Instrs) == 0 {
			continue
		}
		ret, ok := b.Instrs[len(b.Instrs)-1].(*ssa.Return)
		if !ok {
			continue
		}
		states, live := of.States(ret)
		if !live {
			continue
		}
		for _, v := range retResults(ret)[0] {
			if k, isC := v.(*ssa.Const); isC && k.Value != nil {
				if (k.Value.ExactString() == "true") != want {
					continue
				}
				for _, st := range states {
					add(export(st))
				}
				continue
			}
			// return g(..): the ways g has of returning that value, behind what held here
			if call, isCall := v.(*ssa.Call); isCall {
				if g := callee(call); g != nil && g != fn {
					if hs := c.helperBoolStates(g, want, allEdges, vocab, depth+1); len(hs) > 0 {
						for _, st := range states {
							for _, h := range hs {
								n := export(st)
								for f := range h {
									n[f] = true
								}
								add(n)
							}
						}
						continue
					}
				}
			}
			// return a < b: the comparison holds (or fails) whenever the wanted value comes back this way; the states of
			// the other ways into this return are kept too, which can only ask for more
			named := func(v ssa.Value) string {
				if n, flip := condName(v); n != "" {
					extra := "F|" + n
					if want != flip {
						extra = "T|" + n
					}
					if literal(extra) {
						return extra
					}
				}
				return ""
			}
			extra := named(v)
			phi, _ := v.(*ssa.Phi)
			for _, st := range states {
				e := export(st)
				if extra != "" {
					e[extra] = true
				}
				if phi != nil {
					// a && b, a || b: the path knows which operand it hands back
					if (want && st["PHIV|"+phi.Name()+"|F"]) || (!want && st["PHIV|"+phi.Name()+"|T"]) {
						continue
					}
					for _, ev := range phi.Edges {
						if st["PHIV|"+phi.Name()+"|E|"+ev.Name()] {
							if x := named(ev); x != "" {
								e[x] = true
							}
						}
					}
				}
				add(e)
			}
		}
	}
	if os.Getenv("RG_DBG_HB") != "" {
		fmt.Fprintf(os.Stderr, "HB %s want=%v vocab=%v -> %v\n", fn.Name(), want, vocab, out)
	}
	return out
}

// sentinelError: v is a load of a package-level error variable that the package initialiser sets to a fresh error
// (var ErrCRCMismatch = errors.New(...)) and that no function assigns: it is never nil.
func sentinelError(v ssa.Value) bool {
	u, ok := v.(*ssa.UnOp)
	if !ok || u.Op != token.MUL {
		return false
	}
	g, ok := u.X.(*ssa.Global)
	if !ok || g.Pkg == nil || !isErrorType(u.Type()) {
		return false
	}
	inits, others := 0, 0
	for _, m := range g.Pkg.Members {
		f, ok := m.(*ssa.Function)
		if !ok {
			continue
		}
		fs := []*ssa.Function{f}
		fs = append(fs, f.AnonFuncs...)
		for _, fn := range fs {
			for _, b := range fn.Blocks {
				for _, in := range b.Instrs {
					st, ok := in.(*ssa.Store)
					if !ok || st.Addr != ssa.Value(g) {
						continue
					}
					switch st.Val.(type) {
					case *ssa.Call, *ssa.MakeInterface:
						if fn.Name() == "init" {
							inits++
							continue
						}
					}
					others++
				}
			}
		}
	}
	return inits == 1 && others == 0
}
