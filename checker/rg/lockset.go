package rg

import (
	"fmt"
	"go/token"
	"go/types"
	"regexp"
	"sort"
	"strings"

	"golang.org/x/tools/go/ssa"
)

// lockEvent describes one acquire/release call.
type lockEvent struct {
	Acquire bool
	Class   string // "stripe", "shard.rwMu", "Chan.rw", ...
	Mode    string // "W" | "R"
	Key     string // canonical instance (key value, multi key-set, or receiver path)
	Multi   bool
	Elems   []string // element canons for a literal multi set
}

func (e *lockEvent) token(site string) string {
	return "L|" + e.Class + "|" + e.Mode + "|" + e.Key + "|" + site
}
func (e *lockEvent) deferTok() string { return "D|" + e.Class + "|" + e.Mode + "|" + e.Key }

type heldLock struct{ Class, Mode, Key, Site string }

func parseTok(t string) (heldLock, bool) {
	if !strings.HasPrefix(t, "L|") {
		return heldLock{}, false
	}
	p := strings.SplitN(t, "|", 5)
	if len(p) != 5 {
		return heldLock{}, false
	}
	return heldLock{p[1], p[2], p[3], p[4]}, true
}

func multiCanon(v ssa.Value) (string, []string) {
	if elems, ok := sliceLiteralElems(v); ok {
		var cs []string
		for _, e := range elems {
			cs = append(cs, canon(e))
		}
		sorted := append([]string(nil), cs...)
		sortStrings(sorted)
		return "{" + strings.Join(sorted, ",") + "}", cs
	}
	return canon(v), nil
}

func sortStrings(s []string) {
	for i := 1; i < len(s); i++ {
		for j := i; j > 0 && s[j] < s[j-1]; j-- {
			s[j], s[j-1] = s[j-1], s[j]
		}
	}
}

// mutexClass names the lock class of a sync.(RW)Mutex receiver value.
func mutexClass(recv ssa.Value) (class, inst string) {
	v := recv
	// receiver is *sync.RWMutex: either a load of a pointer field, or the address of a value field
	if u, ok := v.(*ssa.UnOp); ok {
		v = u.X
	}
	switch a := v.(type) {
	case *ssa.FieldAddr:
		pt, _ := a.X.Type().Underlying().(*types.Pointer)
		tn := "?"
		if pt != nil {
			if n, ok := pt.Elem().(*types.Named); ok {
				tn = n.Obj().Name()
			}
		}
		return tn + "." + fieldName(a), canon(a.X)
	case *ssa.IndexAddr:
		// element of a slice of mutexes held in a field: Locks.locks[i]
		base := a.X
		if u, ok := base.(*ssa.UnOp); ok {
			if fa, ok := u.X.(*ssa.FieldAddr); ok {
				pt, _ := fa.X.Type().Underlying().(*types.Pointer)
				if pt != nil {
					if n, ok := pt.Elem().(*types.Named); ok && n.Obj().Name() == "Locks" {
						return "stripe", "idx:" + canon(a.Index)
					}
					if n, ok := pt.Elem().(*types.Named); ok {
						return n.Obj().Name() + "." + fieldName(fa) + "[]", canon(a.Index)
					}
				}
			}
		}
		return "elem", canon(a)
	case *ssa.Global:
		return a.Pkg.Pkg.Name() + "." + a.Name(), ""
	}
	return "mutex:" + recv.Type().String(), canon(recv)
}

// classifyLock recognises stripe-lock API calls and sync mutex calls.
func (c *C) classifyLock(ci ssa.CallInstruction) *lockEvent {
	f := callee(ci)
	if f == nil {
		return nil
	}
	args := ci.Common().Args
	if isMethodOf(f, c.Facts.Locks) && len(args) == 2 {
		switch f.Name() {
		case "Lock":
			return &lockEvent{Acquire: true, Class: "stripe", Mode: "W", Key: canon(args[1])}
		case "RLock":
			return &lockEvent{Acquire: true, Class: "stripe", Mode: "R", Key: canon(args[1])}
		case "UnLock":
			return &lockEvent{Class: "stripe", Mode: "W", Key: canon(args[1])}
		case "RUnLock":
			return &lockEvent{Class: "stripe", Mode: "R", Key: canon(args[1])}
		case "LockMulti", "RLockMulti", "UnLockMulti", "RUnLockMulti":
			k, el := multiCanon(args[1])
			e := &lockEvent{Class: "stripe", Key: k, Elems: el, Multi: true, Mode: "W"}
			if strings.HasPrefix(f.Name(), "R") {
				e.Mode = "R"
			}
			e.Acquire = !strings.Contains(f.Name(), "UnLock")
			return e
		}
		return nil
	}
	if f.Pkg != nil && f.Pkg.Pkg.Path() == "sync" && f.Signature.Recv() != nil && len(args) >= 1 {
		n, ok := derefNamed(f.Signature.Recv().Type())
		if !ok || (n.Obj().Name() != "Mutex" && n.Obj().Name() != "RWMutex") {
			return nil
		}
		class, inst := mutexClass(args[0])
		switch f.Name() {
		case "Lock":
			return &lockEvent{Acquire: true, Class: class, Mode: "W", Key: inst}
		case "RLock":
			return &lockEvent{Acquire: true, Class: class, Mode: "R", Key: inst}
		case "Unlock":
			return &lockEvent{Class: class, Mode: "W", Key: inst}
		case "RUnlock":
			return &lockEvent{Class: class, Mode: "R", Key: inst}
		}
	}
	return nil
}

func siteID(in ssa.Instruction) string {
	b := in.Block()
	for i, x := range b.Instrs {
		if x == in {
			return fmt.Sprintf("b%di%d", b.Index, i)
		}
	}
	return fmt.Sprintf("b%d", b.Index)
}

// LockFlow is the lockset dataflow of one function.
type LockFlow struct {
	Fn         *ssa.Function
	Must, May  *Flow
	Violations []string
}

func (c *C) lockTransfer(report func(in ssa.Instruction, msg string)) func(in ssa.Instruction, s Set) (Set, bool) {
	return func(in ssa.Instruction, s Set) (Set, bool) {
		if noReturnCall(in) {
			return nil, true
		}
		switch x := in.(type) {
		case *ssa.Call:
			if e := c.classifyLock(x); e != nil {
				if e.Acquire {
					s[e.token(siteID(in))] = true
				} else {
					if !release(s, e) && report != nil {
						report(in, fmt.Sprintf("release of %s %s(%s) that is not held on every path", e.Class, e.Mode, e.Key))
					}
				}
			} else {
				// a local closure whose body releases the lock(s) the function holds (unlock := func() {...}; called at
				// every exit): the call releases what the body releases
				for _, e := range c.closureReleases(x) {
					if !release(s, e) && report != nil {
						report(in, fmt.Sprintf("release (through a local closure) of %s %s(%s) that is not held on every path", e.Class, e.Mode, e.Key))
					}
				}
			}
		case *ssa.Defer:
			if e := c.classifyLock(x); e != nil && !e.Acquire {
				s[e.deferTok()] = true
			} else if e == nil {
				for _, e2 := range c.closureReleases(x) {
					s[e2.deferTok()] = true
				}
			}
		case *ssa.RunDefers:
			for t := range s {
				if strings.HasPrefix(t, "D|") {
					p := strings.SplitN(t, "|", 4)
					e := &lockEvent{Class: p[1], Mode: p[2], Key: p[3]}
					if !release(s, e) && report != nil {
						report(in, fmt.Sprintf("deferred release of %s %s(%s) that is not held on every path", e.Class, e.Mode, e.Key))
					}
					delete(s, t)
				}
			}
		}
		return s, false
	}
}

func release(s Set, e *lockEvent) bool {
	found := false
	for t := range s {
		if h, ok := parseTok(t); ok && h.Class == e.Class && h.Mode == e.Mode && h.Key == e.Key {
			delete(s, t)
			found = true
		}
	}
	return found
}

// LockFlowOf computes must/may locksets for fn with the given entry lockset.
func (c *C) LockFlowOf(fn *ssa.Function, entry Set) *LockFlow {
	lf := &LockFlow{Fn: fn}
	seen := map[string]bool{}
	report := func(in ssa.Instruction, msg string) {
		k := siteID(in) + msg
		if !seen[k] {
			seen[k] = true
			lf.Violations = append(lf.Violations, c.pos(in.Pos())+": "+msg)
		}
	}
	lf.Must = &Flow{Fn: fn, Must: true, Entry: entry, Transfer: c.lockTransfer(nil)}
	lf.Must.Run()
	lf.May = &Flow{Fn: fn, Must: false, Entry: entry, Transfer: c.lockTransfer(nil)}
	lf.May.Run()
	// second pass over must-flow to report unmatched releases (after convergence)
	tr := c.lockTransfer(report)
	for _, b := range fn.Blocks {
		if !lf.Must.Live(b) {
			continue
		}
		s := lf.Must.in[b].Clone()
		for _, in := range b.Instrs {
			var dead bool
			s, dead = tr(in, s)
			if dead {
				break
			}
		}
	}
	return lf
}

// Held returns the locks certainly held immediately before instruction in.
func (lf *LockFlow) Held(in ssa.Instruction) ([]heldLock, bool) {
	s, ok := lf.Must.Before(in)
	if !ok {
		return nil, false
	}
	var out []heldLock
	for _, t := range s.Sorted() {
		if h, ok := parseTok(t); ok {
			out = append(out, h)
		}
	}
	return out, true
}

// MayHeld returns the locks possibly held before instruction in.
func (lf *LockFlow) MayHeld(in ssa.Instruction) []heldLock {
	s, ok := lf.May.Before(in)
	if !ok {
		return nil
	}
	var out []heldLock
	for _, t := range s.Sorted() {
		if h, ok := parseTok(t); ok {
			out = append(out, h)
		}
	}
	return out
}

// covers reports whether held stripe lock h protects key (canonical).
func covers(h heldLock, key string) bool {
	if h.Class != "stripe" {
		return false
	}
	if h.Key == key {
		return true
	}
	if strings.HasPrefix(h.Key, "{") {
		for _, e := range strings.Split(strings.Trim(h.Key, "{}"), ",") {
			if e == key {
				return true
			}
		}
		return false
	}
	// element of the locked key slice: key canon is "<slice>[...]"
	if strings.HasPrefix(key, h.Key+"[") {
		return true
	}
	return false
}

var identRe = regexp.MustCompile(`[A-Za-z_][A-Za-z0-9_:]*`)

// renameIdents rewrites whole identifiers in a canonical string.
func renameIdents(s string, m map[string]string) string {
	return identRe.ReplaceAllStringFunc(s, func(id string) string {
		if r, ok := m[id]; ok {
			return r
		}
		return id
	})
}

// closureReleases: ci calls (or defers) a closure made in the same function -- directly or kept in a variable that is
// assigned once -- whose body acquires nothing and releases locks in its entry block (before any branch): the release
// events, with the keys translated from the closure's captured variables back to the caller's names.
func (c *C) closureReleases(ci ssa.CallInstruction) []*lockEvent {
	if ci.Common().IsInvoke() {
		return nil
	}
	var mc *ssa.MakeClosure
	switch v := ci.Common().Value.(type) {
	case *ssa.MakeClosure:
		mc = v
	case *ssa.UnOp:
		if al, ok := v.X.(*ssa.Alloc); ok && v.Op == token.MUL {
			if sv := singleStore(al); sv != nil {
				mc, _ = sv.(*ssa.MakeClosure)
			}
		}
	}
	if mc == nil {
		return nil
	}
	fn, _ := mc.Fn.(*ssa.Function)
	if fn == nil || len(fn.Blocks) == 0 {
		return nil
	}
	if c.closureRelMemo == nil {
		c.closureRelMemo = map[*ssa.MakeClosure][]*lockEvent{}
	}
	if r, ok := c.closureRelMemo[mc]; ok {
		return r
	}
	c.closureRelMemo[mc] = nil
	var evs []*lockEvent
	for bi, b := range fn.Blocks {
		for _, in := range b.Instrs {
			call, ok := in.(ssa.CallInstruction)
			if !ok {
				continue
			}
			e := c.classifyLock(call)
			if e == nil {
				continue
			}
			if e.Acquire || bi != 0 {
				return nil // acquires, or releases on some paths only: not a plain unlock closure
			}
			if _, isDefer := in.(*ssa.Defer); isDefer {
				return nil
			}
			evs = append(evs, e)
		}
	}
	if len(evs) == 0 {
		return nil
	}
	// captured variable -> the caller's name of it
	back := map[string]string{}
	for i, fv := range fn.FreeVars {
		if i >= len(mc.Bindings) {
			continue
		}
		bnd := mc.Bindings[i]
		if al, ok := bnd.(*ssa.Alloc); ok {
			if sv := singleStore(al); sv != nil {
				back["*free:"+fv.Name()] = canon(sv)
			} else {
				back["*free:"+fv.Name()] = "*" + al.Name()
			}
		}
		back["free:"+fv.Name()] = canon(bnd)
	}
	var out []*lockEvent
	for _, e := range evs {
		k := e.Key
		// longest names first, so that "*free:key" is replaced before "free:key"
		names := make([]string, 0, len(back))
		for n := range back {
			names = append(names, n)
		}
		sort.Slice(names, func(i, j int) bool { return len(names[i]) > len(names[j]) })
		for _, n := range names {
			k = strings.ReplaceAll(k, n, back[n])
		}
		ne := *e
		ne.Key = k
		for i, el := range ne.Elems {
			for _, n := range names {
				el = strings.ReplaceAll(el, n, back[n])
			}
			ne.Elems[i] = el
		}
		out = append(out, &ne)
	}
	c.closureRelMemo[mc] = out
	return out
}
