package rg

// exceptionTable returns the reviewed exceptions: one (rule, function, construct) each with a reason.
func exceptionTable() []*Exception {
	return []*Exception{}
}
