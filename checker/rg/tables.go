package rg

// exceptionTable returns the reviewed exceptions: one (rule, function, construct) each with a reason.
// Constructs are written with SSA register names normalised to t_ (see normRegs).
func exceptionTable() []*Exception {
	multi := "stripe positions come from sortedLockPoses, whose every element is a GetKeyPos result (hash % len(l.locks), proved in range by R1 at the single-key helpers) copied through a set; l.locks is assigned only in NewLocks"
	freshHash := "the only error return after the creation comes from Hash.IncrBy/IncrByFloat, which fail only for an existing non-numeric field or an overflow: impossible on the hash that was just created empty (the two are on mutually exclusive paths that the path-insensitive rule cannot separate)"
	return []*Exception{
		{Rule: "R27", Func: "memdb.hIncrByHash", Construct: "no db.Set before the error reply decided by IncrBy", Reason: freshHash},
		{Rule: "R27", Func: "memdb.hIncrByFloatHash", Construct: "no db.Set before the error reply decided by IncrByFloat", Reason: freshHash},
		{Rule: "R1", Func: "(*memdb.Locks).*", Construct: "index recv.locks[t_[*]]", Reason: multi},
	}
}
