package rg

import (
	"fmt"
	"go/constant"
	"go/token"
	"go/types"
	"strings"

	"golang.org/x/tools/go/ssa"
)

func argDerived(k string) bool { return strings.HasPrefix(k, "conv(cmd[") }

// R25: may-alias hazards between two argument-derived keys.
var rR25 = RuleRef{Name: "R25", Doc: "aliasing keys: two distinct arguments may name the same key, so in an executor (i) no db.Delete(x) may follow a db.Set(y, ..) and (ii) no mutator may be applied to the container of y after db.Delete(x), for syntactically different argument keys x, y, unless an x != y test guards it (RENAME k k, LMOVE k k, SMOVE k k)", Run: func(c *C) {
	n := 0
	for _, fn := range c.Facts.SortedExecutors() {
		keys := map[string]bool{}
		for _, b := range fn.Blocks {
			for _, in := range b.Instrs {
				if ci, ok := in.(ssa.CallInstruction); ok {
					if a := c.keyspaceAccess(ci); a != nil && a.Map == "db" && argDerived(canon(a.Key)) {
						keys[canon(a.Key)] = true
					}
				}
			}
		}
		if len(keys) < 2 {
			continue
		}
		n++
		var bad []string
		collect := false
		tr := func(in ssa.Instruction, s Set) (Set, bool) {
			if noReturnCall(in) {
				return nil, true
			}
			ci, ok := in.(*ssa.Call)
			if !ok {
				return s, false
			}
			if a := c.keyspaceAccess(ci); a != nil && a.Map == "db" && argDerived(canon(a.Key)) {
				k := canon(a.Key)
				switch a.Method {
				case "Set", "SetIfNotExist", "SetIfExist":
					// only a value moved over from another key matters for (i): deleting that source key afterwards
					// removes the moved value when both names are the same key
					if len(ci.Call.Args) >= 3 {
						src, _ := c.originKeys(ci.Call.Args[2])
						for _, sk := range src {
							if sk != k {
								s["S|"+k+"|from|"+sk] = true
							}
						}
					}
					delete(s, "D|"+k) // re-created
				case "Delete":
					if collect {
						for f := range s {
							if !strings.HasPrefix(f, "S|") {
								continue
							}
							parts := strings.Split(f[2:], "|from|")
							if len(parts) == 2 && parts[1] == k && parts[0] != k && !s["NE|"+k+"|"+parts[0]] && !s["NE|"+parts[0]+"|"+k] {
								bad = append(bad, fmt.Sprintf("%s: db.Delete(%s) after its value was stored under %s: if both arguments name the same key the value just moved is removed", c.pos(ci.Pos()), k, parts[0]))
							}
						}
					}
					s["D|"+k] = true
				}
				return s, false
			}
			// mutator on the container of key y after Delete(x)
			if cf := callee(ci); cf != nil && firstParty(cf) && collect {
				for j, arg := range ci.Call.Args {
					if _, isCont := c.containerType(arg.Type()); !isCont || !c.mutates(cf, j) {
						continue
					}
					ks, _ := c.originKeys(arg)
					for _, y := range ks {
						for f := range s {
							if strings.HasPrefix(f, "D|") && f[2:] != y && argDerived(y) && !s["NE|"+y+"|"+f[2:]] && !s["NE|"+f[2:]+"|"+y] {
								bad = append(bad, fmt.Sprintf("%s: %s mutates the container of %s after db.Delete(%s): if both arguments name the same key the update goes to an orphaned object", c.pos(ci.Pos()), cf.Name(), y, f[2:]))
							}
						}
					}
				}
			}
			return s, false
		}
		edgeGen := func(from, to *ssa.BasicBlock, s Set) Set {
			cond, neg, ok := branchCond(from, to)
			if !ok {
				return s
			}
			if bo, ok := cond.(*ssa.BinOp); ok && (bo.Op == token.EQL || bo.Op == token.NEQ) {
				a, b := canon(bo.X), canon(bo.Y)
				if argDerived(a) && argDerived(b) {
					ne := (bo.Op == token.NEQ) != neg
					if ne {
						s["NE|"+a+"|"+b] = true
					}
				}
			}
			return s
		}
		fl := &Flow{Fn: fn, Must: false, Entry: Set{}, Transfer: tr, EdgeGen: edgeGen}
		fl.Run()
		collect = true
		for _, b := range fn.Blocks {
			if !fl.Live(b) {
				continue
			}
			s := fl.in[b].Clone()
			for _, in := range b.Instrs {
				var dead bool
				s, dead = tr(in, s)
				if dead {
					break
				}
			}
		}
		c.Add("R25", fnName(fn), "no delete-after-set / mutate-after-delete across two argument keys that may alias", fn.Pos(), len(bad) == 0, strings.Join(uniq(bad), "; "))
	}
	c.Count("R25_multi_key_executors", n)
	c.Min("R25_multi_key_executors", 3)
}}

// R9p: the bulk payload handed out by the parser is a plain sub-slice of the bytes read.
var rR9p = RuleRef{Name: "R9p", Doc: "decoder identity: the payload of every bulk string built by the RESP parser is a sub-slice of the buffer filled by the complete-read primitive, cut by length arithmetic only (no trimming, searching or copying call on the way)", Run: func(c *C) {
	mk := c.P.Func("resp", "MakeBulkData")
	if mk == nil {
		c.Undecided("R9p", "anchor resp.MakeBulkData")
		return
	}
	n := 0
	for _, fn := range c.P.allFuncs("resp") {
		for _, b := range fn.Blocks {
			for _, in := range b.Instrs {
				call, ok := in.(*ssa.Call)
				if !ok || callee(call) != mk {
					continue
				}
				if isNilConst(call.Call.Args[0]) {
					continue
				}
				n++
				good, why := identitySlice(call.Call.Args[0], true)
				c.Add("R9p", fnName(fn), "bulk payload is an unmodified sub-slice of the read buffer", call.Pos(), good, "payload "+why)
			}
		}
	}
	c.Count("R9p_bulk_constructions_in_parser", n)
	c.Min("R9p_bulk_constructions_in_parser", 1)
	// the length cut is exactly the 2-byte terminator: the slice high bound is len(msg)-2
	if fn := c.P.Func("resp", "parseMultiLine"); fn != nil {
		ok := false
		for _, b := range fn.Blocks {
			for _, in := range b.Instrs {
				if sl, isS := in.(*ssa.Slice); isS && sl.High != nil && sl.Low == nil {
					if bo, isB := sl.High.(*ssa.BinOp); isB && bo.Op == token.SUB {
						if k, isK := constInt(bo.Y); isK && k == 2 {
							if ln, isL := isBuiltinCall(bo.X, "len"); isL && ln.Call.Args[0] == sl.X {
								ok = true
							}
						}
					}
				}
			}
		}
		c.Add("R9p", fnName(fn), "payload is msg[:len(msg)-2] (only the CRLF terminator is removed)", fn.Pos(), ok, "the bulk payload must be cut by count, never by searching for a delimiter")
	} else {
		c.Undecided("R9p", "anchor resp.parseMultiLine")
	}
}}

// R6: a variable accessed atomically is accessed atomically everywhere; R6k: racy counter never sizes a result.
var rR6 = RuleRef{Name: "R6", Doc: "atomic consistency: a field whose address is passed to sync/atomic anywhere is never read or written plainly (outside its constructor); the key counter of ConcurrentMap, which is not updated under one lock, may serve as a capacity hint but never determines the length of a result slice", Run: func(c *C) {
	type fkey struct{ t, f string }
	atomicFields := map[fkey]bool{}
	isAtomicCallArg := func(fa *ssa.FieldAddr) bool {
		if fa.Referrers() == nil {
			return false
		}
		for _, r := range *fa.Referrers() {
			if ci, ok := r.(ssa.CallInstruction); ok {
				if cf := callee(ci); cf != nil && cf.Pkg != nil && cf.Pkg.Pkg.Path() == "sync/atomic" {
					continue
				}
			}
			if _, dbg := r.(*ssa.DebugRef); dbg {
				continue
			}
			return false
		}
		return len(*fa.Referrers()) > 0
	}
	fns := c.P.allFuncs(firstPartyPkgs...)
	for _, fn := range fns {
		for _, b := range fn.Blocks {
			for _, in := range b.Instrs {
				if fa, ok := in.(*ssa.FieldAddr); ok && isAtomicCallArg(fa) {
					atomicFields[fkey{namedOf(fa.X.Type()), fieldName(fa)}] = true
				}
			}
		}
	}
	c.Count("R6_atomic_fields", len(atomicFields))
	c.Min("R6_atomic_fields", 1)
	for _, fn := range fns {
		var bad []string
		touched := false
		for _, b := range fn.Blocks {
			for _, in := range b.Instrs {
				fa, ok := in.(*ssa.FieldAddr)
				if !ok || !atomicFields[fkey{namedOf(fa.X.Type()), fieldName(fa)}] {
					continue
				}
				touched = true
				if isAtomicCallArg(fa) {
					continue
				}
				// constructor: the struct is a fresh allocation in this function
				if al, isAl := fa.X.(*ssa.Alloc); isAl && al.Heap {
					continue
				}
				bad = append(bad, c.pos(fa.Pos())+": plain access to "+namedOf(fa.X.Type())+"."+fieldName(fa))
			}
		}
		if touched {
			c.Add("R6", fnName(fn), "atomic field accessed only through sync/atomic", fn.Pos(), len(bad) == 0, strings.Join(bad, "; "))
		}
	}
	// R6k
	n := 0
	for _, fn := range c.P.allFuncs("memdb") {
		if !isMethodOf(fn, c.Facts.CMap) {
			continue
		}
		for _, b := range fn.Blocks {
			for _, in := range b.Instrs {
				ms, ok := in.(*ssa.MakeSlice)
				if !ok {
					continue
				}
				n++
				racy := false
				backslice(ms.Len, func(v ssa.Value) bool {
					if fa, ok := v.(*ssa.FieldAddr); ok && namedOf(fa.X.Type()) == "ConcurrentMap" && c.isKeyCounterField(fa) {
						racy = true
					}
					if call, ok := v.(*ssa.Call); ok {
						if cf := call.Call.StaticCallee(); cf != nil && isMethodOf(cf, c.Facts.CMap, "Len") {
							racy = true
						}
						return true
					}
					return true
				})
				c.Add("R6", fnName(fn), "result slice length does not depend on the unsynchronised key counter", ms.Pos(), !racy, "make([]T, n) with n read from the counter: keys added or removed while the shards are walked leave zero-value entries or run past the end; use it as capacity only")
			}
		}
	}
	c.Count("R6k_result_allocations", n)
}}

// R17: shared tables are guarded; expiry decision made under the key's stripe.
var rR17 = RuleRef{Name: "R17", Doc: "guarded shared state: every access to Chan.conns/Chan.numSubs holds Chan.rw (write mode for updates); every update of ChanMap.item, and every lookup in a function that goes on to update it, holds ChanMap.rw; the lazy-expiry routine deletes a key only on a deadline comparison made on a TTL entry read while the key's stripe is held", Run: func(c *C) {
	la := c.lockAn()
	chanT := c.P.NamedType("memdb", "Chan")
	chanMapT := c.P.NamedType("memdb", "ChanMap")
	if chanT == nil || chanMapT == nil {
		c.Undecided("R17", "anchors memdb.Chan / memdb.ChanMap")
		return
	}
	// entry lock classes of helpers = intersection over static call sites
	type entryKey struct {
		fn  *ssa.Function
		blk *ssa.BasicBlock
	}
	entryMemo := map[entryKey]map[string]string{}
	// relevant: the blocks of fn one of which must be reachable (with the constant arguments of a call) for that call to
	// matter; nil = every call matters
	var entryClasses func(fn *ssa.Function, depth int, relevant []*ssa.BasicBlock) map[string]string
	var heldClassesFor func(fn *ssa.Function, in ssa.Instruction, depth int, relevant []*ssa.BasicBlock) map[string]string
	heldClassesFor = func(fn *ssa.Function, in ssa.Instruction, depth int, relevant []*ssa.BasicBlock) map[string]string {
		out := map[string]string{}
		held, _ := la.flow(fn).Held(in)
		for _, h := range held {
			if h.Mode == "W" || out[h.Class] == "" {
				out[h.Class] = h.Mode
			}
		}
		for cl, m := range entryClasses(fn, depth+1, relevant) {
			if m == "W" || out[cl] == "" {
				out[cl] = m
			}
		}
		return out
	}
	heldClasses := func(fn *ssa.Function, in ssa.Instruction, depth int) map[string]string {
		return heldClassesFor(fn, in, depth, []*ssa.BasicBlock{in.Block()})
	}
	entryClasses = func(fn *ssa.Function, depth int, relevant []*ssa.BasicBlock) map[string]string {
		var first *ssa.BasicBlock
		if len(relevant) > 0 {
			first = relevant[0]
		}
		mk := entryKey{fn, first}
		if r, ok := entryMemo[mk]; ok {
			return r
		}
		entryMemo[mk] = map[string]string{}
		if depth > 3 {
			return nil
		}
		var res map[string]string
		found := false
		for _, g := range c.P.allFuncs("memdb") {
			for _, b := range g.Blocks {
				for _, in := range b.Instrs {
					if ci, ok := in.(ssa.CallInstruction); ok && callee(ci) == fn {
						if _, isGo := in.(*ssa.Go); isGo {
							res = map[string]string{}
							found = true
							continue
						}
						// a helper steered by a flag: a call whose literal arguments keep it away from the access does not count
						if ca := constArgs(ci); len(ca) > 0 && len(relevant) > 0 {
							reach := prunedReach(fn, ca)
							hits := false
							for _, rb := range relevant {
								if reach[rb] {
									hits = true
								}
							}
							if !hits {
								continue
							}
						}
						h := heldClasses(g, in, depth)
						if !found {
							res, found = h, true
						} else {
							for cl, m := range res {
								if hm, ok := h[cl]; !ok {
									delete(res, cl)
								} else if hm != "W" {
									res[cl] = hm
								} else {
									_ = m
								}
							}
						}
					}
				}
			}
		}
		if !found || fn.Object() != nil && fn.Object().Exported() && false {
			res = map[string]string{}
		}
		entryMemo[mk] = res
		return res
	}
	nAcc := 0
	for _, fn := range c.P.allFuncs("memdb") {
		var bad []string
		touched := false
		constructor := func(x ssa.Value) bool {
			if al, ok := x.(*ssa.Alloc); ok && al.Heap {
				return true
			}
			return false
		}
		// does fn (directly) update ChanMap.item?
		writesItem := false
		var writeBlocks []*ssa.BasicBlock
		for _, b := range fn.Blocks {
			for _, in := range b.Instrs {
				if ci, ok := in.(ssa.CallInstruction); ok {
					if cf := callee(ci); cf != nil && isMethodOf(cf, c.Facts.CMap, "Set", "Delete", "SetIfExist", "SetIfNotExist") && isFieldLoad(ci.Common().Args[0], chanMapT, "item") {
						writesItem = true
						writeBlocks = append(writeBlocks, b)
					}
					if cf := callee(ci); cf != nil && isMethodOf(cf, chanMapT, "Create") {
						writesItem = true
						writeBlocks = append(writeBlocks, b)
					}
				}
			}
		}
		for _, b := range fn.Blocks {
			for _, in := range b.Instrs {
				switch x := in.(type) {
				case *ssa.FieldAddr:
					if !isNamed(x.X.Type(), chanT) || constructor(x.X) {
						continue
					}
					f := fieldName(x)
					if f != "conns" && f != "numSubs" {
						continue
					}
					touched = true
					nAcc++
					write := false
					for _, r := range *x.Referrers() {
						switch y := r.(type) {
						case *ssa.Store:
							if y.Addr == x {
								write = true
							}
						case *ssa.UnOp:
							// loaded map: look for MapUpdate / delete on it
							for _, rr := range *y.Referrers() {
								if _, ok := rr.(*ssa.MapUpdate); ok {
									write = true
								}
								if ci, ok := rr.(ssa.CallInstruction); ok {
									if bi, ok := ci.Common().Value.(*ssa.Builtin); ok && bi.Name() == "delete" {
										write = true
									}
								}
							}
						}
					}
					h := heldClasses(fn, in, 0)
					if m, ok := h["Chan.rw"]; !ok {
						bad = append(bad, c.pos(x.Pos())+": Chan."+f+" accessed without Chan.rw")
					} else if write && m != "W" {
						bad = append(bad, c.pos(x.Pos())+": Chan."+f+" updated under a read lock")
					}
				case ssa.CallInstruction:
					cf := callee(x)
					if cf == nil || !isMethodOf(cf, c.Facts.CMap) || !isFieldLoad(x.Common().Args[0], chanMapT, "item") {
						continue
					}
					touched = true
					nAcc++
					isWrite := cf.Name() == "Set" || cf.Name() == "Delete" || cf.Name() == "SetIfExist" || cf.Name() == "SetIfNotExist"
					if !isWrite && !writesItem {
						continue // a lone lookup is atomic inside ConcurrentMap
					}
					// a lookup is part of a lookup-then-update sequence only in the calls that can reach the update
					rel := []*ssa.BasicBlock{in.Block()}
					if !isWrite {
						rel = writeBlocks
					}
					h := heldClassesFor(fn, in, 0, rel)
					if m, ok := h["ChanMap.rw"]; !ok || m != "W" {
						bad = append(bad, c.pos(in.Pos())+": ChanMap.item."+cf.Name()+" in a lookup-then-update sequence without ChanMap.rw held for writing")
					}
				}
			}
		}
		if touched {
			c.Add("R17", fnName(fn), "subscriber tables accessed under their locks", fn.Pos(), len(bad) == 0, strings.Join(bad, "; "))
		}
	}
	c.Count("R17_table_accesses", nAcc)
	c.Min("R17_table_accesses", 8)
	// expiry decision under the stripe
	check := c.P.Func("memdb", "MemDb.CheckTTL")
	if check == nil {
		c.Undecided("R17", "anchor (*MemDb).CheckTTL")
		return
	}
	nDel := 0
	// helpers that read a deadline: they fetch ttlKeys.Get(param i) and look at TTLInfo.value
	deadlineReader := func(fn *ssa.Function) int {
		if fn == nil || fn.Blocks == nil || pkgRel(fn) != "memdb" {
			return -1
		}
		pi, reads := -1, false
		// the comparison with the deadline may sit one or two helpers further down (deadlineReached(rec, now))
		var readsValue func(f *ssa.Function, d int) bool
		readsValue = func(f *ssa.Function, d int) bool {
			if f == nil || f.Blocks == nil || d > 2 || pkgRel(f) != "memdb" {
				return false
			}
			for _, b := range f.Blocks {
				for _, in := range b.Instrs {
					if fa, ok := in.(*ssa.FieldAddr); ok && fieldName(fa) == "value" && namedOf(fa.X.Type()) == "TTLInfo" {
						return true
					}
					if call, ok := in.(*ssa.Call); ok && d < 2 {
						if cf := callee(call); cf != nil && cf != f && readsValue(cf, d+1) {
							return true
						}
					}
				}
			}
			return false
		}
		for _, b := range fn.Blocks {
			for _, in := range b.Instrs {
				if call, ok := in.(*ssa.Call); ok {
					if ga := c.keyspaceAccess(call); ga != nil && ga.Map == "ttlKeys" && ga.Method == "Get" {
						pi = paramIndex(fn, canon(ga.Key))
					}
				}
			}
		}
		reads = readsValue(fn, 0)
		if !reads {
			return -1
		}
		return pi
	}
	removerCall := func(ci *ssa.Call) (string, bool) {
		if cf := callee(ci); cf != nil && cf != check {
			for _, pi := range c.ttlRemoverParams(cf) {
				if pi < len(ci.Call.Args) {
					return cf.Name(), true
				}
			}
		}
		return "", false
	}
	// the expiry routine itself, plus everything a timer goroutine runs on its own (a `go` statement in memdb whose body,
	// or a first-party callee other than the expiry routine, writes the keyspace): such code runs at an arbitrary later
	// time and must re-validate the deadline exactly as the lazy routine does.
	deciders := []*ssa.Function{check}
	for _, g := range c.P.allFuncs("memdb") {
		for _, b := range g.Blocks {
			for _, in := range b.Instrs {
				gi, ok := in.(*ssa.Go)
				if !ok {
					continue
				}
				var root *ssa.Function
				if mc, ok := gi.Call.Value.(*ssa.MakeClosure); ok {
					root, _ = mc.Fn.(*ssa.Function)
				} else {
					root = gi.Call.StaticCallee()
				}
				if root == nil || pkgRel(root) != "memdb" {
					continue
				}
				seen := map[*ssa.Function]bool{check: true}
				var visit func(f *ssa.Function, d int)
				visit = func(f *ssa.Function, d int) {
					if f == nil || seen[f] || f.Blocks == nil || pkgRel(f) != "memdb" || d > 4 {
						return
					}
					seen[f] = true
					writes := false
					for _, fb := range f.Blocks {
						for _, fi := range fb.Instrs {
							if call, ok := fi.(*ssa.Call); ok {
								if a := c.keyspaceAccess(call); a != nil && a.Write && (a.Map == "db" || a.Map == "ttlKeys") {
									writes = true
								}
								visit(callee(call), d+1)
							}
						}
					}
					if writes {
						deciders = append(deciders, f)
					}
				}
				visit(root, 0)
			}
		}
	}
	for _, check := range deciders {
		lf := la.flow(check)
		for _, b := range check.Blocks {
			for _, in := range b.Instrs {
				ci, ok := in.(*ssa.Call)
				if !ok {
					continue
				}
				what := ""
				if a := c.keyspaceAccess(ci); a != nil && a.Write {
					what = a.Map + "." + a.Method
				} else if n, ok := removerCall(ci); ok {
					what = "deadline removal through " + n
				}
				if what == "" {
					continue
				}
				nDel++
				okDecision := false
				for d := b; d != nil && !okDecision; d = d.Idom() {
					id := d.Idom()
					if id == nil || len(id.Instrs) == 0 {
						continue
					}
					iff, isIf := id.Instrs[len(id.Instrs)-1].(*ssa.If)
					if !isIf {
						continue
					}
					readsValue, lockedGet := false, false
					conds := []ssa.Value{iff.Cond}
					// a short-circuit condition: look at the comparisons feeding the boolean phi as well
					if phi, ok := iff.Cond.(*ssa.Phi); ok {
						conds = append(conds, phi.Edges...)
						for _, p := range phi.Block().Preds {
							if len(p.Instrs) > 0 {
								if pif, ok := p.Instrs[len(p.Instrs)-1].(*ssa.If); ok {
									conds = append(conds, pif.Cond)
								}
							}
						}
					}
					for _, cond := range conds {
						backslice(cond, func(v ssa.Value) bool {
							if fa, ok := v.(*ssa.FieldAddr); ok && fieldName(fa) == "value" && namedOf(fa.X.Type()) == "TTLInfo" {
								readsValue = true
							}
							if call, ok := v.(*ssa.Call); ok {
								// a method of TTLInfo that looks at the deadline (info.expired(now)): the comparison lives there
								if cf := callee(call); cf != nil && cf.Signature.Recv() != nil && namedOf(cf.Signature.Recv().Type()) == "TTLInfo" && cf.Blocks != nil {
									reads := false
									for _, cb := range cf.Blocks {
										for _, ci := range cb.Instrs {
											if fa, ok := ci.(*ssa.FieldAddr); ok && fieldName(fa) == "value" && namedOf(fa.X.Type()) == "TTLInfo" {
												reads = true
											}
										}
									}
									if reads {
										readsValue = true
										return true // go on to where the receiver came from
									}
								}
								held, _ := lf.Held(call)
								if ga := c.keyspaceAccess(call); ga != nil && ga.Map == "ttlKeys" && ga.Method == "Get" {
									for _, h := range held {
										if covers(h, canon(ga.Key)) {
											lockedGet = true
										}
									}
								} else if pi := deadlineReader(callee(call)); pi >= 0 && pi < len(call.Call.Args) {
									for _, h := range held {
										if covers(h, canon(call.Call.Args[pi])) {
											lockedGet, readsValue = true, true
										}
									}
								}
								return false
							}
							return true
						})
					}
					if readsValue && lockedGet {
						okDecision = true
					}
				}
				c.Add("R17", fnName(check), fmt.Sprintf("%s decided on a deadline read under the key's stripe", what), ci.Pos(), okDecision, "the removal must be control-dependent on a comparison of TTLInfo.value taken from a ttlKeys.Get made while the stripe is held (double-checked expiry)")
			}
		}
	}
	c.Count("R17_expiry_removals", nDel)
	c.Min("R17_expiry_removals", 1)
}}

// R23u: proposal identifiers are globally unique.
var rR23u = RuleRef{Name: "R23u", Doc: "the identifier that ties a replicated log entry to the waiting client is globally unique: the ID of every RaftProposal built by the server comes from the uuid package (the entry is applied on every node, so a per-node counter would collide)", Run: func(c *C) {
	n := 0
	for _, fn := range c.P.allFuncs("server") {
		for _, b := range fn.Blocks {
			for _, in := range b.Instrs {
				st, ok := in.(*ssa.Store)
				if !ok {
					continue
				}
				fa, ok := st.Addr.(*ssa.FieldAddr)
				if !ok || namedOf(fa.X.Type()) != "RaftProposal" || fieldName(fa) != "ID" {
					continue
				}
				n++
				fromUUID := false
				var src func(v ssa.Value, d int)
				seen := map[ssa.Value]bool{}
				src = func(v ssa.Value, d int) {
					if seen[v] || d > 6 {
						return
					}
					seen[v] = true
					backslice(v, func(x ssa.Value) bool {
						if call, ok := x.(*ssa.Call); ok {
							if cf := call.Call.StaticCallee(); cf != nil {
								p := ""
								if cf.Pkg != nil {
									p = cf.Pkg.Pkg.Path()
								}
								if strings.Contains(p, "google/uuid") {
									fromUUID = true
								} else if firstParty(cf) {
									// look at what the helper returns
									for _, bb := range cf.Blocks {
										for _, ii := range bb.Instrs {
											if ret, ok := ii.(*ssa.Return); ok {
												for _, r := range ret.Results {
													src(r, d+1)
												}
											}
										}
									}
								}
							}
							return false
						}
						return true
					})
				}
				src(st.Val, 0)
				c.Add("R23u", fnName(fn), "RaftProposal.ID comes from a globally unique source (uuid)", st.Pos(), fromUUID, "the ID travels through the replicated log and is looked up on every node")
			}
		}
	}
	c.Count("R23u_proposal_constructions", n)
	c.Min("R23u_proposal_constructions", 1)
}}

func globalIntValue(p *Program, pkg, name string) (int64, bool) {
	sp := p.Pkg(pkg)
	if sp == nil {
		return 0, false
	}
	if cst, ok := sp.Members[name].(*ssa.NamedConst); ok && cst.Value.Value != nil && cst.Value.Value.Kind() == constant.Int {
		v, exact := constant.Int64Val(cst.Value.Value)
		return v, exact
	}
	g, ok := sp.Members[name].(*ssa.Global)
	if !ok {
		return 0, false
	}
	init := sp.Func("init")
	if init == nil {
		return 0, false
	}
	var val int64
	found := 0
	seenF := map[*ssa.Function]bool{}
	for _, f := range append([]*ssa.Function{init}, p.allFuncs(pkg)...) {
		if seenF[f] {
			continue
		}
		seenF[f] = true
		for _, b := range f.Blocks {
			for _, in := range b.Instrs {
				if st, ok := in.(*ssa.Store); ok && st.Addr == g {
					if k, ok := constInt(st.Val); ok {
						val = k
						found++
					} else {
						found += 2
					}
				}
			}
		}
	}
	return val, found == 1
}

// R16c: snapshot threshold and catch-up window agree.
var rR16c = RuleRef{Name: "R16c", Doc: "snapshot constants agree: the snapshot trigger distance (defaultSnapshotCount) is not smaller than the number of entries kept for slow followers (snapshotCatchUpEntriesN); otherwise the first snapshot after a restart from a snapshot computes a compaction index below the storage's first index, Compact returns ErrCompacted and the node panics", Run: func(c *C) {
	a, ok1 := globalIntValue(c.P, "raftexample", "defaultSnapshotCount")
	b, ok2 := globalIntValue(c.P, "raftexample", "snapshotCatchUpEntriesN")
	if !ok1 || !ok2 {
		// the panic-free alternative: Compact's ErrCompacted is tolerated
		c.Undecided("R16c", "constants defaultSnapshotCount / snapshotCatchUpEntriesN not found as single-assignment integers")
		return
	}
	c.Add("R16c", "raftexample", "defaultSnapshotCount >= snapshotCatchUpEntriesN", token.NoPos, a >= b, fmt.Sprintf("defaultSnapshotCount=%d snapshotCatchUpEntriesN=%d", a, b))
}}

// R13p: encoders return fresh memory.
var rR13p = RuleRef{Name: "R13p", Doc: "reply encoders return freshly allocated bytes: the slice returned by a ToBytes method never comes out of a sync.Pool (the connection loop is still writing it when another connection's encoder would reuse the buffer)", Run: func(c *C) {
	n := 0
	for _, fn := range c.P.allFuncs("resp") {
		if fn.Name() != "ToBytes" {
			continue
		}
		n++
		pooled := ""
		for _, b := range fn.Blocks {
			for _, in := range b.Instrs {
				ret, ok := in.(*ssa.Return)
				if !ok {
					continue
				}
				for _, rv := range returnedValues(ret) {
					seen := map[ssa.Value]bool{}
					var walk func(v ssa.Value, d int)
					walk = func(v ssa.Value, d int) {
						if seen[v] || d > 10 {
							return
						}
						seen[v] = true
						if call, ok := v.(*ssa.Call); ok {
							if cf := call.Call.StaticCallee(); cf != nil && cf.String() == "(*sync.Pool).Get" {
								pooled = c.pos(call.Pos())
							}
							// method call on a receiver: the result may alias the receiver's storage (bytes.Buffer.Bytes)
							if cf := call.Call.StaticCallee(); cf != nil && cf.Signature.Recv() != nil && len(call.Call.Args) > 0 {
								walk(call.Call.Args[0], d+1)
							}
							return
						}
						if in, ok := v.(ssa.Instruction); ok {
							for _, op := range in.Operands(nil) {
								if *op != nil {
									walk(*op, d+1)
								}
							}
						}
					}
					walk(rv, 0)
				}
			}
		}
		c.Add("R13p", fnName(fn), "returned bytes do not alias a pooled buffer", fn.Pos(), pooled == "", "the returned slice derives from sync.Pool.Get at "+pooled)
	}
	c.Count("R13p_encoders", n)
	c.Min("R13p_encoders", 5)
}}

var _ = types.Typ

// isKeyCounterField: fa addresses the field of ConcurrentMap that counts the keys (the one handed to sync/atomic).
func (c *C) isKeyCounterField(fa *ssa.FieldAddr) bool {
	c.ensureCounterPairs()
	for _, p := range counterPairs {
		if p.cntType == "ConcurrentMap" {
			return fieldName(fa) == p.cntField
		}
	}
	return false
}
