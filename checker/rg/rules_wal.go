package rg

import (
	"fmt"
	"go/token"
	"strings"

	"golang.org/x/tools/go/ssa"
)

const walPkg = "go.etcd.io/etcd/server/v3/storage/wal"
const snapPkg = "go.etcd.io/etcd/server/v3/etcdserver/api/snap"
const raftPkg = "go.etcd.io/etcd/raft/v3"
const ioutilPkg = "go.etcd.io/etcd/pkg/v3/ioutil"

// R16w: durability points and validation-before-hand-out in the WAL and snapshot packages.
var rR16w = RuleRef{Name: "R16w", Doc: "durability points and validation before hand-out (success-subgraph must-pass-through): WAL.Save returns nil after writing only through sync()/cut() unless MustSync is false; sync() reaches Fdatasync unless unsafeNoSync; cut() syncs before the rename and fsyncs the directory after it; SaveSnapshot returns through sync(); Repair fsyncs after truncating; snapshots are written with WriteAndSyncFile, which fsyncs; decodeRecord returns nil only after Unmarshal succeeded and (for non-CRC records) Validate succeeded, and consults isTornEntry before reporting corruption; snap.Read returns a snapshot only after the CRC comparison", Run: func(c *C) {
	// the switch that turns syncing off: whatever SetUnsafeNoFsync sets (a boolean field, or one bit of a flag word)
	noSync := []string{"T|field:unsafeNoSync"}
	if set := c.P.Func(walPkg, "WAL.SetUnsafeNoFsync"); set != nil {
		for _, b := range set.Blocks {
			for _, in := range b.Instrs {
				st, ok := in.(*ssa.Store)
				if !ok {
					continue
				}
				fa, ok := st.Addr.(*ssa.FieldAddr)
				if !ok {
					continue
				}
				if k, ok := st.Val.(*ssa.Const); ok && k.Value != nil && k.Value.ExactString() == "true" {
					noSync = append(noSync, "T|field:"+fieldName(fa))
				}
				if bo, ok := st.Val.(*ssa.BinOp); ok && bo.Op == token.OR {
					if k, ok := constInt(bo.Y); ok {
						noSync = append(noSync, fmt.Sprintf("T|bit:%s&%d", fieldName(fa), k))
					}
				}
				if call, ok := st.Val.(*ssa.Call); ok && len(call.Call.Args) == 2 {
					if k, ok := constInt(call.Call.Args[1]); ok {
						noSync = append(noSync, fmt.Sprintf("T|bit:%s&%d", fieldName(fa), k))
					}
				}
			}
		}
	}
	obs := []ordOb{
		{Pkg: walPkg, Fn: "WAL.Save", At: "ret-nil", NeedAny: []string{"F|call:MustSync", "C|sync", "C|cut"}, IfMay: []string{"C|saveEntry", "C|saveState"}, What: "a nil return after records were written passes sync()/cut() unless MustSync said no"},
		{Pkg: walPkg, Fn: "WAL.Save", At: "call:saveState", NeedAll: []string{"C|MustSync"}, What: "MustSync is evaluated against the previous hard state before it is overwritten"},
		{Pkg: walPkg, Fn: "WAL.sync", At: "ret-ok", NeedAny: append([]string{"C|Fdatasync"}, noSync...), What: "sync reaches Fdatasync on every successful path unless unsafeNoSync"},
		{Pkg: walPkg, Fn: "WAL.sync", At: "call:Fdatasync", NeedAny: []string{"OK|flush", "T|cmp:encoder==nil"}, What: "the encoder is flushed before the file is synced"},
		{Pkg: walPkg, Fn: "WAL.cut", At: "call:Rename", NeedAll: []string{"OK|sync", "OK|saveState", "OK|encode#4"}, What: "the new segment is complete (its leading CRC record, record type 4, and the hard state were written) and synced before it is renamed into place"},
		{Pkg: walPkg, Fn: "WAL.cut", At: "ret-nil", NeedAll: []string{"OK|Rename", "OK|Fsync"}, What: "the directory is fsynced after the rename"},
		{Pkg: walPkg, Fn: "WAL.cut", At: "call:Fsync", NeedAll: []string{"OK|Rename"}, What: "directory fsync comes after the rename"},
		{Pkg: walPkg, Fn: "WAL.SaveSnapshot", At: "ret-ok", NeedAll: []string{"OK|encode", "C|sync"}, What: "a snapshot record is synced before SaveSnapshot returns"},
		{Pkg: walPkg, Fn: "WAL.ReadAll", At: "call:newFileEncoder", AllEdges: true, NeedAny: []string{"OK|ZeroToEnd", "T|cmp:nil==tail()"}, What: "appending is enabled only after the space behind the last valid record was zeroed (leftovers of a torn write must not be read back as records later); read mode, which has no tail file, excepted"},
		{Pkg: walPkg, Fn: "WAL.ReadAll", At: "call:ZeroToEnd", AllEdges: true, NeedAll: []string{"OK|Seek"}, What: "the zeroing starts at the end of the last valid record (the file is positioned there first)"},
		{Pkg: walPkg, Fn: "Repair", At: "ret-true", AllEdges: true, NeedAll: []string{"OK|Fsync"}, IfMay: []string{"C|Truncate"}, What: "the truncated file is fsynced before the repair is reported successful"},
		{Pkg: walPkg, Fn: "decoder.decodeRecord", At: "ret-nil", NeedAll: []string{"OK|Unmarshal"}, NeedAny: []string{"OK|Validate", "T|cmp:4==Type"}, What: "a record is handed out only after it unmarshalled and its CRC validated (CRC records excepted)"},
		{Pkg: snapPkg, Fn: "Read", At: "ret-nil", NeedAll: []string{"OK|Unmarshal"}, NeedAny: []string{"T|cmp:Crc==Update()", "T|cmp:Checksum()==Crc", "T|cmp:ChecksumIEEE()==Crc", "T|cmp:Crc==Sum32()"}, What: "a snapshot is returned only after its CRC (hash/crc32 over the payload) matched the stored one"},
		{Pkg: snapPkg, Fn: "Snapshotter.save", At: "ret-nil", NeedAll: []string{"OK|WriteAndSyncFile"}, What: "snapshot files are written through WriteAndSyncFile"},
	}
	c.checkOrder("R16w", obs)
	c.Count("R16w_obligations", len(obs))
	// segment-head CRC records: outside decodeRecord, Record.Validate (which resets the record on mismatch) runs only when
	// the decoder already has a running CRC (crc != 0), wherever that code lives (ReadAll, Verify, Repair or a shared helper)
	{
		n := 0
		dec := c.P.Func(walPkg, "decoder.decodeRecord")
		for _, fn := range c.P.allFuncs(walPkg) {
			if fn == dec {
				continue
			}
			has := false
			for _, b := range fn.Blocks {
				for _, in := range b.Instrs {
					if ci, ok := in.(ssa.CallInstruction); ok && callName(ci) == "Validate" {
						has = true
					}
				}
			}
			if !has {
				continue
			}
			of := c.orderFlow(fn, nil, true, "F|cmp:0==*")
			for _, b := range fn.Blocks {
				for _, in := range b.Instrs {
					ci, ok := in.(ssa.CallInstruction)
					if !ok || callName(ci) != "Validate" {
						continue
					}
					n++
					states, live := of.States(in)
					good := live
					for _, st := range states {
						// the running CRC (d.crc.Sum32(), directly, through an accessor or a local) was found non-zero
						nonZero := false
						for f := range st {
							if strings.HasPrefix(f, "F|cmp:0==") {
								nonZero = true
							}
						}
						if !nonZero {
							good = false
						}
					}
					c.Add("R16w", fnName(fn), "a segment-head CRC record is validated only when the decoder has a running CRC", in.Pos(), good, "Validate resets the record on mismatch; with a fresh decoder (crc 0) the stored previous CRC must be adopted, not compared")
				}
			}
		}
		c.Count("R16w_crc_record_validations", n)
		c.Min("R16w_crc_record_validations", 2)
	}
	// isTornEntry consulted on both failure arms of decodeRecord (directly or through a shared helper), path by path:
	// no error is reported after a failed Unmarshal or a failed Validate unless the torn-write test was made on the way
	c.checkOrder("R16w", []ordOb{{Pkg: walPkg, Fn: "decoder.decodeRecord", At: "ret-err", AllEdges: true, IfMay: []string{"ERR|Unmarshal", "ERR|Validate"}, NeedAll: []string{"C|isTornEntry"},
		What: "isTornEntry is consulted on the unmarshal-failure arm and on the CRC-mismatch arm before an error is reported"}})
	// ReadAll: an entry at index i supersedes everything from i on: the slice is truncated before the append
	if fn := c.P.Func(walPkg, "WAL.ReadAll"); fn != nil {
		truncAppend, inPlace := 0, 0
		// ReadAll itself and the helpers of its package it hands the collected entries to
		scan := []*ssa.Function{fn}
		seenFn := map[*ssa.Function]bool{fn: true}
		for i := 0; i < len(scan) && i < 24; i++ {
			for _, b := range scan[i].Blocks {
				for _, in := range b.Instrs {
					if call, ok := in.(*ssa.Call); ok {
						if cf := callee(call); cf != nil && cf.Blocks != nil && cf.Pkg == fn.Pkg && !seenFn[cf] {
							seenFn[cf] = true
							scan = append(scan, cf)
						}
					}
				}
			}
		}
		for _, sf := range scan {
			for _, b := range sf.Blocks {
				for _, in := range b.Instrs {
					switch x := in.(type) {
					case *ssa.Call:
						if ap, ok := isAppend(x); ok && strings.Contains(ap.Type().String(), "raftpb.Entry") {
							if sl, ok := ap.Call.Args[0].(*ssa.Slice); ok && sl.High != nil && sl.Low == nil {
								truncAppend++
							} else {
								inPlace++
							}
						}
					case *ssa.Store:
						if ia, ok := x.Addr.(*ssa.IndexAddr); ok && strings.HasPrefix(ia.X.Type().String(), "[]") && strings.Contains(ia.X.Type().String(), "raftpb.Entry") {
							inPlace++
						}
					}
				}
			}
		}
		c.Add("R16w", fnName(fn), "a re-read entry truncates the collected log at its index before it is appended", fn.Pos(), truncAppend >= 1 && inPlace == 0, fmt.Sprintf("append(ents[:up], e) sites: %d, other writes into the entry slice: %d", truncAppend, inPlace))
	} else {
		c.Undecided("R16w", "anchor (*WAL).ReadAll")
	}
	// SaveSnapshot never moves the last-entry index backwards (cut() names the next segment after it, searchIndex trusts the name)
	if fn := c.P.Func(walPkg, "WAL.SaveSnapshot"); fn != nil {
		of := c.orderFlow(fn, nil, true, "T|cmp:enti<Index")
		n := 0
		for _, b := range fn.Blocks {
			for _, in := range b.Instrs {
				st, ok := in.(*ssa.Store)
				if !ok {
					continue
				}
				fa, ok := st.Addr.(*ssa.FieldAddr)
				if !ok || fieldName(fa) != "enti" {
					continue
				}
				n++
				good := false
				if call, ok := st.Val.(*ssa.Call); ok {
					if bi, ok := call.Call.Value.(*ssa.Builtin); ok && bi.Name() == "max" {
						for _, a := range call.Call.Args {
							if u, ok := a.(*ssa.UnOp); ok {
								if f2, ok := u.X.(*ssa.FieldAddr); ok && fieldName(f2) == "enti" {
									good = true
								}
							}
						}
					}
				}
				if !good {
					states, live := of.States(in)
					good = live
					for _, s := range states {
						if !s["T|cmp:enti<Index"] {
							good = false
						}
					}
				}
				c.Add("R16w", fnName(fn), "the last-entry index is only raised by a snapshot record", in.Pos(), good, "the store to enti must be guarded by enti < snapshot index (a local snapshot lies behind the last saved entry; lowering enti mis-names the next segment)")
			}
		}
		c.Count("R16w_snapshot_enti_stores", n)
	} else {
		c.Undecided("R16w", "anchor (*WAL).SaveSnapshot")
	}
	// raftexample never disables fsync
	var bad []string
	for _, fn := range c.P.allFuncs(firstPartyPkgs...) {
		for _, b := range fn.Blocks {
			for _, in := range b.Instrs {
				if ci, ok := in.(ssa.CallInstruction); ok && callName(ci) == "SetUnsafeNoFsync" {
					bad = append(bad, c.pos(in.Pos()))
				}
			}
		}
	}
	c.Add("R16w", "first-party", "SetUnsafeNoFsync is never called", token.NoPos, len(bad) == 0, strings.Join(bad, "; "))
	// WriteAndSyncFile: the error it returns depends on the result of Fsync (a failed or skipped sync is not reported as success)
	if fn := c.P.Func(ioutilPkg, "WriteAndSyncFile"); fn != nil {
		dep := false
		for _, b := range fn.Blocks {
			for _, in := range b.Instrs {
				if ret, ok := in.(*ssa.Return); ok {
					for _, vs := range retResults(ret) {
						for _, v := range vs {
							backslice(v, func(x ssa.Value) bool {
								if call, ok := x.(*ssa.Call); ok && callName(call) == "Fsync" {
									dep = true
								}
								return true
							})
						}
					}
				}
			}
		}
		c.Add("R16w", fnName(fn), "the returned error depends on the result of Fsync", fn.Pos(), dep, "WriteAndSyncFile must sync the file and report a sync failure")
	} else {
		c.Undecided("R16w", "anchor ioutil.WriteAndSyncFile")
	}
	// frame size bounded before allocation (R4): the make in decodeRecord is dominated by a comparison on its size source
	if fn := c.P.Func(walPkg, "decoder.decodeRecord"); fn != nil {
		found, okAll := 0, true
		for _, b := range fn.Blocks {
			for _, in := range b.Instrs {
				ms, ok := in.(*ssa.MakeSlice)
				if !ok {
					continue
				}
				found++
				src := map[ssa.Value]bool{}
				backslice(ms.Len, func(v ssa.Value) bool {
					src[v] = true
					_, isCall := v.(*ssa.Call)
					return !isCall
				})
				bounded := false
				for d := b; d != nil; d = d.Idom() {
					id := d.Idom()
					if id == nil || len(id.Instrs) == 0 {
						continue
					}
					iff, isIf := id.Instrs[len(id.Instrs)-1].(*ssa.If)
					if !isIf {
						continue
					}
					bo, isB := iff.Cond.(*ssa.BinOp)
					if !isB || (bo.Op != token.GTR && bo.Op != token.LSS && bo.Op != token.GEQ && bo.Op != token.LEQ) {
						continue
					}
					// the allocation lies on the edge where the size is NOT above the limit
					sizeSide, limitSide := bo.X, bo.Y
					onFalse := id.Succs[1] == d
					if bo.Op == token.LSS || bo.Op == token.LEQ {
						sizeSide, limitSide = bo.Y, bo.X
						if !src[sizeSide] {
							sizeSide, limitSide = bo.X, bo.Y
							onFalse = id.Succs[0] == d
						}
					}
					usesFile := false
					backslice(limitSide, func(v ssa.Value) bool {
						if call, ok := v.(*ssa.Call); ok && callName(call) == "Size" {
							usesFile = true
						}
						return true
					})
					if src[sizeSide] && onFalse && usesFile {
						bounded = true
					}
				}
				if !bounded {
					okAll = false
				}
			}
		}
		c.Add("R16w", fnName(fn), "frame size is compared with the remaining file size before the record buffer is allocated", fn.Pos(), okAll && found > 0, "make([]byte, recBytes+padBytes) must be dominated by the recBytes > fileSize-offset rejection")
	}
	// MustSync depends on entries, vote and term
	if fn := c.P.Func(raftPkg, "MustSync"); fn != nil {
		fields := map[string]bool{}
		usesNum := false
		for _, b := range fn.Blocks {
			for _, in := range b.Instrs {
				bo, ok := in.(*ssa.BinOp)
				if !ok || (bo.Op != token.NEQ && bo.Op != token.EQL && bo.Op != token.GTR) {
					continue
				}
				for _, side := range []ssa.Value{bo.X, bo.Y} {
					backslice(side, func(v ssa.Value) bool {
						if f, ok := v.(*ssa.Field); ok {
							if n, _ := condName(f); n != "" {
								fields[n] = true
							}
						}
						if fa, ok := v.(*ssa.FieldAddr); ok {
							fields["field:"+fieldName(fa)] = true
						}
						if p, ok := v.(*ssa.Parameter); ok && isIntType(p.Type()) {
							usesNum = true
						}
						return true
					})
				}
			}
		}
		c.Add("R16w", fnName(fn), "MustSync depends on the entry count, the vote and the term", fn.Pos(), usesNum && fields["field:Vote"] && fields["field:Term"], "a change of term or vote, or any new entry, must force a sync")
	} else {
		c.Undecided("R16w", "anchor raft.MustSync")
	}
}}

func itoa(n int) string { return fmt.Sprint(n) }
