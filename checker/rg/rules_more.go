package rg

import (
	"fmt"
	"go/token"
	"go/types"
	"strings"

	"golang.org/x/tools/go/ssa"
)

// R15r: read-modify-write atomicity: a value written with db.Set that was computed from a db.Get lies in the same lock hold.
var rR15r = RuleRef{Name: "R15r", Doc: "read-modify-write atomicity: when the value stored by db.Set (or the decision to store) derives from the result of a db.Get, both calls lie inside one uninterrupted hold of the key's stripe (same acquisition site), so no other client can update or remove the value between the read and the dependent write", Run: func(c *C) {
	la := c.lockAn()
	n := 0
	for _, fn := range c.P.allFuncs("memdb") {
		lf := la.flow(fn)
		ord := map[string]int{}
		for _, b := range fn.Blocks {
			for _, in := range b.Instrs {
				ci, ok := in.(*ssa.Call)
				if !ok {
					continue
				}
				a := c.keyspaceAccess(ci)
				if a == nil || a.Map != "db" || !a.Write || len(ci.Call.Args) < 3 {
					continue
				}
				var gets []*ssa.Call
				backslice(ci.Call.Args[2], func(v ssa.Value) bool {
					if call, ok := v.(*ssa.Call); ok {
						if ga := c.keyspaceAccess(call); ga != nil && ga.Map == "db" && ga.Method == "Get" {
							gets = append(gets, call)
							return false
						}
					}
					return true
				})
				for _, g := range gets {
					ga := c.keyspaceAccess(g)
					// only same-key read-modify-write, or an object moved from another key; a fresh result computed
					// from other keys' contents (the *STORE forms) is not demanded to be atomic
					if canon(ga.Key) != canon(a.Key) && c.freshValue(ci.Call.Args[2], 0, map[ssa.Value]bool{}) {
						continue
					}
					n++
					hg, _ := lf.Held(g)
					hs, _ := lf.Held(ci)
					same := false
					for _, x := range hg {
						for _, y := range hs {
							if x == y && covers(x, canon(ga.Key)) {
								same = true
							}
						}
					}
					con := fmt.Sprintf("db.%s(%s) of a value read by db.Get(%s) in the same lock hold", a.Method, canon(a.Key), canon(ga.Key))
					ord[con]++
					if ord[con] > 1 {
						con = fmt.Sprintf("%s#%d", con, ord[con])
					}
					c.Add("R15r", fnName(fn), con, ci.Pos(), same, fmt.Sprintf("read at %s and write at %s are not covered by one acquisition of the stripe of %s", c.pos(g.Pos()), c.pos(ci.Pos()), canon(ga.Key)))
				}
			}
		}
	}
	c.Count("R15r_read_modify_write_pairs", n)
	c.Min("R15r_read_modify_write_pairs", 8)
}}

// fresh: the container value is newly allocated in this call (constructor result, composite literal) on every path.
func (c *C) freshValue(v ssa.Value, depth int, seen map[ssa.Value]bool) bool {
	if depth > 6 || seen[v] {
		return depth <= 6
	}
	seen[v] = true
	switch x := v.(type) {
	case *ssa.Alloc:
		return x.Heap
	case *ssa.Const:
		return x.IsNil() // nil is nobody's container: storing it aliases nothing
	case *ssa.Extract:
		// result k of a first-party helper: fresh when every value the helper returns there is
		call, ok := x.Tuple.(*ssa.Call)
		if !ok {
			return false
		}
		cf := call.Call.StaticCallee()
		if cf == nil || !firstParty(cf) || cf.Blocks == nil {
			return false
		}
		for _, b := range cf.Blocks {
			for _, in := range b.Instrs {
				if ret, ok := in.(*ssa.Return); ok && len(ret.Results) > x.Index {
					for _, rv := range retResults(ret)[x.Index] {
						if !c.freshValue(rv, depth+1, map[ssa.Value]bool{}) {
							return false
						}
					}
				}
			}
		}
		return true
	case *ssa.MakeInterface:
		return c.freshValue(x.X, depth+1, seen)
	case *ssa.ChangeInterface:
		return c.freshValue(x.X, depth+1, seen)
	case *ssa.Phi:
		for i, e := range x.Edges {
			// an edge that cannot have been taken when the store is reached: the store sits under `state == missing`, the
			// edge comes from where `state == missing` was false
			if c.freshUse != nil && i < len(x.Block().Preds) && edgeContradictsUse(x.Block().Preds[i], x.Block(), c.freshUse) {
				continue
			}
			if !c.freshValue(e, depth+1, seen) {
				return false
			}
		}
		return true
	case *ssa.UnOp:
		if al, ok := x.X.(*ssa.Alloc); ok && x.Op == token.MUL {
			for _, r := range *al.Referrers() {
				if st, ok := r.(*ssa.Store); ok && st.Addr == al && !c.freshValue(st.Val, depth+1, seen) {
					return false
				}
			}
			return true
		}
		// rec.field of a local record, assigned just before in the same block (found.list = NewList(); Set(key, found.list))
		if fa, ok := x.X.(*ssa.FieldAddr); ok && x.Op == token.MUL {
			if al, ok := fa.X.(*ssa.Alloc); ok {
				var last ssa.Value
				for _, in := range x.Block().Instrs {
					if in == ssa.Instruction(x) {
						break
					}
					st, ok := in.(*ssa.Store)
					if !ok {
						continue
					}
					if st.Addr == ssa.Value(al) {
						last = nil
					}
					if f2, ok := st.Addr.(*ssa.FieldAddr); ok && f2.X == ssa.Value(al) && f2.Field == fa.Field {
						last = st.Val
					}
				}
				if last != nil {
					return c.freshValue(last, depth+1, seen)
				}
			}
		}
		return false
	case *ssa.Call:
		cf := x.Call.StaticCallee()
		// a constructor handed in as a function argument (fetchOrCreate(m, key, NewHash)): every function the call
		// sites bind to that parameter returns a fresh value
		if prm, isP := x.Call.Value.(*ssa.Parameter); isP && cf == nil {
			fab, _ := c.funcArgBindings()
			gs := fab[prm]
			if len(gs) == 0 {
				return false
			}
			for _, g := range gs {
				if g.Blocks == nil {
					return false
				}
				for _, b := range g.Blocks {
					if ret, ok := b.Instrs[len(b.Instrs)-1].(*ssa.Return); ok && len(ret.Results) >= 1 {
						if !c.freshValue(ret.Results[0], depth+1, map[ssa.Value]bool{}) {
							return false
						}
					}
				}
			}
			return true
		}
		if cf == nil || !firstParty(cf) || cf.Blocks == nil {
			return false
		}
		for _, b := range cf.Blocks {
			for _, in := range b.Instrs {
				if ret, ok := in.(*ssa.Return); ok && len(ret.Results) >= 1 {
					if !c.freshValue(ret.Results[0], depth+1, map[ssa.Value]bool{}) {
						return false
					}
				}
			}
		}
		return true
	}
	return false
}

// R26: no two keys share one container object.
var rR26 = RuleRef{Name: "R26", Doc: "no aliasing between keys: a container stored with db.Set is freshly allocated on every path (constructor, or an algebra method all of whose returns are fresh), or is the object already stored under the same key, or is moved from a key that is deleted in the same hold; otherwise a later update of one key silently changes the other", Run: func(c *C) {
	n := 0
	for _, fn := range c.P.allFuncs("memdb") {
		if fn.TypeParams().Len() > 0 && len(fn.TypeArgs()) == 0 {
			continue // the uninstantiated body of a generic helper: its instances are what runs, and what is judged
		}
		ord := map[string]int{}
		for _, b := range fn.Blocks {
			for _, in := range b.Instrs {
				ci, ok := in.(*ssa.Call)
				if !ok {
					continue
				}
				a := c.keyspaceAccess(ci)
				if a == nil || a.Map != "db" || !a.Write || len(ci.Call.Args) < 3 {
					continue
				}
				val := ci.Call.Args[2]
				inner := val
				if mi, ok := inner.(*ssa.MakeInterface); ok {
					inner = mi.X
				}
				if _, isCont := c.containerType(inner.Type()); !isCont {
					// a value of interface type moved as is (RENAME)
					if _, isIface := val.Type().Underlying().(interface{ NumMethods() int }); !isIface {
						continue
					}
					if _, isMI := val.(*ssa.MakeInterface); isMI {
						continue
					}
				}
				n++
				k := canon(a.Key)
				c.freshUse = b
				ok2 := c.freshValue(val, 0, map[ssa.Value]bool{})
				c.freshUse = nil
				why := "stored container is not provably fresh"
				pv := val
				if mi, isMI := pv.(*ssa.MakeInterface); isMI {
					pv = mi.X
				}
				if prm, isP := pv.(*ssa.Parameter); isP && !ok2 {
					// a helper that stores what it is given: every caller must hand it a fresh container
					all, any := true, false
					for _, g := range c.P.allFuncs("memdb") {
						for _, bb := range g.Blocks {
							for _, ii := range bb.Instrs {
								if cc, isC := ii.(*ssa.Call); isC && callee(cc) == fn {
									for pi, fp := range fn.Params {
										if fp == prm && pi < len(cc.Call.Args) {
											any = true
											if !c.freshValue(cc.Call.Args[pi], 0, map[ssa.Value]bool{}) {
												// a move through the helper: what is handed in was read under a key that the
												// helper itself removes (moveValue(m, from, to, value) deletes `from`)
												moved := false
												if src, unknown := c.getOrigins(cc.Call.Args[pi]); !unknown && len(src) > 0 {
													moved = true
													dels := c.dbDeleterParams(fn, 0)
													for _, sk := range src {
														found := false
														for _, di := range dels {
															if di < len(cc.Call.Args) && canon(cc.Call.Args[di]) == sk {
																found = true
															}
														}
														if !found {
															moved = false
														}
													}
												}
												if !moved {
													all = false
												}
											}
										}
									}
								}
							}
						}
					}
					if all && any {
						ok2 = true
					} else {
						why = "a caller passes a container that is not provably fresh to this storing helper"
					}
				}
				if !ok2 {
					src, unknownOrigin := c.getOrigins(val)
					if unknownOrigin {
						src = nil
						why = "stored container may be an existing object of unknown origin (a callee returns a non-fresh value on some path)"
					}
					allSame := len(src) > 0
					for _, sk := range src {
						if sk != k {
							allSame = false
						}
					}
					if allSame {
						ok2 = true
					} else if len(src) > 0 {
						// moved: the source key is deleted on every path before this Set
						moved := true
						for _, sk := range src {
							if sk == k {
								continue
							}
							del := false
							for d := b; d != nil && !del; d = d.Idom() {
								for _, x := range d.Instrs {
									if x == in && d == b {
										break
									}
									if dc, ok := x.(*ssa.Call); ok {
										if da := c.keyspaceAccess(dc); da != nil && da.Map == "db" && da.Method == "Delete" && canon(da.Key) == sk {
											del = true
										}
										// a helper that removes the key it is given on every path (dropKey(m, key))
										if cf := callee(dc); cf != nil && firstParty(cf) {
											for _, pi := range c.dbDeleterParams(cf, 0) {
												if pi < len(dc.Call.Args) && canon(dc.Call.Args[pi]) == sk {
													del = true
												}
											}
										}
									}
								}
							}
							if !del {
								moved = false
								why = "the object also stays reachable under " + sk
							}
						}
						ok2 = moved
					}
				}
				con := "container stored under " + k + " is not shared with another key"
				ord[con]++
				if ord[con] > 1 {
					con = fmt.Sprintf("%s#%d", con, ord[con])
				}
				c.Add("R26", fnName(fn), con, ci.Pos(), ok2, why)
			}
		}
	}
	c.Count("R26_container_stores", n)
	c.Min("R26_container_stores", 15)
}}

// R27: an error reply implies that nothing was mutated.
var rR27 = RuleRef{Name: "R27", Doc: "rejected commands change nothing: on every feasible path of an executor that returns an error reply, no keyspace write (db.Set/Delete, TTL update) and no mutator call on a stored container has happened since entry. Paths are tracked one by one; a path on which a freshly created container fails its own type test is infeasible; a mutator whose own failure status selects the error return is trusted not to have mutated, and that contract is checked inside the container methods (a method returning an error / false has stored nothing on that path)", Run: func(c *C) {
	setTTL, delTTL := c.P.Func("memdb", "MemDb.SetTTL"), c.P.Func("memdb", "MemDb.DelTTL")
	n := 0
	signalled := map[*ssa.Function]bool{}
	for _, fn := range c.Facts.SortedExecutors() {
		callSite := map[string]*ssa.Call{}
		tr1 := func(in ssa.Instruction, s Set) Set {
			ci, ok := in.(*ssa.Call)
			if !ok {
				return s
			}
			if a := c.keyspaceAccess(ci); a != nil && a.Write {
				s["M|"+c.pos(ci.Pos())+" "+a.Map+"."+a.Method] = true
				return s
			}
			cf := callee(ci)
			if cf == nil {
				return s
			}
			if cf == setTTL || cf == delTTL {
				s["M|"+c.pos(ci.Pos())+" "+cf.Name()] = true
				return s
			}
			if firstParty(cf) {
				for j, arg := range ci.Call.Args {
					if _, isCont := c.containerType(arg.Type()); isCont && c.mutates(cf, j) {
						if ks, _ := c.originKeys(arg); len(ks) > 0 {
							k := "M|" + c.pos(ci.Pos()) + " " + cf.Name()
							s[k] = true
							callSite[k] = ci
						}
					}
				}
			}
			return s
		}
		tr := func(in ssa.Instruction, states Set) (Set, bool) {
			if noReturnCall(in) {
				return nil, true
			}
			out := Set{}
			for e := range states {
				out[encState(tr1(in, decState(e)))] = true
			}
			return collapse(out), false
		}
		edgeGen := func(from, to *ssa.BasicBlock, states Set) Set {
			out := Set{}
			cond, neg, hasCond := branchCond(from, to)
			for e := range states {
				s := decState(e)
				// remember which phi edges carry a freshly created container
				for _, in := range to.Instrs {
					phi, ok := in.(*ssa.Phi)
					if !ok {
						break
					}
					for i, p := range to.Preds {
						if p != from {
							continue
						}
						delete(s, "FRESH|"+phi.Name())
						v := phi.Edges[i]
						if mi, ok := v.(*ssa.MakeInterface); ok {
							v = mi.X
						}
						if c.freshValue(v, 0, map[ssa.Value]bool{}) {
							s["FRESH|"+phi.Name()+"|"+v.Type().String()] = true
						}
					}
				}
				infeasible := false
				if hasCond {
					// comma-ok type test of a fresh value of that very type cannot fail
					if ex, ok := cond.(*ssa.Extract); ok && ex.Index == 1 {
						if ta, ok := ex.Tuple.(*ssa.TypeAssert); ok && ta.CommaOk && neg {
							if phi, ok := ta.X.(*ssa.Phi); ok && s["FRESH|"+phi.Name()+"|"+ta.AssertedType.String()] {
								infeasible = true
							}
						}
					}
					// callee-signalled failure: the mutator's own status selects this edge
					failVal := cond
					failEdge := neg // a plain bool: failure is the false edge
					if u, ok := cond.(*ssa.UnOp); ok && u.Op == token.NOT {
						failVal, failEdge = u.X, !neg
					}
					if bo, ok := cond.(*ssa.BinOp); ok {
						switch {
						case (bo.Op == token.NEQ || bo.Op == token.EQL) && (isNilConst(bo.X) || isNilConst(bo.Y)):
							failVal = bo.X
							if isNilConst(bo.X) {
								failVal = bo.Y
							}
							failEdge = (bo.Op == token.NEQ) != neg
						case (bo.Op == token.NEQ || bo.Op == token.EQL) && (isZeroInt(bo.X) || isZeroInt(bo.Y)):
							// a count of changes: zero is the failure status
							failVal = bo.X
							if isZeroInt(bo.X) {
								failVal = bo.Y
							}
							failEdge = (bo.Op == token.EQL) != neg
						default:
							failEdge = false
						}
					}
					if failEdge {
						backslice(failVal, func(v ssa.Value) bool {
							if call, ok := v.(*ssa.Call); ok {
								for k, site := range callSite {
									if site == call && s[k] {
										delete(s, k)
										signalled[callee(call)] = true
									}
								}
								return false
							}
							return true
						})
					}
				}
				if !infeasible {
					out[encState(s)] = true
				}
			}
			return collapse(out)
		}
		fl := &Flow{Fn: fn, Must: false, Entry: Set{"": true}, Transfer: tr, EdgeGen: edgeGen}
		fl.Run()
		var bad []string
		badKind := map[string][]string{}
		for _, b := range fn.Blocks {
			if len(b.Instrs) == 0 {
				continue
			}
			ret, ok := b.Instrs[len(b.Instrs)-1].(*ssa.Return)
			if !ok {
				continue
			}
			isErr := false
			for _, v := range returnedValues(ret) {
				if isErrorReply(v) {
					isErr = true
				}
			}
			if !isErr {
				continue
			}
			st, live := fl.Before(ret)
			if !live {
				continue
			}
			descr := "a computed text"
			for _, v := range returnedValues(ret) {
				if isErrorReply(v) {
					descr = errReplyDescr(v)
				}
			}
			// the call whose status selects this return names it better than its text
			if len(b.Preds) == 1 {
				if iff, ok := b.Preds[0].Instrs[len(b.Preds[0].Instrs)-1].(*ssa.If); ok {
					backslice(iff.Cond, func(x ssa.Value) bool {
						if c2, ok := x.(*ssa.Call); ok {
							if cf := c2.Call.StaticCallee(); cf != nil {
								descr = "decided by " + cf.Name()
							}
							return false
						}
						return true
					})
				}
			}
			for e := range st {
				for f := range decState(e) {
					if strings.HasPrefix(f, "M|") {
						kind := f[strings.LastIndex(f, " ")+1:] + " before the error reply " + descr
						badKind[kind] = append(badKind[kind], "error return at "+c.pos(ret.Pos())+" after "+f[2:])
					}
				}
			}
		}
		n++
		_ = bad
		if len(badKind) == 0 {
			c.Add("R27", fnName(fn), "an error reply is returned only when nothing was changed", fn.Pos(), true, "")
		}
		for kind, bs := range badKind {
			c.Add("R27", fnName(fn), "no "+kind, fn.Pos(), false, strings.Join(uniq(bs), "; "))
		}
	}
	c.Count("R27_executors", n)
	c.Min("R27_executors", 70)
	// contract of mutators that signal failure: nothing stored on a failing path
	for fn := range signalled {
		if fn == nil || fn.Blocks == nil {
			continue
		}
		tr := func(in ssa.Instruction, s Set) (Set, bool) {
			switch x := in.(type) {
			case *ssa.Store:
				if r := rootOf(x.Addr); r == 0 || r == -1 {
					s["W|"+c.pos(x.Pos())] = true
				}
			case *ssa.MapUpdate:
				if r := rootOf(x.Map); r == 0 || r == -1 {
					s["W|"+c.pos(x.Pos())] = true
				}
			case *ssa.Call:
				if cf := callee(x); cf != nil && firstParty(cf) {
					for j := range x.Call.Args {
						if r := rootOf(x.Call.Args[j]); c.mutates(cf, j) && (r == 0 || r == -1) {
							s["W|"+c.pos(x.Pos())] = true
						}
					}
				}
			}
			return s, false
		}
		fl := &Flow{Fn: fn, Must: false, Entry: Set{}, Transfer: tr}
		fl.Run()
		var bad []string
		for _, b := range fn.Blocks {
			if len(b.Instrs) == 0 {
				continue
			}
			ret, ok := b.Instrs[len(b.Instrs)-1].(*ssa.Return)
			if !ok || len(ret.Results) == 0 {
				continue
			}
			rr := retResults(ret)
			failing := false
			for _, last := range rr[len(rr)-1] {
				if isErrorType(ret.Results[len(ret.Results)-1].Type()) {
					if !isNilConst(last) {
						failing = true
					}
				} else if cst, ok := last.(*ssa.Const); ok && cst.Value != nil && cst.Value.ExactString() == "false" {
					failing = true
				}
			}
			if !failing {
				continue
			}
			if s, live := fl.Before(ret); live && len(s) > 0 {
				bad = append(bad, "failing return at "+c.pos(ret.Pos())+" after a store at "+strings.Join(s.Sorted(), ", "))
			}
		}
		c.Add("R27", fnName(fn), "a mutator that reports failure has stored nothing on that path", fn.Pos(), len(bad) == 0, strings.Join(bad, "; "))
	}
}}

// R9k: KEYS returns only keys that passed the matcher with the client's pattern.
var rR9k = RuleRef{Name: "R9k", Doc: "KEYS: every key placed in the reply passed util.PattenMatch called with the pattern argument unchanged and that same key (no matcher bypass, no rewritten pattern)", Run: func(c *C) {
	fn := c.Facts.Executors["keys"]
	pm := c.P.Func("util", "PattenMatch")
	mk := c.P.Func("resp", "MakeBulkData")
	if fn == nil || pm == nil || mk == nil {
		c.Undecided("R9k", "anchors keys executor / util.PattenMatch / resp.MakeBulkData")
		return
	}
	of := c.orderFlow(fn, nil, true, "T|call:PattenMatch", "C|Keys", "C|KeyVals")
	n := 0
	// every non-error reply is computed from the keyspace: no shortcut answers for "hopeless" patterns
	for _, b := range fn.Blocks {
		if len(b.Instrs) == 0 {
			continue
		}
		ret, ok := b.Instrs[len(b.Instrs)-1].(*ssa.Return)
		if !ok || len(ret.Results) == 0 {
			continue
		}
		isErr := true
		for _, rv := range retResults(ret)[0] {
			maker := ""
			backslice(rv, func(v ssa.Value) bool {
				if call, ok := v.(*ssa.Call); ok {
					if maker == "" {
						maker = callName(call)
					}
					return false
				}
				return true
			})
			if !strings.HasPrefix(maker, "MakeError") && !strings.HasPrefix(maker, "MakeWrongType") {
				isErr = false
			}
		}
		if isErr {
			continue
		}
		states, live := of.States(ret)
		okAll := live
		for _, st := range states {
			if !st["C|Keys"] && !st["C|KeyVals"] {
				okAll = false
			}
		}
		c.Add("R9k", fnName(fn), "a non-error reply is returned only after the keyspace was enumerated", ret.Pos(), okAll, "a path answers without looking at the keys (a pattern judged hopeless by some other test than the matcher)")
	}
	for _, b := range fn.Blocks {
		for _, in := range b.Instrs {
			call, ok := in.(*ssa.Call)
			if !ok {
				continue
			}
			switch callee(call) {
			case pm:
				good, why := identitySlice(call.Call.Args[0], true)
				isArg := strings.HasPrefix(canon(call.Call.Args[0]), "conv(cmd[")
				c.Add("R9k", fnName(fn), "the matcher receives the pattern argument unchanged", call.Pos(), good && isArg, "pattern "+canon(call.Call.Args[0])+" "+why)
			case mk:
				n++
				states, live := of.States(call)
				okAll := live
				for _, st := range states {
					if !st["T|call:PattenMatch"] {
						okAll = false
					}
				}
				c.Add("R9k", fnName(fn), "a key is returned only on the success edge of PattenMatch", call.Pos(), okAll, "a path reaches the reply construction without a successful match")
			}
		}
	}
	c.Count("R9k_reply_sites", n)
	c.Min("R9k_reply_sites", 1)
}}

// R14b: no blocking operation while any memdb lock class is held.
var rR14b = RuleRef{Name: "R14b", Doc: "no blocking under a table lock: no channel operation, select, sleep or network write (directly or in a callee) while Chan.rw, ChanMap.rw, a map shard lock or Stream.lock is held — a stalled subscriber must not block publishers or subscribers of other channels", Run: func(c *C) {
	la := c.lockAn()
	subsIdle := c.listSubscriptionsNeverPopulated()
	blk := c.summarise(func(fn *ssa.Function, in ssa.Instruction) []string {
		if snd, ok := in.(*ssa.Send); ok && subsIdle && sendOnListSubscription(snd) {
			return nil
		}
		if b := blockingOp(in); b != "" {
			return []string{b + " in " + fnName(fn)}
		}
		return nil
	})
	n := 0
	for _, fn := range c.P.allFuncs("memdb") {
		lf := la.flow(fn)
		var bad []string
		has := false
		for _, b := range fn.Blocks {
			for _, in := range b.Instrs {
				bop := blockingOp(in)
				var bsum []string
				if ci, ok := in.(ssa.CallInstruction); ok && bop == "" {
					if _, isGo := in.(*ssa.Go); !isGo {
						if _, isDefer := in.(*ssa.Defer); !isDefer {
							if cf := callee(ci); cf != nil {
								s := blk[cf]
								if s == nil {
									s = blk[origin(cf)]
								}
								bsum = s.Sorted()
							}
						}
					}
				}
				if bop == "" && len(bsum) == 0 {
					continue
				}
				for _, h := range lf.MayHeld(in) {
					if h.Class == "stripe" {
						continue // R14o
					}
					has = true
					what := bop
					if what == "" {
						what = "callee may block (" + strings.Join(bsum, ", ") + ")"
					}
					bad = append(bad, fmt.Sprintf("%s: %s while holding %s %s", c.pos(in.Pos()), what, h.Class, h.Mode))
				}
			}
		}
		held := false
		for _, b := range fn.Blocks {
			for _, in := range b.Instrs {
				if ci, ok := in.(ssa.CallInstruction); ok {
					if e := c.classifyLock(ci); e != nil && e.Class != "stripe" && e.Acquire {
						held = true
					}
				}
			}
		}
		if held || has {
			n++
			c.Add("R14b", fnName(fn), "no blocking operation while a table lock is held", fn.Pos(), len(bad) == 0, strings.Join(uniq(bad), "; "))
		}
	}
	c.Count("R14b_functions_with_table_locks", n)
	c.Min("R14b_functions_with_table_locks", 8)
}}

// R10b: what is proposed to raft is a fresh encoding.
var rR10b = RuleRef{Name: "R10b", Doc: "the bytes handed to Node.Propose are a fresh encoding of the proposal (raft keeps the slice in its log, WAL queue and messages): they must not come from a reused bytes.Buffer or a sync.Pool", Run: func(c *C) {
	n := 0
	for _, fn := range c.P.allFuncs("raftexample", "server") {
		for _, b := range fn.Blocks {
			for _, in := range b.Instrs {
				ci, ok := in.(ssa.CallInstruction)
				if !ok || callName(ci) != "Propose" || len(ci.Common().Args) < 2 {
					continue
				}
				n++
				data := ci.Common().Args[len(ci.Common().Args)-1]
				reused := ""
				seen := map[ssa.Value]bool{}
				var walk func(v ssa.Value, d int)
				walk = func(v ssa.Value, d int) {
					if seen[v] || d > 10 {
						return
					}
					seen[v] = true
					if call, ok := v.(*ssa.Call); ok {
						if cf := call.Call.StaticCallee(); cf != nil {
							switch cf.String() {
							case "(*bytes.Buffer).Bytes", "(*sync.Pool).Get", "(*bytes.Buffer).Next":
								reused = cf.String() + " at " + c.pos(call.Pos())
							}
						}
						return
					}
					if x, ok := v.(ssa.Instruction); ok {
						for _, op := range x.Operands(nil) {
							if *op != nil {
								walk(*op, d+1)
							}
						}
					}
				}
				walk(data, 0)
				c.Add("R10b", fnName(fn), "proposed bytes are a fresh encoding", in.Pos(), reused == "", "the proposed slice aliases a reusable buffer: "+reused)
			}
		}
	}
	c.Count("R10b_propose_sites", n)
	c.Min("R10b_propose_sites", 1)
}}

// R23: who may call the dispatchers.
var rR23 = RuleRef{Name: "R23", Doc: "single path into the state machine in cluster mode: the cluster connection handler reaches a command dispatcher only in the configuration-change (rconf) arm, every other command leaves through the proposal channel; executors are invoked only at the dispatcher sites; the apply loop is started by exactly one go statement", Run: func(c *C) {
	var hc *ssa.Function
	for _, h := range c.connHandlers() {
		if sendsProposal(h) {
			hc = h
		}
	}
	if hc == nil {
		c.Undecided("R23", "the cluster connection handler (the one that sends RaftProposals)")
		return
	}
	of := c.orderFlow(hc, nil, true, "T|cmp:*", "T|call:*")
	// boolean predicates that answer true for the configuration-change command and for nothing else they test
	confPred := map[string]bool{}
	for _, fn := range helperScope(hc, 2) {
		cs := predicateConsts(fn)
		if len(cs) == 1 && cs[0] == "rconf" {
			if v, known := predicateTrue(fn, "rconf"); known && v {
				confPred["T|call:"+fn.Name()] = true
			}
		}
	}
	nd := 0
	for _, b := range hc.Blocks {
		for _, in := range b.Instrs {
			call, ok := in.(*ssa.Call)
			if !ok {
				continue
			}
			cf := callee(call)
			isDisp := false
			for _, d := range c.Facts.Dispatchers {
				if cf != nil && (d.Parent() == cf || (firstParty(cf) && pkgRel(cf) == "server" && callsTransitively(cf, d.Parent(), 0))) {
					isDisp = true
				}
			}
			if !isDisp {
				continue
			}
			nd++
			states, live := of.States(call)
			okAll := live
			for _, st := range states {
				found := false
				for f := range st {
					if strings.HasPrefix(f, "T|cmp:") && strings.Contains(f, "rconf") && strings.Contains(f, "==") {
						found = true
					}
					if confPred[f] {
						found = true
					}
				}
				if !found {
					okAll = false
				}
			}
			c.Add("R23", fnName(hc), "local dispatch only in the rconf arm", call.Pos(), okAll, "a command is executed on the connection goroutine instead of being proposed to the log")
		}
	}
	c.Count("R23_local_dispatch_sites", nd)
	// executors are only ever called through dispatcher sites or by sibling executors
	var stray []string
	execs := map[*ssa.Function]bool{}
	for fn := range c.Facts.ExecNames {
		execs[fn] = true
	}
	for _, fn := range c.P.allFuncs(firstPartyPkgs...) {
		for _, b := range fn.Blocks {
			for _, in := range b.Instrs {
				if ci, ok := in.(ssa.CallInstruction); ok {
					if cf := callee(ci); cf != nil && execs[cf] && !execs[fn] && pkgRel(fn) != "memdb" {
						stray = append(stray, c.pos(in.Pos())+" "+fnName(fn)+" calls "+cf.Name())
					}
				}
			}
		}
	}
	c.Add("R23", "first-party", "executors are invoked only through the dispatcher table", token.NoPos, len(stray) == 0, strings.Join(stray, "; "))
	// the apply loop is started exactly once
	ap := c.applyLoop()
	starts := 0
	var others []string
	for _, fn := range c.P.allFuncs(firstPartyPkgs...) {
		for _, b := range fn.Blocks {
			for _, in := range b.Instrs {
				if ci, ok := in.(ssa.CallInstruction); ok && callee(ci) == ap && ap != nil {
					if _, isGo := in.(*ssa.Go); isGo {
						starts++
					} else {
						others = append(others, c.pos(in.Pos()))
					}
				}
			}
		}
	}
	c.Add("R23", "server", "the apply loop is started by exactly one go statement", token.NoPos, starts == 1 && len(others) == 0, fmt.Sprintf("go statements: %d, other calls: %v", starts, others))
}}

// R20s: SELECT accepts exactly the configured indexes; cluster mode forces one database.
var rR20s = RuleRef{Name: "R20s", Doc: "database selection: the selection store is dominated by both range tests, the upper test compares the index with exactly len(DBs) (so every configured index is accepted and no other), the indexed slice is the Manager's database table; in cluster mode the cluster configuration, which forces a single database, is applied after the server config file", Run: func(c *C) {
	sel := c.P.Func("server", "Manager.Select")
	if sel == nil {
		c.Undecided("R20s", "anchor (*Manager).Select")
		return
	}
	nStore := 0
	// the selection store: wherever (in Select or a helper it delegates to) an element of a database table is stored
	// into the connection state
	isManagerTable := func(fn *ssa.Function, base ssa.Value) bool {
		if strings.HasSuffix(canon(base), ".DBs") {
			return true
		}
		prm, ok := base.(*ssa.Parameter)
		if !ok {
			return false
		}
		pi := -1
		for i, q := range fn.Params {
			if q == prm {
				pi = i
			}
		}
		sites := 0
		for _, g := range c.P.allFuncs("server") {
			for _, b := range g.Blocks {
				for _, in := range b.Instrs {
					if ci, ok := in.(ssa.CallInstruction); ok && callee(ci) == fn && pi >= 0 && pi < len(ci.Common().Args) {
						sites++
						if !strings.HasSuffix(canon(ci.Common().Args[pi]), ".DBs") {
							return false
						}
					}
				}
			}
		}
		return sites > 0
	}
	judge := func(sel *ssa.Function, ia *ssa.IndexAddr, val ssa.Value, at ssa.Instruction) {
		p := c.newProver(sel)
		nStore++
		if !isManagerTable(sel, ia.X) {
			c.Add("R20s", fnName(sel), "the selected database is an element of the Manager's table", at.Pos(), false, "stored value "+canon(val))
			return
		}
		idx := p.lin(ia.Index)
		ln := p.lenOf(ia.X)
		inRange := p.ProveLE(lt{"0", 0}, idx, 0, at) && p.ProveLE(idx, ln, -1, at)
		c.Add("R20s", fnName(sel), "selection store dominated by 0 <= idx < len(DBs)", at.Pos(), inRange, "index "+canon(ia.Index))
		// exactness: what is known about idx at the store is no more than 0 <= idx <= len-1 (a test that rejects a
		// configured index would make a tighter bound provable here)
		exactHi := !p.ProveLE(idx, ln, -2, at)
		exactLo := !p.ProveLE(lt{"0", 0}, idx, -1, at)
		c.Add("R20s", fnName(sel), "the range test rejects exactly idx >= len(DBs) and idx < 0", at.Pos(), exactHi && exactLo, fmt.Sprintf("upper test exact=%v lower test exact=%v", exactHi, exactLo))
	}
	elemOf := func(v ssa.Value) *ssa.IndexAddr {
		if u, ok := v.(*ssa.UnOp); ok && u.Op == token.MUL {
			if ia, ok := u.X.(*ssa.IndexAddr); ok {
				return ia
			}
		}
		return nil
	}
	for _, sel := range c.P.allFuncs("server") {
		for _, b := range sel.Blocks {
			for _, in := range b.Instrs {
				st, ok := in.(*ssa.Store)
				if !ok {
					continue
				}
				fa, ok := st.Addr.(*ssa.FieldAddr)
				if !ok || namedOf(fa.X.Type()) != "connState" {
					continue
				}
				// the stored db is m.DBs[idx]
				if ia := elemOf(st.Val); ia != nil {
					judge(sel, ia, st.Val, st)
					continue
				}
				// a setter of the connection state (st.use(db)): the stored value is judged where the setter is called
				if prm, isP := st.Val.(*ssa.Parameter); isP && namedOf(prm.Type()) == "MemDb" {
					pi := -1
					for i, q := range sel.Params {
						if q == prm {
							pi = i
						}
					}
					for _, g := range c.P.allFuncs("server") {
						for _, gb := range g.Blocks {
							for _, gi := range gb.Instrs {
								ci, ok := gi.(ssa.CallInstruction)
								if !ok || callee(ci) != sel || pi < 0 || pi >= len(ci.Common().Args) {
									continue
								}
								if ia := elemOf(ci.Common().Args[pi]); ia != nil {
									judge(g, ia, ci.Common().Args[pi], gi)
								}
								// any other argument is a default database handed to a constructor: R20i / R20o
							}
						}
					}
					continue
				}
				if sel.Name() == "Select" {
					nStore++
					c.Add("R20s", fnName(sel), "the selected database is an element of the Manager's table", st.Pos(), false, "stored value "+canon(st.Val))
				}
				// otherwise a constructor storing the default database: R20i / R20o
			}
		}
	}
	c.Count("R20s_selection_stores", nStore)
	c.Min("R20s_selection_stores", 1)
	// config: cluster json (forces Databases = 1) after the config file
	setup := c.P.Func("config", "Setup")
	pcj := c.P.Func("config", "Config.ParseConfigJson")
	if setup == nil || pcj == nil {
		c.Undecided("R20s", "anchors config.Setup / (*Config).ParseConfigJson")
		return
	}
	forces := false
	for _, b := range pcj.Blocks {
		for _, in := range b.Instrs {
			if st, ok := in.(*ssa.Store); ok {
				if fa, ok := st.Addr.(*ssa.FieldAddr); ok && fieldName(fa) == "Databases" {
					if k, ok := constInt(st.Val); ok && k == 1 {
						forces = true
					}
				}
			}
		}
	}
	c.Add("R20s", fnName(pcj), "cluster configuration forces a single database", pcj.Pos(), forces, "Databases must be set to 1 in cluster mode: the apply loop has one selection for all clients")
	// ... on every successful path, and unconditionally (a configured count must not survive into cluster mode)
	{
		fl := &Flow{Fn: pcj, Must: true, Entry: Set{}, EdgeOK: func(from, to *ssa.BasicBlock) bool { return !IsErrEdge(from, to) },
			Transfer: func(in ssa.Instruction, s Set) (Set, bool) {
				if noReturnCall(in) {
					return nil, true
				}
				if st, ok := in.(*ssa.Store); ok {
					if fa, ok := st.Addr.(*ssa.FieldAddr); ok && fieldName(fa) == "Databases" {
						if k, ok := constInt(st.Val); ok && k == 1 {
							s["one"] = true
						} else {
							delete(s, "one")
						}
					}
				}
				return s, false
			}}
		fl.Run()
		all, nret := true, 0
		for _, b := range pcj.Blocks {
			for _, in := range b.Instrs {
				if ret, ok := in.(*ssa.Return); ok {
					if s, live := fl.Before(ret); live {
						nret++
						if !s["one"] {
							all = false
						}
					}
				}
			}
		}
		c.Add("R20s", fnName(pcj), "every successful return of the cluster configuration leaves Databases == 1", pcj.Pos(), all && nret > 0, "a path applies the cluster configuration and keeps another database count: SELECT would then be accepted, and in cluster mode the selection is one state shared by all clients")
	}
	for _, b := range setup.Blocks {
		for _, in := range b.Instrs {
			if ci, ok := in.(*ssa.Call); ok && callee(ci) == pcj {
				later := reachesBefore(ci, func(x ssa.Instruction) bool {
					if cc, ok := x.(ssa.CallInstruction); ok && callName(cc) == "Parse" {
						if cf := callee(cc); cf != nil && pkgRel(cf) == "config" {
							return true
						}
					}
					if st, ok := x.(*ssa.Store); ok {
						if fa, ok := st.Addr.(*ssa.FieldAddr); ok && fieldName(fa) == "Databases" {
							return true
						}
					}
					return false
				}, nil)
				c.Add("R20s", fnName(setup), "nothing overrides Databases after the cluster configuration was applied", ci.Pos(), !later, "the config file is parsed (or Databases is assigned) after ParseConfigJson")
			}
		}
	}
}}

// R9n: payload copies keep an empty value non-nil.
func nilBaseAppend(v ssa.Value) string {
	bad := ""
	backslice(v, func(x ssa.Value) bool {
		if ap, ok := isAppend(x); ok {
			if isNilConst(ap.Call.Args[0]) {
				bad = "append onto a nil slice yields nil for an empty payload (encoded as a null bulk instead of an empty string)"
			}
		}
		_, isCall := x.(*ssa.Call)
		if isCall {
			_, isApp := isAppend(x)
			return isApp
		}
		return true
	})
	return bad
}

// getOrigins: the keys whose db.Get result the value may be (through phis, extracts, type assertions and local cells);
// unknown is set when some path yields a non-fresh value of another provenance (parameter, callee result that is not fresh...).
func (c *C) getOrigins(v ssa.Value) (keys []string, unknown bool) {
	seen := map[ssa.Value]bool{}
	ks := map[string]bool{}
	var walk func(v ssa.Value)
	walk = func(v ssa.Value) {
		if v == nil || seen[v] {
			return
		}
		seen[v] = true
		switch x := v.(type) {
		case *ssa.Phi:
			for _, e := range x.Edges {
				walk(e)
			}
		case *ssa.Extract:
			walk(x.Tuple)
		case *ssa.TypeAssert:
			walk(x.X)
		case *ssa.ChangeInterface:
			walk(x.X)
		case *ssa.MakeInterface:
			walk(x.X)
		case *ssa.Const:
		case *ssa.UnOp:
			if al, ok := x.X.(*ssa.Alloc); ok && x.Op == token.MUL {
				for _, r := range *al.Referrers() {
					if st, ok := r.(*ssa.Store); ok && st.Addr == al {
						walk(st.Val)
					}
				}
				return
			}
			unknown = true
		case *ssa.Call:
			if a := c.keyspaceAccess(x); a != nil && a.Map == "db" && a.Method == "Get" {
				ks[canon(a.Key)] = true
				return
			}
			if !c.freshValue(x, 0, map[ssa.Value]bool{}) {
				unknown = true
			}
		case *ssa.Alloc:
		default:
			unknown = true
		}
	}
	walk(v)
	for k := range ks {
		keys = append(keys, k)
	}
	return
}

func isZeroInt(v ssa.Value) bool {
	k, ok := v.(*ssa.Const)
	if !ok || k.Value == nil {
		return false
	}
	if b, ok := k.Type().Underlying().(*types.Basic); !ok || b.Info()&types.IsInteger == 0 {
		return false
	}
	return k.Int64() == 0
}

// errReplyDescr names an error reply by what it says: its constant text, or whose error it carries.
func errReplyDescr(v ssa.Value) string {
	mi, ok := v.(*ssa.MakeInterface)
	if !ok {
		return "of a helper"
	}
	call, ok := mi.X.(*ssa.Call)
	if !ok || len(call.Call.Args) == 0 {
		return "a computed text"
	}
	arg := call.Call.Args[0]
	if sl, ok := arg.(*ssa.Slice); ok {
		// the variadic argument list: its first element
		if al, ok := sl.X.(*ssa.Alloc); ok && al.Referrers() != nil {
			for _, r := range *al.Referrers() {
				if ia, ok := r.(*ssa.IndexAddr); ok && ia.Referrers() != nil {
					if k, ok := ia.Index.(*ssa.Const); !ok || k.Int64() != 0 {
						continue
					}
					for _, rr := range *ia.Referrers() {
						if st, ok := rr.(*ssa.Store); ok && st.Addr == ssa.Value(ia) {
							arg = st.Val
						}
					}
				}
			}
		}
	}
	if k, ok := arg.(*ssa.Const); ok && k.Value != nil {
		t := strings.Trim(k.Value.ExactString(), "\"")
		if len(t) > 48 {
			t = t[:48]
		}
		return "'" + t + "'"
	}
	out := "a computed text"
	backslice(arg, func(x ssa.Value) bool {
		if c2, ok := x.(*ssa.Call); ok {
			if c2.Call.IsInvoke() && c2.Call.Method.Name() == "Error" {
				backslice(c2.Call.Value, func(y ssa.Value) bool {
					if c3, ok := y.(*ssa.Call); ok {
						if cf := c3.Call.StaticCallee(); cf != nil {
							out = "carrying the error of " + cf.Name()
						}
						return false
					}
					return true
				})
				return false
			}
		}
		return true
	})
	return out
}

// dbDeleterParams: the key parameters of fn that fn removes from the keyspace on every path to a return
// (db.Delete(param) in the entry block's dominator chain of every return, directly or through such a helper).
func (c *C) dbDeleterParams(fn *ssa.Function, depth int) []int {
	if fn == nil || fn.Blocks == nil || depth > 2 {
		return nil
	}
	var out []int
	for pi, p := range fn.Params {
		if bt, ok := p.Type().Underlying().(*types.Basic); !ok || bt.Info()&types.IsString == 0 {
			continue
		}
		all, any := true, false
		for _, b := range fn.Blocks {
			if _, isRet := b.Instrs[len(b.Instrs)-1].(*ssa.Return); !isRet {
				continue
			}
			any = true
			found := false
			for d := b; d != nil && !found; d = d.Idom() {
				for _, in := range d.Instrs {
					call, ok := in.(*ssa.Call)
					if !ok {
						continue
					}
					if a := c.keyspaceAccess(call); a != nil && a.Map == "db" && a.Method == "Delete" && a.Key == ssa.Value(p) {
						found = true
					} else if cf := callee(call); cf != nil && firstParty(cf) && cf != fn {
						for _, qi := range c.dbDeleterParams(cf, depth+1) {
							if qi < len(call.Call.Args) && call.Call.Args[qi] == ssa.Value(p) {
								found = true
							}
						}
					}
				}
			}
			if !found {
				all = false
			}
		}
		if all && any {
			out = append(out, pi)
		}
	}
	return out
}

// branchFactsOf: the equality facts (value compared with a constant, and the outcome) that hold whenever block b runs:
// the single-predecessor edges on its dominator chain.
func branchFactsOf(b *ssa.BasicBlock) map[string]bool {
	out := map[string]bool{}
	for d := b; d != nil && d.Idom() != nil; d = d.Idom() {
		id := d.Idom()
		if len(d.Preds) != 1 || d.Preds[0] != id {
			continue
		}
		cond, neg, ok := branchCond(id, d)
		if !ok {
			continue
		}
		truth := !neg
		for {
			u, isNot := cond.(*ssa.UnOp)
			if !isNot || u.Op != token.NOT {
				break
			}
			cond, truth = u.X, !truth
		}
		bo, isBo := cond.(*ssa.BinOp)
		if !isBo || (bo.Op != token.EQL && bo.Op != token.NEQ) {
			continue
		}
		var v ssa.Value
		var k *ssa.Const
		if kk, ok := bo.Y.(*ssa.Const); ok {
			v, k = bo.X, kk
		} else if kk, ok := bo.X.(*ssa.Const); ok {
			v, k = bo.Y, kk
		}
		if k == nil || k.Value == nil {
			continue
		}
		if bo.Op == token.NEQ {
			truth = !truth
		}
		key := v.Name() + "==" + k.Value.ExactString()
		if _, have := out[key]; !have {
			out[key] = truth
		}
	}
	return out
}

// edgeContradictsUse: the edge pred -> join cannot lie on a path to block use, because something that is known to hold
// at use (v == K) is known not to hold where the edge starts, or the other way round.
func edgeContradictsUse(pred, join, use *ssa.BasicBlock) bool {
	atUse := branchFactsOf(use)
	if len(atUse) == 0 {
		return false
	}
	atPred := branchFactsOf(pred)
	// the edge itself
	if cond, neg, ok := branchCond(pred, join); ok {
		if bo, isBo := cond.(*ssa.BinOp); isBo && (bo.Op == token.EQL || bo.Op == token.NEQ) {
			if k, ok := bo.Y.(*ssa.Const); ok && k.Value != nil {
				truth := !neg
				if bo.Op == token.NEQ {
					truth = !truth
				}
				atPred[bo.X.Name()+"=="+k.Value.ExactString()] = truth
			}
		}
	}
	for key, t := range atUse {
		if tp, have := atPred[key]; have && tp != t {
			return true
		}
	}
	// v == K1 at the edge and v == K2 (another constant) at the use
	for key, t := range atUse {
		if !t {
			continue
		}
		i := strings.Index(key, "==")
		for kp, tp := range atPred {
			if tp && kp != key && strings.HasPrefix(kp, key[:i+2]) {
				return true
			}
		}
	}
	return false
}
