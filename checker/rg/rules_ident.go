package rg

import (
	"fmt"
	"go/token"
	"go/types"
	"strings"

	"golang.org/x/tools/go/ssa"
)

// textTransformer reports library calls that alter text (case folding, trimming, replacing, splitting, joining).
func textTransformer(cf *ssa.Function) bool {
	if cf == nil || cf.Pkg == nil {
		return false
	}
	switch cf.Pkg.Pkg.Path() {
	case "strings", "bytes":
		n := cf.Name()
		for _, p := range []string{"ToLower", "ToUpper", "ToTitle", "Title", "Trim", "Replace", "Map", "Fields", "Split", "Join", "Repeat", "ToValidUTF8", "EqualFold"} {
			if strings.HasPrefix(n, p) && n != "EqualFold" {
				return true
			}
		}
	case "unicode":
		return strings.HasPrefix(cf.Name(), "To")
	case "fmt":
		return strings.HasPrefix(cf.Name(), "Sprint")
	case "strconv":
		return strings.HasPrefix(cf.Name(), "Quote") || strings.HasPrefix(cf.Name(), "Unquote")
	}
	return false
}

var identityDepth int

// identitySlice checks the backward slice of a key/member operand.
// strict: any call other than append/len/copy is reported; otherwise only text transformers and string concatenation.
func identitySlice(v ssa.Value, strict bool) (bool, string) {
	ok := true
	why := ""
	backslice(v, func(x ssa.Value) bool {
		if !ok {
			return false
		}
		switch y := x.(type) {
		case *ssa.Call:
			if b, isB := y.Call.Value.(*ssa.Builtin); isB {
				switch b.Name() {
				case "append", "len", "cap", "copy", "min", "max":
					return true
				}
				return false
			}
			cf := y.Call.StaticCallee()
			if textTransformer(cf) {
				ok, why = false, "passes through "+cf.String()
				return false
			}
			if cf != nil && cf.Signature.Recv() != nil {
				if n, ok := derefNamed(cf.Signature.Recv().Type()); ok && n.Obj().Name() == "ConcurrentMap" && (cf.Name() == "Keys" || cf.Name() == "KeyVals") {
					return false // keys enumerated from the keyspace itself
				}
			}
			// a first-party helper that hands one of its arguments through unchanged (key := keyOf(cmd))
			if cf != nil && firstParty(cf) && cf.Blocks != nil && identityDepth < 3 {
				identityDepth++
				allID := true
				for _, b := range cf.Blocks {
					for _, in := range b.Instrs {
						if ret, isRet := in.(*ssa.Return); isRet {
							for _, rv := range ret.Results {
								if bt, isB := rv.Type().Underlying().(*types.Basic); isB && bt.Info()&types.IsString == 0 {
									continue
								}
								if g, _ := identitySlice(rv, strict); !g {
									allID = false
								}
							}
						}
					}
				}
				identityDepth--
				if allID {
					if !returnsAParam(cf) {
						return false // what it returns comes out of its receiver (a container), not out of its arguments
					}
					return true // continue through the call's arguments
				}
			}
			if strict {
				name := "a dynamic call"
				if cf != nil {
					name = cf.String()
				}
				ok, why = false, "is the result of "+name
			}
			return false // do not look through other calls
		case *ssa.BinOp:
			if bt, isB := y.Type().Underlying().(*types.Basic); isB && bt.Info()&types.IsString != 0 && y.Op == token.ADD {
				ok, why = false, "is built by string concatenation"
				return false
			}
			return true
		}
		return true
	})
	return ok, why
}

var rR9 = RuleRef{Name: "R9", Doc: "key/argument identity: the key operand of every keyspace, TTL and stripe-lock call is the command argument converted to string and nothing else (no case folding, trimming, joining, formatting on the way); member/field/value operands handed to the container types and values stored with db.Set pass through no text transformer", Run: func(c *C) {
	setTTL, delTTL, checkTTL := c.P.Func("memdb", "MemDb.SetTTL"), c.P.Func("memdb", "MemDb.DelTTL"), c.P.Func("memdb", "MemDb.CheckTTL")
	nKey, nVal := 0, 0
	for _, fn := range c.P.allFuncs("memdb") {
		ord := map[string]int{}
		name := func(s string) string {
			ord[s]++
			if ord[s] > 1 {
				return fmt.Sprintf("%s#%d", s, ord[s])
			}
			return s
		}
		for _, b := range fn.Blocks {
			for _, in := range b.Instrs {
				ci, ok := in.(ssa.CallInstruction)
				if !ok {
					continue
				}
				cf := callee(ci)
				if cf == nil {
					continue
				}
				args := ci.Common().Args
				var key ssa.Value
				what := ""
				if a := c.keyspaceAccess(ci); a != nil {
					key, what = a.Key, a.Map+"."+a.Method
					if a.Map == "db" && a.Write && len(args) >= 3 {
						// stored value operand
						nVal++
						good, why := identitySlice(args[2], false)
						if nb := nilBaseAppend(args[2]); good && nb != "" {
							good, why = false, nb
						}
						c.Add("R9", fnName(fn), name("value stored by "+what), ci.Pos(), good, "stored value "+why)
					}
				} else if cf == setTTL || cf == delTTL || cf == checkTTL {
					key, what = args[1], cf.Name()
				} else if e := c.classifyLock(ci); e != nil && e.Class == "stripe" && !isMethodOf(fn, c.Facts.Locks) {
					key, what = args[1], "locks."+cf.Name()
				} else if cf.Signature.Recv() != nil && firstParty(cf) {
					// member/field/value operands of container methods
					if _, isCont := c.containerType(cf.Signature.Recv().Type()); isCont {
						for j := 1; j < len(args); j++ {
							t := args[j].Type().Underlying()
							isText := false
							if bt, ok := t.(*types.Basic); ok && bt.Info()&types.IsString != 0 {
								isText = true
							}
							if sl, ok := t.(*types.Slice); ok {
								if bt, ok := sl.Elem().Underlying().(*types.Basic); ok && (bt.Kind() == types.Byte || bt.Info()&types.IsString != 0) {
									isText = true
								}
							}
							if !isText {
								continue
							}
							if j < len(cf.Params) && modeParam(cf.Params[j]) {
								continue // a selector ("left"/"right") that the method only compares with constants: not payload
							}
							nVal++
							good, why := identitySlice(args[j], false)
							if nb := nilBaseAppend(args[j]); good && nb != "" {
								good, why = false, nb
							}
							c.Add("R9", fnName(fn), name("operand of "+cf.Name()), ci.Pos(), good, "member/field/value operand "+why)
						}
					}
					continue
				}
				if key == nil {
					continue
				}
				nKey++
				good, why := identitySlice(key, true)
				c.Add("R9", fnName(fn), name("key of "+what), ci.Pos(), good, "key "+canon(key)+" "+why)
			}
		}
	}
	c.Count("R9_key_operands", nKey)
	c.Count("R9_value_operands", nVal)
	c.Min("R9_key_operands", 300)
	c.Min("R9_value_operands", 60)
}}

// modeParam: the parameter is only ever compared with constants (a direction or mode selector, never stored or emitted).
func modeParam(p *ssa.Parameter) bool {
	if p.Referrers() == nil || len(*p.Referrers()) == 0 {
		return false
	}
	for _, r := range *p.Referrers() {
		switch x := r.(type) {
		case *ssa.DebugRef:
		case *ssa.BinOp:
			if x.Op != token.EQL && x.Op != token.NEQ {
				return false
			}
			_, cx := x.X.(*ssa.Const)
			_, cy := x.Y.(*ssa.Const)
			if !cx && !cy {
				return false
			}
		default:
			return false
		}
	}
	return true
}

// returnsAParam: some returned value of fn derives from one of its non-receiver parameters.
func returnsAParam(fn *ssa.Function) bool {
	found := false
	for _, b := range fn.Blocks {
		for _, in := range b.Instrs {
			ret, ok := in.(*ssa.Return)
			if !ok {
				continue
			}
			for _, rv := range ret.Results {
				backslice(rv, func(v ssa.Value) bool {
					if p, ok := v.(*ssa.Parameter); ok {
						if !(fn.Signature.Recv() != nil && len(fn.Params) > 0 && p == fn.Params[0]) && !modeParam(p) {
							found = true
						}
					}
					if _, isCall := v.(*ssa.Call); isCall {
						return false
					}
					return !found
				})
			}
		}
	}
	return found
}
