package rg

import (
	"fmt"
	"go/token"
	"go/types"
	"sort"
	"strings"

	"golang.org/x/tools/go/ssa"
)

// Set is a small string set used by the dataflow engine.
type Set map[string]bool

func (s Set) Clone() Set {
	n := make(Set, len(s))
	for k := range s {
		n[k] = true
	}
	return n
}

func (s Set) Sorted() []string {
	out := make([]string, 0, len(s))
	for k := range s {
		out = append(out, k)
	}
	sort.Strings(out)
	return out
}

func setEqual(a, b Set) bool {
	if len(a) != len(b) {
		return false
	}
	for k := range a {
		if !b[k] {
			return false
		}
	}
	return true
}

// Flow is a forward dataflow problem over one function's SSA CFG.
// Must=true: facts that hold on every path (intersection at joins); Must=false: union.
type Flow struct {
	Fn       *ssa.Function
	Must     bool
	Entry    Set
	Transfer func(in ssa.Instruction, s Set) (out Set, dead bool) // s may be mutated and returned
	EdgeOK   func(from, to *ssa.BasicBlock) bool                  // nil = all edges
	EdgeGen  func(from, to *ssa.BasicBlock, s Set) Set            // optional edge refinement (s may be mutated)
	in       map[*ssa.BasicBlock]Set
	live     map[*ssa.BasicBlock]bool
}

func (f *Flow) blockOut(b *ssa.BasicBlock, s Set) (Set, bool) {
	s = s.Clone()
	for _, in := range b.Instrs {
		var dead bool
		s, dead = f.Transfer(in, s)
		if dead {
			return nil, true
		}
	}
	return s, false
}

// Run solves the problem; In(b) is then the fact set at block entry (nil,false if unreachable).
func (f *Flow) Run() {
	f.in = map[*ssa.BasicBlock]Set{}
	f.live = map[*ssa.BasicBlock]bool{}
	if len(f.Fn.Blocks) == 0 {
		return
	}
	entry := f.Fn.Blocks[0]
	f.in[entry] = f.Entry.Clone()
	f.live[entry] = true
	work := []*ssa.BasicBlock{entry}
	inWork := map[*ssa.BasicBlock]bool{entry: true}
	iter := 0
	for len(work) > 0 {
		iter++
		if iter > 200000 {
			panic("dataflow did not converge in " + f.Fn.String())
		}
		b := work[0]
		work = work[1:]
		inWork[b] = false
		out, dead := f.blockOut(b, f.in[b])
		if dead {
			continue
		}
		for _, s := range b.Succs {
			if f.EdgeOK != nil && !f.EdgeOK(b, s) {
				continue
			}
			o := out
			if f.EdgeGen != nil {
				o = f.EdgeGen(b, s, out.Clone())
			}
			var n Set
			if !f.live[s] {
				n = o.Clone()
			} else if f.Must {
				n = Set{}
				for k := range f.in[s] {
					if o[k] {
						n[k] = true
					}
				}
			} else {
				n = f.in[s].Clone()
				for k := range o {
					n[k] = true
				}
			}
			if !f.live[s] || !setEqual(n, f.in[s]) {
				f.in[s] = n
				f.live[s] = true
				if !inWork[s] {
					work = append(work, s)
					inWork[s] = true
				}
			}
		}
	}
}

// Live reports whether block b is reachable in the (edge-filtered) graph.
func (f *Flow) Live(b *ssa.BasicBlock) bool { return f.live[b] }

// Before returns the fact set immediately before instruction at (b, idx). ok=false if unreachable.
func (f *Flow) Before(target ssa.Instruction) (Set, bool) {
	b := target.Block()
	if !f.live[b] {
		return nil, false
	}
	s := f.in[b].Clone()
	for _, in := range b.Instrs {
		if in == target {
			return s, true
		}
		var dead bool
		s, dead = f.Transfer(in, s)
		if dead {
			return nil, false
		}
	}
	return s, true
}

// ---------- edge classification ----------

func isNilConst(v ssa.Value) bool {
	c, ok := v.(*ssa.Const)
	return ok && c.Value == nil
}

func isErrorType(t types.Type) bool {
	n, ok := t.(*types.Named)
	return ok && n.Obj().Pkg() == nil && n.Obj().Name() == "error"
}

// branchCond returns (cond, negated) for the edge from->to if from ends in an If.
func branchCond(from, to *ssa.BasicBlock) (ssa.Value, bool, bool) {
	if len(from.Instrs) == 0 {
		return nil, false, false
	}
	iff, ok := from.Instrs[len(from.Instrs)-1].(*ssa.If)
	if !ok || len(from.Succs) != 2 {
		return nil, false, false
	}
	if from.Succs[0] == to && from.Succs[1] == to {
		return nil, false, false
	}
	if from.Succs[0] == to {
		return iff.Cond, false, true
	}
	return iff.Cond, true, true
}

// IsErrEdge: the edge taken when an error-typed value is non-nil.
func IsErrEdge(from, to *ssa.BasicBlock) bool {
	cond, neg, ok := branchCond(from, to)
	if !ok {
		return false
	}
	bo, ok := cond.(*ssa.BinOp)
	if !ok {
		return false
	}
	var x ssa.Value
	if isNilConst(bo.Y) {
		x = bo.X
	} else if isNilConst(bo.X) {
		x = bo.Y
	} else {
		return false
	}
	if !isErrorType(x.Type()) {
		return false
	}
	switch bo.Op {
	case token.NEQ:
		return !neg
	case token.EQL:
		return neg
	}
	return false
}

// noReturnCall reports calls that never return (process exit / panic helpers).
func noReturnCall(in ssa.Instruction) bool {
	ci, ok := in.(ssa.CallInstruction)
	if !ok {
		return false
	}
	if _, isGo := in.(*ssa.Go); isGo {
		return false
	}
	if _, isDefer := in.(*ssa.Defer); isDefer {
		return false
	}
	cc := ci.Common()
	if b, ok := cc.Value.(*ssa.Builtin); ok {
		return b.Name() == "panic"
	}
	name := ""
	var pkg string
	if cc.IsInvoke() {
		name = cc.Method.Name()
		if cc.Method.Pkg() != nil {
			pkg = cc.Method.Pkg().Path()
		}
		// raft.Logger / zap-like interfaces
		if strings.HasPrefix(name, "Panic") || strings.HasPrefix(name, "Fatal") {
			return pkg == "go.etcd.io/etcd/raft/v3" || strings.HasPrefix(pkg, "go.uber.org/zap")
		}
		return false
	}
	f := cc.StaticCallee()
	if f == nil {
		return false
	}
	name = f.Name()
	if f.Pkg != nil {
		pkg = f.Pkg.Pkg.Path()
	} else if f.Signature.Recv() != nil {
		if n, ok := derefNamed(f.Signature.Recv().Type()); ok && n.Obj().Pkg() != nil {
			pkg = n.Obj().Pkg().Path()
		}
	}
	switch pkg {
	case "os":
		return name == "Exit"
	case "log":
		return strings.HasPrefix(name, "Fatal") || strings.HasPrefix(name, "Panic")
	case "go.uber.org/zap":
		return strings.HasPrefix(name, "Fatal") || strings.HasPrefix(name, "Panic") || strings.HasPrefix(name, "DPanic")
	case "runtime":
		return name == "Goexit"
	}
	return false
}

func derefNamed(t types.Type) (*types.Named, bool) {
	if p, ok := t.(*types.Pointer); ok {
		t = p.Elem()
	}
	n, ok := t.(*types.Named)
	return n, ok
}

// ---------- canonical value naming ----------

// canon produces a structural name for an SSA value so that two syntactically separate
// evaluations of the same pure expression (string(cmd[1]) twice) compare equal.
func canon(v ssa.Value) string {
	return canonD(v, 0)
}

func canonD(v ssa.Value, d int) string {
	if d > 12 {
		return v.Name()
	}
	switch x := v.(type) {
	case *ssa.Const:
		if x.Value == nil {
			return "nil"
		}
		return x.Value.ExactString()
	case *ssa.Parameter:
		return paramCanon(x)
	case *ssa.FreeVar:
		return "free:" + x.Name()
	case *ssa.Convert:
		// string([]byte) / []byte(string) conversions keep identity of content
		return "conv(" + canonD(x.X, d+1) + ")"
	case *ssa.ChangeType:
		return canonD(x.X, d+1)
	case *ssa.UnOp:
		if x.Op == token.MUL {
			switch a := x.X.(type) {
			case *ssa.IndexAddr:
				return canonD(a.X, d+1) + "[" + canonD(a.Index, d+1) + "]"
			case *ssa.FieldAddr:
				return canonD(a.X, d+1) + "." + fieldName(a)
			case *ssa.Alloc:
				// a local variable cell (captured variable): if it is assigned exactly once its
				// identity is the stored value; otherwise the cell (not flow-sensitive)
				if sv := singleStore(a); sv != nil {
					return canonD(sv, d+1)
				}
				return "*" + a.Name()
			}
			return "*" + canonD(x.X, d+1)
		}
		return x.Op.String() + canonD(x.X, d+1)
	case *ssa.Index:
		return canonD(x.X, d+1) + "[" + canonD(x.Index, d+1) + "]"
	case *ssa.Lookup:
		return canonD(x.X, d+1) + "[" + canonD(x.Index, d+1) + "]"
	case *ssa.Slice:
		lo, hi := "", ""
		if x.Low != nil {
			lo = canonD(x.Low, d+1)
		}
		if x.High != nil {
			hi = canonD(x.High, d+1)
		}
		if lo == "" && hi == "" {
			if al, ok := x.X.(*ssa.Alloc); ok {
				return "lit#" + al.Name()
			}
		}
		return canonD(x.X, d+1) + "[" + lo + ":" + hi + "]"
	case *ssa.BinOp:
		return "(" + canonD(x.X, d+1) + x.Op.String() + canonD(x.Y, d+1) + ")"
	case *ssa.Extract:
		return canonD(x.Tuple, d+1) + "#" + fmt.Sprint(x.Index)
	case *ssa.Field:
		st, _ := x.X.Type().Underlying().(*types.Struct)
		n := "?"
		if st != nil {
			n = st.Field(x.Field).Name()
		}
		return canonD(x.X, d+1) + "." + n
	case *ssa.FieldAddr:
		return "&" + canonD(x.X, d+1) + "." + fieldName(x)
	}
	return v.Name()
}

// stripConv removes string/[]byte conversions and ChangeType wrappers.
func stripConv(v ssa.Value) ssa.Value {
	for {
		switch x := v.(type) {
		case *ssa.Convert:
			v = x.X
		case *ssa.ChangeType:
			v = x.X
		default:
			return v
		}
	}
}

// sliceLiteralElems: if v is a slice literal ([]T{a,b,...}) returns its element values.
func sliceLiteralElems(v ssa.Value) ([]ssa.Value, bool) {
	sl, ok := v.(*ssa.Slice)
	if !ok || sl.Low != nil {
		return nil, false
	}
	al, ok := sl.X.(*ssa.Alloc)
	if !ok {
		return nil, false
	}
	arr, ok := al.Type().Underlying().(*types.Pointer).Elem().Underlying().(*types.Array)
	if !ok {
		return nil, false
	}
	// make([]T, n) with a constant n is compiled as a whole-array slice with an explicit upper bound
	if sl.High != nil {
		if k, isK := constInt(sl.High); !isK || k != arr.Len() {
			return nil, false
		}
	}
	elems := make([]ssa.Value, arr.Len())
	refs := append([]ssa.Instruction(nil), *al.Referrers()...)
	if sl.Referrers() != nil {
		// keys := make([]string, 2); keys[0], keys[1] = a, b: the elements are stored through the slice
		refs = append(refs, *sl.Referrers()...)
	}
	for _, r := range refs {
		ia, ok := r.(*ssa.IndexAddr)
		if !ok {
			continue
		}
		idx, ok := constInt(ia.Index)
		if !ok || idx < 0 || idx >= arr.Len() {
			return nil, false
		}
		for _, rr := range *ia.Referrers() {
			if st, ok := rr.(*ssa.Store); ok && st.Addr == ia {
				elems[idx] = st.Val
			}
		}
	}
	for _, e := range elems {
		if e == nil {
			return nil, false
		}
	}
	return elems, true
}

// backslice walks the def-use chain backwards from v, calling visit on every value;
// visit returns false to stop descending through that value.
func backslice(v ssa.Value, visit func(ssa.Value) bool) {
	seen := map[ssa.Value]bool{}
	var walk func(ssa.Value)
	walk = func(v ssa.Value) {
		if v == nil || seen[v] {
			return
		}
		seen[v] = true
		if !visit(v) {
			return
		}
		if in, ok := v.(ssa.Instruction); ok {
			for _, op := range in.Operands(nil) {
				if *op != nil {
					walk(*op)
				}
			}
		}
	}
	walk(v)
}

// singleStore returns the only value ever stored into a local cell (including through closures), or nil.
func singleStore(al *ssa.Alloc) ssa.Value {
	var val ssa.Value
	n := 0
	if al.Referrers() == nil {
		return nil
	}
	for _, r := range *al.Referrers() {
		switch x := r.(type) {
		case *ssa.Store:
			if x.Addr == al {
				n++
				val = x.Val
			}
		case *ssa.MakeClosure:
			fn := x.Fn.(*ssa.Function)
			for i, b := range x.Bindings {
				if b != al || i >= len(fn.FreeVars) {
					continue
				}
				if fv := fn.FreeVars[i]; fv.Referrers() != nil {
					for _, rr := range *fv.Referrers() {
						if st, ok := rr.(*ssa.Store); ok && st.Addr == fv {
							n += 2
						}
						if _, ok := rr.(*ssa.MakeClosure); ok {
							n += 2 // re-captured: give up
						}
					}
				}
			}
		}
	}
	if n == 1 {
		return val
	}
	return nil
}

// paramCanon names a parameter independently of its source name: the receiver is "recv", an argument vector
// ([][]byte) is "cmd", every other parameter is "p<index>".
func paramCanon(x *ssa.Parameter) string {
	fn := x.Parent()
	if fn == nil {
		return x.Name()
	}
	if x.Type().String() == "[][]byte" {
		n := 0
		for _, p := range fn.Params {
			if p.Type().String() == "[][]byte" {
				n++
			}
		}
		if n == 1 {
			return "cmd"
		}
	}
	for i, p := range fn.Params {
		if p == x {
			if i == 0 && fn.Signature.Recv() != nil {
				return "recv"
			}
			return fmt.Sprintf("p%d", i)
		}
	}
	return x.Name()
}
