package rg

import (
	"fmt"
	"go/token"
	"os"
	"os/exec"
	"path/filepath"
	"sort"
	"strings"
	"time"

	"golang.org/x/tools/go/packages"
	"golang.org/x/tools/go/ssa"
	"golang.org/x/tools/go/ssa/ssautil"
)

const ModPath = "github.com/innovationb1ue/RedisGO"

// Program is the loaded, type-checked, SSA-built view of the repository.
type Program struct {
	Repo    string
	Work    string
	Fset    *token.FileSet
	Pkgs    []*packages.Package // roots (first-party)
	All     map[string]*packages.Package
	Prog    *ssa.Program
	SSA     map[string]*ssa.Package // by import path
	LoadS   float64
	SSAS    float64
	NumPkgs int
	Env     []string
}

// Pkg returns the ssa package for a first-party relative path ("memdb") or a full import path.
func (p *Program) Pkg(path string) *ssa.Package {
	if sp, ok := p.SSA[path]; ok {
		return sp
	}
	if sp, ok := p.SSA[ModPath+"/"+path]; ok {
		return sp
	}
	return nil
}

func copyFile(src, dst string) error {
	b, err := os.ReadFile(src)
	if err != nil {
		return err
	}
	return os.WriteFile(dst, b, 0o644)
}

// gitStatus returns `git status --porcelain` of repo, used to assert the analysis wrote nothing.
func gitStatus(repo string) string {
	cmd := exec.Command("git", "-C", repo, "status", "--porcelain")
	out, _ := cmd.Output()
	return string(out)
}

// Load loads ./... of the repository with full syntax and builds SSA.
func Load(repo string, extraPatterns ...string) (*Program, error) {
	t0 := time.Now()
	work := filepath.Join(os.Getenv("RG_WORK"), fmt.Sprintf("w%d", os.Getpid()))
	if os.Getenv("RG_WORK") == "" {
		work = filepath.Join("/verif/.work", fmt.Sprintf("w%d", os.Getpid()))
	}
	if err := os.MkdirAll(work, 0o755); err != nil {
		return nil, err
	}
	// alternate go.mod/go.sum so that -mod=mod never dirties the repository.
	// The alternate go.mod must sit in the module root for relative replace paths to resolve:
	// -modfile keeps the module root at the original go.mod's directory.
	if err := copyFile(filepath.Join(repo, "go.mod"), filepath.Join(work, "go.mod")); err != nil {
		return nil, err
	}
	if err := copyFile(filepath.Join(repo, "go.sum"), filepath.Join(work, "go.sum")); err != nil {
		return nil, err
	}
	env := []string{}
	for _, e := range os.Environ() {
		if strings.HasPrefix(e, "GOFLAGS=") || strings.HasPrefix(e, "GOWORK=") || strings.HasPrefix(e, "GOPROXY=") ||
			strings.HasPrefix(e, "GOSUMDB=") || strings.HasPrefix(e, "GOTOOLCHAIN=") || strings.HasPrefix(e, "GOOS=") || strings.HasPrefix(e, "GOARCH=") {
			continue
		}
		env = append(env, e)
	}
	env = append(env, "GOFLAGS=-mod=mod -modfile="+filepath.Join(work, "go.mod"), "GOWORK=off", "GOPROXY=off", "GOSUMDB=off", "GOTOOLCHAIN=local", "GOOS=linux", "GOARCH=amd64")
	cfg := &packages.Config{
		Mode:  packages.LoadAllSyntax,
		Dir:   repo,
		Env:   env,
		Tests: false,
	}
	patterns := append([]string{"./..."}, extraPatterns...)
	pkgs, err := packages.Load(cfg, patterns...)
	if err != nil {
		return nil, err
	}
	p := &Program{Repo: repo, Work: work, Pkgs: pkgs, All: map[string]*packages.Package{}, SSA: map[string]*ssa.Package{}, Env: env}
	var errs []string
	packages.Visit(pkgs, nil, func(pk *packages.Package) {
		p.All[pk.PkgPath] = pk
		for _, e := range pk.Errors {
			errs = append(errs, pk.PkgPath+": "+e.Error())
		}
	})
	if len(errs) > 0 {
		sort.Strings(errs)
		if len(errs) > 10 {
			errs = errs[:10]
		}
		return p, fmt.Errorf("type/load errors: %s", strings.Join(errs, "; "))
	}
	p.NumPkgs = len(p.All)
	if len(pkgs) > 0 {
		p.Fset = pkgs[0].Fset
	}
	p.LoadS = time.Since(t0).Seconds()
	t1 := time.Now()
	prog, _ := ssautil.AllPackages(pkgs, ssa.InstantiateGenerics)
	prog.Build()
	p.Prog = prog
	for _, sp := range prog.AllPackages() {
		p.SSA[sp.Pkg.Path()] = sp
	}
	p.SSAS = time.Since(t1).Seconds()
	return p, nil
}

func (p *Program) Cleanup() {
	if p != nil && p.Work != "" {
		os.RemoveAll(p.Work)
	}
}

// Pos formats a position relative to the repository root.
func (p *Program) Pos(pos token.Pos) string {
	if !pos.IsValid() {
		return "-"
	}
	ps := p.Fset.Position(pos)
	rel, err := filepath.Rel(p.Repo, ps.Filename)
	if err != nil || strings.HasPrefix(rel, "..") {
		rel = ps.Filename
	}
	return fmt.Sprintf("%s:%d:%d", rel, ps.Line, ps.Column)
}
