package rg

import (
	"fmt"
	"go/constant"
	"go/token"
	"go/types"
	"os"
	"sort"
	"strings"

	"golang.org/x/tools/go/ssa"
)

// Prover B: a demand-driven difference-constraint prover over the SSA form of one function.
// Facts have the form  a - b <= c  over nodes: "0", "v:<ssa name>", "len:<canon of slice/string>".

type lt struct {
	n string
	k int64
}

type dfact struct {
	a, b string
	c    int64
}

func (f dfact) String() string { return fmt.Sprintf("%s - %s <= %d", f.a, f.b, f.c) }

type dneq struct {
	a, b string
	c    int64
}

type bprover struct {
	c       *C
	fn      *ssa.Function
	vals    map[string]ssa.Value
	entry   []dfact
	stack   map[string]bool
	inTrans bool
	budget  int
	why     string
	inBound bool
	repMemo map[ssa.Value]ssa.Value
	// parity of len(parameter) established at every call site (a helper that walks its argument list in pairs)
	entryPar map[string]int
	// while a goal about the results of a call is being proved inside the callee: what the caller knows about them
	callerFacts []dfact
	callerCall  *ssa.Call
	intParam    map[string]int
}

func isSignedInt(t types.Type) bool {
	b, ok := t.Underlying().(*types.Basic)
	if !ok {
		return false
	}
	return b.Info()&types.IsInteger != 0 && b.Info()&types.IsUnsigned == 0
}

func intWidth(t types.Type) int {
	b, ok := t.Underlying().(*types.Basic)
	if !ok {
		return 0
	}
	switch b.Kind() {
	case types.Int8, types.Uint8:
		return 8
	case types.Int16, types.Uint16:
		return 16
	case types.Int32, types.Uint32:
		return 32
	case types.Int, types.Int64, types.Uint, types.Uint64, types.Uintptr, types.UntypedInt:
		return 64
	}
	return 0
}

func lenNode(x ssa.Value) string { return "len:" + canon(x) }

// lenOf returns the linear term for len(x), resolving make([]T, n) to n.
func (p *bprover) lenOf(x ssa.Value) lt {
	if ms, ok := x.(*ssa.MakeSlice); ok {
		return p.lin(ms.Len)
	}
	// len(s[:h]) is h, len(s[k:h]) is h-k for a constant k: name the bound itself, so that what is known about it
	// (a phi, a comparison) applies to the length directly
	if sl, ok := x.(*ssa.Slice); ok && sl.High != nil {
		if sl.Low == nil {
			return p.lin(sl.High)
		}
		if k, ok := constInt(sl.Low); ok && k >= 0 {
			h := p.lin(sl.High)
			return lt{h.n, h.k - k}
		}
	}
	if c, isC := x.(*ssa.Const); isC {
		if s, ok := constString(c); ok {
			return lt{"0", int64(len(s))}
		}
	}
	n := lenNode(x)
	p.vals[n] = x
	return lt{n, 0}
}

// lin expresses an integer SSA value as node + constant.
func (p *bprover) lin(v ssa.Value) lt {
	for depth := 0; depth < 20; depth++ {
		switch x := v.(type) {
		case *ssa.Const:
			if k, ok := constInt(x); ok {
				return lt{"0", k}
			}
		case *ssa.Call:
			if b, ok := x.Call.Value.(*ssa.Builtin); ok && b.Name() == "len" {
				return p.lenOf(x.Call.Args[0])
			}
			// s.size(): an accessor that returns len(receiver.field)
			if f, ok := thinLenGetter(x.Call.StaticCallee()); ok && len(x.Call.Args) == 1 {
				return lt{"len:" + canon(x.Call.Args[0]) + "." + f, 0}
			}
		case *ssa.BinOp:
			if x.Op == token.ADD || x.Op == token.SUB {
				if k, ok := constInt(x.Y); ok {
					in := p.lin(x.X)
					if x.Op == token.SUB {
						k = -k
					}
					return lt{in.n, in.k + k}
				}
				if k, ok := constInt(x.X); ok && x.Op == token.ADD {
					in := p.lin(x.Y)
					return lt{in.n, in.k + k}
				}
			}
		case *ssa.Convert:
			// value-preserving integer conversions
			from, to := x.X.Type(), x.Type()
			if isSignedInt(from) && isSignedInt(to) && intWidth(to) >= intWidth(from) {
				v = x.X
				continue
			}
		case *ssa.ChangeType:
			v = x.X
			continue
		case *ssa.UnOp:
			// a load of a struct field: identify it with the earliest dominating load of the same field address
			// when nothing in between can change the field (no store to that field name, no call)
			if x.Op == token.MUL {
				// a variable that lives in a cell because a closure reads it, assigned once before the closure exists
				if al, ok := x.X.(*ssa.Alloc); ok {
					if sv, ok := singleStoreCell(al, x); ok {
						v = sv
						continue
					}
				}
				if fa, ok := x.X.(*ssa.FieldAddr); ok {
					if rep := p.fieldLoadRep(x, fa); rep != nil {
						n := "v:" + rep.Name()
						p.vals[n] = rep
						return lt{n, 0}
					}
				}
			}
		}
		break
	}
	n := "v:" + v.Name()
	p.vals[n] = v
	return lt{n, 0}
}

// condFacts translates a branch condition (taken when neg is false) into facts.
func (p *bprover) condFacts(cond ssa.Value, neg bool) (fs []dfact, ns []dneq, par map[string]int) {
	par = map[string]int{}
	if u, ok := cond.(*ssa.UnOp); ok && u.Op == token.NOT {
		return p.condFacts(u.X, !neg)
	}
	bo, ok := cond.(*ssa.BinOp)
	if !ok {
		// a boolean that cannot change between two tests of it -- a boolean parameter, or a field of a record that was
		// handed in by value (op.withAmount) -- is a 0/1 quantity named by what it is: a second test of it on the other
		// side contradicts the first, which rules out the corresponding way into a join
		if name, ok := stableBool(cond); ok {
			n := "v:bool:" + name
			if neg {
				fs = append(fs, dfact{n, "0", 0}) // n <= 0
			} else {
				fs = append(fs, dfact{"0", n, -1}) // n >= 1
			}
		}
		// if !inRange(i, n) { return }: what a small predicate over integers says about them when it answers this way
		if call, isCall := cond.(*ssa.Call); isCall && isBoolType(call.Type()) && !call.Call.IsInvoke() {
			if cf := call.Call.StaticCallee(); cf != nil && firstParty(cf) && cf.Blocks != nil && len(cf.Blocks) <= 10 && cf.Signature.Results().Len() == 1 {
				for i, a := range call.Call.Args {
					if i >= len(cf.Params) || !isSignedInt(a.Type()) {
						continue
					}
					la := p.lin(a)
					if p.c.paramRelWhen(cf, -2, i, !neg, 0) { // 0 <= a
						fs = append(fs, dfact{"0", la.n, la.k})
					}
					for j, b := range call.Call.Args {
						if j == i || j >= len(cf.Params) || !isSignedInt(b.Type()) {
							continue
						}
						lb := p.lin(b)
						for _, off := range []int64{-1, 0} {
							if p.c.paramRelWhen(cf, i, j, !neg, off) { // a - b <= off
								fs = append(fs, dfact{la.n, lb.n, off - la.k + lb.k})
								break
							}
						}
					}
				}
			}
		}
		// if tooShort(msg) { return }: what a small predicate over a slice or string says about its length when it answers
		// this way (the bound is looked for among the small constants such predicates compare with)
		if call, isCall := cond.(*ssa.Call); isCall && isBoolType(call.Type()) && !call.Call.IsInvoke() {
			if cf := call.Call.StaticCallee(); cf != nil && firstParty(cf) && cf.Blocks != nil && len(cf.Blocks) <= 8 {
				for j, arg := range call.Call.Args {
					if j >= len(cf.Params) {
						break
					}
					switch arg.Type().Underlying().(type) {
					case *types.Slice:
					case *types.Basic:
						if !isStringType(arg.Type()) {
							continue
						}
					default:
						continue
					}
					l := p.lenOf(arg)
					for _, L := range []int64{4, 3, 2, 1} {
						if p.c.lenBoundWhen(cf, j, L, !neg, true) {
							fs = append(fs, dfact{"0", l.n, l.k - L}) // len >= L
							break
						}
					}
					for _, U := range []int64{0, 1, 2, 3} {
						if p.c.lenBoundWhen(cf, j, U, !neg, false) {
							fs = append(fs, dfact{l.n, "0", U - l.k}) // len <= U
							break
						}
					}
				}
			}
		}
		// (first, last, ok := window(..); if ok { .. }): what the helper guarantees about its integer results, one against
		// another and against the integers it was given, on the returns that hand back this truth value
		if ex, isEx := cond.(*ssa.Extract); isEx && isBoolType(ex.Type()) {
			if call, isCall := ex.Tuple.(*ssa.Call); isCall && call.Referrers() != nil {
				if cf := call.Call.StaticCallee(); cf != nil && firstParty(cf) && cf.Blocks != nil && !call.Call.IsInvoke() {
					var ints []*ssa.Extract
					for _, r := range *call.Referrers() {
						if o, ok := r.(*ssa.Extract); ok && isSignedInt(o.Type()) {
							ints = append(ints, o)
						}
					}
					node := func(o *ssa.Extract) string {
						n := "v:" + o.Name()
						p.vals[n] = o
						return n
					}
					for _, a := range ints {
						// a range check inside the helper: the number handed back with this verdict is bounded
						const big = int64(1) << 62
						if p.c.resultRelWhenX(cf, a.Index, -2, -1, ex.Index, !neg, false, big) {
							fs = append(fs, dfact{node(a), "0", big})
						}
						if p.c.resultRelWhenX(cf, -2, a.Index, -1, ex.Index, !neg, false, big) {
							fs = append(fs, dfact{"0", node(a), big})
						}
						if p.c.resultRelWhenX(cf, -2, a.Index, -1, ex.Index, !neg, false, 0) {
							fs = append(fs, dfact{"0", node(a), 0})
						}
						for _, b := range ints {
							if a != b && p.c.resultRelWhen(cf, a.Index, b.Index, -1, ex.Index, !neg) {
								fs = append(fs, dfact{node(a), node(b), 0})
							}
						}
						for j, arg := range call.Call.Args {
							if j >= len(cf.Params) || !isSignedInt(arg.Type()) {
								continue
							}
							if p.c.resultRelWhen(cf, a.Index, -1, j, ex.Index, !neg) {
								l := p.lin(arg)
								fs = append(fs, dfact{node(a), l.n, l.k})
							}
							if p.c.resultRelWhen(cf, -1, a.Index, j, ex.Index, !neg) {
								l := p.lin(arg)
								fs = append(fs, dfact{l.n, node(a), -l.k})
							}
						}
					}
				}
			}
		}
		return
	}
	// n, errReply := parseIndex(arg, size); if errReply != nil { return errReply }: on the nil side, what the helper
	// guarantees about its integer results on the returns that hand back nil
	if bo.Op == token.EQL || bo.Op == token.NEQ {
		var gx ssa.Value
		if isNilConst(bo.Y) {
			gx = bo.X
		} else if isNilConst(bo.X) {
			gx = bo.Y
		}
		if ex, ok := gx.(*ssa.Extract); ok && (bo.Op == token.EQL) != neg {
			if call, ok := ex.Tuple.(*ssa.Call); ok && call.Referrers() != nil && !call.Call.IsInvoke() {
				if cf := call.Call.StaticCallee(); cf != nil && firstParty(cf) && cf.Blocks != nil {
					for _, r := range *call.Referrers() {
						a, ok := r.(*ssa.Extract)
						if !ok || !isSignedInt(a.Type()) {
							continue
						}
						an := "v:" + a.Name()
						p.vals[an] = a
						if p.c.resultRelWhenX(cf, -2, a.Index, -1, ex.Index, true, true, 0) { // 0 <= a
							fs = append(fs, dfact{"0", an, 0})
						}
						const big = int64(1) << 62
						if p.c.resultRelWhenX(cf, a.Index, -2, -1, ex.Index, true, true, big) {
							fs = append(fs, dfact{an, "0", big})
						}
						if p.c.resultRelWhenX(cf, -2, a.Index, -1, ex.Index, true, true, big) {
							fs = append(fs, dfact{"0", an, big})
						}
						for j, arg := range call.Call.Args {
							if j >= len(cf.Params) || !isSignedInt(arg.Type()) {
								continue
							}
							l := p.lin(arg)
							for _, off := range []int64{-1, 0} {
								if p.c.resultRelWhenX(cf, a.Index, -1, j, ex.Index, true, true, off) { // a - arg <= off
									fs = append(fs, dfact{an, l.n, off + l.k})
									break
								}
							}
						}
					}
				}
			}
		}
	}
	// parity tests: (x & 1) ==/!= k , (x % 2) ==/!= k
	if bo.Op == token.EQL || bo.Op == token.NEQ {
		for _, pair := range [][2]ssa.Value{{bo.X, bo.Y}, {bo.Y, bo.X}} {
			in, isB := pair[0].(*ssa.BinOp)
			k, isK := constInt(pair[1])
			if !isB || !isK || (k != 0 && k != 1) {
				continue
			}
			m, isM := constInt(in.Y)
			if !isM || !((in.Op == token.AND && m == 1) || (in.Op == token.REM && m == 2)) {
				continue
			}
			eq := (bo.Op == token.EQL) != neg
			l := p.lin(in.X)
			pv := int(k)
			if !eq {
				pv = 1 - pv
			}
			par[l.n] = (pv + int(((l.k%2)+2)%2)) % 2 // parity of node = parity(value) - offset
			return
		}
	}
	if !isIntType(bo.X.Type()) || !isIntType(bo.Y.Type()) {
		return
	}
	if !isSignedInt(bo.X.Type()) || !isSignedInt(bo.Y.Type()) {
		// unsigned comparisons: only trust them between non-negative-by-type operands for < <= (no wraparound in lin since we do not fold unsigned arithmetic)
		if _, isBin := bo.X.(*ssa.BinOp); isBin {
			return
		}
		if _, isBin := bo.Y.(*ssa.BinOp); isBin {
			return
		}
	}
	x, y := p.lin(bo.X), p.lin(bo.Y)
	op := bo.Op
	if neg {
		switch op {
		case token.LSS:
			op = token.GEQ
		case token.LEQ:
			op = token.GTR
		case token.GTR:
			op = token.LEQ
		case token.GEQ:
			op = token.LSS
		case token.EQL:
			op = token.NEQ
		case token.NEQ:
			op = token.EQL
		}
	}
	// x.n + x.k  op  y.n + y.k
	d := y.k - x.k
	switch op {
	case token.LSS:
		fs = append(fs, dfact{x.n, y.n, d - 1})
	case token.LEQ:
		fs = append(fs, dfact{x.n, y.n, d})
	case token.GTR:
		fs = append(fs, dfact{y.n, x.n, -d - 1})
	case token.GEQ:
		fs = append(fs, dfact{y.n, x.n, -d})
	case token.EQL:
		fs = append(fs, dfact{x.n, y.n, d}, dfact{y.n, x.n, -d})
	case token.NEQ:
		ns = append(ns, dneq{x.n, y.n, d})
	}
	return
}

type factSet struct {
	fs  []dfact
	ns  []dneq
	par map[string]int
}

func (s *factSet) add(fs []dfact, ns []dneq, par map[string]int) {
	s.fs = append(s.fs, fs...)
	s.ns = append(s.ns, ns...)
	for k, v := range par {
		s.par[k] = v
	}
}

// edgeFacts: facts of the CFG edge from->to.
func (p *bprover) edgeFacts(from, to *ssa.BasicBlock, s *factSet) {
	if cond, neg, ok := branchCond(from, to); ok {
		s.add(p.condFacts(cond, neg))
		p.mapRangeFacts(cond, from, s, neg)
		p.boolPhiFacts(cond, neg, s, 0)
	}
}

// boolPhiFacts: a branch on a boolean phi (the value form of a || b and a && b): when only one incoming edge of the phi
// can produce the truth value the branch requires (the others carry the opposite constant), the branch was reached
// through that edge, so its operand has that truth value and the conditions on the way to that predecessor hold.
func (p *bprover) boolPhiFacts(cond ssa.Value, neg bool, s *factSet, depth int) {
	for {
		u, isNot := cond.(*ssa.UnOp)
		if !isNot || u.Op != token.NOT {
			break
		}
		cond, neg = u.X, !neg
	}
	phi, ok := cond.(*ssa.Phi)
	if !ok || depth > 3 || !isBoolType(phi.Type()) {
		return
	}
	want := !neg
	cand := -1
	for i, e := range phi.Edges {
		if k, isC := e.(*ssa.Const); isC && k.Value != nil {
			if (k.Value.ExactString() == "true") != want {
				continue
			}
		}
		if cand >= 0 {
			return // more than one way to get this truth value
		}
		cand = i
	}
	if cand < 0 {
		return
	}
	e := phi.Edges[cand]
	if phi.Block().Dominates(phi.Block().Preds[cand]) {
		// a flag carried round a loop: the edge it came in over belongs to an earlier iteration, whose conditions speak
		// about that iteration's values of the loop variables, not about the ones in force now
		return
	}
	if _, isC := e.(*ssa.Const); !isC {
		s.add(p.condFacts(e, neg))
		p.boolPhiFacts(e, neg, s, depth+1)
	}
	stop := phi.Block().Idom()
	for x := phi.Block().Preds[cand]; x != nil && x != stop; x = x.Idom() {
		if len(x.Preds) == 1 {
			p.edgeFacts(x.Preds[0], x, s)
		}
	}
}

// mapRangeFacts: inside the body of `for k := range m` (the edge taken when the iterator yields an element) a counter of
// the loop header that starts at the constant c0 and grows by one per iteration at most is below c0 + len(m): a map
// that is not modified by the loop yields each key once, so at most len(m)-1 iterations were completed before this one.
func (p *bprover) mapRangeFacts(cond ssa.Value, header *ssa.BasicBlock, s *factSet, exit bool) {
	ex, ok := cond.(*ssa.Extract)
	if !ok || ex.Index != 0 {
		return
	}
	nx, ok := ex.Tuple.(*ssa.Next)
	if !ok || nx.Block() != header {
		return
	}
	rg, ok := nx.Iter.(*ssa.Range)
	if !ok {
		return
	}
	if _, isMap := rg.X.Type().Underlying().(*types.Map); !isMap {
		return
	}
	// the loop: blocks dominated by the header that can reach it again
	loops := naturalLoops(header.Parent())
	body := loops[header]
	if body == nil {
		return
	}
	for b := range body {
		for _, in := range b.Instrs {
			switch x := in.(type) {
			case *ssa.MapUpdate:
				if canon(x.Map) == canon(rg.X) {
					return
				}
			case *ssa.Call:
				if bi, ok := x.Call.Value.(*ssa.Builtin); ok && (bi.Name() == "delete" || bi.Name() == "clear") && len(x.Call.Args) > 0 && canon(x.Call.Args[0]) == canon(rg.X) {
					return
				}
			}
		}
	}
	ln := "len:" + canon(rg.X)
	p.vals[ln] = rg.X
	if exit {
		// behind the loop: a slice that starts empty and gets exactly one element per iteration has one per key
		for _, in := range header.Instrs {
			phi, ok := in.(*ssa.Phi)
			if !ok {
				break
			}
			if _, isSl := phi.Type().Underlying().(*types.Slice); !isSl {
				continue
			}
			good, have := true, false
			for i, pred := range header.Preds {
				e := phi.Edges[i]
				if body[pred] {
					ap, ok := e.(*ssa.Call)
					if !ok {
						good = false
						break
					}
					app, isApp := isAppend(ap)
					if !isApp || app.Call.Args[0] != ssa.Value(phi) {
						good = false
						break
					}
					if elems, ok := sliceLiteralElems(app.Call.Args[1]); !ok || len(elems) != 1 {
						good = false
						break
					}
					continue
				}
				switch y := e.(type) {
				case *ssa.MakeSlice:
					if k, ok := constInt(y.Len); !ok || k != 0 {
						good = false
					}
				case *ssa.Const:
					if y.Value != nil {
						good = false
					}
				default:
					good = false
				}
				have = true
			}
			if good && have {
				sl := lenNode(phi)
				p.vals[sl] = phi
				s.fs = append(s.fs, dfact{sl, ln, 0}, dfact{ln, sl, 0})
			}
		}
		return
	}
	for _, in := range header.Instrs {
		phi, ok := in.(*ssa.Phi)
		if !ok {
			break
		}
		if !isIntType(phi.Type()) {
			continue
		}
		c0, have, good := int64(0), false, true
		for i, pred := range header.Preds {
			e := phi.Edges[i]
			if body[pred] {
				if e == ssa.Value(phi) {
					continue
				}
				bo, ok := e.(*ssa.BinOp)
				if !ok || bo.Op != token.ADD || bo.X != ssa.Value(phi) {
					good = false
					break
				}
				if k, ok := constInt(bo.Y); !ok || k != 1 {
					good = false
					break
				}
				continue
			}
			k, ok := constInt(e)
			if !ok || (have && k != c0) {
				good = false
				break
			}
			c0, have = k, true
		}
		if good && have {
			s.fs = append(s.fs, dfact{"v:" + phi.Name(), ln, c0 - 1})
		}
	}
}

// chainFacts collects the conditions of all dominating single-predecessor edges above block b (inclusive).
func (p *bprover) chainFacts(b *ssa.BasicBlock, s *factSet) {
	for x := b; x != nil; x = x.Idom() {
		if len(x.Preds) == 1 {
			p.edgeFacts(x.Preds[0], x, s)
		}
	}
}

func nonNegByType(v ssa.Value) bool {
	if cv, ok := v.(*ssa.Convert); ok {
		if b, ok := cv.X.Type().Underlying().(*types.Basic); ok && b.Info()&types.IsUnsigned != 0 && intWidth(cv.X.Type()) < 64 && intWidth(cv.Type()) == 64 {
			return true
		}
	}
	return false
}

// nonNegValue: the integer value is >= 0 by construction (coinductive over phi cycles, so monotone
// induction variables that start at a non-negative constant and only grow are recognised).
func nonNegValue(v ssa.Value, seen map[ssa.Value]bool, depth int) bool {
	if depth > 12 {
		return false
	}
	if seen[v] {
		return true
	}
	switch x := v.(type) {
	case *ssa.Const:
		k, ok := constInt(x)
		return ok && k >= 0
	case *ssa.Parameter:
		return paramNonNegHook != nil && paramNonNegHook(x)
	case *ssa.Extract:
		if call, ok := x.Tuple.(*ssa.Call); ok {
			return nonNegFuncIdx(call.Call.StaticCallee(), x.Index, depth+1)
		}
		return false
	case *ssa.Convert:
		if nonNegByType(x) {
			return true
		}
		if isSignedInt(x.X.Type()) && isSignedInt(x.Type()) && intWidth(x.Type()) >= intWidth(x.X.Type()) {
			return nonNegValue(x.X, seen, depth+1)
		}
		return false
	case *ssa.Phi:
		seen[x] = true
		for _, e := range x.Edges {
			if !nonNegValue(e, seen, depth+1) {
				delete(seen, x)
				return false
			}
		}
		return true
	case *ssa.BinOp:
		switch x.Op {
		case token.ADD:
			return nonNegValue(x.X, seen, depth+1) && nonNegValue(x.Y, seen, depth+1)
		case token.REM:
			return nonNegValue(x.X, seen, depth+1)
		case token.AND:
			return nonNegValue(x.X, seen, depth+1) || nonNegValue(x.Y, seen, depth+1)
		case token.MUL, token.QUO, token.SHR:
			return nonNegValue(x.X, seen, depth+1) && nonNegValue(x.Y, seen, depth+1)
		}
		return false
	case *ssa.Call:
		if b, ok := x.Call.Value.(*ssa.Builtin); ok {
			return b.Name() == "len" || b.Name() == "cap" || b.Name() == "copy"
		}
		if cf := x.Call.StaticCallee(); cf != nil && cf.Pkg != nil && cf.Pkg.Pkg.Path() == "sync/atomic" && strings.HasPrefix(cf.Name(), "Load") && len(x.Call.Args) == 1 {
			if fa, ok := x.Call.Args[0].(*ssa.FieldAddr); ok {
				return sizeField(fa)
			}
		}
		return nonNegFunc(x.Call.StaticCallee(), depth+1)
	case *ssa.UnOp:
		if fa, ok := x.X.(*ssa.FieldAddr); ok && x.Op == token.MUL {
			if sizeField(fa) {
				return true
			}
			// an index kept in a field of a first-party record (scan.shortest): non-negative if every value the package
			// ever stores into that field is, the field is never written whole-record-wise with something unknown, and its
			// address goes nowhere else (the zero value of a fresh record is fine)
			if pt, ok := fa.X.Type().Underlying().(*types.Pointer); ok && depth < 3 {
				if st, ok := pt.Elem().Underlying().(*types.Struct); ok && fa.Field < st.NumFields() && firstPartyType(pt.Elem()) && isIntType(st.Field(fa.Field).Type()) {
					fs := storesIntoField(st.Field(fa.Field), x.Parent())
					// (copies of whole records carry the invariant along: every record of the type got its field from one
					// of these stores or from the zero value)
					if !fs.escapes && len(fs.vals) > 0 {
						all := true
						for _, sv := range fs.vals {
							if nonNegValue(sv, seen, depth+1) {
								continue
							}
							// otherwise ask the prover of the storing function, at the store
							proved := false
							if proveNonNegHook != nil && sv.Referrers() != nil {
								for _, r := range *sv.Referrers() {
									if stI, ok := r.(*ssa.Store); ok && stI.Val == sv {
										if _, isFA := stI.Addr.(*ssa.FieldAddr); isFA && proveNonNegHook(sv, stI) {
											proved = true
										}
									}
								}
							}
							if !proved {
								all = false
								break
							}
						}
						if all {
							return true
						}
					}
				}
			}
			// a field of a local record that was assigned the result of a helper as a whole
			if al, ok := fa.X.(*ssa.Alloc); ok && al.Referrers() != nil {
				any := false
				for _, r := range *al.Referrers() {
					if st, ok := r.(*ssa.Store); ok && st.Addr == ssa.Value(al) {
						srcs := structFieldSources(st.Val, fa.Field)
						if len(srcs) == 0 {
							return false
						}
						for _, sv := range srcs {
							any = true
							if !nonNegValue(sv, seen, depth+1) {
								return false
							}
						}
					}
					if f2, ok := r.(*ssa.FieldAddr); ok && f2 != fa && f2.Field == fa.Field {
						return false // the field is also written piecemeal: not handled
					}
				}
				return any
			}
		}
	case *ssa.Field:
		// field k of a record returned by a first-party helper: every value the helper stores there
		srcs := structFieldSources(x.X, x.Field)
		if len(srcs) == 0 {
			return false
		}
		for _, sv := range srcs {
			if !nonNegValue(sv, seen, depth+1) {
				return false
			}
		}
		return true
	}
	return false
}

// sizeFields: element counters of the container types. They are non-negative because they mirror the number of
// elements held; the bookkeeping itself is the subject of the named rule, not of the bounds prover.
var sizeFields = map[string]string{
	"List.Len":            "R20a (every link-in/detach is paired with a Len update)",
	"Btree.len":           "R20t (size updated once per insert/delete, outside the recursion)",
	"ConcurrentMap.count": "R20n (count mirrors the shard maps under the shard lock)",
	"Chan.numSubs":        "R20n (numSubs mirrors the conns table under Chan.rw)",
}

func sizeField(fa *ssa.FieldAddr) bool {
	if _, ok := sizeFields[namedOf(fa.X.Type())+"."+fieldName(fa)]; ok {
		return true
	}
	// the two mirrored counters, whatever their fields are called now (found by what the code does with them)
	if simC != nil {
		simC.ensureCounterPairs()
		for _, p := range counterPairs {
			if p.cntType == namedOf(fa.X.Type()) && p.cntField == fieldName(fa) {
				return true
			}
		}
	}
	return false
}

// paramNonNegHook answers "is this integer parameter non-negative at every call site" (set by the checker context).
var paramNonNegHook func(*ssa.Parameter) bool

// nonNegFunc: every first return value of fn is non-negative by construction.
func nonNegFunc(fn *ssa.Function, depth int) bool { return nonNegFuncIdx(fn, 0, depth) }

func nonNegFuncIdx(fn *ssa.Function, idx int, depth int) bool {
	if fn == nil || fn.Blocks == nil || depth > 6 {
		return false
	}
	any := false
	for _, b := range fn.Blocks {
		for _, in := range b.Instrs {
			if ret, ok := in.(*ssa.Return); ok && len(ret.Results) > idx {
				any = true
				for _, v := range retResults(ret)[idx] {
					if !nonNegValue(v, map[ssa.Value]bool{}, depth) {
						return false
					}
				}
			}
		}
	}
	return any
}

var modLenDepth int

// modLenResult: fn (single return) returns  X % Y  with X >= 0 where Y is len(recv.F) or the int field recv.F;
// returns the canonical suffix (".F") and whether Y is a len().
func modLenResult(fn *ssa.Function) (field string, isLen bool, ok bool) {
	if fn == nil || fn.Blocks == nil || len(fn.Params) == 0 {
		return
	}
	var rets []*ssa.Return
	for _, b := range fn.Blocks {
		for _, in := range b.Instrs {
			if r, isR := in.(*ssa.Return); isR {
				rets = append(rets, r)
			}
		}
	}
	if len(rets) != 1 || len(rets[0].Results) != 1 {
		return
	}
	// a wrapper that hands back what such a function returned for the same receiver (pos := l.GetKeyPos(key); ...; return pos)
	if call, isC := rets[0].Results[0].(*ssa.Call); isC && modLenDepth < 3 {
		if cf := call.Call.StaticCallee(); cf != nil && cf != fn && len(call.Call.Args) > 0 && call.Call.Args[0] == ssa.Value(fn.Params[0]) {
			modLenDepth++
			f2, l2, ok2 := modLenResult(cf)
			modLenDepth--
			if ok2 {
				return f2, l2, true
			}
		}
		return
	}
	bo, isB := rets[0].Results[0].(*ssa.BinOp)
	if !isB || bo.Op != token.REM || !nonNegValue(bo.X, map[ssa.Value]bool{}, 0) {
		return
	}
	y := bo.Y
	if call, isC := y.(*ssa.Call); isC {
		if bi, isBi := call.Call.Value.(*ssa.Builtin); isBi && bi.Name() == "len" {
			y = call.Call.Args[0]
			isLen = true
		}
	}
	u, isU := y.(*ssa.UnOp)
	if !isU || u.Op != token.MUL {
		return
	}
	fa, isFA := u.X.(*ssa.FieldAddr)
	if !isFA || fa.X != ssa.Value(fn.Params[0]) {
		return
	}
	return fieldName(fa), isLen, true
}

// defFacts adds definitional facts for every node mentioned so far (to a small closure).
func (p *bprover) defFacts(s *factSet, goal dfact) {
	seen := map[string]bool{}
	var work []string
	push := func(n string) {
		if !seen[n] {
			seen[n] = true
			work = append(work, n)
		}
	}
	push(goal.a)
	push(goal.b)
	for _, f := range s.fs {
		push(f.a)
		push(f.b)
	}
	for i := 0; i < len(work) && i < 400; i++ {
		n := work[i]
		if strings.HasPrefix(n, "len:") {
			s.fs = append(s.fs, dfact{"0", n, 0})       // len >= 0
			s.fs = append(s.fs, dfact{n, "0", 1 << 48}) // and no address space holds more elements than this
			v := p.vals[n]
			if v == nil {
				continue
			}
			switch x := v.(type) {
			case *ssa.MakeSlice:
				l := p.lin(x.Len)
				s.fs = append(s.fs, dfact{n, l.n, l.k}, dfact{l.n, n, -l.k})
				push(l.n)
			case *ssa.Slice:
				// len(x[lo:hi]) = hi - lo
				var hi lt
				if x.High != nil {
					hi = p.lin(x.High)
				} else if _, isPtr := x.X.Type().Underlying().(*types.Pointer); !isPtr {
					hn := lenNode(x.X)
					p.vals[hn] = x.X
					hi = lt{hn, 0}
				} else if arr, ok := x.X.Type().Underlying().(*types.Pointer).Elem().Underlying().(*types.Array); ok {
					hi = lt{"0", arr.Len()}
				} else {
					continue
				}
				lo := lt{"0", 0}
				if x.Low != nil {
					lo = p.lin(x.Low)
				}
				if lo.n == "0" {
					s.fs = append(s.fs, dfact{n, hi.n, hi.k - lo.k}, dfact{hi.n, n, lo.k - hi.k})
					push(hi.n)
				}
			case *ssa.Call:
				if cf := x.Call.StaticCallee(); cf != nil && cf.Pkg != nil && cf.Pkg.Pkg.Path() == "strings" && (cf.Name() == "Split" || cf.Name() == "SplitN") {
					s.fs = append(s.fs, dfact{"0", n, -1}) // strings.Split never returns an empty slice (for n != 0)
				}
				if ap, ok := isAppend(x); ok {
					base := lenNode(ap.Call.Args[0])
					p.vals[base] = ap.Call.Args[0]
					add := int64(0)
					if elems, ok := sliceLiteralElems(ap.Call.Args[1]); ok {
						add = int64(len(elems))
					}
					s.fs = append(s.fs, dfact{base, n, -add}) // len(result) >= len(base)+add
					push(base)
				} else if cf := x.Call.StaticCallee(); cf != nil && firstParty(cf) {
					// a helper whose result has at least as many elements as one of its slice arguments (a map/convert helper)
					for j, arg := range x.Call.Args {
						if p.c.resultLenGE(cf, 0, j) {
							l := p.lenOf(arg)
							s.fs = append(s.fs, dfact{l.n, n, -l.k})
							push(l.n)
						}
					}
				}
			case *ssa.UnOp:
				// a slice field of a local record that a helper returned: sibling slice fields the helper filled in
				// lockstep have the same length (ids/conns of one subscriber list)
				fa, ok := x.X.(*ssa.FieldAddr)
				if !ok || x.Op != token.MUL {
					break
				}
				al, ok := fa.X.(*ssa.Alloc)
				if !ok || al.Referrers() == nil {
					break
				}
				// a slice field of a local record that is assigned exactly once (poll.keys = make([]string, n)) and whose
				// record is only ever used through its fields: the field's length is the length of what was stored
				{
					var only ssa.Value
					nSt, clean := 0, true
					for _, r := range *al.Referrers() {
						switch y := r.(type) {
						case *ssa.FieldAddr:
							if y.Field != fa.Field || y.Referrers() == nil {
								continue
							}
							for _, rr := range *y.Referrers() {
								switch z := rr.(type) {
								case *ssa.Store:
									if z.Addr == ssa.Value(y) {
										nSt++
										only = z.Val
									}
								case *ssa.UnOp:
								default:
									clean = false // the field's address goes somewhere
								}
							}
						case *ssa.DebugRef:
						default:
							clean = false // the record as a whole is copied, passed on or overwritten
						}
					}
					if clean && nSt == 1 && only != nil {
						l := p.lenOf(only)
						s.fs = append(s.fs, dfact{n, l.n, l.k}, dfact{l.n, n, -l.k})
						push(l.n)
					}
				}
				var src ssa.Value
				clean := true
				for _, r := range *al.Referrers() {
					switch y := r.(type) {
					case *ssa.Store:
						if y.Addr == ssa.Value(al) {
							if src != nil {
								clean = false
							}
							src = y.Val
						}
					case *ssa.FieldAddr:
						if y.Referrers() != nil {
							for _, rr := range *y.Referrers() {
								if st, ok := rr.(*ssa.Store); ok && st.Addr == ssa.Value(y) {
									clean = false // the record is modified piecemeal here
								}
							}
						}
					}
				}
				if !clean || src == nil {
					break
				}
				var call *ssa.Call
				idx := 0
				switch y := src.(type) {
				case *ssa.Call:
					call = y
				case *ssa.Extract:
					if c2, ok := y.Tuple.(*ssa.Call); ok {
						call, idx = c2, y.Index
					}
				}
				if call == nil {
					break
				}
				cf := call.Call.StaticCallee()
				st, ok := fa.X.Type().Underlying().(*types.Pointer).Elem().Underlying().(*types.Struct)
				if !ok || cf == nil {
					break
				}
				for k2 := 0; k2 < st.NumFields(); k2++ {
					if k2 == fa.Field {
						continue
					}
					if _, isSl := st.Field(k2).Type().Underlying().(*types.Slice); !isSl {
						continue
					}
					if lockstepFields(cf, idx, fa.Field, k2) {
						other := "len:" + canon(fa.X) + "." + st.Field(k2).Name()
						s.fs = append(s.fs, dfact{n, other, 0}, dfact{other, n, 0})
						push(other)
					}
				}
			case *ssa.Phi:
				// a slice that grows by exactly one element per iteration next to a counter that grows by one:
				// len(slice) - counter is constant
				if !isLoopHeaderBlock(x.Block()) {
					break
				}
				for _, other := range x.Block().Instrs {
					y, ok := other.(*ssa.Phi)
					if !ok {
						break
					}
					if !isIntType(y.Type()) {
						// two slices that both grow by exactly one element per iteration: the difference of their lengths is constant
						if y != x {
							if d, ok := lockstepSlicePhis(x, y); ok {
								yn := lenNode(y)
								p.vals[yn] = y
								s.fs = append(s.fs, dfact{n, yn, d}, dfact{yn, n, -d})
								push(yn)
							}
						}
						continue
					}
					if d, ok := lockstepLenPhi(x, y); ok {
						yn := p.lin(y)
						s.fs = append(s.fs, dfact{n, yn.n, d + yn.k}, dfact{yn.n, n, -d - yn.k})
						push(yn.n)
					}
				}
			case *ssa.Convert:
				// []byte(string) / string([]byte): same length
				inner := lenNode(x.X)
				p.vals[inner] = x.X
				s.fs = append(s.fs, dfact{n, inner, 0}, dfact{inner, n, 0})
				push(inner)
			}
			continue
		}
		if !strings.HasPrefix(n, "v:") {
			continue
		}
		v := p.vals[n]
		if v == nil {
			continue
		}
		if nonNegValue(v, map[ssa.Value]bool{}, 0) {
			s.fs = append(s.fs, dfact{"0", n, 0})
		}
		// copy(dst, src) returns min(len(dst), len(src)); at + copy(x[at:], src) therefore never passes len(x)
		copyOf := func(v ssa.Value) (dst, src ssa.Value, ok bool) {
			if call, isC := v.(*ssa.Call); isC {
				if bi, isB := call.Call.Value.(*ssa.Builtin); isB && bi.Name() == "copy" && len(call.Call.Args) == 2 {
					return call.Call.Args[0], call.Call.Args[1], true
				}
			}
			return nil, nil, false
		}
		if dst, src, ok := copyOf(v); ok {
			s.fs = append(s.fs, dfact{"0", n, 0})
			for _, a := range []ssa.Value{dst, src} {
				l := p.lenOf(a)
				s.fs = append(s.fs, dfact{n, l.n, l.k})
				push(l.n)
			}
		}
		// n = a + b with both operands symbolic: whatever constant bound the facts at hand put on one operand carries
		// over to the distance between n and the other (end < 0 gives size + end <= size - 1)
		if bo, isBo := v.(*ssa.BinOp); isBo && (bo.Op == token.ADD || bo.Op == token.SUB) && isSignedInt(bo.Type()) {
			_, xc := constInt(bo.X)
			_, yc := constInt(bo.Y)
			if !xc && !yc {
				pairs := [][2]ssa.Value{{bo.X, bo.Y}}
				if bo.Op == token.ADD {
					pairs = append(pairs, [2]ssa.Value{bo.Y, bo.X})
				}
				for _, pr := range pairs {
					a, b := p.lin(pr[0]), p.lin(pr[1])
					if a.n == "0" || b.n == "0" {
						continue
					}
					// only the combinations that cannot wrap around: a is non-negative (a length, or known to be) and the
					// other operand pulls the result towards zero or below
					aNonNeg := strings.HasPrefix(a.n, "len:") || nonNegValue(pr[0], map[ssa.Value]bool{}, 0)
					if !aNonNeg {
						continue
					}
					for _, f := range s.fs {
						if bo.Op == token.ADD && f.a == b.n && f.b == "0" {
							if ub := f.c + b.k; ub <= 0 {
								s.fs = append(s.fs, dfact{n, a.n, a.k + ub}) // b <= ub <= 0: n = a + b <= a + ub
								push(a.n)
							}
						}
						if bo.Op == token.SUB && f.a == "0" && f.b == b.n {
							if lb := -f.c + b.k; lb >= 0 {
								s.fs = append(s.fs, dfact{n, a.n, a.k - lb}) // b >= lb >= 0: n = a - b <= a - lb
								push(a.n)
							}
						}
					}
				}
			}
		}
		if bo, isBo := v.(*ssa.BinOp); isBo && bo.Op == token.ADD {
			for _, pr := range [][2]ssa.Value{{bo.X, bo.Y}, {bo.Y, bo.X}} {
				at, r := pr[0], pr[1]
				dst, _, ok := copyOf(r)
				if !ok {
					continue
				}
				if sl, isSl := dst.(*ssa.Slice); isSl && sl.Low != nil && sl.High == nil && sl.Max == nil && canon(sl.Low) == canon(at) {
					if _, isPtr := sl.X.Type().Underlying().(*types.Pointer); !isPtr {
						l := p.lenOf(sl.X)
						s.fs = append(s.fs, dfact{n, l.n, l.k}) // at + copy(x[at:], ..) <= len(x)
						push(l.n)
					}
				}
			}
		}
		switch x := v.(type) {
		case *ssa.Phi:
			// two counters of one loop that start at constants and advance by constants on every back edge:
			// a - b <= a0 - b0 holds throughout when a never advances faster than b
			for _, other := range x.Block().Instrs {
				y, ok := other.(*ssa.Phi)
				if !ok {
					break
				}
				if y == x || !isIntType(y.Type()) {
					continue
				}
				if d, ok := lockstepPhis(x, y); ok {
					yn := p.lin(y)
					s.fs = append(s.fs, dfact{n, yn.n, d + yn.k})
					push(yn.n)
				}
			}
		case *ssa.BinOp:
			switch x.Op {
			case token.REM:
				// x % y in [0, y) when x >= 0 and y > 0: we require x non-negative by construction
				xn := false
				if nonNegValue(x.X, map[ssa.Value]bool{}, 0) {
					xn = true
				}
				if xn {
					y := p.lin(x.Y)
					s.fs = append(s.fs, dfact{"0", n, 0}, dfact{n, y.n, y.k - 1})
					push(y.n)
					// the modulus is an int field that always equals the length of a slice field of the same record
					if ld, ok := x.Y.(*ssa.UnOp); ok && ld.Op == token.MUL {
						if fa, ok := ld.X.(*ssa.FieldAddr); ok {
							if sf, ok := p.c.fieldLenAlias(fa.X.Type(), fieldName(fa)); ok {
								ln := "len:" + canon(fa.X) + "." + sf
								s.fs = append(s.fs, dfact{y.n, ln, -y.k}, dfact{ln, y.n, y.k})
								push(ln)
							}
						}
					}
				}
			case token.ADD:
				// v = a + b with b >= 0 by construction: v >= a (no overflow assumed)
				// sound only if the sum cannot overflow: both operands must be bounded above at the point of the addition
				if nonNegValue(x.Y, map[ssa.Value]bool{}, 0) && p.boundedAbove(x.X, x) && p.boundedAbove(x.Y, x) {
					a := p.lin(x.X)
					s.fs = append(s.fs, dfact{a.n, n, -a.k})
					push(a.n)
				}
				if nonNegValue(x.X, map[ssa.Value]bool{}, 0) && p.boundedAbove(x.X, x) && p.boundedAbove(x.Y, x) {
					a := p.lin(x.Y)
					s.fs = append(s.fs, dfact{a.n, n, -a.k})
					push(a.n)
				}
			case token.SUB:
				// v = a - b (both variables): v + b = a, expressible only when b is a node: v - a <= -b ... skip
			}
		case *ssa.Extract:
			if call, ok := x.Tuple.(*ssa.Call); ok {
				if cf := call.Call.StaticCallee(); cf != nil && firstParty(cf) && isSignedInt(x.Type()) {
					for j, arg := range call.Call.Args {
						if p.c.resultLeLen(cf, x.Index, j) || p.c.ctxResultLeLen(call, x.Index, j) {
							l := p.lenOf(arg)
							s.fs = append(s.fs, dfact{n, l.n, l.k})
							push(l.n)
						}
						if j == 0 && call.Referrers() != nil {
							// (first, last, ok := normRange(..)): the helper hands its results back in order
							for _, r := range *call.Referrers() {
								o, ok := r.(*ssa.Extract)
								if !ok || o.Index == x.Index || !isSignedInt(o.Type()) {
									continue
								}
								if p.c.resultLeResult(cf, x.Index, o.Index) {
									on := "v:" + o.Name()
									p.vals[on] = o
									s.fs = append(s.fs, dfact{n, on, 0})
									push(on)
								}
								if p.c.resultLeResult(cf, o.Index, x.Index) {
									on := "v:" + o.Name()
									p.vals[on] = o
									s.fs = append(s.fs, dfact{on, n, 0})
									push(on)
								}
							}
						}
						if isSignedInt(arg.Type()) && j < len(cf.Params) {
							if p.c.resultLeParam(cf, x.Index, j) {
								a := p.lin(arg)
								s.fs = append(s.fs, dfact{n, a.n, a.k})
								push(a.n)
							}
							if p.c.resultGeParam(cf, x.Index, j) {
								a := p.lin(arg)
								s.fs = append(s.fs, dfact{a.n, n, -a.k})
								push(a.n)
							}
						}
					}
				}
			}
		case *ssa.Call:
			if cf := x.Call.StaticCallee(); cf != nil && firstParty(cf) && isSignedInt(x.Type()) {
				for j, arg := range x.Call.Args {
					if p.c.resultLeLen(cf, 0, j) || p.c.ctxResultLeLen(x, 0, j) {
						l := p.lenOf(arg)
						s.fs = append(s.fs, dfact{n, l.n, l.k})
						push(l.n)
					}
					// a scanner that only moves forward from the position it is given: result >= argument
					if isSignedInt(arg.Type()) && p.c.resultGeParam(cf, 0, j) {
						a := p.lin(arg)
						s.fs = append(s.fs, dfact{a.n, n, -a.k})
						push(a.n)
					}
					if isSignedInt(arg.Type()) && p.c.resultLeParam(cf, 0, j) {
						a := p.lin(arg)
						s.fs = append(s.fs, dfact{n, a.n, a.k})
						push(a.n)
					}
				}
			}
			if cf := x.Call.StaticCallee(); cf != nil && firstParty(cf) {
				// result of  recv.pos(key) = hash % len(recv.F)  (or % recv.N with N aliased to len(recv.S))
				if f, isLen, ok := modLenResult(cf); ok && len(x.Call.Args) > 0 {
					base := canon(x.Call.Args[0]) + "." + f
					if isLen {
						s.fs = append(s.fs, dfact{n, "len:" + base, -1})
						push("len:" + base)
					} else if sf, ok := p.c.fieldLenAlias(cf.Params[0].Type(), f); ok {
						ln := "len:" + canon(x.Call.Args[0]) + "." + sf
						s.fs = append(s.fs, dfact{n, ln, -1})
						push(ln)
					}
				}
			}
		}
	}
	s.fs = append(s.fs, p.entry...)
}

// shortest computes the tightest provable bound on a - b from the facts (Bellman-Ford); ok=false if none.
func shortest(fs []dfact, a, b string) (int64, bool) {
	if a == b {
		return 0, true
	}
	// edge b' -> a' weight c for fact a' - b' <= c ; we want dist from b to a  (a - b <= dist)
	dist := map[string]int64{b: 0}
	for iter := 0; iter < 40; iter++ {
		changed := false
		for _, f := range fs {
			db, ok := dist[f.b]
			if !ok {
				continue
			}
			nd := db + f.c
			if old, ok := dist[f.a]; !ok || nd < old {
				dist[f.a] = nd
				changed = true
			}
		}
		if !changed {
			break
		}
		if iter == 39 {
			// negative cycle: contradictory facts = unreachable point
			return -1 << 40, true
		}
	}
	d, ok := dist[a]
	return d, ok
}

func (p *bprover) parityOf(n string, s *factSet, seen map[string]bool) (int, bool) {
	if n == "0" {
		return 0, true
	}
	if v, ok := s.par[n]; ok {
		return v, true
	}
	if v, ok := p.entryPar[n]; ok {
		return v, true
	}
	if seen[n] {
		return -1, true // coinductive: agrees with whatever the other edges say
	}
	seen[n] = true
	v := p.vals[n]
	if strings.HasPrefix(n, "len:") {
		// len(S[k:]) has the parity of len(S) shifted by the constant k
		if sl, ok := v.(*ssa.Slice); ok && sl.High == nil {
			k := int64(0)
			if sl.Low != nil {
				kk, isK := constInt(sl.Low)
				if !isK {
					return 0, false
				}
				k = kk
			}
			base := p.lenOf(sl.X)
			pb, ok := p.parityOf(base.n, s, seen)
			if !ok || pb < 0 {
				return 0, false
			}
			return (pb + int((((base.k-k)%2)+2)%2)) % 2, true
		}
		// a slice-valued phi (rest = rest[2:] in a loop): the parity its incoming values agree on
		if phi, ok := v.(*ssa.Phi); ok {
			res := -1
			for _, e := range phi.Edges {
				l := p.lenOf(e)
				pe, ok := p.parityOf(l.n, s, seen)
				if !ok {
					return 0, false
				}
				if pe == -1 {
					if l.k%2 != 0 {
						return 0, false
					}
					continue
				}
				val := (pe + int(((l.k%2)+2)%2)) % 2
				if res == -1 {
					res = val
				} else if res != val {
					return 0, false
				}
			}
			if res == -1 {
				return 0, false
			}
			return res, true
		}
		return 0, false
	}
	phi, ok := v.(*ssa.Phi)
	if !ok {
		return 0, false
	}
	res := -1
	for _, e := range phi.Edges {
		l := p.lin(e)
		pe, ok := p.parityOf(l.n, s, seen)
		if !ok {
			return 0, false
		}
		if pe == -1 {
			if l.k%2 != 0 {
				return 0, false // self-reference with odd step flips parity
			}
			continue
		}
		val := (pe + int(((l.k%2)+2)%2)) % 2
		if res == -1 {
			res = val
		} else if res != val {
			return 0, false
		}
	}
	if res == -1 {
		return 0, false
	}
	return res, true
}

// direct tries to prove the goal from the facts at hand.
func (p *bprover) direct(goal dfact, s *factSet) bool {
	p.defFacts(s, goal)
	// a disequality the facts contradict (x != c where the path fixed x = c): the point is unreachable on this path
	for _, n := range s.ns {
		d1, ok1 := shortest(s.fs, n.a, n.b)
		if !ok1 || d1 > n.c {
			continue
		}
		if d2, ok2 := shortest(s.fs, n.b, n.a); ok2 && d2 <= -n.c {
			if os.Getenv("RG_DEBUG_INFEASIBLE") != "" {
				fmt.Fprintf(os.Stderr, "infeasible in %s: %s - %s != %d contradicted; goal %s\n", p.fn.Name(), n.a, n.b, n.c, goal)
			}
			return true
		}
	}
	// the index of the best element so far (see bestSoFarIndex): below the length wherever the slice is known non-empty
	if goal.c >= -1 && strings.HasPrefix(goal.a, "v:") && strings.HasPrefix(goal.b, "len:") {
		if ip, ok := p.vals[goal.a].(*ssa.Phi); ok {
			if sp, ok := p.vals[goal.b].(*ssa.Phi); ok && bestSoFarIndex(ip, sp) {
				if d0, ok := shortest(s.fs, "0", goal.b); ok && d0 <= -1 {
					return true
				}
			}
		}
	}
	d, ok := shortest(s.fs, goal.a, goal.b)
	if !ok {
		return false
	}
	if d <= goal.c {
		return true
	}
	if d == goal.c+1 {
		// disequality tightening: a - b != d
		for _, n := range s.ns {
			if (n.a == goal.a && n.b == goal.b && n.c == d) || (n.a == goal.b && n.b == goal.a && n.c == -d) {
				return true
			}
		}
		// parity tightening
		pa, oka := p.parityOf(goal.a, s, map[string]bool{})
		pb, okb := p.parityOf(goal.b, s, map[string]bool{})
		if oka && okb && pa >= 0 && pb >= 0 {
			if ((pa-pb)%2+2)%2 != int(((d%2)+2)%2) {
				return true
			}
		}
	}
	return false
}

func substNode(n string, sub map[string]lt) (string, int64) {
	if r, ok := sub[n]; ok {
		return r.n, r.k
	}
	return n, 0
}

func substFact(f dfact, sub map[string]lt) dfact {
	a, ka := substNode(f.a, sub)
	b, kb := substNode(f.b, sub)
	return dfact{a, b, f.c - ka + kb}
}

// prove: goal holds at the entry of block b given extra path facts.
func (p *bprover) prove(goal dfact, b *ssa.BasicBlock, extra *factSet, depth int) bool {
	p.budget--
	if p.budget < 0 {
		return false
	}
	s := &factSet{par: map[string]int{}}
	s.add(extra.fs, extra.ns, extra.par)
	p.chainFacts(b, s)
	if p.direct(goal, s) {
		if os.Getenv("RG_DEBUG_DIRECT") != "" && depth == 6 && goal.b == "0" && goal.c == 0 {
			fmt.Fprintf(os.Stderr, "direct %s at block %d of %s: facts %v\n", goal, b.Index, p.fn.Name(), s.fs)
		}
		return true
	}
	if os.Getenv("RG_DEBUG_PROVE") != "" && depth == 6 {
		fmt.Fprintf(os.Stderr, "prove %s at block %d of %s: facts %v\n", goal, b.Index, p.fn.Name(), s.fs)
		for x := b; x != nil; x = x.Idom() {
			fmt.Fprintf(os.Stderr, "   chain block %d preds %d\n", x.Index, len(x.Preds))
		}
	}
	if p.viaCalleeAt(goal, b) {
		return true
	}
	if p.viaCalleeGuardAt(goal, b) {
		return true
	}
	if depth <= 0 {
		return false
	}
	// k*x >= 0 for a small positive constant k and a slice length (minus a constant) x: holds when x >= 0; a length times
	// eight cannot wrap in any address space
	if goal.a == "0" && goal.c >= 0 {
		if bo, ok := p.vals[goal.b].(*ssa.BinOp); ok && bo.Op == token.MUL {
			var x ssa.Value
			if k, ok := constInt(bo.X); ok && k >= 1 && k <= 8 {
				x = bo.Y
			} else if k, ok := constInt(bo.Y); ok && k >= 1 && k <= 8 {
				x = bo.X
			}
			if x != nil {
				if l := p.lin(x); strings.HasPrefix(l.n, "len:") && l.k <= 0 {
					key := fmt.Sprintf("mul|%d|%s", b.Index, goal)
					if !p.stack[key] {
						p.stack[key] = true
						ok := p.prove(dfact{"0", l.n, l.k}, b, extra, depth-1)
						delete(p.stack, key)
						if ok {
							return true
						}
					}
				}
			}
		}
	}
	// a bound on a difference of two variables against a constant is a bound between the two: (x - y) >= -c iff y - x <= c
	// (both operands bounded above and non-negative or small, so that the difference does not wrap)
	for _, zeroFirst := range []bool{true, false} {
		dn, zn := goal.b, goal.a
		if !zeroFirst {
			dn, zn = goal.a, goal.b
		}
		if zn != "0" {
			continue
		}
		bo, ok := p.vals[dn].(*ssa.BinOp)
		if !ok || bo.Op != token.SUB || !isSignedInt(bo.Type()) || intWidth(bo.Type()) < 64 {
			continue
		}
		if _, isK := constInt(bo.Y); isK {
			continue
		}
		key := fmt.Sprintf("sub|%d|%s", b.Index, goal)
		if p.stack[key] {
			continue
		}
		p.stack[key] = true
		x, y := p.lin(bo.X), p.lin(bo.Y)
		// the machine difference is the real one unless it wraps: for the lower bound that takes x bounded above and y
		// bounded below, for the upper bound the other way round (the opposite wrap contradicts what is proved)
		const big = int64(1) << 62
		hi, lo := x, y
		if !zeroFirst {
			hi, lo = y, x
		}
		if !(hi.n == "0" || (p.vals[hi.n] != nil && p.boundedAbove(p.vals[hi.n], bo)) || p.prove(dfact{hi.n, "0", big - hi.k}, b, extra, depth-1)) ||
			!(lo.n == "0" || strings.HasPrefix(lo.n, "len:") || p.prove(dfact{"0", lo.n, big + lo.k}, b, extra, depth-1)) {
			delete(p.stack, key)
			continue
		}
		var g dfact
		if zeroFirst {
			g = dfact{y.n, x.n, goal.c - y.k + x.k} // 0 - (x-y) <= c
		} else {
			g = dfact{x.n, y.n, goal.c - x.k + y.k} // (x-y) - 0 <= c
		}
		ok = p.prove(g, b, extra, depth-1)
		delete(p.stack, key)
		if ok {
			return true
		}
	}
	// idx := shortestIndex(sets); sets[idx]: a helper that hands back 0 or a position it visited in its argument returns a
	// valid index wherever the argument is known non-empty (the function-level form of the best-so-far lemma)
	if goal.c >= -1 && strings.HasPrefix(goal.b, "len:") {
		if call, ok := p.vals[goal.a].(*ssa.Call); ok && !call.Call.IsInvoke() {
			if cf := call.Call.StaticCallee(); cf != nil && firstParty(cf) && cf.Blocks != nil {
				for j, arg := range call.Call.Args {
					if _, isSl := arg.Type().Underlying().(*types.Slice); !isSl || j >= len(cf.Params) {
						continue
					}
					if l := p.lenOf(arg); l.n != goal.b || l.k != 0 {
						continue
					}
					if !p.c.resultZeroOrIndex(cf, j) {
						continue
					}
					key := fmt.Sprintf("zoi|%d|%s", b.Index, goal)
					if p.stack[key] {
						continue
					}
					p.stack[key] = true
					ok := p.prove(dfact{"0", goal.b, -1}, b, extra, depth-1)
					delete(p.stack, key)
					if ok {
						return true
					}
				}
			}
		}
	}
	// a term that is the result of a selector (maxInt(a, 0), atMost(v, high)): the goal holds if it holds for each of the
	// values the helper can hand back
	for _, side := range []string{goal.a, goal.b} {
		call, ok := p.vals[side].(*ssa.Call)
		if !ok {
			continue
		}
		alts := selectorResults(call)
		if len(alts) == 0 {
			continue
		}
		key := fmt.Sprintf("sel|%d|%s", b.Index, goal)
		if p.stack[key] {
			continue
		}
		p.stack[key] = true
		all := true
		for _, alt := range alts {
			g := substFact(goal, map[string]lt{side: p.lin(alt)})
			if !p.prove(g, b, extra, depth-1) {
				all = false
				break
			}
		}
		delete(p.stack, key)
		if all {
			return true
		}
	}
	// a write index that trails the loop counter (two-pointer compaction: w <= i-1 < len): a - b <= c follows from
	// a - i <= k and i - b <= c - k for another counter i of the same loop
	if phi, ok := p.vals[goal.a].(*ssa.Phi); ok && !p.inTrans && isLoopHeaderBlock(phi.Block()) && phi.Block().Dominates(b) && strings.HasPrefix(goal.b, "len:") {
		p.inTrans = true
		done := false
		for _, in := range phi.Block().Instrs {
			other, isPhi := in.(*ssa.Phi)
			if !isPhi {
				break
			}
			if other == phi || !isIntType(other.Type()) {
				continue
			}
			on := "v:" + other.Name()
			p.vals[on] = other
			for _, k := range []int64{-1, 0} {
				if p.prove(dfact{goal.a, on, k}, b, extra, depth-1) && p.prove(dfact{on, goal.b, goal.c - k}, b, extra, depth-1) {
					done = true
					break
				}
			}
			if done {
				break
			}
		}
		p.inTrans = false
		if done {
			return true
		}
	}
	// split at joins up the dominator chain, nearest first
	tried := 0
	for j := b; j != nil && tried < 5; j = j.Idom() {
		if len(j.Preds) < 2 {
			continue
		}
		tried++
		key := fmt.Sprintf("%d|%s", j.Index, goal)
		if p.stack[key] {
			return true // induction hypothesis
		}
		// path facts between j and b: the chain facts restricted to blocks strictly dominated by j
		path := &factSet{par: map[string]int{}}
		path.add(extra.fs, extra.ns, extra.par)
		for x := b; x != nil && x != j; x = x.Idom() {
			if len(x.Preds) == 1 {
				p.edgeFacts(x.Preds[0], x, path)
			}
		}
		// Induction over the arrivals at a loop header assumes the goal for the previous iteration. That is what was
		// proved only if the conditions between the header and the site held in that iteration too: the site lies on
		// every way to the back edge, or the conditions do not change from one iteration to the next. A site behind
		// the loop (or in a branch of its body) gets two attempts: induction with the loop-invariant conditions only,
		// then a plain case split over all predecessors with every condition but without a hypothesis.
		isLoop, siteInBody := false, true
		for _, pred := range j.Preds {
			if j.Dominates(pred) {
				isLoop = true
				if !b.Dominates(pred) {
					siteInBody = false
				}
			}
		}
		attempts := []struct {
			facts      *factSet
			hypothesis bool
		}{{path, true}}
		if isLoop && !siteInBody {
			attempts = []struct {
				facts      *factSet
				hypothesis bool
			}{{p.invariantFacts(path, j), true}, {path, false}}
		}
		for _, at := range attempts {
			if at.hypothesis {
				p.stack[key] = true
			}
			all := true
			for i, pred := range j.Preds {
				sub := map[string]lt{}
				for _, in := range j.Instrs {
					phi, ok := in.(*ssa.Phi)
					if !ok {
						break
					}
					if isIntType(phi.Type()) {
						sub["v:"+phi.Name()] = p.lin(phi.Edges[i])
					} else {
						// slice-valued phi: len node renaming
						from := "len:" + phi.Name()
						to := lenNode(phi.Edges[i])
						p.vals[to] = phi.Edges[i]
						if from != to {
							sub[from] = lt{to, 0}
						}
					}
				}
				g := substFact(goal, sub)
				pf := &factSet{par: map[string]int{}}
				for _, f := range at.facts.fs {
					pf.fs = append(pf.fs, substFact(f, sub))
				}
				for _, n := range at.facts.ns {
					a, ka := substNode(n.a, sub)
					bb, kb := substNode(n.b, sub)
					pf.ns = append(pf.ns, dneq{a, bb, n.c - ka + kb})
				}
				for k, v := range at.facts.par {
					if r, ok := sub[k]; ok {
						pf.par[r.n] = (v + int(((r.k%2)+2)%2)) % 2
					} else {
						pf.par[k] = v
					}
				}
				p.edgeFacts(pred, j, pf)
				if j.Dominates(pred) && at.hypothesis {
					// back edge: the goal itself is the induction hypothesis for the current iteration
					pf.fs = append(pf.fs, goal)
				}
				// facts at the end of pred = facts at its entry (chain) + its own defs
				if !p.proveAtEnd(g, pred, pf, depth-1) {
					all = false
					break
				}
			}
			delete(p.stack, key)
			if all {
				return true
			}
		}
	}
	return false
}

// invariantFacts keeps the facts whose terms are all computed before the loop headed by j is entered.
func (p *bprover) invariantFacts(s *factSet, j *ssa.BasicBlock) *factSet {
	inv := func(n string) bool {
		if n == "0" {
			return true
		}
		switch v := p.vals[n].(type) {
		case *ssa.Parameter, *ssa.Const, *ssa.Global, *ssa.FreeVar, *ssa.Function:
			return true
		case ssa.Instruction:
			return v.Block() != j && v.Block() != nil && v.Block().Dominates(j)
		}
		return false
	}
	out := &factSet{par: map[string]int{}}
	for _, f := range s.fs {
		if inv(f.a) && inv(f.b) {
			out.fs = append(out.fs, f)
		}
	}
	for _, n := range s.ns {
		if inv(n.a) && inv(n.b) {
			out.ns = append(out.ns, n)
		}
	}
	for k, v := range s.par {
		if inv(k) {
			out.par[k] = v
		}
	}
	return out
}

func (p *bprover) proveAtEnd(goal dfact, b *ssa.BasicBlock, extra *factSet, depth int) bool {
	return p.prove(goal, b, extra, depth)
}

// ProveLE proves  x - y <= c  immediately before instruction `at`.
func (p *bprover) ProveLE(x, y lt, c int64, at ssa.Instruction) bool {
	return p.ProveLEx(x, y, c, at, nil)
}

// ProveLEx: the same under additional assumptions (facts the caller established about the values concerned).
func (p *bprover) ProveLEx(x, y lt, c int64, at ssa.Instruction, assume []dfact) bool {
	goal := dfact{x.n, y.n, c - x.k + y.k}
	// 0 <= (A - B) + k   is proved as   B - A <= k   (A, B arbitrary terms; no overflow for lengths/indices);
	// the difference may also have been tested as a value of its own (d := A - B; if d > 0 {..}): that is tried first
	if goal.a == "0" {
		if bo, ok := p.vals[goal.b].(*ssa.BinOp); ok && bo.Op == token.SUB {
			if _, isC := constInt(bo.Y); !isC {
				p.stack = map[string]bool{}
				p.budget = 400
				if p.prove(goal, at.Block(), &factSet{par: map[string]int{}, fs: append([]dfact(nil), assume...)}, 3) {
					return true
				}
				a, b := p.lin(bo.X), p.lin(bo.Y)
				goal = dfact{b.n, a.n, goal.c + a.k - b.k}
			}
		}
	}
	p.stack = map[string]bool{}
	p.budget = 1500
	return p.prove(goal, at.Block(), &factSet{par: map[string]int{}, fs: append([]dfact(nil), assume...)}, 6)
}

var calleeProofDepth int

// viaCallee: the goal relates results of one call to a first-party function (to each other or to zero), possibly under
// a dominating test of a boolean result of the same call (start, end, ok := normalise(...); if !ok { return }).
// It is then established inside the callee: at every return that is compatible with the tested boolean, the returned
// values satisfy the goal.
func (p *bprover) viaCalleeAt(goal dfact, at *ssa.BasicBlock) bool {
	if calleeProofDepth >= 2 {
		return false
	}
	var call *ssa.Call
	idx := map[string]int{}
	lenIdx := map[string]int{}
	var lens []string
	for _, n := range []string{goal.a, goal.b} {
		if n == "0" {
			continue
		}
		if strings.HasPrefix(n, "len:") {
			// the length of a result of the call, or (below) of one of its arguments
			var cl *ssa.Call
			switch x := p.vals[n].(type) {
			case *ssa.Extract:
				if c2, ok := x.Tuple.(*ssa.Call); ok {
					cl = c2
					lenIdx[n] = x.Index
				}
			case *ssa.Call:
				if _, isB := x.Call.Value.(*ssa.Builtin); !isB {
					cl = x
					lenIdx[n] = 0
				}
			}
			if cl != nil {
				if call != nil && cl != call {
					return false
				}
				call = cl
				continue
			}
			lens = append(lens, n)
			continue
		}
		var cl *ssa.Call
		switch x := p.vals[n].(type) {
		case *ssa.Extract:
			c2, ok := x.Tuple.(*ssa.Call)
			if !ok {
				return false
			}
			cl, idx[n] = c2, x.Index
		case *ssa.Call:
			cl, idx[n] = x, 0
		default:
			return false
		}
		if call != nil && cl != call {
			return false
		}
		call = cl
	}
	if call == nil {
		return false
	}
	cf := call.Call.StaticCallee()
	if cf == nil || cf.Blocks == nil || !firstParty(cf) || len(call.Call.Args) != len(cf.Params) {
		return false
	}
	// a length in the goal must be the length of one of the call's arguments
	lenParam := map[string]int{}
	intParam := map[string]int{} // the length is handed to the callee as a number: f(start, end, len(x))
	for _, n := range lens {
		found := false
		for j, a := range call.Call.Args {
			if lenNode(a) == n {
				lenParam[n], found = j, true
				break
			}
		}
		if !found {
			for j, a := range call.Call.Args {
				if isIntType(a.Type()) {
					if l := p.lin(a); l.n == n && l.k == 0 {
						intParam[n], found = j, true
						break
					}
				}
			}
		}
		if !found {
			return false
		}
	}
	// boolean results of the same call tested on the way to the site
	guard := map[int]bool{}
	nilGuard := map[int]bool{}
	for d := at; d != nil && d.Idom() != nil; d = d.Idom() {
		id := d.Idom()
		if len(d.Preds) != 1 || d.Preds[0] != id {
			continue
		}
		cond, neg, ok := branchCond(id, d)
		if !ok {
			continue
		}
		for {
			u, isNot := cond.(*ssa.UnOp)
			if !isNot || u.Op != token.NOT {
				break
			}
			cond, neg = u.X, !neg
		}
		if ex, ok := cond.(*ssa.Extract); ok && ex.Tuple == ssa.Value(call) {
			guard[ex.Index] = !neg
		}
		// a nil test of another result of the same call (cmd, rejection := check(..); if rejection != nil { continue })
		if bo, ok := cond.(*ssa.BinOp); ok && (bo.Op == token.EQL || bo.Op == token.NEQ) {
			var other ssa.Value
			if isNilConst(bo.Y) {
				other = bo.X
			} else if isNilConst(bo.X) {
				other = bo.Y
			}
			if ex, ok := other.(*ssa.Extract); ok && ex.Tuple == ssa.Value(call) {
				nilGuard[ex.Index] = (bo.Op == token.EQL) != neg
			}
		}
	}
	var gk []string
	for gi, w := range guard {
		gk = append(gk, fmt.Sprint(gi, w))
	}
	for gi, w := range nilGuard {
		gk = append(gk, fmt.Sprint("nil", gi, w))
	}
	sort.Strings(gk)
	ai, bi := "0", "0"
	if i, ok := idx[goal.a]; ok {
		ai = fmt.Sprint("r", i)
	} else if j, ok := lenParam[goal.a]; ok {
		ai = fmt.Sprint("l", j)
	} else if j, ok := lenIdx[goal.a]; ok {
		ai = fmt.Sprint("lr", j)
	} else if j, ok := intParam[goal.a]; ok {
		ai = fmt.Sprint("ip", j)
	}
	if i, ok := idx[goal.b]; ok {
		bi = fmt.Sprint("r", i)
	} else if j, ok := lenParam[goal.b]; ok {
		bi = fmt.Sprint("l", j)
	} else if j, ok := lenIdx[goal.b]; ok {
		bi = fmt.Sprint("lr", j)
	} else if j, ok := intParam[goal.b]; ok {
		bi = fmt.Sprint("ip", j)
	}
	memoKey := fmt.Sprintf("%s|%s-%s<=%d|%v", cf.String(), ai, bi, goal.c, gk)
	if p.c.viaMemo == nil {
		p.c.viaMemo = map[string]bool{}
	}
	if r, ok := p.c.viaMemo[memoKey]; ok {
		return r
	}
	// what the caller established about the results on the way to the site (len(r0) >= 1 after `if len(r0) == 0 { return }`):
	// facts that mention nothing but results of this call and constants become assumptions at the callee's returns
	var callerFacts []dfact
	{
		cs := &factSet{par: map[string]int{}}
		p.chainFacts(at, cs)
		isRes := func(n string) bool {
			if n == "0" {
				return true
			}
			switch x := p.vals[n].(type) {
			case *ssa.Extract:
				return x.Tuple == ssa.Value(call)
			case *ssa.Call:
				return x == call
			}
			return false
		}
		for _, f := range cs.fs {
			if isRes(f.a) && isRes(f.b) && (f.a != "0" || f.b != "0") {
				callerFacts = append(callerFacts, f)
			}
		}
		// len(r) != 0 is len(r) >= 1
		for _, n := range cs.ns {
			if n.c != 0 {
				continue
			}
			ln := ""
			if n.b == "0" && strings.HasPrefix(n.a, "len:") {
				ln = n.a
			} else if n.a == "0" && strings.HasPrefix(n.b, "len:") {
				ln = n.b
			}
			if ln != "" && isRes(ln) {
				callerFacts = append(callerFacts, dfact{"0", ln, -1})
			}
		}
	}
	for _, f := range callerFacts {
		memoKey += "|" + f.String()
	}
	if r, ok := p.c.viaMemo[memoKey]; ok {
		return r
	}
	p.c.viaMemo[memoKey] = false // cycles do not prove anything
	p.callerFacts, p.callerCall = callerFacts, call
	p.intParam = intParam
	res := p.viaCalleeProve(cf, goal, idx, lenParam, guard, lenIdx, nilGuard)
	p.callerFacts, p.callerCall = nil, nil
	p.intParam = nil
	p.c.viaMemo[memoKey] = res
	return res
}

func (p *bprover) viaCalleeProve(cf *ssa.Function, goal dfact, idx, lenParam map[string]int, guard map[int]bool, lenIdx map[string]int, nilGuard map[int]bool) bool {
	calleeProofDepth++
	defer func() { calleeProofDepth-- }()
	pr := p.c.newProver(cf)
	any := false
	for _, b := range cf.Blocks {
		for _, in := range b.Instrs {
			ret, ok := in.(*ssa.Return)
			if !ok {
				continue
			}
			rr := retResults(ret)
			excluded := false
			for gi, want := range guard {
				if gi >= len(rr) {
					continue
				}
				all := len(rr[gi]) > 0
				for _, v := range rr[gi] {
					k, isC := v.(*ssa.Const)
					if !isC || k.Value == nil || (k.Value.ExactString() == "true") == want {
						all = false
					}
				}
				if all {
					excluded = true // this return hands back the other truth value
				}
			}
			for gi, wantNil := range nilGuard {
				if gi >= len(rr) || len(rr[gi]) == 0 {
					continue
				}
				all := true
				for _, v := range rr[gi] {
					definitelyNil := isNilConst(v)
					definitelyNot := false
					switch v.(type) {
					case *ssa.MakeInterface, *ssa.Alloc, *ssa.MakeSlice, *ssa.MakeMap:
						definitelyNot = true
					}
					if wantNil && !definitelyNot {
						all = false
					}
					if !wantNil && !definitelyNil {
						all = false
					}
				}
				if all {
					excluded = true // this return hands back the other nil-ness of the tested result
				}
			}
			if excluded {
				continue
			}
			side := func(n string) []lt {
				if n == "0" {
					return []lt{{"0", 0}}
				}
				if j, ok := lenParam[n]; ok {
					return []lt{pr.lenOf(cf.Params[j])}
				}
				if j, ok := p.intParam[n]; ok {
					return []lt{pr.lin(cf.Params[j])}
				}
				if j, ok := lenIdx[n]; ok {
					var out []lt
					if j < len(rr) {
						for _, v := range rr[j] {
							out = append(out, pr.lenOf(v))
						}
					}
					return out
				}
				var out []lt
				for _, v := range rr[idx[n]] {
					out = append(out, pr.lin(v))
				}
				return out
			}
			if i, ok := idx[goal.a]; ok && i >= len(rr) {
				return false
			}
			if i, ok := idx[goal.b]; ok && i >= len(rr) {
				return false
			}
			// the caller's assumptions, expressed on the values this return hands back (only when each result concerned
			// is a single value here)
			var assume []dfact
			for _, f := range p.callerFacts {
				tr := func(n string) (lt, bool) {
					if n == "0" {
						return lt{"0", 0}, true
					}
					var ri int
					isLen := strings.HasPrefix(n, "len:")
					switch x := p.vals[n].(type) {
					case *ssa.Extract:
						ri = x.Index
					case *ssa.Call:
						ri = 0
					default:
						return lt{}, false
					}
					if ri >= len(rr) || len(rr[ri]) != 1 {
						return lt{}, false
					}
					if isLen {
						return pr.lenOf(rr[ri][0]), true
					}
					return pr.lin(rr[ri][0]), true
				}
				a, ok1 := tr(f.a)
				b, ok2 := tr(f.b)
				if ok1 && ok2 {
					assume = append(assume, dfact{a.n, b.n, f.c - a.k + b.k})
				}
			}
			for _, x := range side(goal.a) {
				for _, y := range side(goal.b) {
					any = true
					if !pr.ProveLEx(x, y, goal.c, ret, assume) {
						return false
					}
				}
			}
		}
	}
	return any
}

// ---------- sites ----------

type boundSite struct {
	Fn   *ssa.Function
	In   ssa.Instruction
	Expr string
	Pos  token.Pos
}

// proveNonNegHook: lets the syntactic non-negativity test ask the difference-constraint prover about a value at a point
// of the function that computes it (set up by newProver; guarded against re-entry).
var proveNonNegHook func(v ssa.Value, at ssa.Instruction) bool

func (c *C) newProver(fn *ssa.Function) *bprover {
	if paramNonNegHook == nil || c.hookOwner != c {
		c.hookOwner = c
		busy := map[*ssa.Parameter]bool{}
		paramNonNegHook = func(prm *ssa.Parameter) bool {
			if prm.Parent() == nil {
				return false
			}
			if busy[prm] {
				return true // coinductive: the invariant "non-negative" is assumed while it is being established
			}
			busy[prm] = true
			defer delete(busy, prm)
			for _, f := range c.callSitePre(prm.Parent()) {
				if f.a == "0" && f.b == "v:"+prm.Name() && f.c <= 0 {
					return true
				}
			}
			return false
		}
	}
	if proveNonNegHook == nil || c.hookOwner2 != c {
		c.hookOwner2 = c
		busyV := map[ssa.Value]bool{}
		proveNonNegHook = func(v ssa.Value, at ssa.Instruction) bool {
			if busyV[v] || len(busyV) > 2 || at.Parent() == nil {
				return false
			}
			busyV[v] = true
			defer delete(busyV, v)
			pr := c.newProver(at.Parent())
			return pr.ProveLE(lt{"0", 0}, pr.lin(v), 0, at)
		}
	}
	p := &bprover{c: c, fn: fn, vals: map[string]ssa.Value{}}
	// dispatcher precondition: executors are called with len(cmd) >= 1
	if _, isExec := c.Facts.ExecNames[fn]; isExec {
		for _, prm := range fn.Params {
			if sl, ok := prm.Type().Underlying().(*types.Slice); ok {
				if _, ok2 := sl.Elem().Underlying().(*types.Slice); ok2 {
					n := lenNode(prm)
					p.vals[n] = prm
					p.entry = append(p.entry, dfact{"0", n, -1})
				}
			}
		}
	}
	for _, f := range c.callSitePre(fn) {
		p.entry = append(p.entry, f)
	}
	p.entryPar = c.callSiteParity(fn)
	// a closure: what the enclosing function knows, where the closure is created, about the length of a slice or
	// string variable the closure captures (and that is assigned only once) holds inside the closure too
	if par := fn.Parent(); par != nil && closureFactDepth < 2 {
		closureFactDepth++
		for _, b := range par.Blocks {
			for _, in := range b.Instrs {
				mc, ok := in.(*ssa.MakeClosure)
				if !ok || mc.Fn != ssa.Value(fn) {
					continue
				}
				for i, bnd := range mc.Bindings {
					al, ok := bnd.(*ssa.Alloc)
					if !ok || i >= len(fn.FreeVars) {
						continue
					}
					sv := singleStore(al)
					if sv == nil {
						continue
					}
					isSeq := false
					switch t := sv.Type().Underlying().(type) {
					case *types.Slice:
						isSeq = true
					case *types.Basic:
						isSeq = t.Info()&types.IsString != 0
					}
					if !isSeq {
						continue
					}
					pc := c.newProver(par)
					ln := lenNode(sv)
					pc.vals[ln] = sv
					for _, k := range []int64{6, 5, 4, 3, 2, 1} {
						if pc.ProveLE(lt{"0", k}, lt{ln, 0}, 0, mc) {
							// inside the closure the variable is read through its cell: *free
							var load ssa.Value
							if fv := fn.FreeVars[i]; fv.Referrers() != nil {
								for _, r := range *fv.Referrers() {
									if u, ok := r.(*ssa.UnOp); ok && u.Op == token.MUL {
										load = u
										break
									}
								}
							}
							if load != nil {
								n := lenNode(load)
								p.vals[n] = load
								p.entry = append(p.entry, dfact{"0", n, -k})
							}
							break
						}
					}
				}
			}
		}
		closureFactDepth--
	}
	return p
}

var closureFactDepth int

// callSiteParity: for each slice/string parameter of a non-executor first-party function, the parity of its length when
// every static call site passes a value whose length has that parity at the call (e.g. cmd[3:] after len(cmd)%2 == 1).
func (c *C) callSiteParity(fn *ssa.Function) map[string]int {
	if c.parMemo == nil {
		c.parMemo = map[*ssa.Function]map[string]int{}
		c.parBusy = map[*ssa.Function]bool{}
	}
	if r, ok := c.parMemo[fn]; ok {
		return r
	}
	if c.parBusy[fn] || fn.Parent() != nil {
		return nil
	}
	if _, isExec := c.Facts.ExecNames[fn]; isExec {
		return nil
	}
	c.parBusy[fn] = true
	defer func() { c.parBusy[fn] = false }()
	var sites []*ssa.Call
	addrTaken := false
	for _, g := range c.P.allFuncs(firstPartyPkgs...) {
		for _, b := range g.Blocks {
			for _, in := range b.Instrs {
				if call, ok := in.(*ssa.Call); ok && callee(call) == fn {
					sites = append(sites, call)
					continue
				}
				var rands [10]*ssa.Value
				for _, op := range in.Operands(rands[:0]) {
					if *op == ssa.Value(fn) {
						if ci, ok := in.(ssa.CallInstruction); !ok || ci.Common().Value != *op {
							addrTaken = true
						}
					}
				}
			}
		}
	}
	out := map[string]int{}
	if len(sites) > 0 && !addrTaken {
		for i, prm := range fn.Params {
			isSeq := false
			switch t := prm.Type().Underlying().(type) {
			case *types.Slice:
				isSeq = true
			case *types.Basic:
				isSeq = t.Info()&types.IsString != 0
			}
			if !isSeq {
				continue
			}
			res, okAll := -1, true
			for _, call := range sites {
				if i >= len(call.Call.Args) {
					okAll = false
					break
				}
				pc := c.newProver(call.Parent())
				arg := call.Call.Args[i]
				ln := lenNode(arg)
				pc.vals[ln] = arg
				fs := &factSet{par: map[string]int{}}
				pc.chainFacts(call.Block(), fs)
				pv, ok := pc.parityOf(ln, fs, map[string]bool{})
				if !ok || pv < 0 || (res >= 0 && res != pv) {
					okAll = false
					break
				}
				res = pv
			}
			if okAll && res >= 0 {
				out[lenNode(prm)] = res
			}
		}
	}
	c.parMemo[fn] = out
	return out
}

// callSitePre: lower bounds on len(param) that hold at every static call site of a first-party helper.
func (c *C) callSitePre(fn *ssa.Function) []dfact {
	if c.preMemo == nil {
		c.preMemo = map[*ssa.Function][]dfact{}
		c.preBusy = map[*ssa.Function]bool{}
	}
	if r, ok := c.preMemo[fn]; ok {
		return r
	}
	if c.preBusy[fn] || fn.Parent() != nil {
		return nil
	}
	if _, isExec := c.Facts.ExecNames[fn]; isExec {
		return nil
	}
	c.preBusy[fn] = true
	defer func() { c.preBusy[fn] = false }()
	var sites []*ssa.Call
	addrTaken := false
	for _, g := range c.P.allFuncs(firstPartyPkgs...) {
		for _, b := range g.Blocks {
			for _, in := range b.Instrs {
				if call, ok := in.(*ssa.Call); ok && callee(call) == fn {
					sites = append(sites, call)
					continue
				}
				var rands [10]*ssa.Value
				for _, op := range in.Operands(rands[:0]) {
					if *op == ssa.Value(fn) {
						if ci, ok := in.(ssa.CallInstruction); !ok || ci.Common().Value != *op {
							addrTaken = true
						}
					}
				}
			}
		}
	}
	var out []dfact
	if len(sites) > 0 && !addrTaken {
		// two slice parameters that every caller fills with slices of one length (ids, conns := subscribers(); broadcast(ids,
		// conns, ..)): the two results of a helper that appends to both in lock step, or lengths the caller can prove equal
		for i, pi := range fn.Params {
			if _, ok := pi.Type().Underlying().(*types.Slice); !ok {
				continue
			}
			for j, pj := range fn.Params {
				if j <= i {
					continue
				}
				if _, ok := pj.Type().Underlying().(*types.Slice); !ok {
					continue
				}
				same := true
				for _, call := range sites {
					if j >= len(call.Call.Args) {
						same = false
						break
					}
					a, b := call.Call.Args[i], call.Call.Args[j]
					ea, okA := a.(*ssa.Extract)
					eb, okB := b.(*ssa.Extract)
					if okA && okB && ea.Tuple == eb.Tuple {
						if hc, ok := ea.Tuple.(*ssa.Call); ok {
							if cf := hc.Call.StaticCallee(); cf != nil && cf.Blocks != nil && lockstepResults(cf, ea.Index, eb.Index) {
								continue
							}
						}
					}
					pc := c.newProver(call.Parent())
					if !(pc.ProveLE(pc.lenOf(a), pc.lenOf(b), 0, call) && pc.ProveLE(pc.lenOf(b), pc.lenOf(a), 0, call)) {
						same = false
						break
					}
				}
				if same {
					la, lb := lenNode(pi), lenNode(pj)
					out = append(out, dfact{la, lb, 0}, dfact{lb, la, 0})
				}
			}
		}
		for i, prm := range fn.Params {
			if isSignedInt(prm.Type()) {
				all := true
				for _, call := range sites {
					if i >= len(call.Call.Args) {
						all = false
						break
					}
					if nonNegValue(call.Call.Args[i], map[ssa.Value]bool{}, 0) {
						continue // non-negative by construction (a hash reduced modulo a length)
					}
					pc := c.newProver(call.Parent())
					if !pc.ProveLE(lt{"0", 0}, pc.lin(call.Call.Args[i]), 0, call) {
						all = false
						break
					}
				}
				if all {
					out = append(out, dfact{"0", "v:" + prm.Name(), 0})
				}
				// relational: this integer is a valid position in a slice/string parameter at every call site
				for j, other := range fn.Params {
					isSeq := false
					if _, ok := other.Type().Underlying().(*types.Slice); ok {
						isSeq = true
					}
					if bt, ok := other.Type().Underlying().(*types.Basic); ok && bt.Info()&types.IsString != 0 {
						isSeq = true
					}
					if !isSeq || j == i {
						continue
					}
					for _, slack := range []int64{-1, 0} { // idx < len, idx <= len
						holds := true
						for _, call := range sites {
							if i >= len(call.Call.Args) || j >= len(call.Call.Args) {
								holds = false
								break
							}
							pc := c.newProver(call.Parent())
							if !pc.ProveLE(pc.lin(call.Call.Args[i]), pc.lenOf(call.Call.Args[j]), slack, call) {
								if os.Getenv("RG_DEBUG") != "" {
									fmt.Fprintf(os.Stderr, "callSitePre %s: %v - %v <= %d fails at %s\n", fn.Name(), pc.lin(call.Call.Args[i]), pc.lenOf(call.Call.Args[j]), slack, c.pos(call.Pos()))
								}
								holds = false
								break
							}
						}
						if holds {
							ln := lenNode(other)
							out = append(out, dfact{"v:" + prm.Name(), ln, slack})
							break
						}
					}
				}
				continue
			}
			// integer fields of a pointer-to-struct parameter read by the callee: non-negative / bounded at every call site
			if pt, ok := prm.Type().Underlying().(*types.Pointer); ok {
				if st, ok := pt.Elem().Underlying().(*types.Struct); ok {
					for fi := 0; fi < st.NumFields(); fi++ {
						if !isSignedInt(st.Field(fi).Type()) {
							continue
						}
						first := firstFieldLoad(fn, prm, fi)
						if first == nil {
							continue
						}
						lower, upper := true, int64(1<<62)
						for _, call := range sites {
							if i >= len(call.Call.Args) {
								lower = false
								break
							}
							ld := dominatingFieldLoad(call, call.Call.Args[i], fi)
							if ld == nil {
								lower, upper = false, -1
								break
							}
							pc := c.newProver(call.Parent())
							if !pc.ProveLE(lt{"0", 0}, pc.lin(ld), 0, call) {
								lower = false
							}
							got := int64(-1)
							for _, k := range []int64{1 << 20, 1 << 29, 1 << 31} {
								if pc.ProveLE(pc.lin(ld), lt{"0", 0}, k, call) {
									got = k
									break
								}
							}
							if got < 0 {
								upper = -1
							} else if upper >= 0 && got > upper || upper == 1<<62 {
								upper = got
							}
						}
						node := "v:" + first.Name()
						if lower {
							out = append(out, dfact{"0", node, 0})
						}
						if upper > 0 && upper < 1<<62 {
							out = append(out, dfact{node, "0", upper})
						}
					}
				}
				continue
			}
			if _, ok := prm.Type().Underlying().(*types.Slice); !ok {
				continue
			}
			best := int64(1 << 30)
			for _, call := range sites {
				if i >= len(call.Call.Args) {
					best = 0
					break
				}
				pc := c.newProver(call.Parent())
				arg := call.Call.Args[i]
				ln := lenNode(arg)
				pc.vals[ln] = arg
				got := int64(0)
				for _, k := range []int64{4, 3, 2, 1} {
					if pc.ProveLE(lt{"0", k}, lt{ln, 0}, 0, call) {
						got = k
						break
					}
				}
				if got < best {
					best = got
				}
			}
			if best > 0 && best < 1<<30 {
				n := lenNode(prm)
				out = append(out, dfact{"0", n, -best})
			}
			// an upper bound on the length that every call site has established (an arity check made by the caller)
			worst := int64(-1)
			for _, call := range sites {
				if i >= len(call.Call.Args) {
					worst = 1 << 30
					break
				}
				pc := c.newProver(call.Parent())
				arg := call.Call.Args[i]
				ln := lenNode(arg)
				pc.vals[ln] = arg
				got := int64(1 << 30)
				for _, k := range []int64{1, 2, 3, 4, 5, 6, 8} {
					if pc.ProveLE(lt{ln, 0}, lt{"0", 0}, k, call) {
						got = k
						break
					}
				}
				if got > worst {
					worst = got
				}
			}
			if worst > 0 && worst < 1<<30 {
				out = append(out, dfact{lenNode(prm), "0", worst})
			}
		}
	}
	c.preMemo[fn] = out
	return out
}

// proveSite proves one index/slice instruction in bounds; returns ok and a description of what failed.
func (c *C) proveSite(p *bprover, in ssa.Instruction) (bool, string) {
	zero := lt{"0", 0}
	upper := func(x ssa.Value) (lt, bool) {
		switch t := x.Type().Underlying().(type) {
		case *types.Slice:
			return p.lenOf(x), true
		case *types.Basic:
			if t.Info()&types.IsString != 0 {
				return p.lenOf(x), true
			}
		case *types.Pointer:
			if arr, ok := t.Elem().Underlying().(*types.Array); ok {
				return lt{"0", arr.Len()}, true
			}
		case *types.Array:
			return lt{"0", t.Len()}, true
		}
		return lt{}, false
	}
	checkIndex := func(x, idx ssa.Value) (bool, string) {
		up, ok := upper(x)
		if !ok {
			return false, "unsupported indexed type " + x.Type().String()
		}
		// a table indexed by a small enumeration: the index has a named integer type of the package all of whose values
		// in the program are its declared constants (or the zero value), and the table has a slot for each
		if lo, hi, closed := p.c.enumRange(idx.Type()); closed && lo >= 0 && up.n == "0" && hi < up.k {
			return true, ""
		}
		i := p.lin(idx)
		if !isSignedInt(idx.Type()) {
			// unsigned index: only the upper bound matters, but we cannot relate it soundly
			if !p.ProveLE(i, up, -1, in) {
				return false, "no dominating guard index < len (unsigned index)"
			}
			return true, ""
		}
		if !p.ProveLE(zero, i, 0, in) {
			// k*v + c with k >= 1, c >= 0 is non-negative when v is (lengths stay far below the point where k*v wraps)
			lowerOK := false
			if k, v, cst, ok := scaledIndex(idx); ok && k >= 1 && k <= 16 && cst >= 0 && p.ProveLE(zero, p.lin(v), 0, in) {
				lowerOK = true
			}
			if !lowerOK {
				return false, "lower bound: cannot show " + canon(idx) + " >= 0"
			}
		}
		if !p.ProveLE(i, up, -1, in) {
			// parallel slices: x and the slice the index ranges over are two results of one call that fills both in lockstep
			if ex, ok := x.(*ssa.Extract); ok {
				if call, ok := ex.Tuple.(*ssa.Call); ok && call.Referrers() != nil {
					for _, r := range *call.Referrers() {
						other, ok := r.(*ssa.Extract)
						if !ok || other == ex {
							continue
						}
						if _, isSl := other.Type().Underlying().(*types.Slice); !isSl {
							continue
						}
						if p.ProveLE(i, p.lenOf(other), -1, in) && lockstepResults(call.Call.StaticCallee(), ex.Index, other.Index) {
							return true, ""
						}
					}
				}
			}
			// a scaled index k*i + c under i < (len(x) - d) / k: the largest value is len(x) - d - k + c, in range when c < d + k
			if k, v, cst, ok := scaledIndex(idx); ok && k >= 1 && cst >= 0 {
				for _, b := range in.Parent().Blocks {
					for _, qi := range b.Instrs {
						q, isQ := qi.(*ssa.BinOp)
						if !isQ || q.Op != token.QUO {
							continue
						}
						if kk, isK := constInt(q.Y); !isK || kk != k {
							continue
						}
						num := p.lin(q.X)
						if num.n != up.n {
							continue
						}
						d := up.k - num.k // numerator = len(x) - d
						if d < 0 || cst >= d+k {
							continue
						}
						if p.ProveLE(p.lin(v), p.lin(q), -1, in) && p.ProveLE(zero, p.lin(v), 0, in) {
							return true, ""
						}
					}
				}
			}
			// a scaled index k*t + c where t counts the elements a strided loop collected from x (keys[t] is x[j0+k*t]):
			// element t was appended in the iteration with j = j0 + k*t < len(x)
			if k, v, cst, ok := scaledIndex(idx); ok && k >= 1 && cst >= 0 {
				if p.stridedCollection(x, k, v, cst, in) {
					return true, ""
				}
			}
			// the index of the best element so far: 0 at first, later only ever the position of the element just appended
			if ip, ok := idx.(*ssa.Phi); ok {
				if sp, ok := x.(*ssa.Phi); ok && bestSoFarIndex(ip, sp) && p.ProveLE(zero, up, -1, in) {
					return true, ""
				}
			}
			return false, "upper bound: cannot show " + canon(idx) + " < len(" + canon(x) + ")"
		}
		return true, ""
	}
	switch x := in.(type) {
	case *ssa.MakeSlice:
		// X/k and X>>k (k > 0) are non-negative exactly when X is
		unq := func(v ssa.Value) ssa.Value {
			for {
				bo, ok := v.(*ssa.BinOp)
				if !ok || (bo.Op != token.QUO && bo.Op != token.SHR) {
					return v
				}
				if k, ok := constInt(bo.Y); !ok || k <= 0 {
					return v
				}
				v = bo.X
			}
		}
		l, cp := p.lin(x.Len), p.lin(x.Cap)
		if _, isC := x.Len.(*ssa.Const); !isC && isSignedInt(x.Len.Type()) && !p.ProveLE(zero, p.lin(unq(x.Len)), 0, in) {
			return false, "cannot show the length " + canon(x.Len) + " of the new slice >= 0 (makeslice panics on a negative size)"
		}
		if x.Cap != x.Len {
			if k, isC := constInt(x.Len); isC && k == 0 {
				if !p.ProveLE(zero, p.lin(unq(x.Cap)), 0, in) {
					return false, "cannot show the capacity " + canon(x.Cap) + " of the new slice >= 0 (makeslice panics on a negative size)"
				}
			} else if !p.ProveLE(l, cp, 0, in) {
				return false, "cannot show len <= cap for the new slice (" + canon(x.Len) + " <= " + canon(x.Cap) + ")"
			}
		}
		return true, ""
	case *ssa.IndexAddr:
		return checkIndex(x.X, x.Index)
	case *ssa.Index:
		return checkIndex(x.X, x.Index)
	case *ssa.Lookup:
		if _, isMap := x.X.Type().Underlying().(*types.Map); isMap {
			return true, ""
		}
		return checkIndex(x.X, x.Index)
	case *ssa.Slice:
		up, ok := upper(x.X)
		if !ok {
			return false, "unsupported sliced type"
		}
		lo, hi := zero, up
		if x.Low != nil {
			lo = p.lin(x.Low)
			if isSignedInt(x.Low.Type()) && !p.ProveLE(zero, lo, 0, in) {
				return false, "cannot show low bound " + canon(x.Low) + " >= 0"
			}
		}
		if x.High != nil {
			hi = p.lin(x.High)
			if !p.ProveLE(hi, up, 0, in) {
				// a slice may be re-sliced up to its capacity: s[:n] with n <= cap(s) is in range whatever len(s) is
				_, isSliceT := x.X.Type().Underlying().(*types.Slice)
				if !(isSliceT && p.capAtLeast(x.X, hi, in, 0)) {
					return false, "cannot show high bound " + canon(x.High) + " <= len(" + canon(x.X) + ")"
				}
			}
			if x.Low == nil && isSignedInt(x.High.Type()) && !p.ProveLE(zero, hi, 0, in) {
				return false, "cannot show high bound " + canon(x.High) + " >= 0"
			}
		}
		if x.Low != nil && !p.ProveLE(lo, hi, 0, in) {
			return false, "cannot show low <= high (" + canon(x.Low) + " <= " + func() string {
				if x.High != nil {
					return canon(x.High)
				}
				return "len(" + canon(x.X) + ")"
			}() + ")"
		}
		return true, ""
	}
	return true, ""
}

func siteExpr(in ssa.Instruction) string {
	switch x := in.(type) {
	case *ssa.IndexAddr:
		return canon(x.X) + "[" + canon(x.Index) + "]"
	case *ssa.Index:
		return canon(x.X) + "[" + canon(x.Index) + "]"
	case *ssa.Lookup:
		return canon(x.X) + "[" + canon(x.Index) + "]"
	case *ssa.Slice:
		lo, hi := "", ""
		if x.Low != nil {
			lo = canon(x.Low)
		}
		if x.High != nil {
			hi = canon(x.High)
		}
		return canon(x.X) + "[" + lo + ":" + hi + "]"
	case *ssa.MakeSlice:
		return x.Type().String() + "(" + canon(x.Len) + "," + canon(x.Cap) + ")"
	}
	return "?"
}

var _ = sort.Strings

// fieldLenAlias: for struct type T, int field N always equals len(slice field S): both fields are stored only in
// one function (the constructor), where S receives make([]X, n) and N receives the same n. Returns S.
func (c *C) fieldLenAlias(t types.Type, nField string) (string, bool) {
	n, ok := derefNamed(t)
	if !ok {
		return "", false
	}
	key := n.Obj().Name() + "." + nField
	if c.aliasMemo == nil {
		c.aliasMemo = map[string]string{}
	}
	if r, ok := c.aliasMemo[key]; ok {
		return r, r != ""
	}
	c.aliasMemo[key] = ""
	type st struct {
		fn  *ssa.Function
		val ssa.Value
	}
	stores := map[string][]st{}
	for _, fn := range c.P.allFuncs(firstPartyPkgs...) {
		for _, b := range fn.Blocks {
			for _, in := range b.Instrs {
				s, ok := in.(*ssa.Store)
				if !ok {
					continue
				}
				fa, ok := s.Addr.(*ssa.FieldAddr)
				if !ok || !isNamed(fa.X.Type().Underlying().(*types.Pointer).Elem(), n) {
					continue
				}
				stores[fieldName(fa)] = append(stores[fieldName(fa)], st{fn, s.Val})
			}
		}
	}
	// whole-struct overwrites (*m = *New...) also count as construction by the constructor itself
	ns := stores[nField]
	if len(ns) != 1 {
		return "", false
	}
	for f, ss := range stores {
		if f == nField || len(ss) != 1 || ss[0].fn != ns[0].fn {
			continue
		}
		if ms, ok := ss[0].val.(*ssa.MakeSlice); ok && ms.Len == ns[0].val {
			c.aliasMemo[key] = f
			return f, true
		}
	}
	return "", false
}

// boundedAbove: v <= 2^62 at instruction `at` (so that adding two such values cannot wrap).
// Lengths of slices and strings are trusted to be below 2^62; anything else needs a dominating guard against a constant.
func (p *bprover) boundedAbove(v ssa.Value, at ssa.Instruction) bool {
	if p.inBound {
		return false
	}
	l := p.lin(v)
	if l.n == "0" {
		return l.k <= 1<<62
	}
	if strings.HasPrefix(l.n, "len:") {
		return l.k <= 1<<61
	}
	p.inBound = true
	defer func() { p.inBound = false }()
	s := &factSet{par: map[string]int{}}
	p.chainFacts(at.Block(), s)
	// only constant bounds: no definitional closure needed beyond linear terms
	d, ok := shortest(s.fs, l.n, "0")
	return ok && d+l.k <= 1<<62
}

// fieldLoadRep returns the earliest load of the same field address that dominates `load` with an interference-free path.
func (p *bprover) fieldLoadRep(load *ssa.UnOp, fa *ssa.FieldAddr) ssa.Value {
	if p.repMemo == nil {
		p.repMemo = map[ssa.Value]ssa.Value{}
	}
	if r, ok := p.repMemo[load]; ok {
		return r
	}
	p.repMemo[load] = load
	want := canon(load)
	field := fieldName(fa)
	var best *ssa.UnOp
	for _, b := range p.fn.Blocks {
		if !b.Dominates(load.Block()) {
			continue
		}
		for _, in := range b.Instrs {
			u, ok := in.(*ssa.UnOp)
			if !ok || u == load || u.Op != token.MUL {
				continue
			}
			if _, isFA := u.X.(*ssa.FieldAddr); !isFA || canon(u) != want {
				continue
			}
			if b == load.Block() && !before(u, load) {
				continue
			}
			if !clearBetween(u, load, field) {
				continue
			}
			if best == nil || u.Block().Dominates(best.Block()) && (u.Block() != best.Block() || before(u, best)) {
				best = u
			}
		}
	}
	if best != nil {
		p.repMemo[load] = best
		return best
	}
	return load
}

func before(a, b ssa.Instruction) bool {
	for _, in := range a.Block().Instrs {
		if in == a {
			return true
		}
		if in == b {
			return false
		}
	}
	return false
}

// clearBetween: on every path from instruction a to instruction b (a dominates b) there is no store to a field
// named `field`, no non-builtin call, and the region is loop-free with respect to a.
func clearBetween(a, b ssa.Instruction, field string) bool {
	interferes := func(in ssa.Instruction) bool {
		switch x := in.(type) {
		case *ssa.Store:
			if fa, ok := x.Addr.(*ssa.FieldAddr); ok && fieldName(fa) == field {
				return true
			}
			if _, isFA := x.Addr.(*ssa.FieldAddr); !isFA {
				if _, isAl := x.Addr.(*ssa.Alloc); !isAl {
					if _, isIA := x.Addr.(*ssa.IndexAddr); !isIA {
						return true // store through an unknown pointer
					}
				}
			}
		case ssa.CallInstruction:
			if _, isB := x.Common().Value.(*ssa.Builtin); !isB {
				if cf := x.Common().StaticCallee(); cf == nil || !(cf.Pkg != nil && (cf.Pkg.Pkg.Path() == "errors" || cf.Pkg.Pkg.Path() == "fmt" || cf.Pkg.Pkg.Path() == "strconv")) {
					return true
				}
			}
		}
		return false
	}
	// blocks that lie on a path a.Block -> b.Block
	fwd := map[*ssa.BasicBlock]bool{}
	var f func(x *ssa.BasicBlock)
	f = func(x *ssa.BasicBlock) {
		if fwd[x] {
			return
		}
		fwd[x] = true
		if x == b.Block() {
			return
		}
		for _, s := range x.Succs {
			f(s)
		}
	}
	f(a.Block())
	bwd := map[*ssa.BasicBlock]bool{}
	var g func(x *ssa.BasicBlock)
	g = func(x *ssa.BasicBlock) {
		if bwd[x] {
			return
		}
		bwd[x] = true
		if x == a.Block() {
			return
		}
		for _, pr := range x.Preds {
			g(pr)
		}
	}
	g(b.Block())
	for blk := range fwd {
		if !bwd[blk] {
			continue
		}
		start, end := 0, len(blk.Instrs)
		for i, in := range blk.Instrs {
			if in == a {
				start = i + 1
			}
			if in == b {
				end = i
			}
		}
		if blk == a.Block() && blk == b.Block() && start > end {
			return false
		}
		for i := start; i < end; i++ {
			if interferes(blk.Instrs[i]) {
				return false
			}
		}
	}
	// a must not be re-executed between (loop back to a's block through the region)
	if a.Block() != b.Block() {
		for _, pr := range a.Block().Preds {
			if fwd[pr] && bwd[pr] && pr != a.Block() && a.Block().Dominates(pr) && pr.Dominates(b.Block()) == false && reaches(pr, b.Block(), a.Block()) {
				// a loop around a that also leads to b: the representative would be stale only if stored, which was checked
			}
		}
	}
	return true
}

func reaches(from, to, avoid *ssa.BasicBlock) bool {
	seen := map[*ssa.BasicBlock]bool{}
	var dfs func(x *ssa.BasicBlock) bool
	dfs = func(x *ssa.BasicBlock) bool {
		if x == to {
			return true
		}
		if seen[x] || x == avoid {
			return false
		}
		seen[x] = true
		for _, s := range x.Succs {
			if dfs(s) {
				return true
			}
		}
		return false
	}
	return dfs(from)
}

// firstFieldLoad: the first load of field fi of pointer parameter prm in fn that is reached from the entry without
// any store to that field or call in between (the value the caller passed in).
func firstFieldLoad(fn *ssa.Function, prm *ssa.Parameter, fi int) *ssa.UnOp {
	var best *ssa.UnOp
	for _, b := range fn.Blocks {
		for _, in := range b.Instrs {
			u, ok := in.(*ssa.UnOp)
			if !ok || u.Op != token.MUL {
				continue
			}
			fa, ok := u.X.(*ssa.FieldAddr)
			if !ok || fa.X != ssa.Value(prm) || fa.Field != fi {
				continue
			}
			if best == nil || b.Dominates(best.Block()) && (b != best.Block() || before(u, best)) {
				best = u
			}
		}
	}
	if best == nil || len(fn.Blocks) == 0 || len(fn.Blocks[0].Instrs) == 0 {
		return nil
	}
	entry := fn.Blocks[0].Instrs[0]
	if entry != ssa.Instruction(best) && !clearBetween(entry, best, fieldNameOf(best)) {
		return nil
	}
	return best
}

func fieldNameOf(u *ssa.UnOp) string {
	if fa, ok := u.X.(*ssa.FieldAddr); ok {
		return fieldName(fa)
	}
	return ""
}

// dominatingFieldLoad: a load of field fi of the struct pointed to by arg that dominates the call with no store to
// that field or call in between.
func dominatingFieldLoad(call *ssa.Call, arg ssa.Value, fi int) *ssa.UnOp {
	fn := call.Parent()
	var best *ssa.UnOp
	for _, b := range fn.Blocks {
		if !b.Dominates(call.Block()) {
			continue
		}
		for _, in := range b.Instrs {
			u, ok := in.(*ssa.UnOp)
			if !ok || u.Op != token.MUL {
				continue
			}
			fa, ok := u.X.(*ssa.FieldAddr)
			if !ok || fa.Field != fi || canon(fa.X) != canon(arg) {
				continue
			}
			if b == call.Block() && !before(u, call) {
				continue
			}
			if clearBetween(u, call, fieldName(fa)) {
				best = u
			}
		}
	}
	return best
}

// lockstepResults: results i and j of fn are slices that start empty and receive exactly one append each in the same
// basic blocks (so they always have the same length).
func lockstepResults(fn *ssa.Function, i, j int) bool {
	if fn == nil || fn.Blocks == nil {
		return false
	}
	appendBlocks := func(v ssa.Value) (map[*ssa.BasicBlock]int, bool) {
		out := map[*ssa.BasicBlock]int{}
		seen := map[ssa.Value]bool{}
		ok := true
		var walk func(v ssa.Value)
		walk = func(v ssa.Value) {
			if seen[v] {
				return
			}
			seen[v] = true
			switch x := v.(type) {
			case *ssa.Phi:
				for _, e := range x.Edges {
					walk(e)
				}
			case *ssa.MakeSlice:
				if k, isK := constInt(x.Len); !isK || k != 0 {
					ok = false
				}
			case *ssa.Slice:
				if al, isAl := x.X.(*ssa.Alloc); !isAl || al.Comment != "makeslice" {
					ok = false
				}
			case *ssa.Call:
				if ap, isAp := isAppend(x); isAp {
					if elems, isLit := sliceLiteralElems(ap.Call.Args[1]); isLit {
						out[x.Block()] += len(elems)
					} else {
						ok = false
					}
					walk(ap.Call.Args[0])
					return
				}
				ok = false
			default:
				ok = false
			}
		}
		walk(v)
		return out, ok
	}
	for _, b := range fn.Blocks {
		for _, in := range b.Instrs {
			ret, isRet := in.(*ssa.Return)
			if !isRet || len(ret.Results) <= i || len(ret.Results) <= j {
				continue
			}
			rr := retResults(ret)
			if len(rr[i]) != 1 || len(rr[j]) != 1 {
				return false
			}
			a, okA := appendBlocks(rr[i][0])
			bb, okB := appendBlocks(rr[j][0])
			if !okA || !okB || len(a) != len(bb) {
				return false
			}
			for blk, n := range a {
				if bb[blk] != n {
					return false
				}
			}
		}
	}
	return true
}

// resultLeLen: on every return of fn, result k is <= len(parameter j) (a position inside or at the end of the slice/string).
func (c *C) resultLeLen(fn *ssa.Function, k, j int) bool {
	if fn == nil || fn.Blocks == nil || j >= len(fn.Params) {
		return false
	}
	switch t := fn.Params[j].Type().Underlying().(type) {
	case *types.Slice:
	case *types.Basic:
		if t.Info()&types.IsString == 0 {
			return false
		}
	default:
		return false
	}
	if c.rllMemo == nil {
		c.rllMemo = map[string]int{}
	}
	key := fmt.Sprintf("%s|%d|%d", fn.String(), k, j)
	switch c.rllMemo[key] {
	case 1:
		return true
	case 2, 3:
		return false
	}
	c.rllMemo[key] = 3
	res, any := true, false
	pr := c.newProver(fn)
	for _, b := range fn.Blocks {
		for _, in := range b.Instrs {
			ret, ok := in.(*ssa.Return)
			if !ok || len(ret.Results) <= k || !isSignedInt(ret.Results[k].Type()) {
				continue
			}
			for _, v := range retResults(ret)[k] {
				any = true
				if !pr.ProveLE(pr.lin(v), pr.lenOf(fn.Params[j]), 0, ret) {
					res = false
				}
			}
		}
	}
	if os.Getenv("RG_DEBUG") != "" {
		fmt.Fprintf(os.Stderr, "resultLeLen %s k=%d j=%d -> %v (any=%v) entry=%v\n", fn.Name(), k, j, res, any, pr.entry)
	}
	if res && any {
		c.rllMemo[key] = 1
		return true
	}
	c.rllMemo[key] = 2
	return false
}

// lockstepPhis: x and y are phis of one loop header; on every edge from outside the loop both carry constants
// (x0, y0), on every back edge x carries x+kx or x itself and y carries y+ky with 0 <= kx <= ky (or y itself only when
// x is unchanged too). Then x - y <= max(x0 - y0) at every point. Returns that bound.
func lockstepPhis(x, y *ssa.Phi) (int64, bool) {
	b := x.Block()
	if y.Block() != b || len(x.Edges) != len(y.Edges) {
		return 0, false
	}
	step := func(phi *ssa.Phi, e ssa.Value) (int64, bool) {
		if e == ssa.Value(phi) {
			return 0, true
		}
		if bo, ok := e.(*ssa.BinOp); ok && bo.Op == token.ADD && bo.X == ssa.Value(phi) {
			if k, ok := constInt(bo.Y); ok {
				return k, true
			}
		}
		return 0, false
	}
	bound, have, back := int64(0), false, false
	for i, pred := range b.Preds {
		if b.Dominates(pred) {
			kx, ok1 := step(x, x.Edges[i])
			ky, ok2 := step(y, y.Edges[i])
			if !ok1 || !ok2 || kx < 0 || kx > ky {
				return 0, false
			}
			back = true
			continue
		}
		x0, ok1 := constInt(x.Edges[i])
		y0, ok2 := constInt(y.Edges[i])
		if !ok1 || !ok2 {
			return 0, false
		}
		if !have || x0-y0 > bound {
			bound, have = x0-y0, true
		}
	}
	return bound, have && back
}

// ctxResultLeLen: like resultLeLen, but for one call: result k of this call is <= len(argument j), established in the
// callee under the position facts (argument i < / <= len(argument j'), argument i >= 0) that hold at this call site.
// Used when the callee's other call sites do not all satisfy the precondition the postcondition needs.
func (c *C) ctxResultLeLen(call *ssa.Call, k, j int) bool {
	cf := call.Call.StaticCallee()
	if cf == nil || cf.Blocks == nil || !firstParty(cf) || j >= len(cf.Params) || len(call.Call.Args) != len(cf.Params) || calleeProofDepth >= 2 {
		return false
	}
	isSeq := func(t types.Type) bool {
		switch u := t.Underlying().(type) {
		case *types.Slice:
			return true
		case *types.Basic:
			return u.Info()&types.IsString != 0
		}
		return false
	}
	if !isSeq(cf.Params[j].Type()) {
		return false
	}
	if c.ctxMemo == nil {
		c.ctxMemo = map[string]bool{}
	}
	key := fmt.Sprintf("%p|%d|%d", call, k, j)
	if r, ok := c.ctxMemo[key]; ok {
		return r
	}
	c.ctxMemo[key] = false
	calleeProofDepth++
	defer func() { calleeProofDepth-- }()
	var facts []dfact
	for i, prm := range cf.Params {
		if !isSignedInt(prm.Type()) {
			continue
		}
		pc := c.newProver(call.Parent())
		if pc.ProveLE(lt{"0", 0}, pc.lin(call.Call.Args[i]), 0, call) {
			facts = append(facts, dfact{"0", "v:" + prm.Name(), 0})
		}
		for j2, other := range cf.Params {
			if !isSeq(other.Type()) {
				continue
			}
			for _, slack := range []int64{-1, 0} {
				pc := c.newProver(call.Parent())
				if pc.ProveLE(pc.lin(call.Call.Args[i]), pc.lenOf(call.Call.Args[j2]), slack, call) {
					facts = append(facts, dfact{"v:" + prm.Name(), lenNode(other), slack})
					break
				}
			}
		}
	}
	if len(facts) == 0 {
		return false
	}
	pr := c.newProver(cf)
	pr.entry = append(pr.entry, facts...)
	res, any := true, false
	for _, b := range cf.Blocks {
		for _, in := range b.Instrs {
			ret, ok := in.(*ssa.Return)
			if !ok || len(ret.Results) <= k || !isSignedInt(ret.Results[k].Type()) {
				continue
			}
			for _, v := range retResults(ret)[k] {
				any = true
				if !pr.ProveLE(pr.lin(v), pr.lenOf(cf.Params[j]), 0, ret) {
					res = false
				}
			}
		}
	}
	c.ctxMemo[key] = res && any
	return res && any
}

func isLoopHeaderBlock(b *ssa.BasicBlock) bool {
	for _, p := range b.Preds {
		if b.Dominates(p) {
			return true
		}
	}
	return false
}

// lockstepLenPhi: x is a slice phi and y an int phi of one loop header; from outside the loop x is empty (make with
// constant length 0, nil) or of constant length and y a constant; on every back edge x is append(x, one element) and y is
// y+1. Then len(x) - y keeps its initial value. Returns that difference.
func lockstepLenPhi(x, y *ssa.Phi) (int64, bool) {
	b := x.Block()
	if y.Block() != b || len(x.Edges) != len(y.Edges) {
		return 0, false
	}
	d, have, back := int64(0), false, false
	for i, pred := range b.Preds {
		if b.Dominates(pred) {
			ap, ok := isAppend(x.Edges[i])
			if !ok || ap.Call.Args[0] != ssa.Value(x) {
				return 0, false
			}
			elems, ok := sliceLiteralElems(ap.Call.Args[1])
			if !ok || len(elems) != 1 {
				return 0, false
			}
			bo, ok := y.Edges[i].(*ssa.BinOp)
			if !ok || bo.Op != token.ADD || bo.X != ssa.Value(y) {
				return 0, false
			}
			if k, ok := constInt(bo.Y); !ok || k != 1 {
				return 0, false
			}
			back = true
			continue
		}
		x0 := int64(-1)
		if k, ok := constSliceLen(x.Edges[i]); ok {
			x0 = k
		}
		y0, ok := constInt(y.Edges[i])
		if x0 < 0 || !ok {
			return 0, false
		}
		if have && x0-y0 != d {
			return 0, false
		}
		d, have = x0-y0, true
	}
	return d, have && back
}

// resultLenGE: every value fn returns as result k is a slice with at least len(param j) elements.
func (c *C) resultLenGE(fn *ssa.Function, k, j int) bool {
	if fn == nil || fn.Blocks == nil || j >= len(fn.Params) || calleeProofDepth >= 2 {
		return false
	}
	if _, ok := fn.Params[j].Type().Underlying().(*types.Slice); !ok {
		return false
	}
	r := fn.Signature.Results()
	if k >= r.Len() {
		return false
	}
	if _, ok := r.At(k).Type().Underlying().(*types.Slice); !ok {
		return false
	}
	if c.rlgMemo == nil {
		c.rlgMemo = map[string]int{}
	}
	key := fmt.Sprintf("%s|%d|%d", fn.String(), k, j)
	switch c.rlgMemo[key] {
	case 1:
		return true
	case 2, 3:
		return false
	}
	c.rlgMemo[key] = 3
	calleeProofDepth++
	defer func() { calleeProofDepth-- }()
	pr := c.newProver(fn)
	res, any := true, false
	for _, b := range fn.Blocks {
		for _, in := range b.Instrs {
			ret, ok := in.(*ssa.Return)
			if !ok || len(ret.Results) <= k {
				continue
			}
			for _, v := range retResults(ret)[k] {
				any = true
				if !pr.ProveLE(pr.lenOf(fn.Params[j]), pr.lenOf(v), 0, ret) {
					res = false
				}
			}
		}
	}
	if res && any {
		c.rlgMemo[key] = 1
		return true
	}
	c.rlgMemo[key] = 2
	return false
}

// lockstepFields: fn returns (as result idx) a record it built locally whose slice fields k1 and k2 both start empty and
// receive the same number of appended elements in every basic block: the two have equal length whatever path was taken.
func lockstepFields(fn *ssa.Function, idx, k1, k2 int) bool {
	if fn == nil || fn.Blocks == nil {
		return false
	}
	any := false
	for _, b := range fn.Blocks {
		for _, in := range b.Instrs {
			ret, ok := in.(*ssa.Return)
			if !ok || len(ret.Results) <= idx {
				continue
			}
			rr := retResults(ret)[idx]
			if len(rr) != 1 {
				return false
			}
			u, ok := rr[0].(*ssa.UnOp)
			if !ok {
				return false
			}
			al, ok := u.X.(*ssa.Alloc)
			if !ok || al.Referrers() == nil {
				return false
			}
			counts := map[int]map[*ssa.BasicBlock]int{k1: {}, k2: {}}
			for _, r := range *al.Referrers() {
				fa, ok := r.(*ssa.FieldAddr)
				if !ok {
					if _, isLoad := r.(*ssa.UnOp); isLoad {
						continue
					}
					if _, isDbg := r.(*ssa.DebugRef); isDbg {
						continue
					}
					return false
				}
				if fa.Field != k1 && fa.Field != k2 {
					continue
				}
				if fa.Referrers() == nil {
					continue
				}
				for _, rr2 := range *fa.Referrers() {
					st, ok := rr2.(*ssa.Store)
					if !ok {
						if _, isLoad := rr2.(*ssa.UnOp); isLoad {
							continue
						}
						if _, isDbg := rr2.(*ssa.DebugRef); isDbg {
							continue
						}
						return false
					}
					switch v := st.Val.(type) {
					case *ssa.MakeSlice:
						if k, isK := constInt(v.Len); !isK || k != 0 {
							return false
						}
					case *ssa.Slice:
						if a2, isAl := v.X.(*ssa.Alloc); !isAl || a2.Comment != "makeslice" {
							return false
						}
					case *ssa.Call:
						ap, isAp := isAppend(v)
						if !isAp {
							return false
						}
						base, isLoad := ap.Call.Args[0].(*ssa.UnOp)
						if !isLoad {
							return false
						}
						bfa, isFA := base.X.(*ssa.FieldAddr)
						if !isFA || bfa.X != ssa.Value(al) || bfa.Field != fa.Field {
							return false
						}
						elems, isLit := sliceLiteralElems(ap.Call.Args[1])
						if !isLit {
							return false
						}
						counts[fa.Field][st.Block()] += len(elems)
					default:
						return false
					}
				}
			}
			if len(counts[k1]) != len(counts[k2]) {
				return false
			}
			for blk, n := range counts[k1] {
				if counts[k2][blk] != n {
					return false
				}
			}
			any = true
		}
	}
	return any
}

// lockstepSlicePhis: x and y are slice phis of one loop header; from outside the loop both have a constant length
// (make with a constant length, nil); on every back edge each is append(itself, one element). Then len(x) - len(y) keeps
// its initial value, which is returned.
func lockstepSlicePhis(x, y *ssa.Phi) (int64, bool) {
	b := x.Block()
	if y.Block() != b || len(x.Edges) != len(y.Edges) {
		return 0, false
	}
	if _, ok := y.Type().Underlying().(*types.Slice); !ok {
		return 0, false
	}
	oneMore := func(phi *ssa.Phi, e ssa.Value) bool {
		ap, ok := isAppend(e)
		if !ok || ap.Call.Args[0] != ssa.Value(phi) {
			return false
		}
		elems, ok := sliceLiteralElems(ap.Call.Args[1])
		return ok && len(elems) == 1
	}
	constLen := constSliceLen
	d, have, back := int64(0), false, false
	for i, pred := range b.Preds {
		if b.Dominates(pred) {
			if !oneMore(x, x.Edges[i]) || !oneMore(y, y.Edges[i]) {
				return 0, false
			}
			back = true
			continue
		}
		x0, ok1 := constLen(x.Edges[i])
		y0, ok2 := constLen(y.Edges[i])
		if !ok1 || !ok2 || (have && x0-y0 != d) {
			return 0, false
		}
		d, have = x0-y0, true
	}
	return d, have && back
}

// constSliceLen: the length of a slice value that is fixed where it is made: make with a constant length (in either of
// the two forms go/ssa gives it), the nil slice.
func constSliceLen(e ssa.Value) (int64, bool) {
	switch v := e.(type) {
	case *ssa.MakeSlice:
		return constInt(v.Len)
	case *ssa.Const:
		if v.IsNil() {
			return 0, true
		}
	case *ssa.Slice:
		al, ok := v.X.(*ssa.Alloc)
		if !ok {
			return 0, false
		}
		pt, ok := al.Type().Underlying().(*types.Pointer)
		if !ok {
			return 0, false
		}
		arr, ok := pt.Elem().Underlying().(*types.Array)
		if !ok {
			return 0, false
		}
		lo, hi := int64(0), arr.Len()
		if v.Low != nil {
			k, ok := constInt(v.Low)
			if !ok {
				return 0, false
			}
			lo = k
		}
		if v.High != nil {
			k, ok := constInt(v.High)
			if !ok {
				return 0, false
			}
			hi = k
		}
		if lo < 0 || hi < lo {
			return 0, false
		}
		return hi - lo, true
	}
	return 0, false
}

// bestSoFarIndex: idx and sl are phis of one loop header. From outside the loop idx is the constant 0. Inside, the slice
// only grows, by one statement X = append(sl, one element), and idx is only ever left alone or set to len(X)-1 at a point
// that X's block dominates; on every way from X's block to the back edge the slice carried on is X. Then
// 0 <= idx <= max(0, len(sl)-1) holds whenever the header is reached, so idx < len(sl) wherever len(sl) >= 1.
func bestSoFarIndex(idx, sl *ssa.Phi) bool {
	h := idx.Block()
	if sl.Block() != h || !isLoopHeaderBlock(h) || len(idx.Edges) != len(h.Preds) || len(sl.Edges) != len(h.Preds) {
		return false
	}
	var x0 *ssa.Call
	// leaves of the index on the back edges
	var idxLeaves func(v ssa.Value, seen map[ssa.Value]bool) bool
	idxLeaves = func(v ssa.Value, seen map[ssa.Value]bool) bool {
		if seen[v] {
			return true
		}
		seen[v] = true
		if v == ssa.Value(idx) {
			return true
		}
		switch y := v.(type) {
		case *ssa.Phi:
			if y.Block() == h || !h.Dominates(y.Block()) {
				return false
			}
			for _, e := range y.Edges {
				if !idxLeaves(e, seen) {
					return false
				}
			}
			return true
		case *ssa.Call:
			// idx = len(sl) taken BEFORE the append of the same iteration: the same position, provided that the way back
			// to the header from here always passes the append
			if b, ok := y.Call.Value.(*ssa.Builtin); !ok || b.Name() != "len" || y.Call.Args[0] != ssa.Value(sl) {
				return false
			}
			var ap *ssa.Call
			if sl.Referrers() != nil {
				for _, r := range *sl.Referrers() {
					if c2, ok := r.(*ssa.Call); ok {
						if a, ok := isAppend(c2); ok && a.Call.Args[0] == ssa.Value(sl) {
							if ap != nil {
								return false
							}
							ap = a
						}
					}
				}
			}
			if ap == nil {
				return false
			}
			if elems, ok := sliceLiteralElems(ap.Call.Args[1]); !ok || len(elems) != 1 {
				return false
			}
			if x0 != nil && x0 != ap {
				return false
			}
			if ap.Block() != y.Block() && reaches(y.Block(), h, ap.Block()) {
				return false // some way round the loop skips the append
			}
			if ap.Block() == y.Block() && instrIndex(ap) < instrIndex(y) {
				return false
			}
			x0 = ap
			return true
		case *ssa.BinOp:
			if k, ok := constInt(y.Y); !ok || k != 1 || y.Op != token.SUB {
				return false
			}
			call, ok := y.X.(*ssa.Call)
			if !ok {
				return false
			}
			if b, ok := call.Call.Value.(*ssa.Builtin); !ok || b.Name() != "len" {
				return false
			}
			ap, ok := isAppend(call.Call.Args[0])
			if !ok || ap.Call.Args[0] != ssa.Value(sl) {
				return false
			}
			if elems, ok := sliceLiteralElems(ap.Call.Args[1]); !ok || len(elems) != 1 {
				return false
			}
			if x0 != nil && x0 != ap {
				return false
			}
			x0 = ap
			return ap.Block().Dominates(y.Block())
		}
		return false
	}
	// the slice carried to the back edge: sl or X; exactly X on every phi edge whose predecessor X's block dominates
	var onlyX func(v ssa.Value, seen map[ssa.Value]bool) bool
	onlyX = func(v ssa.Value, seen map[ssa.Value]bool) bool {
		if v == ssa.Value(x0) {
			return true
		}
		if y, ok := v.(*ssa.Phi); ok && y.Block() != h && !seen[v] {
			seen[v] = true
			for _, e := range y.Edges {
				if !onlyX(e, seen) {
					return false
				}
			}
			return true
		}
		return false
	}
	var slLeaves func(v ssa.Value, seen map[ssa.Value]bool) bool
	slLeaves = func(v ssa.Value, seen map[ssa.Value]bool) bool {
		if seen[v] {
			return true
		}
		seen[v] = true
		if v == ssa.Value(sl) || (x0 != nil && v == ssa.Value(x0)) {
			return true
		}
		y, ok := v.(*ssa.Phi)
		if !ok || y.Block() == h || !h.Dominates(y.Block()) {
			return false
		}
		for i, e := range y.Edges {
			if x0 != nil && x0.Block().Dominates(y.Block().Preds[i]) {
				if !onlyX(e, map[ssa.Value]bool{}) {
					return false
				}
				continue
			}
			if !slLeaves(e, seen) {
				return false
			}
		}
		return true
	}
	back := false
	for i, pred := range h.Preds {
		if !h.Dominates(pred) {
			if k, ok := constInt(idx.Edges[i]); !ok || k != 0 {
				return false
			}
			continue
		}
		back = true
		if !idxLeaves(idx.Edges[i], map[ssa.Value]bool{}) {
			return false
		}
	}
	if !back {
		return false
	}
	for i, pred := range h.Preds {
		if !h.Dominates(pred) {
			continue
		}
		e := sl.Edges[i]
		if x0 != nil && x0.Block().Dominates(pred) {
			if !onlyX(e, map[ssa.Value]bool{}) {
				return false
			}
			continue
		}
		if !slLeaves(e, map[ssa.Value]bool{}) {
			return false
		}
	}
	return true
}

// resultGeParam: every value fn returns as result k is at least its integer parameter j (a scanner that starts at a given
// position and only moves forward). Proved inside fn with the prover; memoised.
func (c *C) resultGeParam(fn *ssa.Function, k, j int) bool { return c.resultCmpParam(fn, k, j, false) }

// resultLeParam: every value fn returns as result k is at most its integer parameter j (a clamp: minInt(a, b), a range
// normaliser that hands back positions inside the size it was given).
func (c *C) resultLeParam(fn *ssa.Function, k, j int) bool { return c.resultCmpParam(fn, k, j, true) }

func (c *C) resultCmpParam(fn *ssa.Function, k, j int, le bool) bool {
	if fn == nil || fn.Blocks == nil || j >= len(fn.Params) || !isSignedInt(fn.Params[j].Type()) || calleeProofDepth >= 2 {
		return false
	}
	if c.rgpMemo == nil {
		c.rgpMemo = map[string]int{}
	}
	key := fmt.Sprintf("%s|%d|%d|%v", fn.String(), k, j, le)
	switch c.rgpMemo[key] {
	case 1:
		return true
	case 2, 3:
		return false
	}
	c.rgpMemo[key] = 3
	calleeProofDepth++
	defer func() { calleeProofDepth-- }()
	res, any := true, false
	pr := c.newProver(fn)
	for _, b := range fn.Blocks {
		for _, in := range b.Instrs {
			ret, ok := in.(*ssa.Return)
			if !ok || len(ret.Results) <= k || !isSignedInt(ret.Results[k].Type()) {
				continue
			}
			for _, v := range retResults(ret)[k] {
				any = true
				if le {
					if !pr.ProveLE(pr.lin(v), pr.lin(fn.Params[j]), 0, ret) {
						res = false
					}
				} else if !pr.ProveLE(pr.lin(fn.Params[j]), pr.lin(v), 0, ret) {
					res = false
				}
			}
		}
	}
	if res && any {
		c.rgpMemo[key] = 1
		return true
	}
	c.rgpMemo[key] = 2
	return false
}

// resultLeResult: at every return of fn, result k1 is at most result k2.
func (c *C) resultLeResult(fn *ssa.Function, k1, k2 int) bool {
	if fn == nil || fn.Blocks == nil || calleeProofDepth >= 2 {
		return false
	}
	if c.rgpMemo == nil {
		c.rgpMemo = map[string]int{}
	}
	key := fmt.Sprintf("%s|res%d<=res%d", fn.String(), k1, k2)
	switch c.rgpMemo[key] {
	case 1:
		return true
	case 2, 3:
		return false
	}
	c.rgpMemo[key] = 3
	calleeProofDepth++
	defer func() { calleeProofDepth-- }()
	res, any := true, false
	pr := c.newProver(fn)
	for _, b := range fn.Blocks {
		for _, in := range b.Instrs {
			ret, ok := in.(*ssa.Return)
			if !ok || len(ret.Results) <= k1 || len(ret.Results) <= k2 || !isSignedInt(ret.Results[k1].Type()) || !isSignedInt(ret.Results[k2].Type()) {
				continue
			}
			rr := retResults(ret)
			for _, v1 := range rr[k1] {
				for _, v2 := range rr[k2] {
					any = true
					if !pr.ProveLE(pr.lin(v1), pr.lin(v2), 0, ret) {
						res = false
					}
				}
			}
		}
	}
	if res && any {
		c.rgpMemo[key] = 1
		return true
	}
	c.rgpMemo[key] = 2
	return false
}

// resultRelWhen: on every return of fn whose boolean result g is the constant `want` (returns where it is the other constant
// are left out; a computed boolean counts), x <= y holds, where x and y are result k1 / result k2 or, for the index given
// as -1, parameter j.
func (c *C) resultRelWhen(fn *ssa.Function, k1, k2, j, g int, want bool) bool {
	return c.resultRelWhenX(fn, k1, k2, j, g, want, false, 0)
}

// resultRelWhenX: the general form. A side index of -1 is parameter j, -2 is the constant zero; what is shown is
// x - y <= off. With nilGuard the returns considered are those whose result g is the nil constant (the success returns
// of a helper that hands back (value, errReply)); `want` is ignored then.
func (c *C) resultRelWhenX(fn *ssa.Function, k1, k2, j, g int, want bool, nilGuard bool, off int64) bool {
	if fn == nil || fn.Blocks == nil || calleeProofDepth >= 2 {
		return false
	}
	if c.rgpMemo == nil {
		c.rgpMemo = map[string]int{}
	}
	key := fmt.Sprintf("%s|rel%d,%d,%d|%d=%v|%v|%d", fn.String(), k1, k2, j, g, want, nilGuard, off)
	switch c.rgpMemo[key] {
	case 1:
		return true
	case 2, 3:
		return false
	}
	c.rgpMemo[key] = 3
	calleeProofDepth++
	defer func() { calleeProofDepth-- }()
	res, any := true, false
	pr := c.newProver(fn)
	for _, b := range fn.Blocks {
		for _, in := range b.Instrs {
			ret, ok := in.(*ssa.Return)
			if !ok || len(ret.Results) <= g || len(ret.Results) <= k1 || len(ret.Results) <= k2 || (j >= 0 && j >= len(fn.Params)) {
				continue
			}
			rr := retResults(ret)
			skip := len(rr[g]) > 0
			var assume []dfact
			if nilGuard {
				// the returns that may hand back nil: a nil constant, or something that is not visibly a value
				for _, gv := range rr[g] {
					switch y := gv.(type) {
					case *ssa.Const:
						if y.Value == nil {
							skip = false
						}
					case *ssa.MakeInterface, *ssa.Alloc:
					case *ssa.Call:
						if cf := y.Call.StaticCallee(); cf == nil || !strings.HasPrefix(cf.Name(), "Make") {
							skip = false
						}
					default:
						skip = false
					}
				}
			} else {
				for _, gv := range rr[g] {
					k, isC := gv.(*ssa.Const)
					if !isC || k.Value == nil || (k.Value.ExactString() == "true") == want {
						skip = false
					}
				}
				// return first, last, first <= last: the comparison handed back is what holds when it is true
				if len(rr[g]) == 1 {
					if _, isC := rr[g][0].(*ssa.Const); !isC {
						assume, _, _ = pr.condFacts(rr[g][0], !want)
						fsx := &factSet{par: map[string]int{}}
						pr.boolPhiFacts(rr[g][0], !want, fsx, 0)
						assume = append(assume, fsx.fs...)
					}
				}
			}
			if skip {
				continue
			}
			zero := ssa.Value(nil)
			side := func(k int) []ssa.Value {
				switch {
				case k == -2:
					return []ssa.Value{zero}
				case k < 0:
					return []ssa.Value{fn.Params[j]}
				}
				return rr[k]
			}
			term := func(v ssa.Value) (lt, bool) {
				if v == nil {
					return lt{"0", 0}, true
				}
				if !isSignedInt(v.Type()) {
					return lt{}, false
				}
				return pr.lin(v), true
			}
			for _, v1 := range side(k1) {
				for _, v2 := range side(k2) {
					t1, ok1 := term(v1)
					t2, ok2 := term(v2)
					if !ok1 || !ok2 {
						res = false
						continue
					}
					any = true
					if !pr.ProveLEx(t1, t2, off, ret, assume) {
						res = false
					}
				}
			}
		}
	}
	if os.Getenv("RG_DBG_REL") != "" {
		fmt.Fprintf(os.Stderr, "resultRelWhen %s -> %v any=%v\n", key, res, any)
	}
	if res && any {
		c.rgpMemo[key] = 1
		return true
	}
	c.rgpMemo[key] = 2
	return false
}

// singleStoreCell: al is a local variable's cell that is stored to exactly once in its function, by a store that dominates
// load, and whose only other uses are loads and captures by closures that (with the closures they make) only load it.
func singleStoreCell(al *ssa.Alloc, load *ssa.UnOp) (ssa.Value, bool) {
	if al.Referrers() == nil {
		return nil, false
	}
	var store *ssa.Store
	var readOnly func(fn *ssa.Function, fv *ssa.FreeVar, d int) bool
	readOnly = func(fn *ssa.Function, fv *ssa.FreeVar, d int) bool {
		if d > 3 || fv.Referrers() == nil {
			return d <= 3
		}
		for _, r := range *fv.Referrers() {
			switch y := r.(type) {
			case *ssa.UnOp:
				if y.Op != token.MUL {
					return false
				}
			case *ssa.DebugRef:
			case *ssa.MakeClosure:
				inner := y.Fn.(*ssa.Function)
				for i, b := range y.Bindings {
					if b == ssa.Value(fv) && !readOnly(inner, inner.FreeVars[i], d+1) {
						return false
					}
				}
			default:
				return false
			}
		}
		return true
	}
	for _, r := range *al.Referrers() {
		switch y := r.(type) {
		case *ssa.Store:
			if y.Addr != ssa.Value(al) || store != nil {
				return nil, false
			}
			store = y
		case *ssa.UnOp:
			if y.Op != token.MUL {
				return nil, false
			}
		case *ssa.DebugRef:
		case *ssa.MakeClosure:
			inner := y.Fn.(*ssa.Function)
			for i, b := range y.Bindings {
				if b == ssa.Value(al) && !readOnly(inner, inner.FreeVars[i], 0) {
					return nil, false
				}
			}
		default:
			return nil, false
		}
	}
	if store == nil {
		return nil, false
	}
	if store.Block() == load.Block() {
		if !before(store, load) {
			return nil, false
		}
	} else if !store.Block().Dominates(load.Block()) {
		return nil, false
	}
	return store.Val, true
}

// paramRelWhen: on every return of the boolean function fn that may hand back `want`, x - y <= off for integer parameters
// i and j of fn (i == -2: the constant zero). A returned comparison is assumed to have the wanted outcome.
func (c *C) paramRelWhen(fn *ssa.Function, i, j int, want bool, off int64) bool {
	if fn == nil || fn.Blocks == nil || calleeProofDepth >= 2 || fn.Signature.Results().Len() != 1 {
		return false
	}
	if c.rgpMemo == nil {
		c.rgpMemo = map[string]int{}
	}
	key := fmt.Sprintf("%s|prm%d,%d|%v|%d", fn.String(), i, j, want, off)
	switch c.rgpMemo[key] {
	case 1:
		return true
	case 2, 3:
		return false
	}
	c.rgpMemo[key] = 3
	calleeProofDepth++
	defer func() { calleeProofDepth-- }()
	res, any := true, false
	pr := c.newProver(fn)
	x := lt{"0", 0}
	if i >= 0 {
		x = pr.lin(fn.Params[i])
	}
	y := pr.lin(fn.Params[j])
	for _, b := range fn.Blocks {
		ret, ok := b.Instrs[len(b.Instrs)-1].(*ssa.Return)
		if !ok || len(ret.Results) != 1 {
			continue
		}
		for _, gv := range retResults(ret)[0] {
			var assume []dfact
			if k, isC := gv.(*ssa.Const); isC && k.Value != nil {
				if (k.Value.ExactString() == "true") != want {
					continue
				}
			} else {
				assume, _, _ = pr.condFacts(gv, !want)
				// a && b, a || b handed back as a phi: the one way the wanted value can come about
				fsx := &factSet{par: map[string]int{}}
				pr.boolPhiFacts(gv, !want, fsx, 0)
				assume = append(assume, fsx.fs...)
			}
			any = true
			if !pr.ProveLEx(x, y, off, ret, assume) {
				res = false
			}
		}
	}
	if res && any {
		c.rgpMemo[key] = 1
		return true
	}
	c.rgpMemo[key] = 2
	return false
}

// lenBoundWhen: on every return of the boolean function fn that may hand back `want`, len(parameter j) >= bound (atLeast)
// or <= bound. A returned comparison is assumed to have the wanted outcome; returns of the other constant are left out.
func (c *C) lenBoundWhen(fn *ssa.Function, j int, bound int64, want bool, atLeast bool) bool {
	if fn == nil || fn.Blocks == nil || calleeProofDepth >= 2 || fn.Signature.Results().Len() != 1 {
		return false
	}
	if c.rgpMemo == nil {
		c.rgpMemo = map[string]int{}
	}
	key := fmt.Sprintf("%s|len%d|%d|%v|%v", fn.String(), j, bound, want, atLeast)
	switch c.rgpMemo[key] {
	case 1:
		return true
	case 2, 3:
		return false
	}
	c.rgpMemo[key] = 3
	calleeProofDepth++
	defer func() { calleeProofDepth-- }()
	res, any := true, false
	pr := c.newProver(fn)
	ln := pr.lenOf(fn.Params[j])
	for _, b := range fn.Blocks {
		ret, ok := b.Instrs[len(b.Instrs)-1].(*ssa.Return)
		if !ok || len(ret.Results) != 1 {
			continue
		}
		for _, gv := range retResults(ret)[0] {
			var assume []dfact
			if k, isC := gv.(*ssa.Const); isC && k.Value != nil {
				if (k.Value.ExactString() == "true") != want {
					continue
				}
			} else {
				assume, _, _ = pr.condFacts(gv, !want)
				fsx := &factSet{par: map[string]int{}}
				pr.boolPhiFacts(gv, !want, fsx, 0)
				assume = append(assume, fsx.fs...)
			}
			any = true
			if atLeast {
				if !pr.ProveLEx(lt{"0", 0}, ln, -bound, ret, assume) {
					res = false
				}
			} else if !pr.ProveLEx(ln, lt{"0", 0}, bound, ret, assume) {
				res = false
			}
		}
	}
	if res && any {
		c.rgpMemo[key] = 1
		return true
	}
	c.rgpMemo[key] = 2
	return false
}

// resultZeroOrIndex: the single integer result of fn is, on every return, the constant 0 or a value that was below
// len(parameter j) where it was chosen (a loop index over that parameter).
func (c *C) resultZeroOrIndex(fn *ssa.Function, j int) bool {
	if fn == nil || fn.Blocks == nil || calleeProofDepth >= 2 || fn.Signature.Results().Len() != 1 || j >= len(fn.Params) {
		return false
	}
	if c.rgpMemo == nil {
		c.rgpMemo = map[string]int{}
	}
	key := fmt.Sprintf("%s|zoi%d", fn.String(), j)
	switch c.rgpMemo[key] {
	case 1:
		return true
	case 2, 3:
		return false
	}
	c.rgpMemo[key] = 3
	calleeProofDepth++
	defer func() { calleeProofDepth-- }()
	pr := c.newProver(fn)
	ln := pr.lenOf(fn.Params[j])
	res, any := true, false
	seen := map[ssa.Value]bool{}
	var leaf func(v ssa.Value, at ssa.Instruction)
	leaf = func(v ssa.Value, at ssa.Instruction) {
		if !res {
			return
		}
		if k, ok := constInt(v); ok {
			if k != 0 {
				res = false
			}
			any = true
			return
		}
		if phi, ok := v.(*ssa.Phi); ok {
			if seen[phi] {
				return
			}
			seen[phi] = true
			for i, e := range phi.Edges {
				pred := phi.Block().Preds[i]
				if e == ssa.Value(phi) {
					continue
				}
				// a position chosen on this edge: below the length at the end of the block it comes from
				if _, isPhi := e.(*ssa.Phi); !isPhi {
					if _, isK := constInt(e); !isK {
						any = true
						if !pr.ProveLE(pr.lin(e), ln, -1, pred.Instrs[len(pred.Instrs)-1]) {
							res = false
						}
						continue
					}
				}
				leaf(e, pred.Instrs[len(pred.Instrs)-1])
			}
			return
		}
		any = true
		if !pr.ProveLE(pr.lin(v), ln, -1, at) {
			res = false
		}
	}
	for _, b := range fn.Blocks {
		if ret, ok := b.Instrs[len(b.Instrs)-1].(*ssa.Return); ok {
			for _, v := range retResults(ret)[0] {
				if !isIntType(v.Type()) {
					res = false
					continue
				}
				leaf(v, ret)
			}
		}
	}
	if res && any {
		c.rgpMemo[key] = 1
		return true
	}
	c.rgpMemo[key] = 2
	return false
}

// selectorResults: call is to a small first-party helper with one integer result that only ever hands back one of its own
// integer parameters or a constant (a clamp); the values it can yield, in the caller's terms.
func selectorResults(call *ssa.Call) []ssa.Value {
	cf := call.Call.StaticCallee()
	if cf == nil || cf.Blocks == nil || !firstParty(cf) || len(cf.Blocks) > 8 || cf.Signature.Results().Len() != 1 || !isIntType(call.Type()) || call.Call.IsInvoke() {
		return nil
	}
	var out []ssa.Value
	seen := map[ssa.Value]bool{}
	var expand func(v ssa.Value, d int) bool
	expand = func(v ssa.Value, d int) bool {
		if seen[v] {
			return true
		}
		seen[v] = true
		switch x := v.(type) {
		case *ssa.Parameter:
			for i, prm := range cf.Params {
				if prm == x && i < len(call.Call.Args) {
					out = append(out, call.Call.Args[i])
					return true
				}
			}
			return false
		case *ssa.Const:
			out = append(out, x)
			return true
		case *ssa.Phi:
			if d > 3 {
				return false
			}
			for _, e := range x.Edges {
				if !expand(e, d+1) {
					return false
				}
			}
			return true
		}
		return false
	}
	n := 0
	for _, b := range cf.Blocks {
		ret, ok := b.Instrs[len(b.Instrs)-1].(*ssa.Return)
		if !ok {
			continue
		}
		n++
		for _, v := range retResults(ret)[0] {
			if !expand(v, 0) {
				return nil
			}
		}
	}
	if n == 0 {
		return nil
	}
	return out
}

// scaledIndex: idx = k*v + c with constants k and c (c may be absent).
func scaledIndex(idx ssa.Value) (k int64, v ssa.Value, c int64, ok bool) {
	mul := func(x ssa.Value) (int64, ssa.Value, bool) {
		bo, isB := x.(*ssa.BinOp)
		if !isB || bo.Op != token.MUL {
			return 0, nil, false
		}
		if kk, isK := constInt(bo.X); isK {
			return kk, bo.Y, true
		}
		if kk, isK := constInt(bo.Y); isK {
			return kk, bo.X, true
		}
		return 0, nil, false
	}
	if kk, vv, isM := mul(idx); isM {
		return kk, vv, 0, true
	}
	bo, isB := idx.(*ssa.BinOp)
	if !isB || bo.Op != token.ADD {
		return 0, nil, 0, false
	}
	if cc, isC := constInt(bo.Y); isC {
		if kk, vv, isM := mul(bo.X); isM {
			return kk, vv, cc, true
		}
	}
	if cc, isC := constInt(bo.X); isC {
		if kk, vv, isM := mul(bo.Y); isM {
			return kk, vv, cc, true
		}
	}
	return 0, nil, 0, false
}

// stridedCollection: the site indexes x with k*v + c. Some loop of the function runs a counter j = j0, j0+k, j0+2k, ...
// while j < len(x) and appends exactly one element to a slice K (empty before the loop) in every iteration; v < len(K)
// is provable at the site. Element v of K was appended while j0 + k*v < len(x) held, so k*v + c < len(x) when c <= j0,
// or when c == j0+1 and the parities of len(x) and of j0 (k even) differ from "j could be len(x)-1".
func (p *bprover) stridedCollection(x ssa.Value, k int64, v ssa.Value, c int64, at ssa.Instruction) bool {
	fn := at.Parent()
	for _, h := range fn.Blocks {
		if !isLoopHeaderBlock(h) || len(h.Instrs) == 0 {
			continue
		}
		iff, ok := h.Instrs[len(h.Instrs)-1].(*ssa.If)
		if !ok {
			continue
		}
		cmp, ok := iff.Cond.(*ssa.BinOp)
		if !ok || cmp.Op != token.LSS {
			continue
		}
		j, ok := cmp.X.(*ssa.Phi)
		if !ok || j.Block() != h {
			continue
		}
		ln, ok := cmp.Y.(*ssa.Call)
		if !ok {
			continue
		}
		if bi, isB := ln.Call.Value.(*ssa.Builtin); !isB || bi.Name() != "len" || canon(ln.Call.Args[0]) != canon(x) {
			continue
		}
		// the counter: constant start, +k on every back edge
		j0, okJ := int64(0), true
		for i, pred := range h.Preds {
			if h.Dominates(pred) {
				bo, isB := j.Edges[i].(*ssa.BinOp)
				if !isB || bo.Op != token.ADD || bo.X != ssa.Value(j) {
					okJ = false
					break
				}
				if kk, isK := constInt(bo.Y); !isK || kk != k {
					okJ = false
				}
			} else if kk, isK := constInt(j.Edges[i]); isK {
				j0 = kk
			} else {
				okJ = false
			}
		}
		if !okJ || j0 < 0 {
			continue
		}
		// the loop body is entered on the true edge only (the append happens under j < len(x))
		for _, other := range h.Instrs {
			K, isP := other.(*ssa.Phi)
			if !isP {
				break
			}
			if _, isSl := K.Type().Underlying().(*types.Slice); !isSl {
				continue
			}
			grows := true
			for i, pred := range h.Preds {
				if h.Dominates(pred) {
					ap, isA := isAppend(K.Edges[i])
					if !isA || ap.Call.Args[0] != ssa.Value(K) || !h.Succs[0].Dominates(ap.Block()) {
						grows = false
						break
					}
					if elems, okE := sliceLiteralElems(ap.Call.Args[1]); !okE || len(elems) != 1 {
						grows = false
					}
				} else if n, okN := constSliceLen(K.Edges[i]); !okN || n != 0 {
					grows = false
				}
			}
			if !grows {
				continue
			}
			if !p.ProveLE(p.lin(v), p.lenOf(K), -1, at) || !p.ProveLE(lt{"0", 0}, p.lin(v), 0, at) {
				continue
			}
			if c <= j0 {
				return true
			}
			if c == j0+1 && k%2 == 0 {
				// j0 + k*v has the parity of j0; if len(x) has the same parity, j0 + k*v <= len(x) - 2
				fs := &factSet{par: map[string]int{}}
				p.chainFacts(at.Block(), fs)
				if pl, okP := p.parityOf(lenNode(x), fs, map[string]bool{}); okP && pl >= 0 && int64(pl) == ((j0%2)+2)%2 {
					return true
				}
			}
		}
	}
	return false
}

// viaCalleeGuardAt: the goal speaks about the length of a slice that was handed to a first-party helper, and tests of
// the helper's results dominate the site (cnt, errReply := parseCount(cmd); if errReply != nil { return }; if cnt == 0 {..}).
// What the helper knew about the slice where it returned is then known at the site: the goal is proved, with the slice's
// length standing for the parameter's, at every return of the helper that is compatible with the tests.
func (p *bprover) viaCalleeGuardAt(goal dfact, at *ssa.BasicBlock) bool {
	if calleeProofDepth >= 2 {
		return false
	}
	var ln string
	for _, n := range []string{goal.a, goal.b} {
		if n == "0" {
			continue
		}
		if !strings.HasPrefix(n, "len:") || (ln != "" && ln != n) {
			return false
		}
		ln = n
	}
	if ln == "" {
		return false
	}
	type guards struct {
		boolG map[int]bool
		nilG  map[int]bool
		eqG   map[int][2]int64 // index -> {k, 1 if equal / 0 if different}
	}
	byCall := map[*ssa.Call]*guards{}
	get := func(c2 *ssa.Call) *guards {
		if byCall[c2] == nil {
			byCall[c2] = &guards{boolG: map[int]bool{}, nilG: map[int]bool{}, eqG: map[int][2]int64{}}
		}
		return byCall[c2]
	}
	resultOf := func(v ssa.Value) (*ssa.Call, int, bool) {
		switch x := v.(type) {
		case *ssa.Extract:
			if c2, ok := x.Tuple.(*ssa.Call); ok {
				return c2, x.Index, true
			}
		case *ssa.Call:
			if _, isB := x.Call.Value.(*ssa.Builtin); !isB {
				return x, 0, true
			}
		}
		return nil, 0, false
	}
	for d := at; d != nil && d.Idom() != nil; d = d.Idom() {
		id := d.Idom()
		if len(d.Preds) != 1 || d.Preds[0] != id {
			continue
		}
		cond, neg, ok := branchCond(id, d)
		if !ok {
			continue
		}
		for {
			u, isNot := cond.(*ssa.UnOp)
			if !isNot || u.Op != token.NOT {
				break
			}
			cond, neg = u.X, !neg
		}
		if c2, i, ok := resultOf(cond); ok && isBoolType(cond.Type()) {
			get(c2).boolG[i] = !neg
			continue
		}
		bo, ok := cond.(*ssa.BinOp)
		if !ok || (bo.Op != token.EQL && bo.Op != token.NEQ) {
			continue
		}
		eq := (bo.Op == token.EQL) != neg
		for _, pair := range [][2]ssa.Value{{bo.X, bo.Y}, {bo.Y, bo.X}} {
			c2, i, ok := resultOf(pair[0])
			if !ok {
				continue
			}
			if isNilConst(pair[1]) {
				get(c2).nilG[i] = eq
			} else if k, isK := constInt(pair[1]); isK {
				e := int64(0)
				if eq {
					e = 1
				}
				get(c2).eqG[i] = [2]int64{k, e}
			}
		}
	}
	for call, g := range byCall {
		cf := call.Call.StaticCallee()
		if cf == nil || cf.Blocks == nil || !firstParty(cf) || len(call.Call.Args) != len(cf.Params) {
			continue
		}
		pj := -1
		for j, a := range call.Call.Args {
			if lenNode(a) == ln {
				pj = j
			}
		}
		if pj < 0 {
			continue
		}
		if p.viaCalleeGuardProve(cf, goal, ln, pj, g.boolG, g.nilG, g.eqG) {
			return true
		}
	}
	return false
}

func (p *bprover) viaCalleeGuardProve(cf *ssa.Function, goal dfact, ln string, pj int, boolG, nilG map[int]bool, eqG map[int][2]int64) bool {
	calleeProofDepth++
	defer func() { calleeProofDepth-- }()
	pr := p.c.newProver(cf)
	any := false
	for _, b := range cf.Blocks {
		ret, ok := b.Instrs[len(b.Instrs)-1].(*ssa.Return)
		if !ok {
			continue
		}
		rr := retResults(ret)
		excluded := false
		for gi, want := range boolG {
			if gi >= len(rr) || len(rr[gi]) == 0 {
				continue
			}
			all := true
			for _, v := range rr[gi] {
				k, isC := v.(*ssa.Const)
				if !isC || k.Value == nil || (k.Value.ExactString() == "true") == want {
					all = false
				}
			}
			excluded = excluded || all
		}
		for gi, wantNil := range nilG {
			if gi >= len(rr) || len(rr[gi]) == 0 {
				continue
			}
			all := true
			for _, v := range rr[gi] {
				definitelyNot := false
				switch v.(type) {
				case *ssa.MakeInterface, *ssa.Alloc, *ssa.MakeSlice, *ssa.MakeMap:
					definitelyNot = true
				}
				if (wantNil && !definitelyNot) || (!wantNil && !isNilConst(v)) {
					all = false
				}
			}
			excluded = excluded || all
		}
		for gi, ke := range eqG {
			if gi >= len(rr) || len(rr[gi]) == 0 {
				continue
			}
			k, wantEq := ke[0], ke[1] == 1
			all := true
			for _, v := range rr[gi] {
				if c2, isC := constInt(v); isC {
					if (c2 == k) == wantEq {
						all = false
					}
					continue
				}
				if !isIntType(v.Type()) {
					all = false
					continue
				}
				if wantEq {
					// the site needs r == k: this return is out if its value is provably different
					if !(pr.ProveLE(pr.lin(v), lt{"0", 0}, k-1, ret) || pr.ProveLE(lt{"0", 0}, pr.lin(v), -(k+1), ret)) {
						all = false
					}
				} else {
					all = false
				}
			}
			excluded = excluded || all
		}
		if excluded {
			continue
		}
		any = true
		sub := func(n string) lt {
			if n == ln {
				return pr.lenOf(cf.Params[pj])
			}
			return lt{"0", 0}
		}
		if !pr.ProveLE(sub(goal.a), sub(goal.b), goal.c, ret) {
			return false
		}
	}
	return any
}

// thinLenGetter: fn is a method that does nothing but return len(receiver.field); returns the field's name.
func thinLenGetter(fn *ssa.Function) (string, bool) {
	if fn == nil || fn.Blocks == nil || len(fn.Blocks) != 1 || fn.Signature.Recv() == nil || len(fn.Params) != 1 {
		return "", false
	}
	if _, isPtr := fn.Params[0].Type().Underlying().(*types.Pointer); !isPtr {
		return "", false
	}
	field := ""
	for _, in := range fn.Blocks[0].Instrs {
		switch x := in.(type) {
		case *ssa.FieldAddr:
			if x.X != ssa.Value(fn.Params[0]) || field != "" {
				return "", false
			}
			field = fieldName(x)
		case *ssa.UnOp, *ssa.DebugRef:
		case *ssa.Call:
			if b, ok := x.Call.Value.(*ssa.Builtin); !ok || b.Name() != "len" {
				return "", false
			}
		case *ssa.Return:
			if len(x.Results) != 1 {
				return "", false
			}
			call, ok := x.Results[0].(*ssa.Call)
			if !ok {
				return "", false
			}
			u, ok := call.Call.Args[0].(*ssa.UnOp)
			if !ok {
				return "", false
			}
			if _, ok := u.X.(*ssa.FieldAddr); !ok {
				return "", false
			}
		default:
			return "", false
		}
	}
	return field, field != ""
}

// capAtLeast: the capacity of slice x is at least h at instruction `at`: make([]T, l, c) has capacity c, append never
// returns less capacity than its first operand has, and a slice is never longer than its capacity.
func (p *bprover) capAtLeast(x ssa.Value, h lt, at ssa.Instruction, depth int) bool {
	if depth > 4 {
		return false
	}
	switch y := x.(type) {
	case *ssa.MakeSlice:
		return p.ProveLE(h, p.lin(y.Cap), 0, at)
	case *ssa.Call:
		if ap, ok := isAppend(y); ok {
			return p.capAtLeast(ap.Call.Args[0], h, at, depth+1) || p.ProveLE(h, p.lenOf(y), 0, at)
		}
	case *ssa.Slice:
		if y.Max == nil && (y.Low == nil || isZeroConst(y.Low)) {
			if _, isSl := y.X.Type().Underlying().(*types.Slice); isSl {
				return p.capAtLeast(y.X, h, at, depth+1)
			}
		}
	}
	return p.ProveLE(h, p.lenOf(x), 0, at)
}

// enumRange: t is a named integer type of the first-party packages whose every value in the analysed program is one of
// its declared constants or the zero value: values of the type are only ever produced by constants, phis, parameters,
// loads, map lookups and calls of first-party functions (whose returned values are values of the type again) -- never
// by arithmetic, by a conversion of a computed integer or by a type assertion. Returns the smallest and largest value.
func (c *C) enumRange(t types.Type) (lo, hi int64, ok bool) {
	nt, isNamed := t.(*types.Named)
	if !isNamed || nt.Obj().Pkg() == nil || !strings.HasPrefix(nt.Obj().Pkg().Path(), ModPath) {
		return 0, 0, false
	}
	bt, isBasic := nt.Underlying().(*types.Basic)
	if !isBasic || bt.Info()&types.IsInteger == 0 {
		return 0, 0, false
	}
	if c.enumMemo == nil {
		c.enumMemo = map[*types.Named][3]int64{}
	}
	if r, done := c.enumMemo[nt]; done {
		return r[0], r[1], r[2] == 1
	}
	c.enumMemo[nt] = [3]int64{0, 0, 0}
	// declared constants
	lo, hi = 0, 0
	n := 0
	scope := nt.Obj().Pkg().Scope()
	for _, name := range scope.Names() {
		if k, isConst := scope.Lookup(name).(*types.Const); isConst && k.Type() == types.Type(nt) {
			if v, exact := constant.Int64Val(k.Val()); exact {
				n++
				if v < lo {
					lo = v
				}
				if v > hi {
					hi = v
				}
			}
		}
	}
	if n == 0 {
		return 0, 0, false
	}
	closed := true
	for _, fn := range c.P.allFuncs(firstPartyPkgs...) {
		for _, b := range fn.Blocks {
			for _, in := range b.Instrs {
				v, isVal := in.(ssa.Value)
				if !isVal || v.Type() != types.Type(nt) {
					continue
				}
				switch x := in.(type) {
				case *ssa.Phi, *ssa.UnOp, *ssa.Lookup, *ssa.Extract, *ssa.Field, *ssa.Index:
					if u, isU := in.(*ssa.UnOp); isU && u.Op != token.MUL {
						closed = false
					}
				case *ssa.ChangeType:
					if _, isK := x.X.(*ssa.Const); !isK && x.X.Type() != types.Type(nt) {
						closed = false
					}
				case *ssa.Convert:
					k, isK := x.X.(*ssa.Const)
					if !isK {
						closed = false
					} else if kv, isInt := constInt(k); !isInt || kv < lo || kv > hi {
						closed = false
					}
				case *ssa.Call:
					if cf := x.Call.StaticCallee(); cf == nil || !firstParty(cf) {
						closed = false
					}
				default:
					closed = false
				}
			}
		}
	}
	// constants of the type written in expressions
	if closed {
		for _, fn := range c.P.allFuncs(firstPartyPkgs...) {
			for _, b := range fn.Blocks {
				for _, in := range b.Instrs {
					for _, op := range in.Operands(nil) {
						if k, isK := (*op).(*ssa.Const); isK && k.Value != nil && k.Type() == types.Type(nt) {
							if kv, isInt := constInt(k); isInt && (kv < lo || kv > hi) {
								closed = false
							}
						}
					}
				}
			}
		}
	}
	r := [3]int64{lo, hi, 0}
	if closed {
		r[2] = 1
	}
	c.enumMemo[nt] = r
	return lo, hi, closed
}

// stableBool: v is a boolean whose value is fixed for the whole activation of the function: a parameter, or a field of a
// struct that was passed by value (a parameter of struct type, read directly or through the local copy go/ssa makes of
// it when no store other than the initial one touches that copy).
func stableBool(v ssa.Value) (string, bool) {
	if !isBoolType(v.Type()) {
		return "", false
	}
	switch x := v.(type) {
	case *ssa.Parameter:
		return paramCanon(x), true
	case *ssa.Field:
		if p, ok := x.X.(*ssa.Parameter); ok {
			if st, ok := p.Type().Underlying().(*types.Struct); ok {
				return paramCanon(p) + "." + st.Field(x.Field).Name(), true
			}
		}
	case *ssa.UnOp:
		if x.Op != token.MUL {
			return "", false
		}
		fa, ok := x.X.(*ssa.FieldAddr)
		if !ok {
			return "", false
		}
		al, ok := fa.X.(*ssa.Alloc)
		if !ok || al.Referrers() == nil {
			return "", false
		}
		var init ssa.Value
		for _, r := range *al.Referrers() {
			switch y := r.(type) {
			case *ssa.Store:
				if y.Addr != ssa.Value(al) || init != nil {
					return "", false
				}
				init = y.Val
			case *ssa.FieldAddr:
				if y.Referrers() != nil {
					for _, rr := range *y.Referrers() {
						if _, isLoad := rr.(*ssa.UnOp); !isLoad {
							if _, isDbg := rr.(*ssa.DebugRef); !isDbg {
								return "", false // a field is written or its address escapes
							}
						}
					}
				}
			case *ssa.DebugRef:
			default:
				return "", false
			}
		}
		if p, ok := init.(*ssa.Parameter); ok {
			return paramCanon(p) + "." + fieldName(fa), true
		}
		if init != nil {
			// a record that was filled once from a computed value (opts := parseOptions(..)) and is only read
			return "cell:" + al.Name() + "." + fieldName(fa), true
		}
	case *ssa.Extract, *ssa.Call:
		// a register: the same SSA value in two tests is the same boolean
		return "reg:" + v.Name(), true
	}
	if x, ok := v.(*ssa.Field); ok {
		switch x.X.(type) {
		case *ssa.Extract, *ssa.Call:
			if st, ok := x.X.Type().Underlying().(*types.Struct); ok {
				return "reg:" + x.X.Name() + "." + st.Field(x.Field).Name(), true
			}
		}
	}
	return "", false
}

func isStringType(t types.Type) bool {
	b, ok := t.Underlying().(*types.Basic)
	return ok && b.Info()&types.IsString != 0
}

// recordStoredWhole: somewhere in the package a value of struct type t that is not a composite literal built in place is
// stored over a whole record (*p = other): the fields of such records are not only what the field stores say.
var recordWholeMemo = map[types.Type]bool{}

func recordStoredWhole(t types.Type, from *ssa.Function) bool {
	if r, ok := recordWholeMemo[t]; ok {
		return r
	}
	recordWholeMemo[t] = true
	if from == nil || from.Pkg == nil {
		return true
	}
	res := false
	var fns []*ssa.Function
	var add func(f *ssa.Function)
	add = func(f *ssa.Function) {
		fns = append(fns, f)
		for _, a := range f.AnonFuncs {
			add(a)
		}
	}
	for _, m := range from.Pkg.Members {
		switch x := m.(type) {
		case *ssa.Function:
			add(x)
		case *ssa.Type:
			for _, tt := range []types.Type{x.Type(), types.NewPointer(x.Type())} {
				ms := from.Prog.MethodSets.MethodSet(tt)
				for i := 0; i < ms.Len(); i++ {
					if f := from.Prog.MethodValue(ms.At(i)); f != nil && f.Pkg == from.Pkg {
						add(f)
					}
				}
			}
		}
	}
	seen := map[*ssa.Function]bool{}
	for _, f := range fns {
		if seen[f] {
			continue
		}
		seen[f] = true
		for _, b := range f.Blocks {
			for _, in := range b.Instrs {
				st, ok := in.(*ssa.Store)
				if !ok {
					continue
				}
				pt, ok := st.Addr.Type().Underlying().(*types.Pointer)
				if !ok || !types.Identical(pt.Elem(), t) {
					continue
				}
				switch v := st.Val.(type) {
				case *ssa.UnOp:
					// *p = *q where q is a literal built field by field in this function is fine
					if al, ok := v.X.(*ssa.Alloc); ok && al.Comment == "complit" {
						continue
					}
					res = true
				case *ssa.Const:
					// the zero record
				default:
					res = true
				}
			}
		}
	}
	recordWholeMemo[t] = res
	return res
}
