package rg

import (
	"fmt"
	"go/token"
	"go/types"
	"sort"
	"strings"

	"golang.org/x/tools/go/ssa"
)

// Rules added after the seventh set of seeded changes (DESIGN.md 7.14).

// ---------- R16o: committed batches reach the apply loop in log order ----------

var rR16o = RuleRef{Name: "R16o", Doc: "committed entries are handed to the apply loop by the goroutine that runs the Ready loop, one blocking send after the other: in package raftexample no function that is started with `go` (a closure or a named function, directly or through what it calls) sends on a channel of commit batches. The unbuffered channel with its single producer is what makes the order of execution the order of the log; a batch handed over in the background can be overtaken by the next one, and a replica executes entry i+1 before entry i", Run: func(c *C) {
	isCommitChan := func(t types.Type) bool {
		ch, ok := t.Underlying().(*types.Chan)
		return ok && namedOf(ch.Elem()) == "RaftCommit"
	}
	sends := map[*ssa.Function][]ssa.Instruction{}
	fns := c.P.allFuncs("raftexample")
	n := 0
	for _, fn := range fns {
		for _, b := range fn.Blocks {
			for _, in := range b.Instrs {
				switch x := in.(type) {
				case *ssa.Send:
					if isCommitChan(x.Chan.Type()) {
						sends[fn] = append(sends[fn], in)
						n++
					}
				case *ssa.Select:
					for _, st := range x.States {
						if st.Dir == types.SendOnly && isCommitChan(st.Chan.Type()) {
							sends[fn] = append(sends[fn], in)
							n++
						}
					}
				}
			}
		}
	}
	// functions that (transitively, inside the package) send a batch
	sender := map[*ssa.Function]bool{}
	for f := range sends {
		sender[f] = true
	}
	for iter := 0; iter < 4; iter++ {
		for _, fn := range fns {
			if sender[fn] {
				continue
			}
			for _, b := range fn.Blocks {
				for _, in := range b.Instrs {
					if ci, ok := in.(ssa.CallInstruction); ok {
						if _, isGo := in.(*ssa.Go); isGo {
							continue
						}
						if cf := callee(ci); cf != nil && sender[cf] {
							sender[fn] = true
						}
					}
				}
			}
		}
	}
	var bad []string
	for _, fn := range fns {
		for _, b := range fn.Blocks {
			for _, in := range b.Instrs {
				g, ok := in.(*ssa.Go)
				if !ok {
					continue
				}
				cf := callee(g)
				if cf == nil {
					if mc, ok := g.Call.Value.(*ssa.MakeClosure); ok {
						cf, _ = mc.Fn.(*ssa.Function)
					}
				}
				// the Ready loop itself is started once, from code that hands over nothing; what matters is a goroutine
				// started from inside the hand-over path
				inPath := sender[fn] || (fn.Parent() != nil && sender[fn.Parent()])
				if cf != nil && sender[cf] && inPath {
					bad = append(bad, c.pos(g.Pos())+": "+fnName(fn)+" starts "+fnName(cf)+" as a goroutine, which hands a commit batch to the apply loop")
				}
			}
		}
	}
	c.Add("R16o", "raftexample", "commit batches are sent by the Ready loop's own goroutine", token.NoPos, len(bad) == 0, strings.Join(uniq(bad), "; "))
	c.Count("R16o_commit_sends", n)
	c.Min("R16o_commit_sends", 1)
}}

// ---------- R10j: what travels in the log is encoded by encoding/json's own rules for byte slices ----------

var rR10j = RuleRef{Name: "R10j", Doc: "command bytes survive the log: the record a proposal is marshalled into (RaftProposal and what it embeds) carries the argument vector as [][]byte / []byte -- encoding/json writes those as base64, which is exact for every byte -- and defines no MarshalJSON/UnmarshalJSON/MarshalText of its own; no field that carries command bytes is a string or []string (encoding/json replaces every byte sequence that is not valid UTF-8 by U+FFFD when it writes a string)", Run: func(c *C) {
	nt := c.P.NamedType("raftexample", "RaftProposal")
	if nt == nil {
		c.Undecided("R10j", "anchor raftexample.RaftProposal")
		return
	}
	var bad []string
	n := 0
	seen := map[types.Type]bool{}
	var visit func(t types.Type, path string, depth int)
	visit = func(t types.Type, path string, depth int) {
		if depth > 4 || seen[t] {
			return
		}
		seen[t] = true
		if named, ok := t.(*types.Named); ok && named.Obj().Pkg() != nil && strings.HasPrefix(named.Obj().Pkg().Path(), ModPath) {
			for _, tt := range []types.Type{named, types.NewPointer(named)} {
				ms := types.NewMethodSet(tt)
				for i := 0; i < ms.Len(); i++ {
					switch ms.At(i).Obj().Name() {
					case "MarshalJSON", "UnmarshalJSON", "MarshalText", "UnmarshalText":
						bad = append(bad, named.Obj().Name()+" defines "+ms.At(i).Obj().Name()+": the wire form of the log is no longer encoding/json's own")
					}
				}
			}
		}
		switch u := t.Underlying().(type) {
		case *types.Struct:
			for i := 0; i < u.NumFields(); i++ {
				f := u.Field(i)
				n++
				ft := f.Type()
				isStr := func(x types.Type) bool {
					b, ok := x.Underlying().(*types.Basic)
					return ok && b.Info()&types.IsString != 0
				}
				if sl, ok := ft.Underlying().(*types.Slice); ok && isStr(sl.Elem()) {
					bad = append(bad, path+"."+f.Name()+" is a []string: arguments that are not valid UTF-8 are altered by the JSON encoder")
				}
				visit(ft, path+"."+f.Name(), depth+1)
			}
		case *types.Pointer:
			visit(u.Elem(), path, depth+1)
		case *types.Slice:
			visit(u.Elem(), path, depth+1)
		}
	}
	visit(nt, "RaftProposal", 0)
	// the argument vector itself
	hasArgs := false
	if st, ok := nt.Underlying().(*types.Struct); ok {
		for i := 0; i < st.NumFields(); i++ {
			if st.Field(i).Type().String() == "[][]byte" {
				hasArgs = true
			}
		}
	}
	if !hasArgs {
		bad = append(bad, "RaftProposal has no [][]byte field for the argument vector")
	}
	c.Add("R10j", "raftexample.RaftProposal", "the logged record carries the arguments as byte slices and is encoded by encoding/json itself", nt.Obj().Pos(), len(bad) == 0, strings.Join(uniq(bad), "; "))
	c.Count("R10j_record_fields", n)
	c.Min("R10j_record_fields", 2)
}}

// ---------- R23r: the reply of an applied command is handed over with a blocking send ----------

var rR23r = RuleRef{Name: "R23r", Doc: "each client receives the reply to its own command: in the apply loop (and what it calls in package server) a reply is sent to the waiting connection with a plain send, never as an arm of a select that has a default; and the channel registered for a proposal has room for one reply, so that the apply loop is not held up either. A non-blocking send on an unbuffered channel drops the reply whenever the entry is applied before the connection goroutine has reached its receive: the command has taken effect on every replica and the client waits for ever", Run: func(c *C) {
	ap := c.applyLoop()
	if ap == nil {
		c.Undecided("R23r", "the apply loop")
		return
	}
	isReplyChan := func(t types.Type) bool {
		ch, ok := t.Underlying().(*types.Chan)
		return ok && (isReplyIface(ch.Elem()) || namedOf(ch.Elem()) == "RedisData")
	}
	n := 0
	for _, fn := range helperScope(ap, 2) {
		if pkgRel(fn) != "server" {
			continue
		}
		for _, b := range fn.Blocks {
			for _, in := range b.Instrs {
				switch x := in.(type) {
				case *ssa.Send:
					if isReplyChan(x.Chan.Type()) {
						n++
						c.Add("R23r", fnName(fn), "the reply is handed over with a blocking send", x.Pos(), true, "plain send")
					}
				case *ssa.Select:
					for _, st := range x.States {
						if st.Dir == types.SendOnly && isReplyChan(st.Chan.Type()) {
							n++
							c.Add("R23r", fnName(fn), "the reply is handed over with a blocking send", x.Pos(), x.Blocking, "the send is an arm of a select with a default: when the receiver is not ready yet the reply is dropped")
						}
					}
				}
			}
		}
	}
	c.Count("R23r_reply_sends", n)
	c.Min("R23r_reply_sends", 1)
	// the registered channel is buffered
	nm := 0
	for _, fn := range c.P.allFuncs("server") {
		for _, b := range fn.Blocks {
			for _, in := range b.Instrs {
				mk, ok := in.(*ssa.MakeChan)
				if !ok || !isReplyChan(mk.Type()) {
					continue
				}
				nm++
				k, isK := constInt(mk.Size)
				c.Add("R23r", fnName(fn), "the result channel of a proposal has room for its reply", mk.Pos(), isK && k >= 1, "make(chan reply) without a buffer: the apply loop would wait for the connection goroutine, or (with a non-blocking send) lose the reply")
			}
		}
	}
	c.Count("R23r_result_channels", nm)
	c.Min("R23r_result_channels", 1)
}}

// ---------- R10u: cluster filters decide, they do not rewrite ----------

var rR10u = RuleRef{Name: "R10u", Doc: "the replicated log carries what the client sent: every function installed as a cluster command filter (the element type of server.Filters: func([][]byte) ([][]byte, error)) returns, next to a nil error, the very argument vector it was given -- it may refuse a command, it never edits one. A filter that rewrites SET .. EX n into SET .. EXAT t lets option combinations through that the executor refuses for the original command, and the log no longer holds the client's command", Run: func(c *C) {
	n := 0
	for _, fn := range c.P.allFuncs("server") {
		sig := fn.Signature
		if fn.Parent() != nil || sig.Recv() != nil || sig.Params().Len() != 1 || sig.Results().Len() != 2 {
			continue
		}
		if sig.Params().At(0).Type().String() != "[][]byte" || sig.Results().At(0).Type().String() != "[][]byte" || !isErrorType(sig.Results().At(1).Type()) {
			continue
		}
		if fn.Blocks == nil {
			continue
		}
		n++
		var bad []string
		for _, b := range fn.Blocks {
			ret, ok := b.Instrs[len(b.Instrs)-1].(*ssa.Return)
			if !ok {
				continue
			}
			rr := retResults(ret)
			okErr := false
			for _, e := range rr[1] {
				if isNilConst(e) {
					okErr = true
				}
			}
			if !okErr {
				continue
			}
			for _, v := range rr[0] {
				if v != ssa.Value(fn.Params[0]) && !isNilConst(v) {
					bad = append(bad, c.pos(ret.Pos())+": an accepted command is returned as "+canon(v)+", not as the vector that was handed in")
				}
			}
		}
		// ... and it does not write into the vector either
		for _, b := range fn.Blocks {
			for _, in := range b.Instrs {
				if st, ok := in.(*ssa.Store); ok {
					if ia, ok := st.Addr.(*ssa.IndexAddr); ok && rootOf(ia.X) == 0 {
						bad = append(bad, c.pos(st.Pos())+": an element of the argument vector is overwritten")
					}
				}
			}
		}
		c.Add("R10u", fnName(fn), "a cluster filter hands the command on unchanged", fn.Pos(), len(bad) == 0, strings.Join(uniq(bad), "; "))
	}
	c.Count("R10u_filters", n)
	c.Min("R10u_filters", 1)
}}

// ---------- R20h: heights are recomputed bottom-up ----------

var rR20h = RuleRef{Name: "R20h", Doc: "an AVL height is computed from the stored heights of the children: when one function of the tree stores the height of several nodes (the rotations: first the node that moved down, then the new subtree root), every height computation (a call of the max-height helper, or a read of a child's height field) that feeds a later store starts after the earlier store has been made. Written as one tuple assignment, both right-hand sides are evaluated first: the new root reads the stale height of the node that just moved below it, and ancestors rebalance on an inflated value", Run: func(c *C) {
	n := 0
	for _, fn := range c.P.allFuncs("memdb") {
		if fn.Blocks == nil {
			continue
		}
		for _, b := range fn.Blocks {
			// height stores of this block in program order
			type hs struct {
				idx  int
				st   *ssa.Store
				node string
			}
			var stores []hs
			for i, in := range b.Instrs {
				st, ok := in.(*ssa.Store)
				if !ok {
					continue
				}
				fa, ok := st.Addr.(*ssa.FieldAddr)
				if !ok || fieldName(fa) != "height" || namedOf(fa.X.Type()) != "Node" {
					continue
				}
				stores = append(stores, hs{i, st, canon(fa.X)})
			}
			if len(stores) < 2 {
				continue
			}
			n++
			var bad []string
			for k := 1; k < len(stores); k++ {
				if stores[k].node == stores[k-1].node {
					continue
				}
				// what the k-th stored value is computed from must be evaluated after the (k-1)-th store
				backslice(stores[k].st.Val, func(v ssa.Value) bool {
					in, ok := v.(ssa.Instruction)
					if !ok || in.Block() != b {
						return false
					}
					reads := false
					switch y := v.(type) {
					case *ssa.Call:
						if cf := callee(y); cf != nil && firstParty(cf) {
							reads = true
						}
					case *ssa.UnOp:
						if fa, ok := y.X.(*ssa.FieldAddr); ok && fieldName(fa) == "height" {
							reads = true
						}
					}
					if reads && instrIndex(in) < stores[k-1].idx {
						bad = append(bad, fmt.Sprintf("%s: the height stored into %s is computed (%s) before the height of %s is stored", c.pos(stores[k].st.Pos()), stores[k].node, c.pos(in.Pos()), stores[k-1].node))
					}
					return true
				})
			}
			c.Add("R20h", fnName(fn), "heights of several nodes are recomputed one after the other", fn.Pos(), len(bad) == 0, strings.Join(uniq(bad), "; "))
		}
	}
	c.Count("R20h_multi_height_blocks", n)
	c.Min("R20h_multi_height_blocks", 2)
}}

// ---------- R9q: nothing is returned and given back to a pool at the same time ----------

var rR9q = RuleRef{Name: "R9q", Doc: "a reply owns its memory until it is written: no function of memdb, resp or server hands a value to (*sync.Pool).Put (directly or deferred) that also reaches one of its own return values (through slicing, append, a reply constructor or a record it is stored into). The reply of an executor is serialised after the executor has returned -- in cluster mode after it travelled through a channel -- so the next command that takes the buffer from the pool overwrites a reply that is still waiting to be sent", Run: func(c *C) {
	n := 0
	for _, fn := range c.P.allFuncs("memdb", "resp", "server") {
		if fn.Blocks == nil {
			continue
		}
		var puts []ssa.CallInstruction
		for _, b := range fn.Blocks {
			for _, in := range b.Instrs {
				ci, ok := in.(ssa.CallInstruction)
				if !ok {
					continue
				}
				if cf := ci.Common().StaticCallee(); cf != nil && cf.String() == "(*sync.Pool).Put" && len(ci.Common().Args) == 2 {
					puts = append(puts, ci)
				}
			}
		}
		if len(puts) == 0 {
			continue
		}
		// roots of the memory handed back
		root := func(v ssa.Value) ssa.Value {
			for d := 0; d < 10; d++ {
				switch y := v.(type) {
				case *ssa.MakeInterface:
					v = y.X
				case *ssa.Slice:
					v = y.X
				case *ssa.ChangeType:
					v = y.X
				case *ssa.TypeAssert:
					v = y.X
				case *ssa.Extract:
					v = y.Tuple
				case *ssa.Phi:
					if len(y.Edges) > 0 {
						v = y.Edges[0]
					} else {
						return v
					}
				case *ssa.Call:
					if ap, ok := isAppend(y); ok {
						v = ap.Call.Args[0]
					} else {
						return v
					}
				default:
					return v
				}
			}
			return v
		}
		for _, put := range puts {
			n++
			r := root(put.Common().Args[1])
			// does anything derived from r reach a return?
			derived := map[ssa.Value]bool{}
			var fwd func(v ssa.Value, d int)
			escapes := ""
			fwd = func(v ssa.Value, d int) {
				if derived[v] || d > 12 || v.Referrers() == nil {
					return
				}
				derived[v] = true
				for _, ref := range *v.Referrers() {
					switch y := ref.(type) {
					case *ssa.Return:
						escapes = c.pos(y.Pos())
					case *ssa.Store:
						if y.Val == v {
							// stored into a record or a cell: follow the holder
							var holder ssa.Value = y.Addr
							for i := 0; i < 3; i++ {
								if fa, ok := holder.(*ssa.FieldAddr); ok {
									holder = fa.X
								} else if ia, ok := holder.(*ssa.IndexAddr); ok {
									holder = ia.X
								}
							}
							fwd(holder, d+1)
							if al, ok := holder.(*ssa.Alloc); ok {
								for _, rr := range *al.Referrers() {
									if ld, ok := rr.(*ssa.UnOp); ok {
										fwd(ld, d+1)
									}
								}
							}
						}
					case ssa.Value:
						switch z := y.(type) {
						case *ssa.Call:
							if z == put {
								continue
							}
							if cf := callee(z); cf != nil && cf.String() == "(*sync.Pool).Put" {
								continue
							}
							// a constructor that wraps its argument (MakeArrayData keeps the slice)
							fwd(z, d+1)
						default:
							fwd(z, d+1)
						}
					}
				}
			}
			fwd(r, 0)
			// a deferred closure that gives back a variable of the enclosing function: follow that variable there
			var fv *ssa.FreeVar
			switch y := r.(type) {
			case *ssa.FreeVar:
				fv = y
			case *ssa.UnOp:
				fv, _ = y.X.(*ssa.FreeVar)
			}
			if fv != nil && fn.Parent() != nil {
				idx := -1
				for i, f := range fn.FreeVars {
					if f == fv {
						idx = i
					}
				}
				for _, pb := range fn.Parent().Blocks {
					for _, pin := range pb.Instrs {
						mc, ok := pin.(*ssa.MakeClosure)
						if !ok || mc.Fn != ssa.Value(fn) || idx < 0 || idx >= len(mc.Bindings) {
							continue
						}
						bnd := mc.Bindings[idx]
						fwd(bnd, 0)
						if al, ok := bnd.(*ssa.Alloc); ok {
							for _, rr := range *al.Referrers() {
								switch z := rr.(type) {
								case *ssa.Store:
									if z.Addr == ssa.Value(al) {
										fwd(z.Val, 0)
									}
								case *ssa.UnOp:
									fwd(z, 0)
								}
							}
						}
					}
				}
			}
			c.Add("R9q", fnName(fn), "what is given back to the pool is not also returned", put.Pos(), escapes == "", "memory handed to sync.Pool.Put here is still reachable from the value returned at "+escapes)
		}
	}
	c.Count("R9q_pool_puts", n)
}}

// ---------- R20g: numbered databases share no package-level state ----------

var rR20g = RuleRef{Name: "R20g", Doc: "everything an executor changes belongs to the database it was handed: code reachable from the executors of package memdb writes no package-level variable of the package and nothing reached through one (a map, slice or record kept in a global). The command table is filled at start-up by registration functions, not by executors. A waiter table, cache or pool keyed by the bare key name and kept in a global is shared by all numbered databases: a push in database 1 serves the client blocked on the same key name in database 0", Run: func(c *C) {
	var roots []*ssa.Function
	for _, fn := range c.Facts.SortedExecutors() {
		roots = append(roots, fn)
	}
	reach := c.reachableFirstParty(roots)
	n := 0
	var bad []string
	fromGlobal := func(v ssa.Value) string {
		name := ""
		seen := map[ssa.Value]bool{}
		var walk func(v ssa.Value, d int)
		walk = func(v ssa.Value, d int) {
			if v == nil || seen[v] || d > 8 || name != "" {
				return
			}
			seen[v] = true
			switch y := v.(type) {
			case *ssa.Global:
				if y.Pkg != nil && strings.HasSuffix(y.Pkg.Pkg.Path(), "/memdb") {
					name = y.Name()
				}
			case *ssa.UnOp:
				walk(y.X, d+1)
			case *ssa.FieldAddr:
				walk(y.X, d+1)
			case *ssa.IndexAddr:
				walk(y.X, d+1)
			case *ssa.Field:
				walk(y.X, d+1)
			case *ssa.Lookup:
				walk(y.X, d+1)
			case *ssa.Extract:
				walk(y.Tuple, d+1)
			case *ssa.Slice:
				walk(y.X, d+1)
			case *ssa.Phi:
				for _, e := range y.Edges {
					walk(e, d+1)
				}
			}
		}
		walk(v, 0)
		return name
	}
	var fns []*ssa.Function
	for fn := range reach {
		fns = append(fns, fn)
	}
	sort.Slice(fns, func(i, j int) bool { return fns[i].String() < fns[j].String() })
	for _, fn := range fns {
		if pkgRel(fn) != "memdb" {
			continue
		}
		n++
		for _, b := range fn.Blocks {
			for _, in := range b.Instrs {
				switch x := in.(type) {
				case *ssa.Store:
					if g := fromGlobal(x.Addr); g != "" {
						bad = append(bad, c.pos(x.Pos())+": "+fnName(fn)+" stores into package-level "+g)
					}
				case *ssa.MapUpdate:
					if g := fromGlobal(x.Map); g != "" {
						bad = append(bad, c.pos(x.Pos())+": "+fnName(fn)+" updates the package-level map "+g)
					}
				case *ssa.Call:
					if bi, ok := x.Call.Value.(*ssa.Builtin); ok && bi.Name() == "delete" {
						if g := fromGlobal(x.Call.Args[0]); g != "" {
							bad = append(bad, c.pos(x.Pos())+": "+fnName(fn)+" deletes from the package-level map "+g)
						}
					}
					// a method with a pointer receiver called on a global record that holds a map or slice (a table type)
					if cf := callee(x); cf != nil && firstParty(cf) && cf.Signature.Recv() != nil && len(x.Call.Args) > 0 {
						if g := fromGlobal(x.Call.Args[0]); g != "" && c.mutates(cf, 0) {
							bad = append(bad, c.pos(x.Pos())+": "+fnName(fn)+" calls the mutating method "+cf.Name()+" on package-level "+g)
						}
					}
				}
			}
		}
	}
	c.Add("R20g", "memdb", "executors write no package-level state", token.NoPos, len(bad) == 0, strings.Join(uniq(bad), "; "))
	c.Count("R20g_functions_reachable_from_executors", n)
	c.Min("R20g_functions_reachable_from_executors", 100)
}}

// ---------- R16m: a new term starts with nothing known about the followers ----------

var rR16m = RuleRef{Name: "R16m", Doc: "what a leader knows about a follower's log is valid for one leadership: in raft.reset every Progress is rebuilt with Match 0 (the node's own entry excepted, which gets its last index). Another leader may have rewritten this node's log in between; a Match carried over claims that the follower holds entries it does not, and the first heartbeat (min(Match, committed)) tells it to commit its old, uncommitted tail", Run: func(c *C) {
	reset := c.P.Func(raftPkg, "raft.reset")
	if reset == nil {
		c.Undecided("R16m", "anchor raft.reset")
		return
	}
	n := 0
	for _, fn := range append([]*ssa.Function{reset}, reset.AnonFuncs...) {
		for _, b := range fn.Blocks {
			for _, in := range b.Instrs {
				st, ok := in.(*ssa.Store)
				if !ok {
					continue
				}
				fa, ok := st.Addr.(*ssa.FieldAddr)
				if !ok || namedOf(fa.X.Type()) != "Progress" || fieldName(fa) != "Match" {
					continue
				}
				n++
				good, why := false, ""
				if k, isK := constInt(st.Val); isK && k == 0 {
					good = true
				} else if call, isC := st.Val.(*ssa.Call); isC && callName(call) == "lastIndex" {
					// the node's own progress: under a comparison of the visited id with raft.id
					for d := b; d != nil && !good; d = d.Idom() {
						id := d.Idom()
						if id == nil || len(id.Instrs) == 0 {
							continue
						}
						if iff, isIf := id.Instrs[len(id.Instrs)-1].(*ssa.If); isIf {
							backslice(iff.Cond, func(x ssa.Value) bool {
								if f, ok := x.(*ssa.FieldAddr); ok && namedOf(f.X.Type()) == "raft" && fieldName(f) == "id" {
									good = true
								}
								return true
							})
						}
					}
					why = "lastIndex() is stored without a test that the entry is the node's own"
				} else {
					why = "Match is set to " + canon(st.Val)
				}
				c.Add("R16m", fnName(fn), "a reset Progress starts with Match 0", st.Pos(), good, why)
			}
		}
	}
	c.Count("R16m_match_stores", n)
	c.Min("R16m_match_stores", 1)
}}

// ---------- specialisation of helpers by constant arguments ----------

// constArgs: the arguments of a call that are boolean or integer constants -- or a choice between constants (a phi, a
// variable set to one literal or another before the call) -- by parameter index.
func constArgs(ci ssa.CallInstruction) map[int][]*ssa.Const {
	out := map[int][]*ssa.Const{}
	for i, a := range ci.Common().Args {
		var ks []*ssa.Const
		okAll := true
		seen := map[ssa.Value]bool{}
		var walk func(v ssa.Value, d int)
		walk = func(v ssa.Value, d int) {
			if seen[v] || d > 3 {
				return
			}
			seen[v] = true
			switch y := v.(type) {
			case *ssa.Const:
				if y.Value != nil && (isBoolType(y.Type()) || isIntType(y.Type())) {
					ks = append(ks, y)
				} else {
					okAll = false
				}
			case *ssa.Phi:
				for _, e := range y.Edges {
					walk(e, d+1)
				}
			case *ssa.ChangeType:
				walk(y.X, d+1)
			default:
				okAll = false
			}
		}
		walk(a, 0)
		if okAll && len(ks) > 0 && len(ks) <= 4 {
			out[i] = ks
		}
	}
	return out
}

// prunedReach: the blocks of fn that can be reached from its entry when the parameters listed in consts have those
// constant values: a branch on such a parameter, on its negation, or on a comparison of it with another constant is
// followed on the side the value selects (a helper steered by a flag or a small enum, called with a literal).
func prunedReach(fn *ssa.Function, consts map[int][]*ssa.Const) map[*ssa.BasicBlock]bool {
	reach := map[*ssa.BasicBlock]bool{}
	if fn == nil || len(fn.Blocks) == 0 {
		return reach
	}
	// the candidate constants a value can stand for: itself, or those of the parameter it is
	candidates := func(v ssa.Value) ([]*ssa.Const, bool) {
		for d := 0; d < 3; d++ {
			switch y := v.(type) {
			case *ssa.ChangeType:
				v = y.X
				continue
			case *ssa.Convert:
				v = y.X
				continue
			}
			break
		}
		if k, ok := v.(*ssa.Const); ok && k.Value != nil {
			return []*ssa.Const{k}, false
		}
		if p, ok := v.(*ssa.Parameter); ok {
			for i, q := range fn.Params {
				if q == p && len(consts[i]) > 0 {
					return consts[i], true
				}
			}
		}
		return nil, false
	}
	var known func(v ssa.Value, d int) (bool, bool)
	known = func(v ssa.Value, d int) (bool, bool) {
		if d > 4 {
			return false, false
		}
		switch y := v.(type) {
		case *ssa.UnOp:
			if y.Op == token.NOT {
				val, ok := known(y.X, d+1)
				return !val, ok
			}
		case *ssa.Parameter:
			ks, _ := candidates(y)
			if len(ks) == 0 || !isBoolType(y.Type()) {
				return false, false
			}
			first := ks[0].Value.ExactString() == "true"
			for _, k := range ks[1:] {
				if (k.Value.ExactString() == "true") != first {
					return false, false
				}
			}
			return first, true
		case *ssa.BinOp:
			if y.Op != token.EQL && y.Op != token.NEQ {
				return false, false
			}
			as, aP := candidates(y.X)
			bs, bP := candidates(y.Y)
			if len(as) == 0 || len(bs) == 0 || (!aP && !bP) {
				return false, false
			}
			// the comparison has the same outcome for every combination of candidates
			var res *bool
			for _, a := range as {
				for _, b := range bs {
					eq := a.Value.ExactString() == b.Value.ExactString()
					r := eq == (y.Op == token.EQL)
					if res == nil {
						res = &r
					} else if *res != r {
						return false, false
					}
				}
			}
			return *res, true
		}
		return false, false
	}
	var walk func(b *ssa.BasicBlock)
	walk = func(b *ssa.BasicBlock) {
		if reach[b] {
			return
		}
		reach[b] = true
		if iff, ok := b.Instrs[len(b.Instrs)-1].(*ssa.If); ok {
			if val, have := known(iff.Cond, 0); have {
				if val {
					walk(b.Succs[0])
				} else {
					walk(b.Succs[1])
				}
				return
			}
		}
		for _, sc := range b.Succs {
			walk(sc)
		}
	}
	walk(fn.Blocks[0])
	return reach
}

// ---------- R23c: a registered proposal is unregistered before the connection moves on ----------

var rR23c = RuleRef{Name: "R23c", Doc: "replies stay in request order in cluster mode: in the cluster connection handler every entry put into the proposal rendezvous table (the call of the table method that inserts) is taken out again (a call of a table method that deletes) on every path before the handler writes a reply or comes round to the next command. An entry left behind by a timeout branch is still found by the apply loop when the proposal commits late: its result is parked for -- and sent as the answer to -- the connection's next command", Run: func(c *C) {
	var hc *ssa.Function
	for _, h := range c.connHandlers() {
		if sendsProposal(h) {
			hc = h
		}
	}
	if hc == nil {
		c.Undecided("R23c", "the cluster connection handler (the one that sends RaftProposals)")
		return
	}
	// table methods by what they do to the table's map
	does := func(fn *ssa.Function, what string) bool {
		if fn == nil || fn.Blocks == nil || fn.Signature.Recv() == nil || !isRendezvousTable(fn.Signature.Recv().Type()) {
			return false
		}
		for _, body := range append([]*ssa.Function{fn}, fn.AnonFuncs...) {
			for _, b := range body.Blocks {
				for _, in := range b.Instrs {
					switch x := in.(type) {
					case *ssa.MapUpdate:
						if what == "insert" {
							return true
						}
					case *ssa.Call:
						if bi, ok := x.Call.Value.(*ssa.Builtin); ok && bi.Name() == "delete" && what == "delete" {
							return true
						}
					}
				}
			}
		}
		return false
	}
	n := 0
	for _, fn := range helperScope(hc, 1) {
		if pkgRel(fn) != "server" {
			continue
		}
		for _, b := range fn.Blocks {
			for _, in := range b.Instrs {
				call, ok := in.(*ssa.Call)
				if !ok || !does(callee(call), "insert") {
					continue
				}
				n++
				isDelete := func(x ssa.Instruction) bool {
					ci, ok := x.(ssa.CallInstruction)
					return ok && does(callee(ci), "delete")
				}
				leak := ""
				reachesBefore(call, func(x ssa.Instruction) bool {
					if ci, ok := x.(ssa.CallInstruction); ok {
						cc := ci.Common()
						if cc.IsInvoke() && isNetConn(cc.Value.Type()) && cc.Method.Name() == "Write" {
							leak = "the reply is written at " + c.pos(x.Pos())
							return true
						}
					}
					if x == ssa.Instruction(call) {
						leak = "the handler comes round to the next command"
						return true
					}
					if _, isRet := x.(*ssa.Return); isRet {
						leak = "the handler returns at " + c.pos(x.Pos())
						return true
					}
					return false
				}, isDelete)
				c.Add("R23c", fnName(fn), "a registered proposal is unregistered on every path before the next reply", call.Pos(), leak == "", "the entry is still in the table when "+leak)
			}
		}
	}
	c.Count("R23c_registrations", n)
	c.Min("R23c_registrations", 1)
}}

// ---------- R11d: the parser's connection has no read deadline ----------

var rR11d = RuleRef{Name: "R11d", Doc: "a request is decoded the same however its bytes are spread over time: no first-party code arms a read deadline (SetReadDeadline, SetDeadline) on a client connection. The parser reads through bufio and io.ReadFull; a timeout in the middle of a header line or a bulk payload loses the bytes already consumed, and retrying the read continues in the middle of the frame", Run: func(c *C) {
	n := 0
	var bad []string
	for _, fn := range c.P.allFuncs("resp", "server", "memdb") {
		for _, b := range fn.Blocks {
			for _, in := range b.Instrs {
				ci, ok := in.(ssa.CallInstruction)
				if !ok {
					continue
				}
				cc := ci.Common()
				name := ""
				if cc.IsInvoke() {
					name = cc.Method.Name()
				} else if cf := cc.StaticCallee(); cf != nil && cf.Signature.Recv() != nil {
					name = cf.Name()
				}
				if name != "SetReadDeadline" && name != "SetDeadline" {
					continue
				}
				// a zero time value disarms
				if len(cc.Args) > 0 {
					last := cc.Args[len(cc.Args)-1]
					if k, isK := last.(*ssa.Const); isK && k.Value == nil {
						continue
					}
				}
				bad = append(bad, c.pos(in.Pos())+": "+fnName(fn)+" calls "+name)
			}
		}
		n++
	}
	c.Add("R11d", "first-party", "no read deadline is armed on client connections", token.NoPos, len(bad) == 0, strings.Join(uniq(bad), "; "))
	c.Count("R11d_functions_scanned", n)
	c.Min("R11d_functions_scanned", 50)
}}

// ---------- R16k: the commit channel is a rendezvous; a snapshot installed into storage is kept whole ----------

var rR16k = RuleRef{Name: "R16k", Doc: "(1) the channel that carries commit batches to the apply loop is unbuffered: handing over batch N means every earlier batch has been executed, which is what lets the Ready loop take a snapshot at the applied index after waiting for the current batch only; with a buffer the snapshot is stamped with an index that covers commands still waiting in the channel. (2) MemoryStorage.ApplySnapshot keeps the snapshot it is given, data included: it is the source of the snapshot a leader sends to a follower behind the compacted log", Run: func(c *C) {
	n := 0
	for _, fn := range c.P.allFuncs("raftexample", "server") {
		for _, b := range fn.Blocks {
			for _, in := range b.Instrs {
				mk, ok := in.(*ssa.MakeChan)
				if !ok {
					continue
				}
				ch, ok := mk.Type().Underlying().(*types.Chan)
				if !ok || namedOf(ch.Elem()) != "RaftCommit" {
					continue
				}
				n++
				k, isK := constInt(mk.Size)
				c.Add("R16k", fnName(fn), "the commit channel has no buffer", mk.Pos(), isK && k == 0, "make(chan *RaftCommit, n) with n > 0: batches queue up behind the apply loop while appliedIndex runs ahead")
			}
		}
	}
	c.Count("R16k_commit_channels", n)
	c.Min("R16k_commit_channels", 1)
	as := c.P.Func(raftPkg, "MemoryStorage.ApplySnapshot")
	if as == nil {
		c.Undecided("R16k", "anchor MemoryStorage.ApplySnapshot")
		return
	}
	found := false
	for _, b := range as.Blocks {
		for _, in := range b.Instrs {
			st, ok := in.(*ssa.Store)
			if !ok {
				continue
			}
			fa, ok := st.Addr.(*ssa.FieldAddr)
			if !ok || namedOf(fa.X.Type()) != "MemoryStorage" || fieldName(fa) != "snapshot" {
				continue
			}
			found = true
			whole := false
			v := st.Val
			if u, isU := v.(*ssa.UnOp); isU && u.Op == token.MUL {
				if al, isAl := u.X.(*ssa.Alloc); isAl {
					if sv := singleStore(al); sv != nil {
						v = sv
					}
				}
			}
			if p, isP := v.(*ssa.Parameter); isP && p.Parent() == as {
				whole = true
			}
			c.Add("R16k", fnName(as), "the installed snapshot is stored whole", st.Pos(), whole, "MemoryStorage.snapshot is set to "+canon(st.Val)+", not to the snapshot that was handed in")
		}
	}
	if !found {
		c.Undecided("R16k", "the store of MemoryStorage.snapshot in ApplySnapshot")
	}
}}
