package rg

import "strings"

// Specs maps property ids to the rules that decide their structural clauses.
// Files restricts the reported obligations to the property's anchor files (prefix match on the repo-relative path);
// obligations without a position (global facts) are always kept.
func Specs() map[string]*PropSpec {
	m := map[string]*PropSpec{}
	add := func(s *PropSpec) {
		s.RuleDocs = map[string]string{}
		for _, r := range s.Rules {
			s.RuleDocs[r.Name] = r.Doc
		}
		if s.Assumptions == nil {
			s.Assumptions = commonAssumptions
		}
		// rules the hand-written text does not name yet: add their headline, so that the claim lists everything that runs
		for _, r := range s.Rules {
			if strings.Contains(s.Explanation, r.Name) || r.Name == "R0" {
				continue
			}
			h := r.Doc
			for _, sep := range []string{": ", ". ", " -- "} {
				if i := strings.Index(h, sep); i > 0 && i < len(h) {
					h = h[:i]
				}
			}
			if len(h) < 14 {
				// the separator came too early to say anything ("KEYS: ..."): take the opening words instead
				h = r.Doc
			}
			if len(h) > 140 {
				h = h[:140]
				if i := strings.LastIndex(h, " "); i > 60 {
					h = h[:i]
				}
				h += " ..."
			}
			s.Explanation += " Also decided: " + h + " (" + r.Name + ")."
		}
		m[s.ID] = s
	}
	strFiles := []string{"memdb/string.go", "memdb/keys.go", "memdb/db.go", "memdb/concurrentmap.go", "memdb/command.go", "memdb/dblock.go", "server/db_manager.go"}
	add(&PropSpec{ID: "C01", Files: strFiles,
		Explanation: "Structural necessary conditions of the string/key command semantics, decided for every path of the executors in the anchor files: key and value bytes reach the keyspace unchanged (R9); every path returns a reply (R7); arity/option parsing cannot index outside the argument vector (R1); integer updates are overflow-guarded (R19); an error reply implies nothing was changed (R27); two argument keys that may be the same key are handled safely (R25); read-modify-write stays inside one lock hold (R15r); the named commands are registered (R0). Reply values against the Redis reference are not decided. A stored string is never written through (R9s) and asynchronous expiry re-validates the deadline under the key's stripe before it deletes (R17, timer goroutines included). Option values an executor parses into a local record are read afterwards (R29). Every value stored in the keyspace has one of the dynamic types the readers test for (R30); lock pairing and ordering of the string executors (R14p, R14o).",
		Rules:       []RuleRef{registeredRule("set", "get", "mset", "mget", "setnx", "setex", "append", "strlen", "getrange", "setrange", "incr", "decr", "incrby", "decrby", "incrbyfloat", "del", "exists", "type", "rename", "keys", "ping"), rR9, rR7, rR1, rR19, rR19w, rR25, rR27, rR15r, rR17, rR9s, rR29, rR30, rR14pair, rR14order, rR22w, rR31, rR20m, rR9m, rR32, rR30g, rR22m, rR20k, rR9k, rR11e, rR15, rR15m, rR13}})
	add(&PropSpec{ID: "C02", Files: []string{"resp/", "server/db_manager.go", "logger/"},
		Explanation: "Parser robustness and identity, decided on all paths: every index/slice in the parser is proven in range (R1) and every allocation sized from the wire is bounded (R4), so no byte stream can panic the parser goroutine; the connection is consumed only through complete-read primitives and the parser resets after an error (R11); bulk payloads are unmodified sub-slices cut by count (R9p); a protocol error closes the connection without dispatching anything and only well-formed arrays are dispatched (R12c). Exact decode equality for all chunkings is not decided. The parser closes its result channel only after the end-of-stream report or on a done context (R11c).",
		Rules:       []RuleRef{rR1, rR4, rR11, rR9p, rR12c, rR11c, rR11m, rR31, rR11t, rR5, rR14pair, rR11d, rR11z}})
	add(&PropSpec{ID: "C03", Files: []string{"resp/", "server/", "memdb/"},
		Explanation: "Reply framing decided on all paths: exactly one conn.Write per extracted command on every path of both connection loops, never from a goroutine, executors never write their conn (R8); line-framed reply constructors receive constant/numeric text or sanitise CR/LF centrally, payloads use bulk strings, encoder headers are len() of what is emitted (R13); encoders return fresh memory (R13p); every executor path returns a non-nil reply (R7). The content of replies is not decided. Once a write deadline is armed on client connections a failed reply write must end the connection, since the reply may have been written in part (R8d). A client connection is never wrapped as an io.Writer: one message, one Write (R8w).",
		Rules:       []RuleRef{rR8, rR13, rR13p, rR7, rR12c, rR8d, rR8w, rR31, rR23u, rR14pair, rR9v, rR8m, rR11c, rR9q, rR23c, rR11z}})
	add(&PropSpec{ID: "C04", Files: []string{"server/", "resp/", "memdb/", "util/", "logger/", "config/"},
		Explanation: "Catalogue of crash/wedge sources on request-reachable first-party code, each instance an obligation: index/slice bounds (R1: compiler prove pass or the SSA difference prover), nil dereference after an inconsistent test (R2), unchecked type assertions (R3), client-sized allocations (R4), explicit process exits (R5), lock pairing on all exits (R14p), no stripe acquired twice by one goroutine and sorted de-duplicated multi-key acquisition (R14o, R15m: a self-deadlock wedges the stripe for every later client), blocking executors kept out of the apply loop (R18), protocol errors contained (R12c). Termination of value-dependent loops and timing are not decided.",
		Rules:       []RuleRef{rR1, rR2, rR3, rR4, rR5, rR14pair, rR14order, rR15m, rR18, rR12c, rR22m, rR11c, rR17x, rR6c}})
	add(&PropSpec{ID: "C05", Files: []string{"memdb/", "util/"},
		Explanation: "The locking protocol that single-key linearizability rests on, decided for every path: the key's stripe is held (write mode for writes and mutators) at every keyspace and container access (R15); a value written from a read lies in the same hold (R15r); every acquire is released on all exits (R14p); the atomic key counter is never accessed plainly and never sizes a result (R6); subscriber tables and the lazy-expiry decision are guarded (R17). Linearizability of recorded histories is not decided. Stored strings are immutable, because readers serialise them after the lock was released (R9s); the key counter and the subscriber counter mirror their tables entry by entry (R20n). The stripe table is built once and indexed purely (R15m); a container stored under one key is not shared with another (R26); bytes held by containers are immutable (R9v).",
		Rules:       []RuleRef{rR15, rR15r, rR14pair, rR6, rR17, rR9s, rR20n, rR20m, rR6w, rR15m, rR26, rR9v, rR9w, rR30g, rR17x, rR6c, rR19a, rR9q, rR14order, rR15l, rR20x, rR15p}})
	add(&PropSpec{ID: "C06", Files: []string{"memdb/"},
		Explanation: "Lazy expiry decided structurally: every observation of a key is dominated by CheckTTL on the same key, KEYS filters candidates through it (R21); key removal and overwrite are paired with deadline removal, KEEPTTL excepted (R22); the expiry routine deletes only on a deadline re-read under the key's stripe (R17). Clock arithmetic is not decided; of the EXPIRE options only the structure is (which lookup outcome and which comparison each arm passes before it installs a deadline, R22e), not the values compared.",
		Rules:       []RuleRef{rR21, rR22, rR22d, rR22w, rR22o, rR17, rR24u, rR22e, rR22m, rR14pair, rR25, rR15, rR22k}})
	add(&PropSpec{ID: "C07", Files: []string{"server/", "raftexample/", "memdb/", "etcd/server/storage/wal/wal.go"},
		Explanation: "Cluster-mode structure: connection goroutines reach the state machine only by proposing (R23) with globally unique proposal ids (R23u); the rendezvous table is mutex-guarded (R17cb); the Ready loop persists before it sends/publishes and ends in Advance, the apply loop executes before it acknowledges (R16r); blocking or connection-using executors are filtered (R18); nondeterministic inputs to replicated state and exits on the raft path are enumerated (R24, R5: known findings); bounds on the cluster path (R1). Linearizability and agreement at run time are not decided. A proposal is sent once per command (R23p); restart hands every WAL entry to the storage and picks a snapshot the WAL vouches for (R16x).",
		Rules:       []RuleRef{rR23, rR23u, rR17cb, rR16r, rR18, rR24, rR5, boundsRule("R1c", []string{"server", "raftexample"}, nil, 4), rR23p, rR16x, rR16e, rR16f, rR18c, rR20cs, rR16y, rR23a, rR16o, rR10j, rR23r, rR23c, rR16k, rR16u, rR16i, rR16j, rR16l, rR16b}})
	add(&PropSpec{ID: "C08", Files: []string{"raftexample/", "memdb/db.go", "server/", "etcd/"},
		Explanation: "Durability structure: persist-before-send/publish/acknowledge on every path of the Ready loop (R16r) with the WAL's own durability points underneath (R16w); snapshot constants agree so that a snapshot after a restart cannot panic (R16c); a torn tail is repaired on reopen (R12s); the snapshot encoder's ability to represent stored types and the existence of a restore path are checked and are known findings today (R24). Recovery equality over crash points is not decided. Restart hands every WAL entry to the storage and picks a snapshot the WAL vouches for (R16x); proposal ids are unique across nodes and restarts (R23u).",
		Rules:       []RuleRef{rR16r, rR16w, rR16c, rR12s, rR24, rR5, rR16x, rR23u, rR24u, rR23, rR16u, rR16y, rR16d, rR16k, rR16i, rR16j, rR16l, rR16b}})
	add(&PropSpec{ID: "C09", Files: []string{"memdb/list.go", "memdb/list_struct.go", "memdb/db.go", "memdb/dblock.go"},
		Explanation: "List bookkeeping decided on all paths of the list code: link/unlink events are paired with List.Len updates (R20a); an emptied list is deleted (R20b); accesses and mutations hold the key's write stripe and pops stay in one hold (R15, R15r); LMOVE-style aliasing of the two keys is safe (R25); bounds, replies, identity, error-implies-unchanged (R1, R7, R9, R27); commands registered (R0). Order/multiplicity/index semantics are not decided. Option values an executor parses into a local record are read afterwards (R29). Lazy expiry and deadline removal of the shared keyspace helpers (R21, R22); list element bytes are immutable (R9v).",
		Rules:       []RuleRef{registeredRule("lpush", "rpush", "lpushx", "rpushx", "lpop", "rpop", "llen", "lindex", "lrange", "lset", "lrem", "ltrim", "lpos", "lmove", "blpop", "brpop"), rR20a, rR20b, rR15, rR15r, rR25, rR1, rR7, rR9, rR27, rR29, rR21, rR22, rR22d, rR22w, rR9v, rR9m, rR32, rR9w, rR14pair, rR20g, rR11e, rR15m, rR15p}})
	add(&PropSpec{ID: "C10", Files: []string{"memdb/hash.go", "memdb/hash_struct.go", "memdb/db.go"},
		Explanation: "Hash structure decided on all paths of the hash code: absence is decided by map membership, never by an empty-value sentinel (R20c); HINCRBY is overflow-guarded (R19); an emptied hash is deleted (R20b); field/value bytes reach the map unchanged and copies keep empty values non-nil (R9); locks, bounds, replies, error-implies-unchanged (R15, R1, R7, R27); commands registered (R0). Map contents against a model are not decided. Option values an executor parses into a local record are read afterwards (R29). Lazy expiry and deadline removal of the shared keyspace helpers (R21, R22); hash value bytes are immutable (R9v).",
		Rules:       []RuleRef{registeredRule("hset", "hsetnx", "hget", "hmget", "hgetall", "hkeys", "hvals", "hlen", "hexists", "hstrlen", "hdel", "hincrby", "hincrbyfloat", "hrandfield"), rR20c, rR19, rR20b, rR9, rR15, rR1, rR7, rR27, rR29, rR21, rR22, rR22d, rR22w, rR9v, rR32, rR9w, rR14pair, rR9q, rR11e, rR20x}})
	add(&PropSpec{ID: "C11", Files: []string{"memdb/sets.go", "memdb/sets_struct.go", "memdb/db.go"},
		Explanation: "Set structure decided on all paths of the set code: STORE forms write or delete the destination on every success path (R20d) and never store an object shared with a source key (R26); emptied sets are deleted (R20b); exhaustion/absence is not decided by a sentinel (R20c); SMOVE-style aliasing is safe (R25); client-sized allocations bounded (R4); locks, bounds, replies (R15, R1, R7); commands registered (R0). That results equal the mathematical set algebra is not decided. Option values an executor parses into a local record are read afterwards (R29). Lazy expiry and deadline removal of the shared keyspace helpers (R21, R22). A rejected set command has changed nothing (R27).",
		Rules:       []RuleRef{registeredRule("sadd", "srem", "sismember", "scard", "smembers", "smove", "spop", "srandmember", "sunion", "sinter", "sdiff", "sunionstore", "sinterstore", "sdiffstore"), rR20d, rR26, rR20b, rR20c, rR25, rR4, rR15, rR1, rR7, rR29, rR21, rR22, rR22d, rR22w, rR27, rR32, rR9w, rR20k, rR14pair, rR11e, rR15l}})
	add(&PropSpec{ID: "C12", Files: []string{"memdb/sorted_set.go", "memdb/sorted_set_struct.go", "memdb/btree.go", "memdb/db.go"},
		Explanation: "Only the structural fringe of the sorted-set property is decided: key/member identity (R9), nil-after-check (R2), bounds (R1), a reply on every path (R7), lock discipline (R15), rejected commands change nothing (R27), emptied key deleted (R20b), size bookkeeping not double-counted by recursion and a comparator on the raw scores (R20t), commands registered (R0). BST order, AVL balance, size/index agreement, rank and score-mate handling are inductive shape invariants and are NOT decided by this family. Option values an executor parses into a local record are read afterwards (R29). Lazy expiry and deadline removal of the shared keyspace helpers (R21, R22).",
		Rules:       []RuleRef{registeredRule("zadd", "zrem", "zrange", "zrank"), rR9, rR2, rR1, rR7, rR15, rR27, rR20b, rR20t, rR29, rR20v, rR20z, rR21, rR22, rR22d, rR22w, rR32, rR9w, rR14pair, rR20h, rR11e}})
	add(&PropSpec{ID: "C13", Files: []string{"memdb/"},
		Explanation: "Static deadlock-freedom argument for the stripe locks over all schedules and key sets: pairing on all exits (R14p); the lock-class graph is acyclic, no stripe is acquired (directly or through a callee such as CheckTTL) while one is held, nothing blocks under a stripe (R14o); the *Multi helpers acquire sorted, de-duplicated stripe positions (R15m). Atomicity, structural part: every access of the multi-key commands lies inside one LockMulti hold covering its key (R15, R15r) and aliasing keys are safe (R25); a multi-key command that replies with an error has changed none of its keys (R27). Observed atomicity of histories is not decided.",
		Rules:       []RuleRef{rR14pair, rR14order, rR15m, rR15, rR15r, rR25, rR27, rR15a, rR6c, rR17, rR15l, rR6w}})
	add(&PropSpec{ID: "C14", Files: []string{"server/", "raftexample/", "resp/", "memdb/pubsub.go", "memdb/list.go"},
		Explanation: "The replicated log carries commands unaltered, structurally: [][]byte carrier filled from ToCommand and handed to the same dispatcher unchanged (R10); proposed bytes are a fresh encoding (R10b); the cluster handler executes locally only in the rconf arm so that reads and SELECT see one state (R23); blocking/conn executors are filtered (R18). Reply equality with a standalone server for all inputs is not decided. The filter chain passes the argument vector through unchanged or rejects it (R10f); proposal ids that route replies are globally unique (R23u). A proposal is sent once per command (R23p); the proposal codec is encoding/json on both sides (R16x).",
		Rules:       []RuleRef{rR10, rR10b, rR23, rR18, rR10f, rR23u, rR23p, rR16x, rR16e, rR16f, rR10t, rR16r, rR18c, rR20cs, rR16y, rR23a, rR10j, rR23r, rR10u, rR16o, rR23c, rR16l, rR16b}})
	add(&PropSpec{ID: "C15", Files: []string{"etcd/raft/"},
		Explanation: "Guard dominance and writer sets that pin the mechanisms named by the property's anchors in the Raft library (R16g): deleting or weakening one of these tests is caught although the scripted raft tests may still pass. Election safety, log matching, leader completeness and state-machine safety themselves are invariants over all reachable states of a distributed protocol and are NOT decided. Guards of in-loop state updates are evaluated afresh in every iteration (R28: no check hoisted out of a loop that changes what is checked). Match grows only on the follower's own append response; prevHardSt is written where a Ready is accepted (R16h).",
		Rules:       []RuleRef{rR16g, rR28, rR16h, rR16q, rR16u, rR16v, rR16z, rR16m, rR16k, rR16aa}})
	add(&PropSpec{ID: "C16", Files: []string{"etcd/", "raftexample/"},
		Explanation: "Durability points and validation-before-hand-out in the WAL and snapshot code, as must-pass-through obligations on the success subgraph (R16w), plus torn-tail repair on reopen in the embedding application (R12s). The behaviour for each subset of lost sectors and each corrupted byte is an enumeration over file contents and is not decided; the checks only guarantee that the guards exist on every path. Every WAL scanner recognises the torn-tail report (R16t); the restart snapshot is one the WAL vouches for (R16x).",
		Rules:       []RuleRef{rR16w, rR12s, rR16t, rR16x, rR16s, rR16p, rR16a, rR16n, rR16d, rR16r, rR16j}})
	add(&PropSpec{ID: "C17", Files: []string{"util/util.go", "memdb/keys.go", "memdb/concurrentmap.go"},
		Explanation: "'Matching always terminates and never crashes' is decided for every pattern and key: all index/slice sites of the matcher are proven in range (R1) and every recursive call strictly shrinks the pattern (R1t). KEYS hands the client's pattern unchanged to the matcher, returns only keys that passed it (R9k) and that passed lazy expiry (R21); the key listing is not sized from the racy counter (R6). Conformance of the match results to the grammar is not decided. The matcher is byte-wise: no text library in PattenMatch or its helpers (R17b).",
		Rules:       []RuleRef{rR1, rR1t, rR9k, rR21, rR6, rR17b, rR17s, rR17m, rR17c, rR17k, rR14pair, rR11e, rR20m, rR20n}})
	add(&PropSpec{ID: "C18", Files: []string{"memdb/stream.go", "memdb/stream_struct.go"},
		Explanation: "Stream structure: XRANGE has no write effect (R11e) and replies on every path (R7); XADD's option scanner is in bounds (R1); a rejected XADD changes nothing and AddEntry stores nothing when it fails (R27); lock discipline (R15); identity of fields (R9); commands registered (R0). Strict ID monotonicity and range arithmetic are value-level and not decided. Sequence parts of two IDs are compared only where their time parts are equal (R18l: lexicographic order); the auto marker -1 never reaches a stored ID (R18s); option values parsed into a local record are read afterwards (R29).",
		Rules:       []RuleRef{registeredRule("xadd", "xrange"), rR11e, rR7, rR1, rR27, rR15, rR9, rR18l, rR18s, rR29, rR32, rR9w, rR31, rR18i, rR14pair, rR18d}})
	add(&PropSpec{ID: "C19", Files: []string{"memdb/pubsub.go", "memdb/pubsub_struct.go", "server/", "resp/"},
		Explanation: "Pub/Sub table discipline on all paths: Chan.conns/numSubs only under Chan.rw, ChanMap.item lookup-then-update only under ChanMap.rw (R17); no blocking call while a table lock is held (R14b); unchecked assertions on the channel table agree with its writers (R3); both commands are kept out of the replicated log (R18). Exactly-once in-order delivery is not decided. The subscriber counter moves only together with its table, one entry at a time, on a tested presence/absence (R20n). One message, one Write on a subscriber connection (R8w).",
		Rules:       []RuleRef{rR17, rR14b, rR3, rR18, rR20n, rR20m, rR8w, rR19g, rR18c, rR32, rR8d, rR19a, rR11c, rR8m, rR8, rR31, rR9p}})
	add(&PropSpec{ID: "C20", Files: []string{"server/", "config/", "memdb/"},
		Explanation: "Database selection structure: no connection-reachable code writes shared Manager state, executors run against the calling connection's own selection, every slot is a distinct MemDb (R23s); the selection store is dominated by exact range tests (R20s, with the bounds prover); cluster mode forces one database after the config file was applied (R20s). Isolation as observed over interleavings is not decided. Every connection state handed out has its database set on the way (R20i).",
		Rules:       []RuleRef{rR23s, rR20s, rR20i, rR6w, rR20o, rR20q, rR20cs, rR20e, rR20g, rR26, rR12c}})
	return m
}

var commonAssumptions = []string{
	"the analysed build configuration is linux/amd64 without build tags, test files excluded",
	"all keyspace access goes through ConcurrentMap methods on the MemDb fields db/ttlKeys and ChanMap.item (fields are unexported and only touched in package memdb)",
	"no unsafe, reflection-based mutation or go:linkname in first-party code",
	"repeated loads of the same struct field within one function denote the same value unless stored to in between (bounds prover, canonical key names)",
	"lengths of slices and strings are below 2^62 (overflow side condition of the bounds prover)",
	"third-party and standard-library code does not terminate the process on the values passed to it",
}
