package rg

// Specs maps property ids to the rules that decide their structural clauses.
func Specs() map[string]*PropSpec {
	m := map[string]*PropSpec{}
	add := func(s *PropSpec) {
		s.RuleDocs = map[string]string{}
		for _, r := range s.Rules {
			s.RuleDocs[r.Name] = r.Doc
		}
		m[s.ID] = s
	}
	add(&PropSpec{ID: "C05", Explanation: "lockset discipline", Rules: []RuleRef{rR15, rR15r, rR14pair, rR6, rR17}})
	add(&PropSpec{ID: "C13", Explanation: "deadlock freedom", Rules: []RuleRef{rR14pair, rR14order, rR15m}})
	add(&PropSpec{ID: "C06", Explanation: "lazy expiry", Rules: []RuleRef{rR21, rR22}})
	add(&PropSpec{ID: "C03", Explanation: "reply framing", Rules: []RuleRef{rR8, rR13, rR13p, rR12c}})
	add(&PropSpec{ID: "C01", Explanation: "string and key commands", Rules: []RuleRef{rR9, rR7, rR19, rR25, rR27}})
	add(&PropSpec{ID: "C09", Explanation: "lists", Rules: []RuleRef{rR20a, rR20b, rR20c, rR20d}})
	add(&PropSpec{ID: "C04", Explanation: "no crash", Rules: []RuleRef{rR1}})
	add(&PropSpec{ID: "C02", Explanation: "resp decoding", Rules: []RuleRef{rR9p, rR12c}})
	add(&PropSpec{ID: "C07", Explanation: "cluster", Rules: []RuleRef{rR23u, rR23, rR16r}})
	add(&PropSpec{ID: "C08", Explanation: "durability", Rules: []RuleRef{rR16c, rR16r}})
	add(&PropSpec{ID: "C16", Explanation: "wal", Rules: []RuleRef{rR16w}})
	add(&PropSpec{ID: "C11", Explanation: "sets", Rules: []RuleRef{rR26, rR20b, rR20c, rR20d, rR25}})
	add(&PropSpec{ID: "C14", Explanation: "cluster meaning", Rules: []RuleRef{rR10b, rR23}})
	add(&PropSpec{ID: "C17", Explanation: "keys", Rules: []RuleRef{rR9k}})
	add(&PropSpec{ID: "C19", Explanation: "pubsub", Rules: []RuleRef{rR17, rR14b}})
	add(&PropSpec{ID: "C20", Explanation: "select", Rules: []RuleRef{rR20s}})
	add(&PropSpec{ID: "C15", Explanation: "raft core", Rules: []RuleRef{rR16g}})
	return m
}
