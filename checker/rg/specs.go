package rg

// Specs maps property ids to the rules that decide their structural clauses.
func Specs() map[string]*PropSpec {
	m := map[string]*PropSpec{}
	add := func(s *PropSpec) {
		s.RuleDocs = map[string]string{}
		for _, r := range s.Rules {
			s.RuleDocs[r.Name] = r.Doc
		}
		m[s.ID] = s
	}
	add(&PropSpec{ID: "C05", Explanation: "lockset discipline", Rules: []RuleRef{rR15, rR14pair}})
	return m
}
