package rg

import (
	"go/token"
	"sort"
	"strings"

	"golang.org/x/tools/go/ssa"
)

// ---------- R22k: the commands that rewrite a string value in place keep its deadline ----------

// deadlineKeepers: executors (by registered command name) whose effect on an existing key is an in-place rewrite of
// its string value. Redis and the pinned tree keep the key's deadline through all of them; confirmed by reading
// memdb/string.go: none of them calls DelTTL or SetTTL on any path (a missing key has had a stale deadline removed by
// the CheckTTL that dominates the lookup, so the create branch needs no DelTTL either).
var deadlineKeepers = []string{"append", "setrange", "incr", "incrby", "decr", "decrby", "incrbyfloat"}

var rR22k = RuleRef{Name: "R22k", Doc: "the commands that rewrite a string value in place (APPEND, SETRANGE, INCR, INCRBY, DECR, DECRBY, INCRBYFLOAT) keep the key's deadline: no call chain from their executors reaches MemDb.DelTTL or MemDb.SetTTL, the branch behind the not-found edge of the keyspace lookup excepted, where no deadline exists (calls are resolved statically; a helper steered by a literal flag is followed only through the blocks that flag value reaches). A shared 'store the new value' helper that also clears the deadline, right for SET and MSET, turns SETRANGE or INCR on a volatile key into a PERSIST: the key outlives its deadline", Run: func(c *C) {
	setTTL, delTTL := c.P.Func("memdb", "MemDb.SetTTL"), c.P.Func("memdb", "MemDb.DelTTL")
	if setTTL == nil || delTTL == nil {
		c.Undecided("R22k", "anchors SetTTL/DelTTL")
		return
	}
	n := 0
	for _, name := range deadlineKeepers {
		ex := c.Facts.Executors[name]
		if ex == nil {
			c.Undecided("R22k", "executor registered as "+name)
			continue
		}
		n++
		// depth-first over statically resolved first-party callees; per callee the blocks reachable under the literal
		// arguments of the call
		type item struct {
			fn    *ssa.Function
			reach map[*ssa.BasicBlock]bool
			path  string
		}
		seen := map[*ssa.Function]int{}
		var bad []string
		// blocks of the executor that lie behind the not-found edge of a keyspace lookup (`v, ok := m.db.Get(k); if !ok
		// {...}`): there the key has no deadline left (the CheckTTL that dominates the lookup removed a stale one), so a
		// DelTTL is a no-op and the create branch may share a helper with SET/MSET
		missing := map[*ssa.BasicBlock]bool{}
		for _, b := range ex.Blocks {
			if len(b.Instrs) == 0 {
				continue
			}
			iff, ok := b.Instrs[len(b.Instrs)-1].(*ssa.If)
			if !ok {
				continue
			}
			v, neg := iff.Cond, false
			for {
				u, ok := v.(*ssa.UnOp)
				if !ok || u.Op != token.NOT {
					break
				}
				v, neg = u.X, !neg
			}
			e, ok := v.(*ssa.Extract)
			if !ok || e.Index != 1 {
				continue
			}
			call, ok := e.Tuple.(*ssa.Call)
			if !ok {
				continue
			}
			if cf := callee(call); cf == nil || !firstParty(cf) || cf.Name() != "Get" {
				continue
			}
			miss := b.Succs[1]
			if neg {
				miss = b.Succs[0]
			}
			if len(miss.Preds) != 1 {
				continue
			}
			for _, d := range ex.Blocks {
				if miss.Dominates(d) {
					missing[d] = true
				}
			}
		}
		work := []item{{ex, nil, fnName(ex)}}
		for len(work) > 0 && len(bad) == 0 {
			it := work[len(work)-1]
			work = work[:len(work)-1]
			if seen[it.fn] > 3 { // a function is revisited for a few distinct flag combinations, not without bound
				continue
			}
			seen[it.fn]++
			for _, b := range it.fn.Blocks {
				if it.reach != nil && !it.reach[b] {
					continue
				}
				if it.fn == ex && missing[b] {
					continue
				}
				for _, in := range b.Instrs {
					ci, ok := in.(ssa.CallInstruction)
					if !ok {
						continue
					}
					cf := callee(ci)
					if cf == nil {
						if mc, ok2 := ci.Common().Value.(*ssa.MakeClosure); ok2 {
							cf, _ = mc.Fn.(*ssa.Function)
						}
					}
					if cf == nil {
						continue
					}
					if cf == delTTL || cf == setTTL {
						bad = append(bad, c.pos(ci.Pos())+": "+it.path+" -> "+cf.Name())
						continue
					}
					if !firstParty(cf) || cf.Blocks == nil {
						continue
					}
					var reach map[*ssa.BasicBlock]bool
					if ca := constArgs(ci); len(ca) > 0 {
						reach = prunedReach(cf, ca)
					} else if seen[cf] > 0 {
						continue
					}
					work = append(work, item{cf, reach, it.path + " -> " + fnName(cf)})
				}
			}
			// closures defined in the function run on its behalf
			for _, an := range it.fn.AnonFuncs {
				if seen[an] == 0 {
					work = append(work, item{an, nil, it.path + " -> " + fnName(an)})
				}
			}
		}
		sort.Strings(bad)
		c.Add("R22k", fnName(ex), strings.ToUpper(name)+" keeps the deadline of its key", ex.Pos(), len(bad) == 0, strings.Join(bad, "; "))
	}
	c.Count("R22k_executors", n)
	c.Min("R22k_executors", len(deadlineKeepers))
}}
