package rg

import (
	"fmt"
	"go/token"
	"go/types"
	"sort"
	"strings"

	"golang.org/x/tools/go/ssa"
)

// ---------- R22k: the commands that rewrite a string value in place keep its deadline ----------

// deadlineKeepers: executors (by registered command name) whose effect on an existing key is an in-place rewrite of
// its string value. Redis and the pinned tree keep the key's deadline through all of them; confirmed by reading
// memdb/string.go: none of them calls DelTTL or SetTTL on any path (a missing key has had a stale deadline removed by
// the CheckTTL that dominates the lookup, so the create branch needs no DelTTL either).
var deadlineKeepers = []string{"append", "setrange", "incr", "incrby", "decr", "decrby", "incrbyfloat"}

var rR22k = RuleRef{Name: "R22k", Doc: "the commands that rewrite a string value in place (APPEND, SETRANGE, INCR, INCRBY, DECR, DECRBY, INCRBYFLOAT) keep the key's deadline: no call chain from their executors reaches MemDb.DelTTL or MemDb.SetTTL, the branch behind the not-found edge of the keyspace lookup excepted, where no deadline exists (calls are resolved statically; a helper steered by a literal flag is followed only through the blocks that flag value reaches). A shared 'store the new value' helper that also clears the deadline, right for SET and MSET, turns SETRANGE or INCR on a volatile key into a PERSIST: the key outlives its deadline", Run: func(c *C) {
	setTTL, delTTL := c.P.Func("memdb", "MemDb.SetTTL"), c.P.Func("memdb", "MemDb.DelTTL")
	if setTTL == nil || delTTL == nil {
		c.Undecided("R22k", "anchors SetTTL/DelTTL")
		return
	}
	n := 0
	for _, name := range deadlineKeepers {
		ex := c.Facts.Executors[name]
		if ex == nil {
			c.Undecided("R22k", "executor registered as "+name)
			continue
		}
		n++
		// depth-first over statically resolved first-party callees; per callee the blocks reachable under the literal
		// arguments of the call
		type item struct {
			fn    *ssa.Function
			reach map[*ssa.BasicBlock]bool
			path  string
		}
		seen := map[*ssa.Function]int{}
		var bad []string
		// blocks of the executor that lie behind the not-found edge of a keyspace lookup (`v, ok := m.db.Get(k); if !ok
		// {...}`): there the key has no deadline left (the CheckTTL that dominates the lookup removed a stale one), so a
		// DelTTL is a no-op and the create branch may share a helper with SET/MSET
		missing := map[*ssa.BasicBlock]bool{}
		for _, b := range ex.Blocks {
			if len(b.Instrs) == 0 {
				continue
			}
			iff, ok := b.Instrs[len(b.Instrs)-1].(*ssa.If)
			if !ok {
				continue
			}
			v, neg := iff.Cond, false
			for {
				u, ok := v.(*ssa.UnOp)
				if !ok || u.Op != token.NOT {
					break
				}
				v, neg = u.X, !neg
			}
			e, ok := v.(*ssa.Extract)
			if !ok || e.Index != 1 {
				continue
			}
			call, ok := e.Tuple.(*ssa.Call)
			if !ok {
				continue
			}
			if cf := callee(call); cf == nil || !firstParty(cf) || cf.Name() != "Get" {
				continue
			}
			miss := b.Succs[1]
			if neg {
				miss = b.Succs[0]
			}
			if len(miss.Preds) != 1 {
				continue
			}
			for _, d := range ex.Blocks {
				if miss.Dominates(d) {
					missing[d] = true
				}
			}
		}
		work := []item{{ex, nil, fnName(ex)}}
		for len(work) > 0 && len(bad) == 0 {
			it := work[len(work)-1]
			work = work[:len(work)-1]
			if seen[it.fn] > 3 { // a function is revisited for a few distinct flag combinations, not without bound
				continue
			}
			seen[it.fn]++
			for _, b := range it.fn.Blocks {
				if it.reach != nil && !it.reach[b] {
					continue
				}
				if it.fn == ex && missing[b] {
					continue
				}
				for _, in := range b.Instrs {
					ci, ok := in.(ssa.CallInstruction)
					if !ok {
						continue
					}
					cf := callee(ci)
					if cf == nil {
						if mc, ok2 := ci.Common().Value.(*ssa.MakeClosure); ok2 {
							cf, _ = mc.Fn.(*ssa.Function)
						}
					}
					if cf == nil {
						continue
					}
					if cf == delTTL || cf == setTTL {
						bad = append(bad, c.pos(ci.Pos())+": "+it.path+" -> "+cf.Name())
						continue
					}
					if !firstParty(cf) || cf.Blocks == nil {
						continue
					}
					var reach map[*ssa.BasicBlock]bool
					if ca := constArgs(ci); len(ca) > 0 {
						reach = prunedReach(cf, ca)
					} else if seen[cf] > 0 {
						continue
					}
					work = append(work, item{cf, reach, it.path + " -> " + fnName(cf)})
				}
			}
			// closures defined in the function run on its behalf
			for _, an := range it.fn.AnonFuncs {
				if seen[an] == 0 {
					work = append(work, item{an, nil, it.path + " -> " + fnName(an)})
				}
			}
		}
		sort.Strings(bad)
		c.Add("R22k", fnName(ex), strings.ToUpper(name)+" keeps the deadline of its key", ex.Pos(), len(bad) == 0, strings.Join(bad, "; "))
	}
	c.Count("R22k_executors", n)
	c.Min("R22k_executors", len(deadlineKeepers))
}}

// ---------- R15p: a container fetched from the keyspace is used only in the hold in which it was fetched ----------

var rR15p = RuleRef{Name: "R15p", Doc: "a container pointer (*List, *Hash, *Set, ...) obtained from a keyspace lookup is not used after the stripe has been released: in every function of package memdb, no instruction that uses the pointer (a method call, a field access, its capture by a closure) lies on a path that leaves the lookup, passes a non-deferred UnLock/RUnLock/UnLockMulti/RUnLockMulti and reaches the use without passing the lookup again. Between the release and a later acquire another client can empty, delete and re-create the key; the stale pointer then edits an orphaned object, the reply counts what nobody sees and a delete-when-empty removes the live key", Run: func(c *C) {
	nFn, nGet := 0, 0
	unlockNames := map[string]bool{"UnLock": true, "RUnLock": true, "UnLockMulti": true, "RUnLockMulti": true}
	for _, fn := range c.P.allFuncs("memdb") {
		if fn == nil || fn.Blocks == nil {
			continue
		}
		nFn++
		ord := 0
		// lookups and the container pointers derived from each
		for _, gb := range fn.Blocks {
			for gi, in := range gb.Instrs {
				g, ok := in.(*ssa.Call)
				if !ok {
					continue
				}
				cf := callee(g)
				if cf == nil || !firstParty(cf) || cf.Name() != "Get" || cf.Signature.Recv() == nil || !strings.Contains(cf.Signature.Recv().Type().String(), "ConcurrentMap") {
					continue
				}
				derived := map[ssa.Value]bool{}
				var grow func(v ssa.Value, d int)
				grow = func(v ssa.Value, d int) {
					if d > 4 || v.Referrers() == nil {
						return
					}
					for _, r := range *v.Referrers() {
						switch y := r.(type) {
						case *ssa.Extract:
							if y.Index == 0 {
								if _, isPtr := y.Type().Underlying().(*types.Pointer); isPtr {
									derived[y] = true
								} else {
									grow(y, d+1)
								}
							}
						case *ssa.TypeAssert:
							if _, isPtr := y.AssertedType.Underlying().(*types.Pointer); isPtr {
								if y.CommaOk {
									grow(y, d+1)
								} else {
									derived[y] = true
								}
							}
						}
					}
				}
				grow(g, 0)
				if len(derived) == 0 {
					continue
				}
				// a pointer kept in a local that a closure captures lives in a cell: with a single store into the cell its
				// loads are the pointer, and handing the cell to a closure is a use
				cells := map[ssa.Value]bool{}
				for v := range derived {
					if v.Referrers() == nil {
						continue
					}
					for _, r := range *v.Referrers() {
						st, ok := r.(*ssa.Store)
						if !ok || st.Val != v {
							continue
						}
						al, ok := st.Addr.(*ssa.Alloc)
						if !ok || al.Referrers() == nil {
							continue
						}
						stores := 0
						for _, ar := range *al.Referrers() {
							if _, isSt := ar.(*ssa.Store); isSt {
								stores++
							}
						}
						if stores != 1 {
							continue
						}
						cells[al] = true
						for _, ar := range *al.Referrers() {
							if ld, isLd := ar.(*ssa.UnOp); isLd && ld.Op == token.MUL {
								derived[ld] = true
							}
						}
					}
				}
				nGet++
				ord++
				uses := func(in ssa.Instruction) bool {
					if _, isPhi := in.(*ssa.Phi); isPhi {
						return false
					}
					_, isClosure := in.(*ssa.MakeClosure)
					for _, op := range in.Operands(nil) {
						if op != nil && *op != nil && (derived[*op] || isClosure && cells[*op]) {
							return true
						}
					}
					return false
				}
				// forward from the lookup: every non-deferred release reachable without passing the lookup again; from each
				// release forward to a use, again stopping at the lookup
				type at struct {
					b *ssa.BasicBlock
					i int
				}
				walk := func(start at, visit func(b *ssa.BasicBlock, i int, in ssa.Instruction) bool) {
					seen := map[*ssa.BasicBlock]bool{}
					work := []at{start}
					for len(work) > 0 {
						p := work[len(work)-1]
						work = work[:len(work)-1]
						stopped := false
						for i := p.i; i < len(p.b.Instrs); i++ {
							if p.b.Instrs[i] == ssa.Instruction(g) {
								stopped = true
								break
							}
							if visit(p.b, i, p.b.Instrs[i]) {
								return
							}
						}
						if stopped {
							continue
						}
						for _, s := range p.b.Succs {
							if !seen[s] {
								seen[s] = true
								work = append(work, at{s, 0})
							}
						}
					}
				}
				bad := ""
				walk(at{gb, gi + 1}, func(b *ssa.BasicBlock, i int, in ssa.Instruction) bool {
					u, ok := in.(*ssa.Call)
					if !ok {
						return false
					}
					uf := callee(u)
					if uf == nil || !firstParty(uf) || !unlockNames[uf.Name()] {
						return false
					}
					walk(at{b, i + 1}, func(_ *ssa.BasicBlock, _ int, in2 ssa.Instruction) bool {
						if uses(in2) {
							bad = c.pos(in2.Pos()) + ": used after the release at " + c.pos(u.Pos())
							return true
						}
						return false
					})
					return bad != ""
				})
				c.Add("R15p", fnName(fn), fmt.Sprintf("container from keyspace lookup #%d is not used after its stripe is released", ord), g.Pos(), bad == "", bad)
			}
		}
	}
	c.Count("R15p_functions", nFn)
	c.Count("R15p_lookups", nGet)
	c.Min("R15p_lookups", 40)
}}
