package rg

import (
	"fmt"
	"go/token"
	"go/types"
	"strings"

	"golang.org/x/tools/go/ssa"
)

// Rules added after the second round of seeded changes. Each encodes a structural necessary condition of a property
// that the first catalogue did not cover; none of them looks at source text or positions.

// zeroTime: the value is time.Time{} (clearing a deadline).
func zeroTime(v ssa.Value) bool {
	switch x := v.(type) {
	case *ssa.Const:
		return true
	case *ssa.UnOp:
		if al, ok := x.X.(*ssa.Alloc); ok && x.Op == token.MUL {
			for _, r := range *al.Referrers() {
				switch r.(type) {
				case *ssa.Store, *ssa.FieldAddr, ssa.CallInstruction:
					return false
				}
			}
			return true
		}
	}
	return false
}

// reachesBlock: some CFG path from `from` (inclusive) reaches a block satisfying pred.
func reachesBlock(from *ssa.BasicBlock, pred func(*ssa.BasicBlock) bool) bool {
	seen := map[*ssa.BasicBlock]bool{}
	var walk func(b *ssa.BasicBlock) bool
	walk = func(b *ssa.BasicBlock) bool {
		if seen[b] {
			return false
		}
		seen[b] = true
		if pred(b) {
			return true
		}
		for _, s := range b.Succs {
			if walk(s) {
				return true
			}
		}
		return false
	}
	return walk(from)
}

var rR8d = RuleRef{Name: "R8d", Doc: "a reply is written whole or the connection is finished: without a deadline a failing Write means the connection is dead, but once any first-party code arms a write deadline on a client connection (SetWriteDeadline/SetDeadline with a non-zero time) a Write can stop half-way on a healthy connection; then every reply write of a connection handler must leave the handler on its error edge, so that no further reply is appended to a fragment", Run: func(c *C) {
	var arms []string
	for _, pk := range []string{"server", "memdb", "resp", "."} {
		for _, fn := range c.P.allFuncs(pk) {
			for _, b := range fn.Blocks {
				for _, in := range b.Instrs {
					ci, ok := in.(ssa.CallInstruction)
					if !ok {
						continue
					}
					cc := ci.Common()
					if !cc.IsInvoke() || !isNetConn(cc.Value.Type()) {
						continue
					}
					if n := cc.Method.Name(); (n == "SetWriteDeadline" || n == "SetDeadline") && len(cc.Args) == 1 && !zeroTime(cc.Args[0]) {
						arms = append(arms, c.pos(in.Pos()))
					}
				}
			}
		}
	}
	hs := c.connHandlers()
	n := 0
	for _, h := range hs {
		fns := []*ssa.Function{h}
		fns = append(fns, h.AnonFuncs...)
		for _, fn := range fns {
			isWrite := func(in ssa.Instruction) bool {
				if isConnWrite(in, nil) {
					return true
				}
				if call, ok := in.(*ssa.Call); ok {
					if cf := callee(call); cf != nil && firstParty(cf) && cf.Blocks != nil {
						if sum, _ := c.connWriteSummary(cf, 0); sum != nil && !(len(sum) == 1 && sum["0"]) {
							return true
						}
					}
				}
				return false
			}
			blockWrites := func(b *ssa.BasicBlock) bool {
				for _, in := range b.Instrs {
					if isWrite(in) {
						return true
					}
				}
				return false
			}
			ord := 0
			for _, b := range fn.Blocks {
				for _, in := range b.Instrs {
					if !isWrite(in) {
						continue
					}
					n++
					ord++
					construct := fmt.Sprintf("reply write #%d: a failed write ends the connection when write deadlines are armed", ord)
					if len(arms) == 0 {
						c.Add("R8d", fnName(fn), construct, in.Pos(), true, "no write deadline is armed on client connections")
						continue
					}
					call := in.(ssa.Value)
					bad := ""
					tested := false
					for _, tb := range fn.Blocks {
						for _, s := range tb.Succs {
							if !IsErrEdge(tb, s) {
								continue
							}
							cond, _, _ := branchCond(tb, s)
							from := false
							backslice(cond, func(v ssa.Value) bool {
								if v == call {
									from = true
								}
								return !from
							})
							if !from {
								continue
							}
							tested = true
							if reachesBlock(s, blockWrites) {
								bad = "after a failed (possibly partial) write the handler goes on writing replies on the same connection"
							}
						}
					}
					if !tested {
						bad = "the error of the write is not tested"
					}
					c.Add("R8d", fnName(fn), construct, in.Pos(), bad == "", bad+"; write deadline armed at "+strings.Join(arms, ", "))
				}
			}
		}
	}
	c.Count("R8d_reply_writes", n)
	c.Min("R8d_reply_writes", 2)
}}

// R10f: the filter chain passes a command or rejects it; it never rebuilds the argument vector.
var rR10f = RuleRef{Name: "R10f", Doc: "the cluster filter chain hands the argument vector through: middleware.Filter and every function registered as a filter return their parameter (or what a chained filter returned) or reject with nil; none builds a new vector or new argument slices (a copy made with append onto nil turns an empty argument into nil, which JSON carries as null and the executors answer as a null bulk)", Run: func(c *C) {
	mw := c.P.NamedType("server", "middleware")
	if mw == nil {
		c.Undecided("R10f", "anchor server.middleware")
		return
	}
	fns := map[*ssa.Function]bool{}
	for _, fn := range c.P.allFuncs("server") {
		if isMethodOf(fn, mw, "Filter") {
			fns[fn] = true
		}
		for _, b := range fn.Blocks {
			for _, in := range b.Instrs {
				ci, ok := in.(ssa.CallInstruction)
				if !ok {
					continue
				}
				if cf := callee(ci); cf != nil && isMethodOf(cf, mw, "Add") {
					for _, a := range ci.Common().Args[1:] {
						switch f := stripConv(a).(type) {
						case *ssa.Function:
							fns[f] = true
						case *ssa.MakeClosure:
							if g, ok := f.Fn.(*ssa.Function); ok {
								fns[g] = true
							}
						}
					}
				}
			}
		}
	}
	n := 0
	for fn := range fns {
		if fn.Blocks == nil {
			continue
		}
		n++
		bad := ""
		for _, b := range fn.Blocks {
			if len(b.Instrs) == 0 {
				continue
			}
			ret, ok := b.Instrs[len(b.Instrs)-1].(*ssa.Return)
			if !ok {
				continue
			}
			for _, alts := range retResults(ret) {
				for _, rv := range alts {
					if rv.Type().String() != "[][]byte" {
						continue
					}
					backslice(rv, func(v ssa.Value) bool {
						switch x := v.(type) {
						case *ssa.Parameter, *ssa.Const, *ssa.Phi, *ssa.Extract, *ssa.FreeVar:
							return true
						case *ssa.Call:
							if _, isB := x.Call.Value.(*ssa.Builtin); isB {
								bad = "the returned vector is rebuilt (" + callName(x) + ")"
								return false
							}
							return false // the result of a chained filter
						case *ssa.UnOp:
							if x.Op == token.MUL {
								if _, isAl := x.X.(*ssa.Alloc); isAl {
									return true
								}
							}
						case *ssa.Alloc:
							return true
						}
						if _, isSlice := v.Type().Underlying().(*types.Slice); isSlice {
							bad = fmt.Sprintf("the returned vector is %T, not the parameter", v)
							return false
						}
						return true
					})
				}
			}
		}
		// stores into the elements of the parameter vector
		for _, b := range fn.Blocks {
			for _, in := range b.Instrs {
				if st, ok := in.(*ssa.Store); ok {
					if ia, ok := st.Addr.(*ssa.IndexAddr); ok && ia.X.Type().String() == "[][]byte" {
						bad = "an argument of the vector is replaced"
					}
				}
			}
		}
		c.Add("R10f", fnName(fn), "passes the argument vector through or rejects it", fn.Pos(), bad == "", bad)
	}
	c.Count("R10f_filters", n)
	c.Min("R10f_filters", 2)
}}

// R20n: an element counter mirrors its map.
type counterPair struct{ cntType, cntField, mapType, mapField string }

var counterPairs = []counterPair{
	{"Chan", "numSubs", "Chan", "conns"},
	{"ConcurrentMap", "count", "shard", "item"},
}

// ensureCounterPairs finds the two counter/table pairs by the shape of the types, so that renaming an unexported field
// does not lose them: Chan's integer field next to its map field; ConcurrentMap's integer field and the map field of
// the record its shard table holds.
func (c *C) ensureCounterPairs() {
	if c.pairsDone {
		return
	}
	c.pairsDone = true
	firstField := func(st *types.Struct, want func(types.Type) bool) (string, types.Type) {
		for i := 0; i < st.NumFields(); i++ {
			if want(st.Field(i).Type()) {
				return st.Field(i).Name(), st.Field(i).Type()
			}
		}
		return "", nil
	}
	isMap := func(t types.Type) bool { _, ok := t.Underlying().(*types.Map); return ok }
	// the counters themselves: the field handed to sync/atomic Add*, the field that is stored as itself +/- 1
	counterOf := map[string]string{}
	for _, fn := range c.P.allFuncs("memdb") {
		for _, b := range fn.Blocks {
			for _, in := range b.Instrs {
				switch x := in.(type) {
				case *ssa.Call:
					if cf := x.Call.StaticCallee(); cf != nil && cf.Pkg != nil && cf.Pkg.Pkg.Path() == "sync/atomic" && strings.HasPrefix(cf.Name(), "Add") && len(x.Call.Args) == 2 {
						if fa, ok := x.Call.Args[0].(*ssa.FieldAddr); ok {
							counterOf[namedOf(fa.X.Type())] = fieldName(fa)
						}
					}
				case *ssa.Store:
					fa, ok := x.Addr.(*ssa.FieldAddr)
					if !ok {
						continue
					}
					if bo, ok := x.Val.(*ssa.BinOp); ok && (bo.Op == token.ADD || bo.Op == token.SUB) {
						if k, ok := constInt(bo.Y); ok && k == 1 {
							if ld, ok := bo.X.(*ssa.UnOp); ok {
								if f2, ok := ld.X.(*ssa.FieldAddr); ok && f2.Field == fa.Field && namedOf(f2.X.Type()) == namedOf(fa.X.Type()) {
									if _, have := counterOf[namedOf(fa.X.Type())]; !have {
										counterOf[namedOf(fa.X.Type())] = fieldName(fa)
									}
								}
							}
						}
					}
				}
			}
		}
	}
	var pairs []counterPair
	if ch := c.P.NamedType("memdb", "Chan"); ch != nil {
		if st, ok := ch.Underlying().(*types.Struct); ok {
			cf := counterOf["Chan"]
			mf, _ := firstField(st, isMap)
			if cf != "" && mf != "" {
				pairs = append(pairs, counterPair{"Chan", cf, "Chan", mf})
			}
		}
	}
	if cm := c.P.NamedType("memdb", "ConcurrentMap"); cm != nil {
		if st, ok := cm.Underlying().(*types.Struct); ok {
			cf := counterOf["ConcurrentMap"]
			_, tt := firstField(st, func(t types.Type) bool { _, ok := t.Underlying().(*types.Slice); return ok })
			if sl, ok := tt.(*types.Slice); ok && cf != "" {
				if sh, ok := derefNamed(sl.Elem()); ok {
					if sst, ok := sh.Underlying().(*types.Struct); ok {
						if mf, _ := firstField(sst, isMap); mf != "" {
							pairs = append(pairs, counterPair{"ConcurrentMap", cf, sh.Obj().Name(), mf})
						}
					}
				} else if sh, ok := sl.Elem().(*types.Named); ok {
					if sst, ok := sh.Underlying().(*types.Struct); ok {
						if mf, _ := firstField(sst, isMap); mf != "" {
							pairs = append(pairs, counterPair{"ConcurrentMap", cf, sh.Obj().Name(), mf})
						}
					}
				}
			}
		}
	}
	if len(pairs) == 2 {
		counterPairs = pairs
	}
}

var rR20n = RuleRef{Name: "R20n", Doc: "a counter mirrors its table: Chan.numSubs counts the entries of Chan.conns and ConcurrentMap.count those of the shard maps; outside constructors the counter only moves by one, a decrement is control-dependent on a successful comma-ok lookup of the key in the table and goes with the delete of that key, an increment is control-dependent on a failed lookup (or uses a freshly generated id) and goes with the insertion of that key; so the counter equals the number of entries and never goes negative", Run: func(c *C) {
	c.ensureCounterPairs()
	n := 0
	for _, fn := range c.P.allFuncs("memdb") {
		ord := 0
		for _, b := range fn.Blocks {
			for _, in := range b.Instrs {
				var fa *ssa.FieldAddr
				delta, okDelta := int64(0), false
				switch x := in.(type) {
				case *ssa.Store:
					f, ok := x.Addr.(*ssa.FieldAddr)
					if !ok {
						continue
					}
					fa = f
					if al, isAl := f.X.(*ssa.Alloc); isAl && al.Heap {
						if k, isC := x.Val.(*ssa.Const); isC {
							if v, ok := constInt(k); ok && v == 0 {
								continue // constructor
							}
						}
					}
					if bo, ok := x.Val.(*ssa.BinOp); ok && (bo.Op == token.ADD || bo.Op == token.SUB) {
						if ld, ok := bo.X.(*ssa.UnOp); ok && ld.Op == token.MUL {
							if f2, ok := ld.X.(*ssa.FieldAddr); ok && f2.Field == f.Field && canon(f2.X) == canon(f.X) {
								if k, ok := bo.Y.(*ssa.Const); ok {
									if v, ok := constInt(k); ok {
										delta, okDelta = v, true
										if bo.Op == token.SUB {
											delta = -v
										}
									}
								}
							}
						}
					}
				case *ssa.Call:
					cf := x.Call.StaticCallee()
					if cf == nil || cf.Pkg == nil || cf.Pkg.Pkg.Path() != "sync/atomic" || !strings.HasPrefix(cf.Name(), "Add") || len(x.Call.Args) != 2 {
						continue
					}
					f, ok := x.Call.Args[0].(*ssa.FieldAddr)
					if !ok {
						continue
					}
					fa = f
					if k, ok := x.Call.Args[1].(*ssa.Const); ok {
						if v, ok := constInt(k); ok {
							delta, okDelta = v, true
						}
					}
				default:
					continue
				}
				var pair *counterPair
				for i := range counterPairs {
					if namedOf(fa.X.Type()) == counterPairs[i].cntType && fieldName(fa) == counterPairs[i].cntField {
						pair = &counterPairs[i]
					}
				}
				if pair == nil {
					continue
				}
				n++
				ord++
				construct := fmt.Sprintf("update #%d of %s.%s mirrors %s.%s", ord, pair.cntType, pair.cntField, pair.mapType, pair.mapField)
				if !okDelta || (delta != 1 && delta != -1) {
					c.Add("R20n", fnName(fn), construct, in.Pos(), false, "the counter is changed by something other than +1/-1 (a batch adjustment cannot be tied to the entries actually inserted or removed)")
					continue
				}
				isTable := func(m ssa.Value) bool { return c.isMirroredTable(m, pair) }
				// the closest dominating comma-ok lookup of the table that decides the edge into this block's region
				var gMap, gKey string
				gTruth, found := false, false
				var gBlock *ssa.BasicBlock
				for d := b; d != nil && d.Idom() != nil && !found; d = d.Idom() {
					id := d.Idom()
					if len(d.Preds) != 1 || d.Preds[0] != id {
						continue
					}
					cond, neg, ok := branchCond(id, d)
					if !ok {
						continue
					}
					for {
						u, isNot := cond.(*ssa.UnOp)
						if !isNot || u.Op != token.NOT {
							break
						}
						cond, neg = u.X, !neg
					}
					cond, neg = stripBoolCompare(cond, neg)
					mc, kc, tbl, ok := commaOkLookup(cond)
					if !ok || !isTable(tbl) {
						continue
					}
					gMap, gKey, gTruth, found, gBlock = mc, kc, !neg, true, d
				}
				sameEntry := func(m, k ssa.Value) bool {
					return gMap != "" && canon(m) == gMap && canon(k) == gKey
				}
				bad := ""
				if delta == -1 {
					if !found || !gTruth {
						bad = "the decrement is not control-dependent on a successful lookup of the entry in the table (an entry that is already gone is counted out a second time)"
					} else {
						del := false
						for _, b2 := range fn.Blocks {
							if !gBlock.Dominates(b2) {
								continue
							}
							for _, i2 := range b2.Instrs {
								if ci, ok := i2.(*ssa.Call); ok {
									if bi, ok := ci.Call.Value.(*ssa.Builtin); ok && bi.Name() == "delete" && sameEntry(ci.Call.Args[0], ci.Call.Args[1]) {
										del = true
									}
								}
							}
						}
						if !del {
							bad = "no delete of the looked-up entry goes with the decrement"
						}
					}
				} else {
					ins := false
					for _, b2 := range fn.Blocks {
						for _, i2 := range b2.Instrs {
							mu, ok := i2.(*ssa.MapUpdate)
							if !ok || !isTable(mu.Map) {
								continue
							}
							if found && !gTruth && sameEntry(mu.Map, mu.Key) {
								ins = true
							}
							if !found && c.freshID(mu.Key, 0) {
								ins = true // a freshly generated id cannot be in the table
							}
						}
					}
					if !ins {
						bad = "the increment is not tied to the insertion of an entry that a failed lookup (or a fresh id) shows to be new"
					}
				}
				c.Add("R20n", fnName(fn), construct, in.Pos(), bad == "", bad)
			}
		}
	}
	c.Count("R20n_counter_updates", n)
	c.Min("R20n_counter_updates", 6)
}}

// naturalLoops returns, per loop header, the set of blocks of the natural loops with that header.
func naturalLoops(fn *ssa.Function) map[*ssa.BasicBlock]map[*ssa.BasicBlock]bool {
	loops := map[*ssa.BasicBlock]map[*ssa.BasicBlock]bool{}
	for _, t := range fn.Blocks {
		for _, h := range t.Succs {
			if !h.Dominates(t) {
				continue
			}
			body := loops[h]
			if body == nil {
				body = map[*ssa.BasicBlock]bool{h: true}
				loops[h] = body
			}
			var stack []*ssa.BasicBlock
			if !body[t] {
				body[t] = true
				stack = append(stack, t)
			}
			for len(stack) > 0 {
				x := stack[len(stack)-1]
				stack = stack[:len(stack)-1]
				for _, p := range x.Preds {
					if !body[p] {
						body[p] = true
						stack = append(stack, p)
					}
				}
			}
		}
	}
	return loops
}

// staleLoopGuards: stores to a field inside a loop whose controlling condition (inside the same loop) was computed
// from a load of that same field made before the loop was entered: the loop's own store invalidates the test for
// the next iteration (a check hoisted out of a loop that changes what is checked).
type staleGuard struct {
	Store *ssa.Store
	Field string
	Load  *ssa.UnOp
}

func staleLoopGuards(fn *ssa.Function) (found []staleGuard, examined int) {
	loops := naturalLoops(fn)
	if len(loops) == 0 {
		return
	}
	for h, body := range loops {
		for b := range body {
			for _, in := range b.Instrs {
				st, ok := in.(*ssa.Store)
				if !ok {
					continue
				}
				fa, ok := st.Addr.(*ssa.FieldAddr)
				if !ok {
					continue
				}
				examined++
				// conditions controlling b inside the loop
				for d := b; d != nil && d != h && body[d]; d = d.Idom() {
					id := d.Idom()
					if id == nil || !body[id] {
						break
					}
					cond, _, ok := branchCond(id, d)
					if !ok || len(d.Preds) != 1 {
						continue
					}
					seenPhi := map[*ssa.Phi]bool{}
					var visit func(v ssa.Value) bool
					visit = func(v ssa.Value) bool {
						switch x := v.(type) {
						case *ssa.Call:
							return false
						case *ssa.Phi:
							// a value selected by branches: the conditions that select the edge count as well
							if seenPhi[x] || !body[x.Block()] {
								return !seenPhi[x]
							}
							seenPhi[x] = true
							stop := x.Block().Idom()
							for _, pr := range x.Block().Preds {
								for q := pr; q != nil && q != stop && body[q]; q = q.Idom() {
									if qi := q.Idom(); qi != nil && body[qi] {
										if cnd, _, ok := branchCond(qi, q); ok {
											backslice(cnd, visit)
										}
									}
								}
							}
							return true
						case *ssa.UnOp:
							if x.Op == token.MUL {
								if f2, ok := x.X.(*ssa.FieldAddr); ok && f2.Field == fa.Field && types.Identical(f2.X.Type(), fa.X.Type()) && canon(f2.X) == canon(fa.X) && !body[x.Block()] {
									found = append(found, staleGuard{st, fieldName(fa), x})
								}
								return false
							}
						}
						return true
					}
					backslice(cond, visit)
				}
			}
		}
	}
	return
}

var rR28 = RuleRef{Name: "R28", Doc: "no stale check-then-act across loop iterations: when a loop stores to a field under a condition tested inside the loop, that condition is not computed from a value of the same field read before the loop (hoisting such a test lets the second iteration act on what the first one already changed, e.g. two configuration changes accepted from one proposal)", Run: func(c *C) {
	nEx, nLoops := 0, 0
	pkgs := append([]string{raftPkg}, firstPartyPkgs...)
	for _, fn := range c.P.allFuncs(pkgs...) {
		if fn.Blocks == nil {
			continue
		}
		found, ex := staleLoopGuards(fn)
		nEx += ex
		if ex > 0 {
			nLoops++
		}
		seen := map[string]bool{}
		for _, g := range found {
			k := g.Field
			if seen[k] {
				continue
			}
			seen[k] = true
			c.Add("R28", fnName(fn), "the guard of the in-loop store to "+g.Field+" is evaluated afresh in every iteration", g.Store.Pos(), false, "the test uses "+g.Field+" as read at "+c.pos(g.Load.Pos())+", before the loop; the loop itself stores to "+g.Field)
		}
		if ex > 0 && len(found) == 0 {
			o := c.Add("R28", fnName(fn), "guards of in-loop field stores are evaluated inside the loop", fn.Pos(), true, fmt.Sprintf("%d in-loop field stores examined", ex))
			o.Trivial = true
		}
	}
	c.Count("R28_in_loop_field_stores", nEx)
	c.Count("R28_functions_with_in_loop_stores", nLoops)
	c.Min("R28_in_loop_field_stores", 20)
}}

// R18l: stream IDs are ordered lexicographically (time part, then sequence part).
var rR18l = RuleRef{Name: "R18l", Doc: "stream IDs are ordered lexicographically: wherever the sequence parts of two stream IDs are compared, the comparison is reached only on paths on which their time parts were found equal (a component-wise test such as a.time >= b.time && a.seq >= b.seq is not an order on IDs: 6-1 is above 5-3)", Run: func(c *C) {
	n := 0
	for _, fn := range c.P.allFuncs("memdb") {
		ord := 0
		for _, b := range fn.Blocks {
			for _, in := range b.Instrs {
				bo, ok := in.(*ssa.BinOp)
				if !ok {
					continue
				}
				switch bo.Op {
				case token.LSS, token.LEQ, token.GTR, token.GEQ, token.EQL, token.NEQ:
				default:
					continue
				}
				idField := func(v ssa.Value, field string) (base string, ok bool) {
					u, isU := v.(*ssa.UnOp)
					if !isU || u.Op != token.MUL {
						return "", false
					}
					fa, isF := u.X.(*ssa.FieldAddr)
					if !isF || namedOf(fa.X.Type()) != "StreamID" || fieldName(fa) != field {
						return "", false
					}
					return canon(fa.X), true
				}
				a, okA := idField(bo.X, "seqNum")
				bb, okB := idField(bo.Y, "seqNum")
				if !okA || !okB || a == bb {
					continue
				}
				n++
				ord++
				// edges dominating the comparison
				eq, notLess, notGreater := false, false, false
				for d := b; d != nil && d.Idom() != nil; d = d.Idom() {
					id := d.Idom()
					if len(d.Preds) != 1 || d.Preds[0] != id {
						continue
					}
					cond, neg, ok := branchCond(id, d)
					if !ok {
						continue
					}
					for {
						u, isNot := cond.(*ssa.UnOp)
						if !isNot || u.Op != token.NOT {
							break
						}
						cond, neg = u.X, !neg
					}
					tb, ok := cond.(*ssa.BinOp)
					if !ok {
						continue
					}
					x, okX := idField(tb.X, "time")
					y, okY := idField(tb.Y, "time")
					if !okX || !okY || !((x == a && y == bb) || (x == bb && y == a)) {
						continue
					}
					op := tb.Op
					if x == bb { // normalise to a ? b
						switch op {
						case token.LSS:
							op = token.GTR
						case token.GTR:
							op = token.LSS
						case token.LEQ:
							op = token.GEQ
						case token.GEQ:
							op = token.LEQ
						}
					}
					if neg {
						switch op {
						case token.EQL:
							op = token.NEQ
						case token.NEQ:
							op = token.EQL
						case token.LSS:
							op = token.GEQ
						case token.GEQ:
							op = token.LSS
						case token.GTR:
							op = token.LEQ
						case token.LEQ:
							op = token.GTR
						}
					}
					switch op {
					case token.EQL:
						eq = true
					case token.GEQ:
						notLess = true
					case token.LEQ:
						notGreater = true
					}
				}
				good := eq || (notLess && notGreater)
				c.Add("R18l", fnName(fn), fmt.Sprintf("sequence parts compared (#%d) only between IDs with equal time parts", ord), bo.Pos(), good, "the comparison of "+a+".seqNum with "+bb+".seqNum is reached without the time parts having been found equal")
			}
		}
	}
	c.Count("R18l_sequence_comparisons", n)
	c.Min("R18l_sequence_comparisons", 2)
}}

// R9s: a stored string value is never written through.
var rR9s = RuleRef{Name: "R9s", Doc: "stored strings are immutable: readers hand the stored []byte itself to the reply, which is serialised after the key lock was released, so no executor may write into the backing array of a value obtained from db.Get (no element store, no copy() with it as destination); updates build a fresh slice and db.Set it", Run: func(c *C) {
	n := 0
	for _, fn := range c.P.allFuncs("memdb") {
		ord := 0
		for _, b := range fn.Blocks {
			for _, in := range b.Instrs {
				var dst ssa.Value
				what := ""
				switch x := in.(type) {
				case *ssa.Store:
					ia, ok := x.Addr.(*ssa.IndexAddr)
					if !ok {
						continue
					}
					dst, what = ia.X, "element store"
				case *ssa.Call:
					bi, ok := x.Call.Value.(*ssa.Builtin)
					if !ok || bi.Name() != "copy" {
						continue
					}
					dst, what = x.Call.Args[0], "copy destination"
				default:
					continue
				}
				if dst.Type().String() != "[]byte" {
					continue
				}
				for {
					sl, ok := dst.(*ssa.Slice)
					if !ok {
						break
					}
					dst = sl.X
				}
				n++
				ord++
				keys, _ := c.getOrigins(dst)
				c.Add("R9s", fnName(fn), fmt.Sprintf("byte-slice write #%d (%s) does not go into a stored value", ord, what), in.Pos(), len(keys) == 0, fmt.Sprintf("the destination is the value stored under %v: a reader that already returned this slice would see it change under its hands", keys))
			}
		}
	}
	c.Count("R9s_byte_slice_writes", n)
	c.Min("R9s_byte_slice_writes", 3)
}}

// R18s: the "auto" marker of a stream ID never reaches the stored ID.
var rR18s = RuleRef{Name: "R18s", Doc: "the auto marker (-1) of a stream ID part never reaches the stream: on every path of Stream.AddEntry to the point where the ID is put into the stream's ID list (directly or through a helper), each part was either assigned or found different from -1", Run: func(c *C) {
	fn := c.P.Func("memdb", "Stream.AddEntry")
	if fn == nil {
		c.Undecided("R18s", "anchor (*Stream).AddEntry")
		return
	}
	// functions that store to Stream.timeStamps (directly or through a callee, depth <= 2)
	var storesIDs func(f *ssa.Function, d int) bool
	storesIDs = func(f *ssa.Function, d int) bool {
		if f == nil || f.Blocks == nil || d > 2 {
			return false
		}
		for _, b := range f.Blocks {
			for _, in := range b.Instrs {
				if st, ok := in.(*ssa.Store); ok {
					if fa, ok := st.Addr.(*ssa.FieldAddr); ok && namedOf(fa.X.Type()) == "Stream" && fieldName(fa) == "timeStamps" {
						return true
					}
				}
				if call, ok := in.(*ssa.Call); ok {
					if cf := callee(call); cf != nil && cf != f && firstParty(cf) && storesIDs(cf, d+1) {
						return true
					}
				}
			}
		}
		return false
	}
	of := c.orderFlow(fn, nil, true, "W|time", "W|seqNum", "F|cmp:-1==time", "F|cmp:-1==seqNum")
	n := 0
	okT, okS := true, true
	var where []string
	for _, b := range fn.Blocks {
		for _, in := range b.Instrs {
			hit := false
			if st, ok := in.(*ssa.Store); ok {
				if fa, ok := st.Addr.(*ssa.FieldAddr); ok && namedOf(fa.X.Type()) == "Stream" && fieldName(fa) == "timeStamps" {
					hit = true
				}
			}
			if call, ok := in.(*ssa.Call); ok {
				if cf := callee(call); cf != nil && cf != fn && firstParty(cf) && storesIDs(cf, 0) {
					hit = true
				}
			}
			if !hit {
				continue
			}
			states, live := of.States(in)
			if !live {
				continue
			}
			n++
			for _, st := range states {
				if !st["W|time"] && !st["F|cmp:-1==time"] {
					okT = false
					where = append(where, c.pos(in.Pos()))
				}
				if !st["W|seqNum"] && !st["F|cmp:-1==seqNum"] {
					okS = false
					where = append(where, c.pos(in.Pos()))
				}
			}
		}
	}
	c.Add("R18s", fnName(fn), "the time part put into the stream is not the auto marker", fn.Pos(), okT && n > 0, "insertion points reached with the part neither assigned nor tested against -1: "+strings.Join(uniq(where), ", "))
	c.Add("R18s", fnName(fn), "the sequence part put into the stream is not the auto marker", fn.Pos(), okS && n > 0, "insertion points reached with the part neither assigned nor tested against -1: "+strings.Join(uniq(where), ", "))
	c.Count("R18s_insertion_points", n)
}}

// R29: what an executor parses out of its command into a local record is used.
var rR29 = RuleRef{Name: "R29", Doc: "no write-only option state: a local record (struct) that an executor fills from its arguments is read somewhere afterwards (a threshold that is parsed and validated but never consulted means the option silently does something else); plain variables are covered by the compiler's unused-variable check, struct fields are not", Run: func(c *C) {
	n := 0
	for _, fn := range c.P.allFuncs("memdb", "server") {
		if fn.Blocks == nil {
			continue
		}
		ord := 0
		for _, b := range fn.Blocks {
			for _, in := range b.Instrs {
				al, ok := in.(*ssa.Alloc)
				if !ok || al.Referrers() == nil {
					continue
				}
				pt, ok := al.Type().Underlying().(*types.Pointer)
				if !ok {
					continue
				}
				if _, isStruct := pt.Elem().Underlying().(*types.Struct); !isStruct {
					continue
				}
				computedWrite, read := false, false
				for _, r := range *al.Referrers() {
					fa, isFA := r.(*ssa.FieldAddr)
					if !isFA {
						if _, isDbg := r.(*ssa.DebugRef); !isDbg {
							read = true // the record itself is handed on (call, store, return, closure...)
						}
						continue
					}
					if fa.Referrers() == nil {
						continue
					}
					for _, rr := range *fa.Referrers() {
						if st, ok := rr.(*ssa.Store); ok && st.Addr == ssa.Value(fa) {
							if _, isC := st.Val.(*ssa.Const); !isC {
								computedWrite = true
							}
							continue
						}
						if _, isDbg := rr.(*ssa.DebugRef); isDbg {
							continue
						}
						read = true
					}
				}
				if !computedWrite {
					continue
				}
				n++
				ord++
				name := al.Comment
				if name == "" {
					name = pt.Elem().String()
				}
				c.Add("R29", fnName(fn), fmt.Sprintf("local record #%d (%s) filled from the arguments is read", ord, shortType(pt.Elem())), al.Pos(), read, "fields of this record are assigned computed values but nothing ever reads them or the record")
			}
		}
	}
	c.Count("R29_filled_local_records", n)
	c.Min("R29_filled_local_records", 3)
}}

func shortType(t types.Type) string {
	s := t.String()
	if i := strings.LastIndex(s, "/"); i >= 0 {
		s = s[i+1:]
	}
	return s
}

// R20v: AVL maintenance discipline (structural part).
var rR20v = RuleRef{Name: "R20v", Doc: "AVL maintenance, structural part: a recursive tree function that re-links a child (stores n.left / n.right) returns, on every path, through the rebalancing routine or after updating the node's height and consulting its balance (a path that re-links and returns the node as it is leaves stale heights and an unbalanced tree behind); a recursive traversal hands its children to itself (a descending walk that calls the ascending one on its subtrees is not the reverse order); the height field is read only by the balancing code (height is not a subtree size)", Run: func(c *C) {
	isNodePtr := func(t types.Type) bool { return namedOf(t) == "Node" }
	selfRec := func(fn *ssa.Function) bool {
		for _, b := range fn.Blocks {
			for _, in := range b.Instrs {
				if call, ok := in.(*ssa.Call); ok {
					if cf := callee(call); cf != nil && (cf == fn || origin(cf) == origin(fn)) {
						return true
					}
				}
			}
		}
		return false
	}
	nRelink := 0
	balancing := map[string]bool{}
	for _, fn := range c.P.allFuncs("memdb") {
		if fn.Blocks == nil || (fn.Origin() != nil && fn.Signature.Recv() == nil) {
			continue // generic function bodies are analysed once, through their origin (methods of generic types only exist as instances)
		}
		touchesNode := false
		for _, p := range fn.Params {
			if isNodePtr(p.Type()) {
				touchesNode = true
			}
		}
		if !touchesNode {
			continue
		}
		// (1) re-link then return through the balancing code
		relinks := false
		for _, b := range fn.Blocks {
			for _, in := range b.Instrs {
				if st, ok := in.(*ssa.Store); ok {
					if fa, ok := st.Addr.(*ssa.FieldAddr); ok && isNodePtr(fa.X.Type()) && (fieldName(fa) == "left" || fieldName(fa) == "right") {
						if _, isNil := st.Val.(*ssa.Const); !isNil {
							relinks = true
						}
					}
				}
			}
		}
		if relinks && selfRec(fn) {
			nRelink++
			of := c.orderFlow(fn, nil, true, "W|left", "W|right", "W|height", "C|rebalance*", "C|balance*")
			has := func(st Set, pre string) bool {
				for f := range st {
					if strings.HasPrefix(f, pre) {
						return true
					}
				}
				return false
			}
			var bad []string
			for _, b := range fn.Blocks {
				for _, in := range b.Instrs {
					ret, ok := in.(*ssa.Return)
					if !ok {
						continue
					}
					states, live := of.States(ret)
					if !live {
						continue
					}
					for _, st := range states {
						if (st["W|left"] || st["W|right"]) && !has(st, "C|rebalance") && !(st["W|height"] && has(st, "C|balance")) {
							bad = append(bad, c.pos(ret.Pos()))
							break
						}
					}
				}
			}
			c.Add("R20v", fnName(fn), "a path that re-links a child returns through the rebalancing code", fn.Pos(), len(bad) == 0, "returns reached after a child link was stored without rebalance() or a height update plus balance test: "+strings.Join(bad, ", "))
		}
		// (2) traversals recurse into themselves
		if fn.Signature.Recv() != nil && isNodePtr(fn.Signature.Recv().Type()) {
			var bad []string
			for _, b := range fn.Blocks {
				for _, in := range b.Instrs {
					call, ok := in.(*ssa.Call)
					if !ok || len(call.Call.Args) == 0 {
						continue
					}
					cf := callee(call)
					if cf == nil || cf.Signature.Recv() == nil || !isNodePtr(cf.Signature.Recv().Type()) || origin(cf) == origin(fn) {
						continue
					}
					// receiver is a child of the receiver, callee is another recursive Node method with the same signature
					u, isLoad := call.Call.Args[0].(*ssa.UnOp)
					if !isLoad {
						continue
					}
					fa, isFA := u.X.(*ssa.FieldAddr)
					if !isFA || (fieldName(fa) != "left" && fieldName(fa) != "right") {
						continue
					}
					if types.Identical(cf.Signature.Params(), fn.Signature.Params()) && types.Identical(cf.Signature.Results(), fn.Signature.Results()) && selfRec(cf) && fn.Signature.Params().Len() > 0 {
						bad = append(bad, c.pos(call.Pos())+": "+cf.Name())
					}
				}
			}
			if selfRec(fn) || len(bad) > 0 {
				c.Add("R20v", fnName(fn), "a recursive traversal visits its subtrees with itself", fn.Pos(), len(bad) == 0, "children are handed to a different traversal of the same shape: "+strings.Join(bad, ", "))
			}
		}
		_ = balancing
	}
	// (1b) the inner rotation of a double rotation is made only for a child that leans the other way
	if rb := c.P.Func("memdb", "rebalance"); rb != nil {
		of := c.orderFlow(rb, nil, true, "T|cmp:balance()<0", "T|cmp:0<balance()")
		for _, b := range rb.Blocks {
			for _, in := range b.Instrs {
				st, ok := in.(*ssa.Store)
				if !ok {
					continue
				}
				fa, ok := st.Addr.(*ssa.FieldAddr)
				if !ok || !isNodePtr(fa.X.Type()) {
					continue
				}
				call, ok := st.Val.(*ssa.Call)
				if !ok {
					continue
				}
				cn := callName(call)
				if i := strings.Index(cn, "["); i >= 0 {
					cn = cn[:i]
				}
				need := ""
				switch {
				case fieldName(fa) == "left" && cn == "rotateLeft":
					need = "T|cmp:balance()<0"
				case fieldName(fa) == "right" && cn == "rotateRight":
					need = "T|cmp:0<balance()"
				default:
					continue
				}
				states, live := of.States(in)
				good := live
				for _, s2 := range states {
					if !s2[need] {
						good = false
					}
				}
				c.Add("R20v", fnName(rb), "the "+fieldName(fa)+" child is rotated first only when it leans the other way", st.Pos(), good, "the inner rotation must be guarded by a strict test of the child's balance (a child with balance 0 takes the single rotation: the double one leaves the old child unbalanced)")
			}
		}
	} else {
		c.Undecided("R20v", "anchor memdb.rebalance")
	}
	c.Count("R20v_relinking_recursive_functions", nRelink)
	c.Min("R20v_relinking_recursive_functions", 2)
	// (3) readers of Node.height
	allowed := map[string]bool{"height": true, "balance": true, "maxHeight": true, "rotateLeft": true, "rotateRight": true, "rebalance": true, "insert": true, "deleteNode": true, "Init": true, "Debug": true}
	nReads := 0
	for _, fn := range c.P.allFuncs("memdb") {
		if fn.Blocks == nil || (fn.Origin() != nil && fn.Signature.Recv() == nil) {
			continue
		}
		for _, b := range fn.Blocks {
			for _, in := range b.Instrs {
				fa, ok := in.(*ssa.FieldAddr)
				if !ok || !isNodePtr(fa.X.Type()) || fieldName(fa) != "height" {
					continue
				}
				nReads++
				base := fn.Name()
				if i := strings.Index(base, "["); i >= 0 {
					base = base[:i]
				}
				if !allowed[base] {
					c.Add("R20v", fnName(fn), "the height field is used by the balancing code only", fa.Pos(), false, "height is not a subtree size: ranks and counts must not be computed from it")
				}
			}
		}
	}
	c.Count("R20v_height_accesses", nReads)
	c.Min("R20v_height_accesses", 5)
}}

// R20z: per-pair effects of a multi-pair command are applied pair by pair.
var rR20z = RuleRef{Name: "R20z", Doc: "pairs are applied left to right: an element record that an executor builds inside its per-argument loop (a sorted-set node for one score/member pair) is handed to the container inside that same loop iteration; collecting the records and inserting them after the loop lets a later pair of the same command be decided on a container that does not yet contain the earlier one (the same member twice in one ZADD would be stored twice)", Run: func(c *C) {
	n := 0
	for name, fn := range c.Facts.Executors {
		if fn.Blocks == nil {
			continue
		}
		loops := naturalLoops(fn)
		if len(loops) == 0 {
			continue
		}
		inLoop := map[*ssa.BasicBlock]map[*ssa.BasicBlock]bool{}
		for h, body := range loops {
			for b := range body {
				// innermost loop wins: smaller body
				if cur, ok := inLoop[b]; !ok || len(body) < len(cur) {
					inLoop[b] = body
				}
			}
			_ = h
		}
		ord := 0
		for _, b := range fn.Blocks {
			body := inLoop[b]
			if body == nil {
				continue
			}
			for _, in := range b.Instrs {
				al, ok := in.(*ssa.Alloc)
				if !ok || !al.Heap || al.Referrers() == nil {
					continue
				}
				tn := namedOf(al.Type())
				if tn != "SortedSetNode" && tn != "ListNode" {
					continue
				}
				n++
				ord++
				handed, where := false, ""
				for _, r := range *al.Referrers() {
					call, ok := r.(*ssa.Call)
					if !ok {
						// through an interface conversion
						if mi, ok := r.(*ssa.MakeInterface); ok && mi.Referrers() != nil {
							for _, rr := range *mi.Referrers() {
								if c2, ok := rr.(*ssa.Call); ok {
									call = c2
								}
							}
						}
						if call == nil {
							continue
						}
					}
					cf := callee(call)
					if cf == nil || cf.Signature.Recv() == nil {
						continue
					}
					if _, isCont := c.containerType(cf.Signature.Recv().Type()); !isCont {
						continue
					}
					if body[call.Block()] {
						handed = true
					} else {
						where = c.pos(call.Pos())
					}
				}
				detail := "the record is not handed to its container inside the loop that builds it"
				if where != "" {
					detail += " (it reaches the container only at " + where + ", after the loop)"
				}
				c.Add("R20z", fnName(fn), fmt.Sprintf("%s: element record #%d built in a loop enters the container in the same iteration", strings.ToUpper(name), ord), al.Pos(), handed, detail)
			}
		}
	}
	c.Count("R20z_records_built_in_loops", n)
	c.Min("R20z_records_built_in_loops", 1)
}}

// isMirroredTable: m is the table of the pair: a load of the map field, or the parameter of a closure whose only
// runner hands it that load (update(key, func(items map[..]..) {...})).
func (c *C) isMirroredTable(m ssa.Value, pair *counterPair) bool {
	if prm, ok := m.(*ssa.Parameter); ok && prm.Parent() != nil && prm.Parent().Parent() != nil {
		g := prm.Parent()
		fab, argOnly := c.funcArgBindings()
		if !argOnly[g] {
			return false
		}
		pi := -1
		for i, q := range g.Params {
			if q == prm {
				pi = i
			}
		}
		okAll, any := true, false
		for hp, gs := range fab {
			bound := false
			for _, x := range gs {
				bound = bound || x == g
			}
			if !bound {
				continue
			}
			for _, hb := range hp.Parent().Blocks {
				for _, hi := range hb.Instrs {
					if hc, ok := hi.(*ssa.Call); ok && hc.Call.Value == ssa.Value(hp) && pi >= 0 && pi < len(hc.Call.Args) {
						any = true
						if !c.isMirroredTable(hc.Call.Args[pi], pair) {
							okAll = false
						}
					}
				}
			}
		}
		return okAll && any
	}
	ld, ok := m.(*ssa.UnOp)
	if !ok || ld.Op != token.MUL {
		return false
	}
	mf, ok := ld.X.(*ssa.FieldAddr)
	return ok && namedOf(mf.X.Type()) == pair.mapType && fieldName(mf) == pair.mapField
}
