package rg

import (
	"encoding/json"
	"flag"
	"fmt"
	"os"
	"path/filepath"
	"runtime/debug"
	"sort"
	"strconv"
	"strings"
	"time"
)

// RuleRef is one rule applied for a property.
type RuleRef struct {
	Name string
	Doc  string
	Run  func(c *C)
}

// PropSpec describes what is decided for one property.
type PropSpec struct {
	ID          string
	Explanation string
	Rules       []RuleRef
	RuleDocs    map[string]string
	Assumptions []string
	Files       []string
}

func Main(args []string) int {
	fs := flag.NewFlagSet("rgcheck", flag.ContinueOnError)
	prop := fs.String("prop", "", "property id (C01..C20) or 'all'")
	tier := fs.String("tier", "quick", "quick|thorough")
	repo := fs.String("repo", envOr("RG_REPO", "/repo"), "repository root")
	verif := fs.String("verif", envOr("RG_VERIF", "/verif"), "verif root (evidence, known findings)")
	explain := fs.String("explain", "", "replay file to explain (re-derives on current tree)")
	list := fs.Bool("list", false, "list all obligations")
	props := fs.Bool("props", false, "print the property ids that have checks")
	manifest := fs.Bool("manifest", false, "print MANIFEST.json for the registered checks")
	dump := fs.String("dumpssa", "", "debugging aid: print the SSA form of pkg:Func (e.g. server:Manager.Select) as this checker sees it")
	if err := fs.Parse(args); err != nil {
		return 2
	}
	if t := os.Getenv("VERIF_TIER"); t != "" && !flagSet(fs, "tier") {
		*tier = t
	}
	seed, _ := strconv.Atoi(os.Getenv("VERIF_SEED"))
	_ = explain
	specs := Specs()
	if *manifest {
		printManifest(specs)
		return 0
	}
	if *props {
		var ids []string
		for id := range specs {
			ids = append(ids, id)
		}
		sort.Strings(ids)
		for _, id := range ids {
			fmt.Println(id)
		}
		return 0
	}
	var ids []string
	if *prop == "all" {
		for id := range specs {
			ids = append(ids, id)
		}
		sort.Strings(ids)
	} else if _, ok := specs[*prop]; ok {
		ids = []string{*prop}
	} else {
		fmt.Fprintf(os.Stderr, "unknown property %q\n", *prop)
		return 2
	}
	start := time.Now()
	before := gitStatus(*repo)
	p, err := Load(*repo)
	defer p.Cleanup()
	if err != nil {
		// an analysis that did not see the program decides nothing
		for _, id := range ids {
			fmt.Printf("load/type-check failure: %v\n", err)
			writeBroken(*verif, id, *tier, seed, err, start)
			fmt.Printf("VIOLATION property=%s replay=%s\n", id, filepath.Join(*verif, "evidence", "replay", id+".json"))
		}
		return 1
	}
	if *dump != "" {
		if parts := strings.SplitN(*dump, ":", 2); len(parts) == 2 {
			if fn := p.Func(parts[0], parts[1]); fn != nil {
				fn.WriteTo(os.Stdout)
				return 0
			}
		}
		fmt.Fprintln(os.Stderr, "no such function")
		return 2
	}
	known, err := loadKnown(filepath.Join(*verif, "known_findings.json"))
	if err != nil {
		fmt.Println("cannot read known_findings.json:", err)
		return 2
	}
	rc := 0
	for _, id := range ids {
		t0 := time.Now()
		if len(ids) == 1 {
			t0 = start
		}
		spec := specs[id]
		c := &C{P: p, Prop: id, Tier: *tier, scope: spec.Files, Counts: map[string]int{}, Mins: map[string]int{}, known: known, seen: map[string]bool{}}
		c.excepted = exceptionTable()
		simC = c
		BuildFacts(c)
		c.Count("packages_loaded", p.NumPkgs)
		c.Min("packages_loaded", 300)
		c.Min("executors_registered", 70)
		c.Min("dispatcher_sites", 2)
		for _, r := range spec.Rules {
			func() {
				defer func() {
					if e := recover(); e != nil {
						if os.Getenv("RG_DEBUG") != "" {
							fmt.Fprintf(os.Stderr, "analyser panic in %s: %v\n%s\n", r.Name, e, debug.Stack())
						}
						c.Undecided(r.Name, fmt.Sprintf("analyser panic: %v", e))
					}
				}()
				r.Run(c)
			}()
		}
		if *tier == "thorough" {
			c.mutationSelfCheck(*verif)
		}
		if *list {
			for _, o := range c.Obs {
				fmt.Printf("%-10s %-9s %s :: %s (%s) %s\n", o.Status, o.Rule, o.Func, o.Construct, o.Pos, o.Detail)
			}
			for _, n := range c.Notes {
				fmt.Println("note:", n)
			}
		}
		if r := c.Finish(*verif, t0, seed, spec); r > rc {
			rc = r
		}
	}
	if after := gitStatus(*repo); after != before {
		fmt.Println("internal error: the analysis changed the repository working tree")
		return 2
	}
	return rc
}

func writeBroken(verif, id, tier string, seed int, err error, start time.Time) {
	c := &C{P: &Program{Repo: "/repo"}, Prop: id, Tier: tier, Counts: map[string]int{}, Mins: map[string]int{}, seen: map[string]bool{}}
	c.P.Fset = nil
	o := &Obligation{Rule: "LOAD", Func: "-", Construct: "load and type-check the repository", Pos: "-", Status: Violated, Detail: err.Error()}
	c.Obs = append(c.Obs, o)
	c.seen[o.Key()] = true
	spec := &PropSpec{ID: id, Explanation: "the repository could not be loaded/type-checked; nothing was decided"}
	// Finish prints the violation itself
	os.MkdirAll(filepath.Join(verif, "evidence", "replay"), 0o755)
	c.P.NumPkgs = 0
	c.finishQuiet(verif, start, seed, spec)
}

func envOr(k, d string) string {
	if v := os.Getenv(k); v != "" {
		return v
	}
	return d
}

func flagSet(fs *flag.FlagSet, name string) bool {
	set := false
	fs.Visit(func(f *flag.Flag) {
		if f.Name == name {
			set = true
		}
	})
	return set
}

func printManifest(specs map[string]*PropSpec) {
	var ids []string
	for id := range specs {
		ids = append(ids, id)
	}
	sort.Strings(ids)
	base := map[string]any{}
	if b, err := os.ReadFile("/root/.vp/BASELINE.json"); err == nil {
		json.Unmarshal(b, &base)
	}
	var checks []map[string]any
	for _, id := range ids {
		sp := specs[id]
		var rules []string
		for _, r := range sp.Rules {
			rules = append(rules, r.Name)
		}
		checks = append(checks, map[string]any{
			"property_id":         id,
			"quick_cmd":           "bin/rgcheck -prop " + id + " -tier quick",
			"thorough_cmd":        "bin/rgcheck -prop " + id + " -tier thorough",
			"evidence_file":       "/verif/evidence/" + id + ".json",
			"replay_cmd_template": "bin/rgcheck -prop " + id + " -explain {path}",
			"engine":              "rgcheck",
			"level_claimed": map[string]any{
				"category":   "other",
				"text":       sp.Explanation,
				"design_ref": "DESIGN.md section 3 (" + id + ") and section 2 (rules " + strings.Join(rules, ", ") + ")",
			},
			"level_note": "Static analysis of the type-checked SSA form of /repo's current working tree (go/packages + go/ssa, x/tools v0.29.0) plus the Go compiler's bounds-check-elimination report; decides structural necessary conditions only, for every path of the analysed functions. Trusted: go/types, go/ssa, the compiler's prove pass, the rule implementations and reviewed tables under /verif/checker, and: " + strings.Join(sp.Assumptions, "; ") + ". Genuine defects that are recorded rather than repaired are listed in /verif/known_findings.json and printed as KNOWN-FINDING lines.",
			"technique":  "static analysis: " + strings.Join(rules, ", ") + " (SSA dataflow: lockset / must-pass-through on the success subgraph / path-state guard dominance / difference-constraint bounds proving / provenance slicing; who-may-call and writer-set tables)",
		})
	}
	m := map[string]any{
		"version":   1,
		"setup_cmd": "cd /verif/checker && GOFLAGS=-mod=mod GOPROXY=off GOSUMDB=off GOTOOLCHAIN=local GOWORK=off go build -o /verif/bin/rgcheck ./cmd/rgcheck",
		"hooks": map[string]any{
			"guard":            "verif",
			"enable":           "none - static analysis reads the unmodified sources; no hooks or instrumentation are compiled into /repo",
			"baseline_off_cmd": base["cmd"],
			"source_commits":   []string{},
			"add_only":         true,
		},
		"engines": []map[string]any{{
			"name": "rgcheck", "path": "/verif/checker", "serves_properties": ids,
			"kind_free_text": "repository-specific static analyser (Go, golang.org/x/tools v0.29.0: go/packages, go/ssa) with a rule catalogue R0..R27; see DESIGN.md",
		}},
		"checks":         checks,
		"not_applicable": []any{},
		"notes":          "All 20 properties are claimed at level 'other' through structural necessary conditions; the part of each property that static analysis cannot decide is stated in level_claimed.text. Seeded property-breaking changes used to test the checks are under /verif/seeded (never applied to /repo).",
	}
	b, _ := json.MarshalIndent(m, "", " ")
	fmt.Println(string(b))
}
