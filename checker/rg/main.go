package rg

import (
	"flag"
	"fmt"
	"os"
	"path/filepath"
	"sort"
	"strconv"
	"time"
)

// RuleRef is one rule applied for a property.
type RuleRef struct {
	Name string
	Doc  string
	Run  func(c *C)
}

// PropSpec describes what is decided for one property.
type PropSpec struct {
	ID          string
	Explanation string
	Rules       []RuleRef
	RuleDocs    map[string]string
	Assumptions []string
	Files       []string
}

func Main(args []string) int {
	fs := flag.NewFlagSet("rgcheck", flag.ContinueOnError)
	prop := fs.String("prop", "", "property id (C01..C20) or 'all'")
	tier := fs.String("tier", "quick", "quick|thorough")
	repo := fs.String("repo", envOr("RG_REPO", "/repo"), "repository root")
	verif := fs.String("verif", envOr("RG_VERIF", "/verif"), "verif root (evidence, known findings)")
	explain := fs.String("explain", "", "replay file to explain (re-derives on current tree)")
	list := fs.Bool("list", false, "list all obligations")
	props := fs.Bool("props", false, "print the property ids that have checks")
	if err := fs.Parse(args); err != nil {
		return 2
	}
	if t := os.Getenv("VERIF_TIER"); t != "" && !flagSet(fs, "tier") {
		*tier = t
	}
	seed, _ := strconv.Atoi(os.Getenv("VERIF_SEED"))
	_ = explain
	specs := Specs()
	if *props {
		var ids []string
		for id := range specs {
			ids = append(ids, id)
		}
		sort.Strings(ids)
		for _, id := range ids {
			fmt.Println(id)
		}
		return 0
	}
	var ids []string
	if *prop == "all" {
		for id := range specs {
			ids = append(ids, id)
		}
		sort.Strings(ids)
	} else if _, ok := specs[*prop]; ok {
		ids = []string{*prop}
	} else {
		fmt.Fprintf(os.Stderr, "unknown property %q\n", *prop)
		return 2
	}
	start := time.Now()
	before := gitStatus(*repo)
	p, err := Load(*repo)
	defer p.Cleanup()
	if err != nil {
		// an analysis that did not see the program decides nothing
		for _, id := range ids {
			fmt.Printf("load/type-check failure: %v\n", err)
			writeBroken(*verif, id, *tier, seed, err, start)
			fmt.Printf("VIOLATION property=%s replay=%s\n", id, filepath.Join(*verif, "evidence", "replay", id+".json"))
		}
		return 1
	}
	known, err := loadKnown(filepath.Join(*verif, "known_findings.json"))
	if err != nil {
		fmt.Println("cannot read known_findings.json:", err)
		return 2
	}
	rc := 0
	for _, id := range ids {
		t0 := time.Now()
		if len(ids) == 1 {
			t0 = start
		}
		spec := specs[id]
		c := &C{P: p, Prop: id, Tier: *tier, scope: spec.Files, Counts: map[string]int{}, Mins: map[string]int{}, known: known, seen: map[string]bool{}}
		c.excepted = exceptionTable()
		BuildFacts(c)
		c.Count("packages_loaded", p.NumPkgs)
		c.Min("packages_loaded", 300)
		c.Min("executors_registered", 70)
		c.Min("dispatcher_sites", 2)
		for _, r := range spec.Rules {
			func() {
				defer func() {
					if e := recover(); e != nil {
						c.Undecided(r.Name, fmt.Sprintf("analyser panic: %v", e))
					}
				}()
				r.Run(c)
			}()
		}
		if *list {
			for _, o := range c.Obs {
				fmt.Printf("%-10s %-9s %s :: %s (%s) %s\n", o.Status, o.Rule, o.Func, o.Construct, o.Pos, o.Detail)
			}
			for _, n := range c.Notes {
				fmt.Println("note:", n)
			}
		}
		if r := c.Finish(*verif, t0, seed, spec); r > rc {
			rc = r
		}
	}
	if after := gitStatus(*repo); after != before {
		fmt.Println("internal error: the analysis changed the repository working tree")
		return 2
	}
	return rc
}

func writeBroken(verif, id, tier string, seed int, err error, start time.Time) {
	c := &C{P: &Program{Repo: "/repo"}, Prop: id, Tier: tier, Counts: map[string]int{}, Mins: map[string]int{}, seen: map[string]bool{}}
	c.P.Fset = nil
	o := &Obligation{Rule: "LOAD", Func: "-", Construct: "load and type-check the repository", Pos: "-", Status: Violated, Detail: err.Error()}
	c.Obs = append(c.Obs, o)
	c.seen[o.Key()] = true
	spec := &PropSpec{ID: id, Explanation: "the repository could not be loaded/type-checked; nothing was decided"}
	// Finish prints the violation itself
	os.MkdirAll(filepath.Join(verif, "evidence", "replay"), 0o755)
	c.P.NumPkgs = 0
	c.finishQuiet(verif, start, seed, spec)
}

func envOr(k, d string) string {
	if v := os.Getenv(k); v != "" {
		return v
	}
	return d
}

func flagSet(fs *flag.FlagSet, name string) bool {
	set := false
	fs.Visit(func(f *flag.Flag) {
		if f.Name == name {
			set = true
		}
	})
	return set
}
