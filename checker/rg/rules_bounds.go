package rg

import (
	"bytes"
	"fmt"
	"go/types"
	"os/exec"
	"path/filepath"
	"regexp"
	"sort"
	"strings"

	"golang.org/x/tools/go/ssa"
)

// reachableFirstParty computes the first-party functions reachable from the given roots
// (static calls, closures, function values, go/defer, interface calls resolved over first-party types,
// executor dispatch bound to the registration table).
func (c *C) reachableFirstParty(roots []*ssa.Function) map[*ssa.Function]bool {
	seen := map[*ssa.Function]bool{}
	var work []*ssa.Function
	push := func(f *ssa.Function) {
		if f == nil || seen[f] || !firstParty(f) || f.Blocks == nil {
			return
		}
		seen[f] = true
		work = append(work, f)
	}
	for _, r := range roots {
		push(r)
	}
	// first-party named types for interface resolution
	var named []types.Type
	for _, pk := range firstPartyPkgs {
		sp := c.P.Pkg(pk)
		if sp == nil {
			continue
		}
		for _, m := range sp.Members {
			if t, ok := m.(*ssa.Type); ok {
				named = append(named, t.Type(), types.NewPointer(t.Type()))
			}
		}
	}
	isDispatch := map[ssa.Instruction]bool{}
	for _, d := range c.Facts.Dispatchers {
		isDispatch[d] = true
	}
	for len(work) > 0 {
		f := work[0]
		work = work[1:]
		for _, a := range f.AnonFuncs {
			push(a)
		}
		for _, b := range f.Blocks {
			for _, in := range b.Instrs {
				var rands [12]*ssa.Value
				for _, op := range in.Operands(rands[:0]) {
					if fn, ok := (*op).(*ssa.Function); ok {
						push(fn)
					}
				}
				ci, ok := in.(ssa.CallInstruction)
				if !ok {
					continue
				}
				if isDispatch[in] {
					for _, ex := range c.Facts.Executors {
						push(ex)
					}
					continue
				}
				cc := ci.Common()
				if cc.IsInvoke() {
					for _, t := range named {
						if types.Implements(t, cc.Value.Type().Underlying().(*types.Interface)) {
							ms := c.P.Prog.MethodSets.MethodSet(t)
							if sel := ms.Lookup(cc.Method.Pkg(), cc.Method.Name()); sel != nil {
								push(c.P.Prog.MethodValue(sel))
							}
						}
					}
					continue
				}
				push(cc.StaticCallee())
			}
		}
	}
	return seen
}

// requestRoots: connection handlers, the parser goroutine, the apply loop and all executors.
func (c *C) requestRoots() []*ssa.Function {
	var roots []*ssa.Function
	roots = append(roots, c.connHandlers()...)
	if ap := c.applyLoop(); ap != nil {
		roots = append(roots, ap)
	} else {
		c.Undecided("ROOT", "the apply loop of package server")
	}
	for _, n := range []struct{ pkg, fn string }{{"resp", "parse"}, {"resp", "ParseStream"}} {
		if f := c.P.Func(n.pkg, n.fn); f != nil {
			roots = append(roots, f)
		} else {
			c.Undecided("ROOT", n.pkg+"."+n.fn)
		}
	}
	roots = append(roots, c.Facts.SortedExecutors()...)
	return roots
}

func (c *C) requestReach() map[*ssa.Function]bool {
	if c.Facts.Reach == nil {
		c.Facts.Reach = c.reachableFirstParty(c.requestRoots())
	}
	return c.Facts.Reach
}

var bceLine = regexp.MustCompile(`^(.+?):(\d+):(\d+): Found (IsInBounds|IsSliceInBounds)`)

// compilerUnproven runs the Go compiler's bounds-check-elimination report (prover A) over the first-party
// packages of the current tree and returns the set of "relfile:line:col" positions whose check was NOT eliminated.
func (c *C) compilerUnproven() (map[string]bool, error) {
	if c.bce != nil || c.bceErr != nil {
		return c.bce, c.bceErr
	}
	args := []string{"build", "-gcflags=" + ModPath + "/...=-d=ssa/check_bce/debug=1 -l"}
	for _, pk := range firstPartyPkgs {
		args = append(args, "./"+pk)
	}
	cmd := exec.Command("go", args...)
	cmd.Dir = c.P.Repo
	cmd.Env = c.P.Env
	var out bytes.Buffer
	cmd.Stdout = &out
	cmd.Stderr = &out
	err := cmd.Run()
	res := map[string]bool{}
	n := 0
	for _, line := range strings.Split(out.String(), "\n") {
		m := bceLine.FindStringSubmatch(strings.TrimSpace(line))
		if m == nil {
			continue
		}
		f := strings.TrimPrefix(m[1], "./")
		if filepath.IsAbs(f) {
			if r, e := filepath.Rel(c.P.Repo, f); e == nil {
				f = r
			}
		}
		res[fmt.Sprintf("%s:%s:%s", f, m[2], m[3])] = true
		n++
	}
	if err != nil && n == 0 {
		c.bceErr = fmt.Errorf("compiler run failed: %v: %s", err, firstLines(out.String(), 5))
		return nil, c.bceErr
	}
	c.bce = res
	return res, nil
}

func firstLines(s string, n int) string {
	ls := strings.Split(s, "\n")
	if len(ls) > n {
		ls = ls[:n]
	}
	return strings.Join(ls, " | ")
}

// boundsRule builds an R1 rule over the given package set (restricted to request-reachable functions unless all is set).
func boundsRule(name string, pkgs []string, filter func(c *C, fn *ssa.Function) bool, minSites int) RuleRef {
	return RuleRef{Name: name, Doc: "bounds: every index and slice expression in scope is proven in range, either by the Go compiler's prove pass (its bounds check was eliminated) or by the repo-specific SSA guard/difference-constraint prover (dispatcher precondition len(cmd) >= 1, dominating arity tests, induction variables, parity, call-site preconditions of helpers); anything else is a violation or a reviewed exception", Run: func(c *C) {
		unproven, err := c.compilerUnproven()
		if err != nil {
			c.Undecided(name, err.Error())
			return
		}
		c.Count("R1_compiler_unproven_sites_all_packages", len(unproven))
		reach := c.requestReach()
		total, byA, byB, nf := 0, 0, 0, 0
		for _, fn := range c.P.allFuncs(pkgs...) {
			if fn.Origin() != nil {
				continue // generic instantiation: the generic body is analysed through its origin? (instances share positions)
			}
			if filter != nil && !filter(c, fn) {
				continue
			}
			if !reach[fn] {
				continue
			}
			nf++
			var p *bprover
			ord := map[string]int{}
			for _, b := range fn.Blocks {
				for _, in := range b.Instrs {
					isMake := false
					switch x := in.(type) {
					case *ssa.IndexAddr, *ssa.Index, *ssa.Slice:
					case *ssa.Lookup:
						if _, isMap := x.X.Type().Underlying().(*types.Map); isMap {
							continue
						}
					case *ssa.MakeSlice:
						// make([]T, n, m) panics on a negative or inverted size: a computed size is an obligation too
						_, lc := x.Len.(*ssa.Const)
						_, cc := x.Cap.(*ssa.Const)
						if lc && cc {
							continue
						}
						isMake = true
					default:
						continue
					}
					if !in.Pos().IsValid() {
						continue // compiler-generated (range loops): in range by construction
					}
					total++
					pos := c.pos(in.Pos())
					expr := siteExpr(in)
					ord[expr]++
					con := "index " + expr
					if ord[expr] > 1 {
						con = fmt.Sprintf("index %s#%d", expr, ord[expr])
					}
					if isMake {
						con = "make " + expr
						if ord[expr] > 1 {
							con = fmt.Sprintf("make %s#%d", expr, ord[expr])
						}
					}
					if !unproven[pos] && !isMake {
						byA++
						o := c.Add(name, fnName(fn), con, in.Pos(), true, "bounds check eliminated by the Go compiler's prove pass")
						o.Trivial = true
						continue
					}
					if p == nil {
						p = c.newProver(fn)
					}
					ok, why := c.proveSite(p, in)
					if ok {
						byB++
					}
					c.Add(name, fnName(fn), con, in.Pos(), ok, map[bool]string{true: "proved by the SSA guard prover", false: why}[ok])
				}
			}
		}
		c.Count(name+"_sites", total)
		c.Count(name+"_proved_by_compiler", byA)
		c.Count(name+"_proved_by_B", byB)
		c.Count(name+"_functions", nf)
		c.Min(name+"_sites", minSites)
	}}
}

var rR1 = boundsRule("R1", []string{"memdb", "resp", "server", "util"}, nil, 300)

var _ = sort.Strings
