package rg

import (
	"fmt"
	"go/token"
	"go/types"
	"os"
	"sort"
	"strings"

	"golang.org/x/tools/go/ssa"
)

// Rules added in the fifth round (see DESIGN.md 7.10). As before: structural necessary conditions, located by what the
// code does (types, callees, SSA values), never by text or position.

var _ = token.ADD
var _ = types.Identical

// ---------- R32: the kind of every reply is the one the command reference prescribes ----------

// replySite is one place where a reply value of a known dynamic type is made and flows to a return of an executor.
type replySite struct {
	Kind string          // bulk, null, string, int, error, array, plain
	At   ssa.Instruction // the MakeInterface (or the call of a helper) inside the executor itself: where path facts are asked
	Pos  token.Pos
	Via  string // helper chain, for reports
}

// replyKindOf classifies the pointer wrapped by a MakeInterface into the reply interface.
func (c *C) replyKindOf(mi *ssa.MakeInterface) string {
	pt, ok := mi.X.Type().(*types.Pointer)
	if !ok {
		return ""
	}
	nt, ok := pt.Elem().(*types.Named)
	if !ok || nt.Obj().Pkg() == nil || !strings.HasSuffix(nt.Obj().Pkg().Path(), "/resp") {
		return ""
	}
	switch nt.Obj().Name() {
	case "BulkData":
		// the null bulk: the constructor was handed the nil constant
		if call, ok := mi.X.(*ssa.Call); ok && len(call.Call.Args) == 1 && isNilConst(call.Call.Args[0]) {
			return "null"
		}
		return "bulk"
	case "StringData":
		return "string"
	case "IntData":
		return "int"
	case "ErrorData":
		return "error"
	case "ArrayData":
		return "array"
	case "PlainData":
		return "plain"
	}
	return ""
}

func isReplyIface(t types.Type) bool {
	n, ok := t.(*types.Named)
	return ok && n.Obj().Name() == "RedisData" && n.Obj().Pkg() != nil && strings.HasSuffix(n.Obj().Pkg().Path(), "/resp")
}

// replySites collects the reply sites of fn: every value that can reach one of its returns, traced through phis, result
// cells and first-party helpers that return the reply interface. `at` is the instruction inside the outermost function.
func (c *C) replySites(fn *ssa.Function) (sites []replySite, unknown []string) {
	type key struct {
		v  ssa.Value
		at ssa.Instruction
	}
	seen := map[key]bool{}
	var walk func(v ssa.Value, at ssa.Instruction, via string, depth int)
	var ofFunc func(f *ssa.Function, at ssa.Instruction, via string, depth int)
	walk = func(v ssa.Value, at ssa.Instruction, via string, depth int) {
		k := key{v, at}
		if seen[k] {
			return
		}
		seen[k] = true
		switch x := v.(type) {
		case *ssa.MakeInterface:
			kind := c.replyKindOf(x)
			if kind == "" {
				unknown = append(unknown, c.pos(x.Pos())+": reply of type "+x.X.Type().String())
				return
			}
			a := at
			if a == nil {
				a = x
			}
			pos := x.Pos()
			if pos == token.NoPos {
				pos = x.X.Pos()
			}
			sites = append(sites, replySite{Kind: kind, At: a, Pos: pos, Via: via})
		case *ssa.ChangeInterface:
			walk(x.X, at, via, depth)
		case *ssa.Phi:
			for _, e := range x.Edges {
				walk(e, at, via, depth)
			}
		case *ssa.Const:
			// the nil interface: R7's business
		case *ssa.UnOp:
			if al, ok := x.X.(*ssa.Alloc); ok && x.Op == token.MUL {
				for _, r := range *al.Referrers() {
					if st, ok := r.(*ssa.Store); ok && st.Addr == ssa.Value(al) {
						walk(st.Val, at, via, depth)
					}
				}
				return
			}
			unknown = append(unknown, c.pos(x.Pos())+": reply loaded from memory")
		case *ssa.Call:
			cf := callee(x)
			if cf != nil && firstParty(cf) && len(cf.Blocks) > 0 && depth < 4 {
				a := at
				if a == nil {
					a = x
				}
				ofFunc(cf, a, via+cf.Name()+">", depth+1)
				return
			}
			unknown = append(unknown, c.pos(x.Pos())+": reply produced by an unresolved call")
		case *ssa.Extract:
			if call, ok := x.Tuple.(*ssa.Call); ok {
				if cf := callee(call); cf != nil && firstParty(cf) && len(cf.Blocks) > 0 && depth < 4 {
					a := at
					if a == nil {
						a = call
					}
					for _, b := range cf.Blocks {
						if ret, ok := b.Instrs[len(b.Instrs)-1].(*ssa.Return); ok && x.Index < len(ret.Results) {
							walk(ret.Results[x.Index], a, via+cf.Name()+">", depth+1)
						}
					}
					return
				}
			}
			unknown = append(unknown, c.pos(x.Pos())+": reply extracted from an unresolved call")
		default:
			unknown = append(unknown, c.pos(v.Pos())+": reply value of unrecognised form "+fmt.Sprintf("%T", v))
		}
	}
	ofFunc = func(f *ssa.Function, at ssa.Instruction, via string, depth int) {
		for _, b := range f.Blocks {
			if len(b.Instrs) == 0 {
				continue
			}
			ret, ok := b.Instrs[len(b.Instrs)-1].(*ssa.Return)
			if !ok {
				continue
			}
			for _, r := range ret.Results {
				if isReplyIface(r.Type()) {
					walk(r, at, via, depth)
				}
			}
		}
	}
	ofFunc(fn, nil, "", 0)
	return
}

var rR32 = RuleRef{Name: "R32", Doc: "the kind of every reply is the one the command reference prescribes: for each registered command named by the property, every value that can reach a return of its executor (through phis, result variables and first-party helpers) has a dynamic reply type from the command's row of the reference table (bulk / null bulk / simple string / integer / array; error replies are always admitted). For the commands whose reply kind depends on the presence of the optional count argument (LPOP, RPOP, SPOP, SRANDMEMBER, HRANDFIELD) the bounds prover must show len(cmd) <= 2 where a bulk string is made and len(cmd) >= 3 where an array is made: the reply kind follows the presence of the argument, never its value", Run: func(c *C) {
	table := replyKindTable()
	names := []string{}
	for n := range c.Facts.Executors {
		names = append(names, n)
	}
	sort.Strings(names)
	nSites, nCond := 0, 0
	for _, n := range names {
		fn := c.Facts.Executors[n]
		sites, unk := c.replySites(fn)
		if os.Getenv("RG_DUMP_REPLY") != "" {
			ks := map[string]int{}
			for _, s := range sites {
				ks[s.Kind]++
			}
			fmt.Fprintf(os.Stderr, "REPLY %s %v unknown=%v\n", n, ks, unk)
		}
		row, ok := table[n]
		if !ok {
			continue
		}
		allowed := map[string]bool{"error": true}
		for _, k := range strings.Fields(row.kinds) {
			allowed[k] = true
		}
		var bad []string
		for _, s := range sites {
			nSites++
			if !allowed[s.Kind] {
				bad = append(bad, fmt.Sprintf("%s: %s reply %s(reference: %s)", c.pos(s.Pos), s.Kind, viaText(s.Via), row.kinds))
			}
		}
		for _, u := range unk {
			bad = append(bad, "undecided: "+u)
		}
		c.Add("R32", fnName(fn), "replies of "+strings.ToUpper(n)+" have a kind the command reference lists ("+row.kinds+")", fn.Pos(), len(bad) == 0, strings.Join(uniq(bad), "; "))
		if !row.countOptional || len(fn.Params) < 3 {
			continue
		}
		// the reply kind follows the presence of the optional count (argument vector of length 2: absent, 3 or more: present)
		p := c.newProver(fn)
		cmdLen := p.lenOf(fn.Params[2])
		bad = nil
		for _, s := range sites {
			var need string
			switch {
			case s.Kind == "bulk", s.Kind == "null" && !row.nullWithCount:
				need = "absent"
			case s.Kind == "array":
				need = "present"
			default:
				continue
			}
			nCond++
			var proved bool
			if need == "absent" {
				proved = p.ProveLE(cmdLen, lt{"0", 0}, 2, s.At)
			} else {
				proved = p.ProveLE(lt{"0", 0}, cmdLen, -3, s.At)
			}
			if !proved {
				what := map[string]string{"absent": "without a count (cannot show len(cmd) <= 2 here)", "present": "with a count (cannot show len(cmd) >= 3 here)"}[need]
				bad = append(bad, fmt.Sprintf("%s: a %s reply %sis only right %s", c.pos(s.Pos), s.Kind, viaText(s.Via), what))
			}
		}
		c.Add("R32", fnName(fn), "the reply kind of "+strings.ToUpper(n)+" follows the presence of the count argument", fn.Pos(), len(bad) == 0, strings.Join(uniq(bad), "; "))
	}
	c.Count("R32_reply_sites", nSites)
	c.Count("R32_count_conditioned_sites", nCond)
	c.Min("R32_reply_sites", 150)
	c.Min("R32_count_conditioned_sites", 8)
}}

func viaText(via string) string {
	if via == "" {
		return ""
	}
	return "(through " + strings.TrimSuffix(via, ">") + ") "
}

type replyRow struct {
	kinds         string // admitted non-error kinds
	countOptional bool   // bulk/null without the count argument, array with it
	nullWithCount bool   // the null reply is also right with a count (LPOP/RPOP on a missing key)
}

// replyKindTable is the reviewed reference table (Redis command reference, RESP2 reply types) for the commands the
// properties name. Kinds: bulk, null (the null bulk), string (simple string), int, array.
func replyKindTable() map[string]replyRow {
	t := map[string]replyRow{}
	put := func(kinds string, names ...string) {
		for _, n := range names {
			t[n] = replyRow{kinds: kinds}
		}
	}
	put("int", "setnx", "append", "strlen", "setrange", "incr", "decr", "incrby", "decrby", "del", "exists", "expire", "ttl", "persist",
		"lpush", "rpush", "lpushx", "rpushx", "llen", "lrem",
		"hset", "hsetnx", "hlen", "hexists", "hstrlen", "hdel", "hincrby",
		"sadd", "srem", "sismember", "scard", "smove", "sunionstore", "sinterstore", "sdiffstore",
		"zrem", "publish")
	put("string", "mset", "setex", "type", "rename", "lset", "ltrim")
	put("bulk", "getrange", "incrbyfloat", "hincrbyfloat")
	put("bulk null", "get", "lindex", "lmove", "hget", "xadd")
	put("array", "mget", "keys", "lrange", "hmget", "hgetall", "hkeys", "hvals", "smembers", "sunion", "sinter", "sdiff", "zrange", "xrange", "subscribe")
	put("string null bulk", "set")
	put("string bulk", "ping")
	put("int null array", "lpos")
	put("array null", "blpop", "brpop")
	put("int bulk null", "zadd")
	put("int null", "zrank")
	for _, n := range []string{"lpop", "rpop"} {
		t[n] = replyRow{kinds: "bulk null array", countOptional: true, nullWithCount: true}
	}
	for _, n := range []string{"spop", "srandmember", "hrandfield"} {
		t[n] = replyRow{kinds: "bulk null array", countOptional: true}
	}
	return t
}
