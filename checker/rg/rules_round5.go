package rg

import (
	"fmt"
	"go/token"
	"go/types"
	"os"
	"sort"
	"strings"

	"golang.org/x/tools/go/ssa"
)

// Rules added in the fifth round (see DESIGN.md 7.10). As before: structural necessary conditions, located by what the
// code does (types, callees, SSA values), never by text or position.

var _ = token.ADD
var _ = types.Identical

// ---------- R32: the kind of every reply is the one the command reference prescribes ----------

// replySite is one place where a reply value of a known dynamic type is made and flows to a return of an executor.
type replySite struct {
	Kind string          // bulk, null, string, int, error, array, plain
	At   ssa.Instruction // the MakeInterface (or the call of a helper) inside the executor itself: where path facts are asked
	In   ssa.Instruction // the MakeInterface itself, wherever it is (the executor, a closure, a helper)
	Pos  token.Pos
	Via  string // helper chain, for reports
}

// replyKindOf classifies the pointer wrapped by a MakeInterface into the reply interface.
func (c *C) replyKindOf(mi *ssa.MakeInterface) string {
	pt, ok := mi.X.Type().(*types.Pointer)
	if !ok {
		return ""
	}
	nt, ok := pt.Elem().(*types.Named)
	if !ok || nt.Obj().Pkg() == nil || !strings.HasSuffix(nt.Obj().Pkg().Path(), "/resp") {
		return ""
	}
	switch nt.Obj().Name() {
	case "BulkData":
		// the null bulk: the constructor was handed the nil constant
		if call, ok := mi.X.(*ssa.Call); ok && len(call.Call.Args) == 1 && isNilConst(call.Call.Args[0]) {
			return "null"
		}
		return "bulk"
	case "StringData":
		return "string"
	case "IntData":
		return "int"
	case "ErrorData":
		return "error"
	case "ArrayData":
		return "array"
	case "PlainData":
		return "plain"
	}
	return ""
}

func isReplyIface(t types.Type) bool {
	n, ok := t.(*types.Named)
	return ok && n.Obj().Name() == "RedisData" && n.Obj().Pkg() != nil && strings.HasSuffix(n.Obj().Pkg().Path(), "/resp")
}

// replySites collects the reply sites of fn: every value that can reach one of its returns, traced through phis, result
// cells and first-party helpers that return the reply interface. `at` is the instruction inside the outermost function.
func (c *C) replySites(fn *ssa.Function) (sites []replySite, unknown []string) {
	type key struct {
		v  ssa.Value
		at ssa.Instruction
	}
	// what the parameters of the helper being looked into stand for at the call that led there
	type envT struct {
		bind map[*ssa.Parameter]ssa.Value
		up   *envT
	}
	seen := map[key]bool{}
	var walk func(v ssa.Value, at ssa.Instruction, via string, depth int, env *envT)
	var ofFunc func(f *ssa.Function, at ssa.Instruction, via string, depth int, env *envT)
	enter := func(cf *ssa.Function, args []ssa.Value, env *envT) *envT {
		ne := &envT{bind: map[*ssa.Parameter]ssa.Value{}, up: env}
		for i, p := range cf.Params {
			if i < len(args) {
				ne.bind[p] = args[i]
			}
		}
		return ne
	}
	// resolve a called value to a function: a static callee, or a function-typed parameter bound to a closure
	resolve := func(call *ssa.Call, env *envT) (*ssa.Function, *envT) {
		if cf := callee(call); cf != nil {
			return cf, env
		}
		v := call.Call.Value
		e := env
		for i := 0; i < 4; i++ {
			switch x := v.(type) {
			case *ssa.Parameter:
				if e == nil || e.bind[x] == nil {
					return nil, nil
				}
				v, e = e.bind[x], e.up
				continue
			case *ssa.MakeClosure:
				f, _ := x.Fn.(*ssa.Function)
				return f, e
			case *ssa.Function:
				return x, e
			}
			break
		}
		return nil, nil
	}
	// the blocks of helper f reachable with the constants its parameters are bound to (a flag or a small enum passed as a
	// literal, possibly handed on by an outer helper); nil when nothing is bound to a constant
	reachWith := func(f *ssa.Function, env *envT) map[*ssa.BasicBlock]bool {
		if env == nil {
			return nil
		}
		consts := map[int][]*ssa.Const{}
		for i, p := range f.Params {
			v, e := env.bind[p], env.up
			for d := 0; d < 4 && v != nil; d++ {
				if k, ok := v.(*ssa.Const); ok && k.Value != nil && (isBoolType(k.Type()) || isIntType(k.Type())) {
					consts[i] = []*ssa.Const{k}
					break
				}
				if phi, ok := v.(*ssa.Phi); ok {
					var ks []*ssa.Const
					for _, ed := range phi.Edges {
						if k, ok := ed.(*ssa.Const); ok && k.Value != nil && (isBoolType(k.Type()) || isIntType(k.Type())) {
							ks = append(ks, k)
						} else {
							ks = nil
							break
						}
					}
					if len(ks) > 0 {
						consts[i] = ks
					}
					break
				}
				q, ok := v.(*ssa.Parameter)
				if !ok || e == nil {
					break
				}
				v, e = e.bind[q], e.up
			}
		}
		if len(consts) == 0 {
			return nil
		}
		return prunedReach(f, consts)
	}
	walk = func(v ssa.Value, at ssa.Instruction, via string, depth int, env *envT) {
		k := key{v, at}
		if seen[k] {
			return
		}
		seen[k] = true
		switch x := v.(type) {
		case *ssa.MakeInterface:
			kind := c.replyKindOf(x)
			if kind == "" {
				unknown = append(unknown, c.pos(x.Pos())+": reply of type "+x.X.Type().String())
				return
			}
			a := at
			if a == nil {
				a = x
			}
			pos := x.Pos()
			if pos == token.NoPos {
				pos = x.X.Pos()
			}
			sites = append(sites, replySite{Kind: kind, At: a, In: x, Pos: pos, Via: via})
		case *ssa.ChangeInterface:
			walk(x.X, at, via, depth, env)
		case *ssa.Phi:
			for _, e := range x.Edges {
				walk(e, at, via, depth, env)
			}
		case *ssa.Const:
			// the nil interface: R7's business
		case *ssa.Parameter:
			if env != nil && env.bind[x] != nil {
				walk(env.bind[x], at, via, depth, env.up)
				return
			}
			unknown = append(unknown, c.pos(x.Pos())+": reply handed in as a parameter that no call binds")
		case *ssa.UnOp:
			if al, ok := x.X.(*ssa.Alloc); ok && x.Op == token.MUL {
				for _, r := range *al.Referrers() {
					if st, ok := r.(*ssa.Store); ok && st.Addr == ssa.Value(al) {
						walk(st.Val, at, via, depth, env)
					}
				}
				return
			}
			unknown = append(unknown, c.pos(x.Pos())+": reply loaded from memory")
		case *ssa.Call:
			cf, cenv := resolve(x, env)
			if cf != nil && firstParty(cf) && len(cf.Blocks) > 0 && depth < 5 {
				a := at
				if a == nil {
					a = x
				}
				ofFunc(cf, a, via+cf.Name()+">", depth+1, enter(cf, x.Call.Args, cenv))
				return
			}
			unknown = append(unknown, c.pos(x.Pos())+": reply produced by an unresolved call")
		case *ssa.Extract:
			if call, ok := x.Tuple.(*ssa.Call); ok {
				if cf, cenv := resolve(call, env); cf != nil && firstParty(cf) && len(cf.Blocks) > 0 && depth < 5 {
					a := at
					if a == nil {
						a = call
					}
					ne := enter(cf, call.Call.Args, cenv)
					reach := reachWith(cf, ne)
					for _, b := range cf.Blocks {
						if reach != nil && !reach[b] {
							continue
						}
						if ret, ok := b.Instrs[len(b.Instrs)-1].(*ssa.Return); ok && x.Index < len(ret.Results) {
							walk(ret.Results[x.Index], a, via+cf.Name()+">", depth+1, ne)
						}
					}
					return
				}
			}
			unknown = append(unknown, c.pos(x.Pos())+": reply extracted from an unresolved call")
		default:
			unknown = append(unknown, c.pos(v.Pos())+": reply value of unrecognised form "+fmt.Sprintf("%T", v))
		}
	}
	ofFunc = func(f *ssa.Function, at ssa.Instruction, via string, depth int, env *envT) {
		reach := reachWith(f, env)
		for _, b := range f.Blocks {
			if len(b.Instrs) == 0 || (reach != nil && !reach[b]) {
				continue
			}
			ret, ok := b.Instrs[len(b.Instrs)-1].(*ssa.Return)
			if !ok {
				continue
			}
			for _, r := range ret.Results {
				if isReplyIface(r.Type()) {
					walk(r, at, via, depth, env)
				}
			}
		}
	}
	ofFunc(fn, nil, "", 0, nil)
	return
}

var rR32 = RuleRef{Name: "R32", Doc: "the kind of every reply is the one the command reference prescribes: for each registered command named by the property, every value that can reach a return of its executor (through phis, result variables and first-party helpers) has a dynamic reply type from the command's row of the reference table (bulk / null bulk / simple string / integer / array; error replies are always admitted). For the commands whose reply kind depends on the presence of the optional count argument (LPOP, RPOP, SPOP, SRANDMEMBER, HRANDFIELD) the bounds prover must show len(cmd) <= 2 where a bulk string is made and len(cmd) >= 3 where an array is made: the reply kind follows the presence of the argument, never its value", Run: func(c *C) {
	table := replyKindTable()
	names := []string{}
	for n := range c.Facts.Executors {
		names = append(names, n)
	}
	sort.Strings(names)
	nSites, nCond := 0, 0
	for _, n := range names {
		fn := c.Facts.Executors[n]
		sites, unk := c.replySites(fn)
		if os.Getenv("RG_DUMP_REPLY") != "" {
			ks := map[string]int{}
			for _, s := range sites {
				ks[s.Kind]++
			}
			fmt.Fprintf(os.Stderr, "REPLY %s %v unknown=%v\n", n, ks, unk)
		}
		row, ok := table[n]
		if !ok {
			continue
		}
		allowed := map[string]bool{"error": true}
		for _, k := range strings.Fields(row.kinds) {
			allowed[k] = true
		}
		var bad []string
		for _, s := range sites {
			nSites++
			if !allowed[s.Kind] {
				bad = append(bad, fmt.Sprintf("%s: %s reply %s(reference: %s)", c.pos(s.Pos), s.Kind, viaText(s.Via), row.kinds))
			}
		}
		for _, u := range unk {
			bad = append(bad, "undecided: "+u)
		}
		c.Add("R32", fnName(fn), "replies of "+strings.ToUpper(n)+" have a kind the command reference lists ("+row.kinds+")", fn.Pos(), len(bad) == 0, strings.Join(uniq(bad), "; "))
		if !row.countOptional || len(fn.Params) < 3 {
			continue
		}
		// the reply kind follows the presence of the optional count (argument vector of length 2: absent, 3 or more: present)
		p := c.newProver(fn)
		cmdLen := p.lenOf(fn.Params[2])
		arity := c.newArityFlow(fn, fn.Params[2])
		bad = nil
		for _, s := range sites {
			var need string
			switch {
			case s.Kind == "bulk", s.Kind == "null" && !row.nullWithCount:
				need = "absent"
			case s.Kind == "array":
				need = "present"
			default:
				continue
			}
			nCond++
			var proved bool
			// first the arity flow (which argument counts can reach the site, through flags, closures and helpers), then the prover
			mask, ok := arity.at(s.In)
			if !ok {
				mask, ok = arity.at(s.At) // the reply is made in a helper outside the family: judged where the executor calls it
			}
			if ok {
				if need == "absent" {
					proved = mask&^0b111 == 0
				} else {
					proved = mask&0b111 == 0
				}
			}
			if !proved {
				if need == "absent" {
					proved = p.ProveLE(cmdLen, lt{"0", 0}, 2, s.At)
				} else {
					proved = p.ProveLE(lt{"0", 0}, cmdLen, -3, s.At)
				}
			}
			if !proved {
				what := map[string]string{"absent": "without a count (cannot show len(cmd) <= 2 here)", "present": "with a count (cannot show len(cmd) >= 3 here)"}[need]
				bad = append(bad, fmt.Sprintf("%s: a %s reply %sis only right %s", c.pos(s.Pos), s.Kind, viaText(s.Via), what))
			}
		}
		c.Add("R32", fnName(fn), "the reply kind of "+strings.ToUpper(n)+" follows the presence of the count argument", fn.Pos(), len(bad) == 0, strings.Join(uniq(bad), "; "))
	}
	c.Count("R32_reply_sites", nSites)
	c.Count("R32_count_conditioned_sites", nCond)
	c.Min("R32_reply_sites", 150)
	c.Min("R32_count_conditioned_sites", 8)
}}

func viaText(via string) string {
	if via == "" {
		return ""
	}
	return "(through " + strings.TrimSuffix(via, ">") + ") "
}

type replyRow struct {
	kinds         string // admitted non-error kinds
	countOptional bool   // bulk/null without the count argument, array with it
	nullWithCount bool   // the null reply is also right with a count (LPOP/RPOP on a missing key)
}

// replyKindTable is the reviewed reference table (Redis command reference, RESP2 reply types) for the commands the
// properties name. Kinds: bulk, null (the null bulk), string (simple string), int, array.
func replyKindTable() map[string]replyRow {
	t := map[string]replyRow{}
	put := func(kinds string, names ...string) {
		for _, n := range names {
			t[n] = replyRow{kinds: kinds}
		}
	}
	put("int", "setnx", "append", "strlen", "setrange", "incr", "decr", "incrby", "decrby", "del", "exists", "expire", "ttl", "persist",
		"lpush", "rpush", "lpushx", "rpushx", "llen", "lrem",
		"hset", "hsetnx", "hlen", "hexists", "hstrlen", "hdel", "hincrby",
		"sadd", "srem", "sismember", "scard", "smove", "sunionstore", "sinterstore", "sdiffstore",
		"zrem", "publish")
	put("string", "mset", "setex", "type", "rename", "lset", "ltrim")
	put("bulk", "getrange", "incrbyfloat", "hincrbyfloat")
	put("bulk null", "get", "lindex", "lmove", "hget", "xadd")
	put("array", "mget", "keys", "lrange", "hmget", "hgetall", "hkeys", "hvals", "smembers", "sunion", "sinter", "sdiff", "zrange", "xrange", "subscribe")
	put("string null bulk", "set")
	put("string bulk", "ping")
	put("int null array", "lpos")
	put("array null", "blpop", "brpop")
	put("int bulk null", "zadd")
	put("int null", "zrank")
	for _, n := range []string{"lpop", "rpop"} {
		t[n] = replyRow{kinds: "bulk null array", countOptional: true, nullWithCount: true}
	}
	for _, n := range []string{"spop", "srandmember", "hrandfield"} {
		t[n] = replyRow{kinds: "bulk null array", countOptional: true}
	}
	return t
}

// ---------- R16q: quorum decisions go through the joint configuration ----------

var rR16q = RuleRef{Name: "R16q", Doc: "every quorum decision consults the joint configuration: the majority-level deciders (quorum.MajorityConfig.CommittedIndex and .VoteResult) are called only from the JointConfig method of the same name, which combines both halves (R16g). A direct call from the tracker or the raft state machine -- a fast path that looks at the incoming majority only -- commits or elects with a quorum the outgoing configuration has not agreed to", Run: func(c *C) {
	tracked := map[string]bool{"CommittedIndex": true, "VoteResult": true}
	n := 0
	var bad []string
	for _, pkg := range []string{raftPkg, quorumPkg, "go.etcd.io/etcd/raft/v3/tracker", "go.etcd.io/etcd/raft/v3/confchange", "raftexample", "server"} {
		for _, fn := range c.P.allFuncs(pkg) {
			for _, b := range fn.Blocks {
				for _, in := range b.Instrs {
					ci, ok := in.(ssa.CallInstruction)
					if !ok {
						continue
					}
					cf := callee(ci)
					if cf == nil || cf.Signature.Recv() == nil || !tracked[cf.Name()] || namedOf(cf.Signature.Recv().Type()) != "MajorityConfig" {
						continue
					}
					if cf.Pkg == nil || cf.Pkg.Pkg.Path() != quorumPkg {
						continue
					}
					n++
					root := fn
					for root.Parent() != nil {
						root = root.Parent()
					}
					if root.Signature.Recv() != nil && namedOf(root.Signature.Recv().Type()) == "JointConfig" && root.Name() == cf.Name() {
						continue
					}
					bad = append(bad, c.pos(in.Pos())+": "+fnName(fn)+" calls MajorityConfig."+cf.Name()+" directly")
				}
			}
		}
	}
	c.Add("R16q", "quorum", "MajorityConfig deciders are reached only through JointConfig", token.NoPos, len(bad) == 0, strings.Join(uniq(bad), "; "))
	c.Count("R16q_majority_calls", n)
	c.Min("R16q_majority_calls", 4)
}}

// ---------- R16u: log entries that were handed out are never overwritten in place ----------

// fieldReslice reports whether v derives from a slice held in a struct field (possibly through first-party helpers that
// return part of such a field) and whether a re-slice with an upper bound lies on the way.
func fieldReslice(v ssa.Value, seen map[ssa.Value]bool, depth int) (fromField, cut bool) {
	if seen[v] || depth > 3 {
		return false, false
	}
	seen[v] = true
	switch x := v.(type) {
	case *ssa.Slice:
		f, k := fieldReslice(x.X, seen, depth)
		return f, k || x.High != nil
	case *ssa.UnOp:
		if x.Op == token.MUL {
			if fa, ok := x.X.(*ssa.FieldAddr); ok {
				// the records that hold the log: raft's unstable tail and the storage (not messages or Ready values,
				// which are built from them)
				switch namedOf(fa.X.Type()) {
				case "unstable", "MemoryStorage":
					return true, false
				}
				return false, false
			}
		}
	case *ssa.Phi:
		for _, e := range x.Edges {
			f, k := fieldReslice(e, seen, depth)
			if f {
				fromField = true
				cut = cut || k
			}
		}
		return
	case *ssa.Call:
		cf := callee(x)
		if cf == nil || !strings.Contains(cf.String(), "etcd/raft") || len(cf.Blocks) == 0 {
			return false, false
		}
		for _, b := range cf.Blocks {
			if ret, ok := b.Instrs[len(b.Instrs)-1].(*ssa.Return); ok && len(ret.Results) > 0 {
				f, k := fieldReslice(ret.Results[0], seen, depth+1)
				if f {
					fromField = true
					cut = cut || k
				}
			}
		}
		return
	case *ssa.Extract:
		if call, ok := x.Tuple.(*ssa.Call); ok {
			cf := callee(call)
			if cf == nil || !strings.Contains(cf.String(), "etcd/raft") || len(cf.Blocks) == 0 {
				return false, false
			}
			for _, b := range cf.Blocks {
				if ret, ok := b.Instrs[len(b.Instrs)-1].(*ssa.Return); ok && len(ret.Results) > x.Index {
					f, k := fieldReslice(ret.Results[x.Index], seen, depth+1)
					if f {
						fromField = true
						cut = cut || k
					}
				}
			}
		}
		return
	}
	return false, false
}

var rR16u = RuleRef{Name: "R16u", Doc: "log entries that were handed out are never overwritten in place: in package raft no append writes behind an upper-bounded re-slice (s[:k], s[a:b]) of an entry slice kept in a struct field (unstable.entries, MemoryStorage.ents, reached directly or through a helper such as unstable.slice). Ready.Entries and outgoing MsgApp messages alias those backing arrays while the application is still persisting or sending them; a conflicting append that truncates must copy first (append([]pb.Entry{}, kept...)), appending to the whole slice only writes beyond its length and is fine; likewise no element of such a slice is assigned to in place (a compaction that overwrites slot 0 of the stored log instead of building a new one)", Run: func(c *C) {
	n := 0
	var bad []string
	for _, fn := range c.P.allFuncs(raftPkg) {
		for _, b := range fn.Blocks {
			for _, in := range b.Instrs {
				ap, ok := isAppend2(in)
				if !ok || len(ap.Call.Args) < 2 {
					continue
				}
				st, ok := ap.Type().Underlying().(*types.Slice)
				if !ok || namedOf(st.Elem()) != "Entry" {
					continue
				}
				n++
				if cst, ok := ap.Call.Args[1].(*ssa.Const); ok && cst.IsNil() {
					continue
				}
				if f, cut := fieldReslice(ap.Call.Args[0], map[ssa.Value]bool{}, 0); f && cut {
					bad = append(bad, c.pos(ap.Pos())+": "+fnName(fn)+" appends onto a truncated view of a stored entry slice without copying it")
				}
			}
		}
	}
	// the same for element stores: an entry slot of a stored slice (or of a re-slice of it) is never assigned to
	nSt := 0
	for _, fn := range c.P.allFuncs(raftPkg) {
		for _, b := range fn.Blocks {
			for _, in := range b.Instrs {
				st, ok := in.(*ssa.Store)
				if !ok {
					continue
				}
				addr := st.Addr
				if fa, ok := addr.(*ssa.FieldAddr); ok {
					addr = fa.X // s[i].Data = nil
				}
				ia, ok := addr.(*ssa.IndexAddr)
				if !ok {
					continue
				}
				sl, ok := ia.X.Type().Underlying().(*types.Slice)
				if !ok || namedOf(sl.Elem()) != "Entry" {
					continue
				}
				nSt++
				if f, _ := fieldReslice(ia.X, map[ssa.Value]bool{}, 0); f {
					bad = append(bad, c.pos(st.Pos())+": "+fnName(fn)+" assigns to an element of a stored entry slice in place")
				}
			}
		}
	}
	c.Count("R16u_entry_element_stores", nSt)
	c.Add("R16u", "raft", "a truncating append of log entries copies the kept prefix", token.NoPos, len(bad) == 0, strings.Join(uniq(bad), "; "))
	c.Count("R16u_entry_appends", n)
	c.Min("R16u_entry_appends", 6)
}}

func isAppend2(in ssa.Instruction) (*ssa.Call, bool) {
	v, ok := in.(ssa.Value)
	if !ok {
		return nil, false
	}
	return isAppend(v)
}

// ---------- R9w: what a stored value owns is written only by the value's own methods ----------

// ownedBy reports whether v is (an alias of) a slice or map held in a field of a memdb record that makes up a stored
// value: a load of such a field, or the result of a first-party method all of whose returns are such loads of its receiver.
func (c *C) ownedBy(v ssa.Value, seen map[ssa.Value]bool, depth int) (string, bool) {
	if seen[v] || depth > 3 {
		return "", false
	}
	seen[v] = true
	memdbRecord := func(t types.Type) (string, bool) {
		n, ok := derefNamed(t)
		if !ok || n.Obj().Pkg() == nil || n.Obj().Pkg().Path() != ModPath+"/memdb" {
			return "", false
		}
		if _, isStruct := n.Underlying().(*types.Struct); !isStruct {
			return "", false
		}
		switch n.Obj().Name() {
		case "MemDb", "ConcurrentMap", "shard", "Locks", "ChanMap", "Chan", "TTLInfo", "command":
			return "", false // infrastructure with its own locking rules (R15, R17, R6w)
		}
		// a record that is (part of) a stored value: reachable through fields from one of the container types; a helper
		// record of an executor (option structs, poll state) owns nothing that other clients can see
		if !c.storedRecordTypes()[n.Obj().Name()] {
			return "", false
		}
		return n.Obj().Name(), true
	}
	switch x := v.(type) {
	case *ssa.Slice:
		return c.ownedBy(x.X, seen, depth)
	case *ssa.ChangeType:
		return c.ownedBy(x.X, seen, depth)
	case *ssa.Phi:
		for _, e := range x.Edges {
			if o, ok := c.ownedBy(e, seen, depth); ok {
				return o, true
			}
		}
	case *ssa.UnOp:
		if x.Op != token.MUL {
			return "", false
		}
		if fa, ok := x.X.(*ssa.FieldAddr); ok {
			switch x.Type().Underlying().(type) {
			case *types.Slice, *types.Map:
				if rec, ok := memdbRecord(fa.X.Type()); ok {
					return rec + "." + fieldName(fa), true
				}
			}
		}
	case *ssa.Call:
		cf := callee(x)
		if cf == nil || !firstParty(cf) || len(cf.Blocks) == 0 || cf.Signature.Recv() == nil {
			return "", false
		}
		if _, ok := memdbRecord(cf.Signature.Recv().Type()); !ok {
			return "", false
		}
		owner, all, any := "", true, false
		for _, b := range cf.Blocks {
			ret, ok := b.Instrs[len(b.Instrs)-1].(*ssa.Return)
			if !ok || len(ret.Results) != 1 {
				continue
			}
			any = true
			o, ok := c.ownedBy(ret.Results[0], seen, depth+1)
			if !ok {
				all = false
			}
			owner = o
		}
		if any && all {
			return owner + " (returned by " + cf.Name() + ")", true
		}
	}
	return "", false
}

var libraryInPlace = map[string]map[int]bool{
	"sort.Strings": {0: true}, "sort.Ints": {0: true}, "sort.Float64s": {0: true}, "sort.Slice": {0: true}, "sort.SliceStable": {0: true}, "sort.Sort": {0: true}, "sort.Stable": {0: true},
	"slices.Sort": {0: true}, "slices.SortFunc": {0: true}, "slices.SortStableFunc": {0: true}, "slices.Reverse": {0: true},
	"math/rand.Shuffle": {}, "strconv.AppendInt": {0: true}, "strconv.AppendFloat": {0: true}, "strconv.AppendQuote": {0: true},
}

var rR9w = RuleRef{Name: "R9w", Doc: "what a stored value owns is written only by the value's own methods: a slice or map held in a field of a record that makes up a stored value (list, set, hash, sorted-set node, tree node, stream), obtained by a field load or through a getter that returns the field itself, is never written in place by an executor or a free helper -- no element store, no map update or delete, no in-place library call (sort.*, slices.Sort/Reverse, copy into it, strconv.Append*), no call of a first-party function that writes through that parameter. The lock rules (R15) and the read-only rule (R11e) reason about the value's mutator methods; a write through an alias escapes both (a read command that reverses a cached member list in place changes what every later read returns)", Run: func(c *C) {
	n := 0
	for _, fn := range c.P.allFuncs("memdb") {
		root := fn
		for root.Parent() != nil {
			root = root.Parent()
		}
		if root.Signature.Recv() != nil {
			continue // methods are the owners' own code (R20a/n/t/v and the mutator summaries deal with them)
		}
		var bad []string
		// a named free function that is handed the record is part of the record's implementation (insert(tree, ..),
		// deleteNode(tree, ..)): its writes are summarised as mutator effects on that parameter and judged at the call sites
		implOf := func(v ssa.Value) bool {
			if fn.Parent() != nil || c.Facts.ExecNames[fn] != nil {
				return false
			}
			r := rootOf(v)
			if r < 0 || r >= len(fn.Params) {
				return false
			}
			n, ok := derefNamed(fn.Params[r].Type())
			return ok && n.Obj().Pkg() != nil && n.Obj().Pkg().Path() == ModPath+"/memdb"
		}
		flag := func(pos token.Pos, v ssa.Value, how string) {
			if implOf(v) {
				return
			}
			if o, ok := c.ownedBy(v, map[ssa.Value]bool{}, 0); ok {
				bad = append(bad, fmt.Sprintf("%s: %s %s", c.pos(pos), o, how))
			}
		}
		for _, b := range fn.Blocks {
			for _, in := range b.Instrs {
				switch x := in.(type) {
				case *ssa.Store:
					if ia, ok := x.Addr.(*ssa.IndexAddr); ok {
						if _, isSl := ia.X.Type().Underlying().(*types.Slice); isSl {
							n++
							flag(x.Pos(), ia.X, "is assigned to element-wise")
						}
					}
				case *ssa.MapUpdate:
					n++
					flag(x.Pos(), x.Map, "is updated")
				case ssa.CallInstruction:
					cc := x.Common()
					if bi, ok := cc.Value.(*ssa.Builtin); ok {
						switch bi.Name() {
						case "delete", "copy", "clear":
							n++
							flag(in.Pos(), cc.Args[0], "is the target of "+bi.Name()+"()")
						case "append":
							// appending onto an upper-bounded re-slice overwrites elements behind the cut
							if sl, ok := cc.Args[0].(*ssa.Slice); ok && sl.High != nil {
								n++
								flag(in.Pos(), sl, "is appended onto behind a cut")
							}
						}
						continue
					}
					cf := callee(x)
					if cf == nil {
						continue
					}
					if firstParty(cf) {
						for i, a := range cc.Args {
							switch a.Type().Underlying().(type) {
							case *types.Slice, *types.Map:
								if c.mutates(cf, i) {
									n++
									flag(in.Pos(), a, "is handed to "+cf.Name()+", which writes through that parameter")
								}
							}
						}
						continue
					}
					name := cf.String()
					if cf.Pkg != nil {
						name = cf.Pkg.Pkg.Path() + "." + cf.Name()
					}
					if i := strings.Index(name, "["); i > 0 {
						name = name[:i]
					}
					if m, ok := libraryInPlace[name]; ok {
						for i, a := range cc.Args {
							if m[i] || len(m) == 0 {
								n++
								flag(in.Pos(), a, "is handed to "+name+", which works in place")
							}
						}
					}
				}
			}
		}
		if len(bad) > 0 || c.Facts.ExecNames[root] != nil {
			c.Add("R9w", fnName(fn), "state owned by stored values is not written in place outside their methods", fn.Pos(), len(bad) == 0, strings.Join(uniq(bad), "; "))
		}
	}
	c.Count("R9w_write_sites_examined", n)
	c.Min("R9w_write_sites_examined", 10)
}}

// ---------- R22e: EXPIRE's options act under their stated condition ----------

var rR22e = RuleRef{Name: "R22e", Doc: "EXPIRE's options act only under their stated condition: in the function that compares an option word with the constants nx/xx/gt/lt and installs a deadline (SetTTL), every path to the SetTTL call that took the `nx` arm passed the failed lookup of the current deadline, every `xx` path the successful lookup, every `gt` path the successful lookup AND a comparison with the stored deadline, every `lt` path either the failed lookup (a key without a deadline counts as an infinite one) or such a comparison. Decided path by path; a function in which the option words are not compared on the way to SetTTL is not judged", Run: func(c *C) {
	setTTL := c.P.Func("memdb", "MemDb.SetTTL")
	if setTTL == nil {
		c.Undecided("R22e", "anchor SetTTL")
		return
	}
	condNameOK = true
	defer func() { condNameOK = false }()
	n := 0
	for _, fn := range c.P.allFuncs("memdb") {
		var sites []*ssa.Call
		words := map[string]bool{}
		for _, b := range fn.Blocks {
			for _, in := range b.Instrs {
				if call, ok := in.(*ssa.Call); ok && callee(call) == setTTL {
					sites = append(sites, call)
				}
				if bo, ok := in.(*ssa.BinOp); ok && (bo.Op == token.EQL || bo.Op == token.NEQ) {
					for _, side := range []ssa.Value{bo.X, bo.Y} {
						if s, ok := constString(side); ok {
							switch strings.ToLower(s) {
							case "nx", "xx", "gt", "lt":
								words[strings.ToLower(s)] = true
							}
						}
					}
				}
			}
		}
		if len(sites) == 0 || !(words["gt"] && words["lt"]) {
			continue
		}
		// comparisons that involve the stored deadline (a load of TTLInfo's integer field, possibly through phis / locals)
		deadlineCmp := map[string]bool{}
		{
			derived := map[ssa.Value]bool{}
			for changed := true; changed; {
				changed = false
				for _, b := range fn.Blocks {
					for _, in := range b.Instrs {
						v, ok := in.(ssa.Value)
						if !ok || derived[v] {
							continue
						}
						switch x := in.(type) {
						case *ssa.UnOp:
							if fa, ok := x.X.(*ssa.FieldAddr); ok && x.Op == token.MUL && namedOf(fa.X.Type()) == "TTLInfo" && isIntType(x.Type()) {
								derived[v], changed = true, true
							}
						case *ssa.Phi:
							for _, e := range x.Edges {
								if derived[e] {
									derived[v], changed = true, true
								}
							}
						case *ssa.Call:
							// a getter of the deadline
							if cf := callee(x); cf != nil && cf.Signature.Recv() != nil && namedOf(cf.Signature.Recv().Type()) == "TTLInfo" && isIntType(x.Type()) {
								derived[v], changed = true, true
							}
						case *ssa.Extract:
							// (deadline, ok) := helper(..): an integer result of a first-party helper that reads the deadline field
							if call, ok := x.Tuple.(*ssa.Call); ok && isIntType(x.Type()) {
								if cf := callee(call); cf != nil && firstParty(cf) && returnsDeadline(cf, x.Index, 0) {
									derived[v], changed = true, true
								}
							}
						}
					}
				}
			}
			for _, b := range fn.Blocks {
				for _, in := range b.Instrs {
					if bo, ok := in.(*ssa.BinOp); ok && (derived[bo.X] || derived[bo.Y]) {
						switch bo.Op {
						case token.LSS, token.GTR, token.LEQ, token.GEQ:
							if n, _ := condName(bo); n != "" {
								deadlineCmp[n] = true
							}
						}
					}
				}
			}
		}
		of := c.orderFlow(fn, nil, true, "T|cmp:*", "F|cmp:*", "T|ok:*", "F|ok:*")
		byName := map[string]ssa.Value{}
		for _, b := range fn.Blocks {
			for _, in := range b.Instrs {
				if v, ok := in.(ssa.Value); ok && v.Name() != "" {
					byName[v.Name()] = v
				}
			}
		}
		var bad []string
		ltOnPersistent := false
		for _, call := range sites {
			states, live := of.States(call)
			if !live {
				continue
			}
			for _, st := range states {
				opt := ""
				okT, okF, cmpDeadline := false, false, false
				words := map[string]bool{}
				for f := range st {
					lf := strings.ToLower(f)
					for _, w := range []string{"nx", "xx", "gt", "lt"} {
						if strings.HasPrefix(f, "T|cmp:") && strings.Contains(lf, "\""+w+"\"==") {
							opt = w
							words[w] = true
						}
					}
					if strings.HasPrefix(f, "T|ok:") {
						okT = true
					}
					if strings.HasPrefix(f, "F|ok:") {
						okF = true
					}
					if (strings.HasPrefix(f, "T|cmp:") || strings.HasPrefix(f, "F|cmp:")) && deadlineCmp[f[2:]] {
						cmpDeadline = true
					}
				}
				// a lookup outcome compared with another boolean (ok == (opt == "xx")): when the other side's truth is
				// fixed by the path, the edge fixes the outcome
				for f := range st {
					if !(strings.HasPrefix(f, "T|cmp:%") || strings.HasPrefix(f, "F|cmp:%")) || !strings.Contains(f, "==%") {
						continue
					}
					parts := strings.SplitN(f[6:], "==", 2)
					if len(parts) != 2 || !strings.HasPrefix(parts[1], "%") {
						continue
					}
					va, vb := byName[parts[0][1:]], byName[parts[1][1:]]
					if va == nil || vb == nil {
						continue
					}
					isOk := func(v ssa.Value) bool {
						ex, ok := v.(*ssa.Extract)
						if !ok || ex.Index == 0 || !isBoolType(ex.Type()) {
							return false
						}
						_, isCall := ex.Tuple.(*ssa.Call)
						return isCall
					}
					okV, other := va, vb
					if !isOk(okV) {
						okV, other = vb, va
					}
					if !isOk(okV) {
						continue
					}
					on, flip := condName(other)
					if on == "" {
						continue
					}
					known, truth := false, false
					if st["T|"+on] {
						known, truth = true, !flip
					} else if st["F|"+on] {
						known, truth = true, flip
					} else if strings.HasPrefix(on, "cmp:\"") {
						// opt == "xx" is false on a path that fixed opt == "nx" (same operand, another constant)
						if i := strings.Index(on, "\"=="); i > 0 {
							operand := on[i+3:]
							for g := range st {
								if strings.HasPrefix(g, "T|cmp:\"") && strings.HasSuffix(g, "\"=="+operand) && g[2:] != on {
									known, truth = true, flip
								}
							}
						}
					}
					if !known {
						continue
					}
					okTruth := truth
					if strings.HasPrefix(f, "F|") {
						okTruth = !truth
					}
					if okTruth {
						okT = true
					} else {
						okF = true
					}
				}
				if opt == "" || len(words) > 1 {
					continue // no option arm, or an impossible path (the option word equal to two different constants)
				}
				n++
				good := false
				switch opt {
				case "nx":
					good = okF && !okT
				case "xx":
					good = okT && !okF
				case "gt":
					good = okT && !okF && cmpDeadline
				case "lt":
					good = (okF && !okT) || (okT && cmpDeadline)
				}
				if opt == "lt" && okF && !okT {
					ltOnPersistent = true
				}
				if !good {
					bad = append(bad, fmt.Sprintf("%s: a path of the %s arm reaches SetTTL with lookup ok=%v failed=%v deadline-comparison=%v", c.pos(call.Pos()), strings.ToUpper(opt), okT, okF, cmpDeadline))
				}
			}
		}
		c.Add("R22e", fnName(fn), "NX/XX/GT/LT install the deadline only under their stated condition", fn.Pos(), len(bad) == 0, strings.Join(uniq(bad), "; "))
		c.Add("R22e", fnName(fn), "LT installs a deadline on a key that has none (no deadline counts as an infinite one)", fn.Pos(), ltOnPersistent, "no path of the LT arm reaches SetTTL after a failed lookup of the current deadline")
	}
	c.Count("R22e_option_paths", n)
}}

// returnsDeadline: some return of fn hands out, as result idx, a value read from TTLInfo's integer field.
func returnsDeadline(fn *ssa.Function, idx int, depth int) bool {
	if fn == nil || len(fn.Blocks) == 0 || depth > 2 {
		return false
	}
	var is func(v ssa.Value, seen map[ssa.Value]bool) bool
	is = func(v ssa.Value, seen map[ssa.Value]bool) bool {
		if seen[v] {
			return false
		}
		seen[v] = true
		switch x := v.(type) {
		case *ssa.UnOp:
			if fa, ok := x.X.(*ssa.FieldAddr); ok && x.Op == token.MUL && namedOf(fa.X.Type()) == "TTLInfo" {
				return true
			}
			if al, ok := x.X.(*ssa.Alloc); ok && x.Op == token.MUL && al.Referrers() != nil {
				for _, r := range *al.Referrers() {
					if st, ok := r.(*ssa.Store); ok && st.Addr == ssa.Value(al) && is(st.Val, seen) {
						return true
					}
				}
			}
		case *ssa.Phi:
			for _, e := range x.Edges {
				if is(e, seen) {
					return true
				}
			}
		case *ssa.Extract:
			if call, ok := x.Tuple.(*ssa.Call); ok {
				return returnsDeadline(callee(call), x.Index, depth+1)
			}
		case *ssa.Call:
			if cf := callee(x); cf != nil && cf.Signature.Recv() != nil && namedOf(cf.Signature.Recv().Type()) == "TTLInfo" {
				return true
			}
			return returnsDeadline(callee(x), 0, depth+1)
		}
		return false
	}
	for _, b := range fn.Blocks {
		if ret, ok := b.Instrs[len(b.Instrs)-1].(*ssa.Return); ok && idx < len(ret.Results) {
			for _, v := range retResults(ret)[idx] {
				if is(v, map[ssa.Value]bool{}) {
					return true
				}
			}
		}
	}
	return false
}

// ---------- arity flow: which lengths of the argument vector can reach a program point ----------

// arityFlow computes, for every block of an executor, its closures and the first-party helpers it calls, the set of
// argument-vector lengths (bit i: len(cmd) == i, bit 9: len(cmd) >= 9) with which the block can be reached. Branch
// conditions are interpreted when they resolve -- through boolean locals, variables captured by closures and boolean
// parameters bound to the same expression at every call -- to a comparison of len(cmd) with a constant.
type arityFlow struct {
	c      *C
	exec   *ssa.Function
	cmd    *ssa.Parameter
	in     map[*ssa.BasicBlock]uint16
	edge   map[[2]*ssa.BasicBlock]uint16
	entry  map[*ssa.Function]uint16
	family map[*ssa.Function]bool
}

const arityAll = uint16(0b1111111110) // an executor is never called with an empty vector

func (c *C) newArityFlow(exec *ssa.Function, cmd *ssa.Parameter) *arityFlow {
	a := &arityFlow{c: c, exec: exec, cmd: cmd, in: map[*ssa.BasicBlock]uint16{}, edge: map[[2]*ssa.BasicBlock]uint16{}, entry: map[*ssa.Function]uint16{}, family: map[*ssa.Function]bool{}}
	var add func(f *ssa.Function, depth int)
	add = func(f *ssa.Function, depth int) {
		if f == nil || a.family[f] || len(f.Blocks) == 0 || depth > 3 {
			return
		}
		a.family[f] = true
		for _, an := range f.AnonFuncs {
			add(an, depth)
		}
		for _, b := range f.Blocks {
			for _, in := range b.Instrs {
				if ci, ok := in.(ssa.CallInstruction); ok {
					if cf := callee(ci); cf != nil && firstParty(cf) && origin(cf).Pkg == exec.Pkg && a.c.Facts.ExecNames[cf] == nil {
						add(cf, depth+1)
					}
				}
			}
		}
	}
	add(exec, 0)
	a.entry[exec] = arityAll
	for iter := 0; iter < 12; iter++ {
		changed := false
		for f := range a.family {
			if a.run(f) {
				changed = true
			}
		}
		// entries of closures and helpers: the union over their call sites inside the family
		for f := range a.family {
			if f == exec {
				continue
			}
			var m uint16
			called := false
			for g := range a.family {
				for _, b := range g.Blocks {
					for _, in := range b.Instrs {
						ci, ok := in.(ssa.CallInstruction)
						if !ok {
							continue
						}
						if _, isGo := in.(*ssa.Go); isGo {
							continue
						}
						if a.calleeOf(ci) == f {
							called = true
							m |= a.in[b]
						}
					}
				}
			}
			if !called {
				m = arityAll // handed to someone else: no knowledge
			}
			if m != a.entry[f] {
				a.entry[f] = m
				changed = true
			}
		}
		if !changed {
			break
		}
	}
	return a
}

// calleeOf also resolves a call of a closure value made in the same family (f := func(){..}; f()).
func (a *arityFlow) calleeOf(ci ssa.CallInstruction) *ssa.Function {
	if cf := callee(ci); cf != nil {
		return cf
	}
	v := ci.Common().Value
	for i := 0; i < 4; i++ {
		switch x := v.(type) {
		case *ssa.MakeClosure:
			if f, ok := x.Fn.(*ssa.Function); ok {
				return f
			}
			return nil
		case *ssa.UnOp:
			if al, ok := x.X.(*ssa.Alloc); ok && x.Op == token.MUL {
				if sv := singleStore(al); sv != nil {
					v = sv
					continue
				}
			}
			return nil
		default:
			return nil
		}
	}
	return nil
}

func (a *arityFlow) run(f *ssa.Function) bool {
	changed := false
	set := func(b *ssa.BasicBlock, m uint16) {
		if a.in[b]|m != a.in[b] {
			a.in[b] |= m
			changed = true
		}
	}
	set(f.Blocks[0], a.entry[f])
	for iter := 0; iter < 50; iter++ {
		before := changed
		changed = false
		for _, b := range f.Blocks {
			m := a.in[b]
			if m == 0 || len(b.Instrs) == 0 {
				continue
			}
			if br, ok := b.Instrs[len(b.Instrs)-1].(*ssa.If); ok && len(b.Succs) == 2 {
				t, fl := a.filter(br.Cond, m, f, 0)
				set(b.Succs[0], t)
				set(b.Succs[1], fl)
				if b.Succs[0] == b.Succs[1] {
					a.edge[[2]*ssa.BasicBlock{b, b.Succs[0]}] |= t | fl
				} else {
					a.edge[[2]*ssa.BasicBlock{b, b.Succs[0]}] |= t
					a.edge[[2]*ssa.BasicBlock{b, b.Succs[1]}] |= fl
				}
				continue
			}
			for _, sc := range b.Succs {
				set(sc, m)
				a.edge[[2]*ssa.BasicBlock{b, sc}] |= m
			}
		}
		if !changed {
			changed = before
			break
		}
		changed = true
	}
	return changed
}

// filter splits mask m by the truth of cond: the lengths possible when it is true, and when it is false.
func (a *arityFlow) filter(cond ssa.Value, m uint16, f *ssa.Function, depth int) (t, fl uint16) {
	if depth > 6 {
		return m, m
	}
	switch x := cond.(type) {
	case *ssa.UnOp:
		if x.Op == token.NOT {
			t, fl = a.filter(x.X, m, f, depth+1)
			return fl, t
		}
		if x.Op == token.MUL {
			if v := a.cellValue(x.X, f); v != nil {
				return a.filter(v, m, f, depth+1)
			}
			// rec.given where rec is a local record variable
			if fa, ok := x.X.(*ssa.FieldAddr); ok && isBoolType(x.Type()) {
				if al, ok := fa.X.(*ssa.Alloc); ok {
					// a record filled field by field in this function, or stored whole from a helper's result
					if sv := singleStore(al); sv != nil {
						if tm, fm, ok := a.fieldTruth(sv, fa.Field, m, f, depth+1); ok {
							return tm, fm
						}
					}
				}
			}
		}
	case *ssa.Phi:
		// the value form of a && b / a || b: edges that carry a constant contribute it, the others their own condition
		// a constant edge contributes the argument counts with which that edge is taken (a flag set in the arm of an
		// arity switch is true exactly for that arm's counts)
		var tm, fm uint16
		for i, e := range x.Edges {
			em := m
			if i < len(x.Block().Preds) {
				// an edge that has not been reached (yet) contributes nothing; the fixpoint comes back when it has
				em = m & a.edge[[2]*ssa.BasicBlock{x.Block().Preds[i], x.Block()}]
			}
			if k, ok := e.(*ssa.Const); ok && k.Value != nil {
				if k.Value.ExactString() == "true" {
					tm |= em
				} else {
					fm |= em
				}
				continue
			}
			et, ef := a.filter(e, em, f, depth+1)
			tm |= et
			fm |= ef
		}
		return tm, fm
	case *ssa.Field:
		// a boolean field of a small record that carries the decision (countArg{n, given})
		if isBoolType(x.Type()) {
			if tm, fm, ok := a.fieldTruth(x.X, x.Field, m, f, depth+1); ok {
				return tm, fm
			}
		}
	case *ssa.Parameter:
		// a boolean parameter that every call inside the family binds to the same condition on the length
		if !isBoolType(x.Type()) || f == a.exec {
			return m, m
		}
		idx := -1
		for i, p := range f.Params {
			if p == x {
				idx = i
			}
		}
		first := true
		var tm, fm uint16
		for g := range a.family {
			for _, b := range g.Blocks {
				for _, in := range b.Instrs {
					ci, ok := in.(ssa.CallInstruction)
					if !ok || a.calleeOf(ci) != f || idx < 0 || idx >= len(ci.Common().Args) {
						continue
					}
					et, ef := a.filter(ci.Common().Args[idx], arityAll, g, depth+1)
					if first {
						tm, fm, first = et, ef, false
					} else {
						tm |= et
						fm |= ef
					}
				}
			}
		}
		if first {
			return m, m
		}
		return m & tm, m & fm
	case *ssa.BinOp:
		k, isLen, flipped := int64(0), false, false
		if kk, ok := constInt(x.Y); ok && a.isLenCmd(x.X, f) {
			k, isLen = kk, true
		} else if kk, ok := constInt(x.X); ok && a.isLenCmd(x.Y, f) {
			k, isLen, flipped = kk, true, true
		}
		if !isLen {
			// an integer that stands for "not given" when it is zero (cnt, errReply := popCount(cmd); ... if cnt == 0):
			// the argument counts with which it can be zero, and with which it can be something else
			if x.Op == token.EQL || x.Op == token.NEQ {
				var v ssa.Value
				var kEq int64
				if kk, ok := constInt(x.Y); ok {
					v, kEq = x.X, kk
				} else if kk, ok := constInt(x.X); ok {
					v, kEq = x.Y, kk
				}
				if v != nil && isIntType(v.Type()) {
					if zm, nzm, ok := a.intEq(v, kEq, m, f, x.Block(), depth+1); ok {
						if x.Op == token.EQL {
							return zm, nzm
						}
						return nzm, zm
					}
				}
			}
			return m, m
		}
		op := x.Op
		if flipped {
			switch op {
			case token.LSS:
				op = token.GTR
			case token.GTR:
				op = token.LSS
			case token.LEQ:
				op = token.GEQ
			case token.GEQ:
				op = token.LEQ
			}
		}
		for i := 0; i <= 9; i++ {
			if m&(1<<uint(i)) == 0 {
				continue
			}
			// bit 9 stands for every length >= 9: an outcome is possible there if some such length produces it
			var yes, no bool
			n := int64(i)
			if i < 9 {
				switch op {
				case token.EQL:
					yes = n == k
				case token.NEQ:
					yes = n != k
				case token.LSS:
					yes = n < k
				case token.LEQ:
					yes = n <= k
				case token.GTR:
					yes = n > k
				case token.GEQ:
					yes = n >= k
				default:
					yes, no = true, true
				}
				if op == token.EQL || op == token.NEQ || op == token.LSS || op == token.LEQ || op == token.GTR || op == token.GEQ {
					no = !yes
				}
			} else {
				switch op {
				case token.EQL:
					yes, no = k >= 9, true
				case token.NEQ:
					yes, no = true, k >= 9
				case token.LSS:
					yes, no = k > 9, true
				case token.LEQ:
					yes, no = k >= 9, true
				case token.GTR:
					yes, no = true, k >= 9
				case token.GEQ:
					yes, no = true, k > 9
				default:
					yes, no = true, true
				}
			}
			if yes {
				t |= 1 << uint(i)
			}
			if no {
				fl |= 1 << uint(i)
			}
		}
		return t, fl
	}
	return m, m
}

// cellValue: the one value stored in a variable cell (a local, or a variable captured by the closure f).
func (a *arityFlow) cellValue(addr ssa.Value, f *ssa.Function) ssa.Value {
	switch x := addr.(type) {
	case *ssa.Alloc:
		return singleStore(x)
	case *ssa.FreeVar:
		par := f.Parent()
		if par == nil {
			return nil
		}
		for _, b := range par.Blocks {
			for _, in := range b.Instrs {
				mc, ok := in.(*ssa.MakeClosure)
				if !ok || mc.Fn != ssa.Value(f) {
					continue
				}
				for i, fv := range f.FreeVars {
					if fv == x && i < len(mc.Bindings) {
						if al, ok := mc.Bindings[i].(*ssa.Alloc); ok {
							return singleStore(al)
						}
						if fv2, ok := mc.Bindings[i].(*ssa.FreeVar); ok {
							return a.cellValue(fv2, par)
						}
					}
				}
			}
		}
	}
	return nil
}

// isLenCmd: v is len(cmd) of the executor's argument vector (directly, through a local, or captured).
func (a *arityFlow) isLenCmd(v ssa.Value, f *ssa.Function) bool {
	for i := 0; i < 6; i++ {
		switch x := v.(type) {
		case *ssa.Call:
			if b, ok := x.Call.Value.(*ssa.Builtin); ok && b.Name() == "len" {
				return a.isCmd(x.Call.Args[0], f, 0)
			}
			return false
		case *ssa.UnOp:
			if x.Op != token.MUL {
				return false
			}
			cv := a.cellValue(x.X, f)
			if cv == nil {
				return false
			}
			if fv, ok := x.X.(*ssa.FreeVar); ok {
				_ = fv
				f = f.Parent()
			}
			v = cv
		default:
			return false
		}
	}
	return false
}

func (a *arityFlow) isCmd(v ssa.Value, f *ssa.Function, depth int) bool {
	if depth > 4 || f == nil {
		return false
	}
	switch x := v.(type) {
	case *ssa.Parameter:
		if x == a.cmd {
			return true
		}
		// a helper that is handed the vector unchanged at every call inside the family
		idx := -1
		for i, p := range f.Params {
			if p == x {
				idx = i
			}
		}
		if idx < 0 || f == a.exec {
			return false
		}
		any := false
		for g := range a.family {
			for _, b := range g.Blocks {
				for _, in := range b.Instrs {
					ci, ok := in.(ssa.CallInstruction)
					if !ok || a.calleeOf(ci) != f || idx >= len(ci.Common().Args) {
						continue
					}
					if !a.isCmd(ci.Common().Args[idx], g, depth+1) {
						return false
					}
					any = true
				}
			}
		}
		return any
	case *ssa.UnOp:
		if x.Op == token.MUL {
			if cv := a.cellValue(x.X, f); cv != nil {
				if _, ok := x.X.(*ssa.FreeVar); ok {
					return a.isCmd(cv, f.Parent(), depth+1)
				}
				return a.isCmd(cv, f, depth+1)
			}
		}
	}
	return false
}

// at returns the lengths with which the block of instruction in can be reached.
func (a *arityFlow) at(in ssa.Instruction) (uint16, bool) {
	if in == nil || in.Block() == nil || !a.family[in.Parent()] {
		return 0, false
	}
	m, ok := a.in[in.Block()]
	return m, ok && m != 0
}

// ---------- R20c: the per-connection state is one object ----------

var rR20cs = RuleRef{Name: "R20cs", Doc: "the state of a connection (the record of package server that holds the selected database) is one object handed around by pointer: no function of the package takes or returns it by value, no local variable holds a copy of it and no whole-record load copies it. SELECT stores into that record; executed against a copy (the apply loop handing `*st` to a helper per commit batch, a queued command carrying its own snapshot of the state) the selection is lost or forked", Run: func(c *C) {
	cs := c.P.NamedType("server", "connState")
	if cs == nil {
		c.Undecided("R20cs", "anchor server.connState")
		return
	}
	isVal := func(t types.Type) bool { return types.Identical(t, cs) }
	n := 0
	var bad []string
	for _, fn := range c.P.allFuncs("server") {
		sig := fn.Signature
		for i := 0; i < sig.Params().Len(); i++ {
			if isVal(sig.Params().At(i).Type()) {
				bad = append(bad, c.pos(fn.Pos())+": "+fnName(fn)+" takes the connection state by value")
			}
		}
		for i := 0; i < sig.Results().Len(); i++ {
			if isVal(sig.Results().At(i).Type()) {
				bad = append(bad, c.pos(fn.Pos())+": "+fnName(fn)+" returns the connection state by value")
			}
		}
		for _, b := range fn.Blocks {
			for _, in := range b.Instrs {
				switch x := in.(type) {
				case *ssa.UnOp:
					if x.Op == token.MUL && isVal(x.Type()) {
						n++
						bad = append(bad, c.pos(x.Pos())+": "+fnName(fn)+" copies the connection state (whole-record load)")
					}
				case *ssa.Alloc:
					if pt, ok := x.Type().(*types.Pointer); ok && isVal(pt.Elem()) {
						n++
						// the one allocation that creates a state is fine when nothing is copied into it as a whole
						if x.Referrers() != nil {
							for _, r := range *x.Referrers() {
								if st, ok := r.(*ssa.Store); ok && st.Addr == ssa.Value(x) {
									if _, isLoad := st.Val.(*ssa.UnOp); isLoad {
										bad = append(bad, c.pos(st.Pos())+": "+fnName(fn)+" stores a copy of a connection state into a new record")
									}
								}
							}
						}
					}
				}
			}
		}
	}
	c.Add("R20cs", "server", "the connection state is never copied", token.NoPos, len(bad) == 0, strings.Join(uniq(bad), "; "))
	c.Count("R20cs_state_records_seen", n)
}}

// ---------- R30g: stored strings do not share memory with a package-level table ----------

var rR30g = RuleRef{Name: "R30g", Doc: "a byte slice stored in the keyspace is not (part of) a package-level variable: the value handed to db.Set/SetIf* never derives from a global (a table of preformatted small integers, a shared empty slice with capacity). APPEND and SETRANGE extend a stored string with append(old, ..), which writes behind len(old) into old's backing array when it has room: two keys that hold slices of one shared array overwrite each other", Run: func(c *C) {
	n := 0
	for _, fn := range c.P.allFuncs("memdb") {
		ord := 0
		for _, b := range fn.Blocks {
			for _, in := range b.Instrs {
				call, ok := in.(*ssa.Call)
				if !ok {
					continue
				}
				a := c.keyspaceAccess(call)
				if a == nil || a.Map != "db" || !a.Write || len(call.Call.Args) < 3 {
					continue
				}
				val := call.Call.Args[2]
				if mi, ok := val.(*ssa.MakeInterface); ok {
					val = mi.X
				}
				if _, isSl := val.Type().Underlying().(*types.Slice); !isSl {
					continue
				}
				n++
				ord++
				global := ""
				var walk func(v ssa.Value, depth int, seen map[ssa.Value]bool)
				walk = func(v ssa.Value, depth int, seen map[ssa.Value]bool) {
					if v == nil || seen[v] || depth > 4 || global != "" {
						return
					}
					seen[v] = true
					switch x := v.(type) {
					case *ssa.Global:
						global = x.Name()
					case *ssa.UnOp:
						walk(x.X, depth, seen)
					case *ssa.Slice:
						walk(x.X, depth, seen)
					case *ssa.IndexAddr:
						walk(x.X, depth, seen)
					case *ssa.Index:
						walk(x.X, depth, seen)
					case *ssa.Lookup:
						walk(x.X, depth, seen)
					case *ssa.FieldAddr:
						walk(x.X, depth, seen)
					case *ssa.ChangeType:
						walk(x.X, depth, seen)
					case *ssa.Phi:
						for _, e := range x.Edges {
							walk(e, depth, seen)
						}
					case *ssa.Extract:
						walk(x.Tuple, depth, seen)
					case *ssa.Call:
						if ap, ok := isAppend(x); ok {
							walk(ap.Call.Args[0], depth, seen) // append(shared, ..) may still write into the shared array
							return
						}
						if cf := callee(x); cf != nil && firstParty(cf) && len(cf.Blocks) > 0 {
							for _, b2 := range cf.Blocks {
								if ret, ok := b2.Instrs[len(b2.Instrs)-1].(*ssa.Return); ok {
									for _, r := range ret.Results {
										if _, isSl := r.Type().Underlying().(*types.Slice); isSl {
											walk(r, depth+1, seen)
										}
									}
								}
							}
						}
					}
				}
				walk(val, 0, map[ssa.Value]bool{})
				c.Add("R30g", fnName(fn), fmt.Sprintf("stored byte slice #%d is not part of a package-level variable", ord), call.Pos(), global == "", "the value derives from the package-level variable "+global+": keys that store it share one backing array")
			}
		}
	}
	c.Count("R30g_stored_slices", n)
	c.Min("R30g_stored_slices", 10)
}}

// ---------- R15a: the atomic multi-key commands take their stripes once ----------

var rR15a = RuleRef{Name: "R15a", Doc: "MSET, RENAME, LMOVE and SMOVE are atomic because one LockMulti covers all their keys for the whole update (R15): in these executors and the helpers they call, no multi-key acquisition sits in a loop. A bulk update applied in batches, each batch under its own LockMulti, lets other clients in between the batches", Run: func(c *C) {
	multi := map[*ssa.Function]bool{}
	for _, n := range []string{"Locks.LockMulti", "Locks.RLockMulti"} {
		if f := c.P.Func("memdb", n); f != nil {
			multi[f] = true
		}
	}
	if len(multi) == 0 {
		c.Undecided("R15a", "anchor Locks.LockMulti")
		return
	}
	n := 0
	for _, name := range []string{"mset", "rename", "lmove", "smove"} {
		ex := c.Facts.Executors[name]
		if ex == nil {
			continue
		}
		var bad []string
		acquires := 0
		// inLoop[f]: f is called (transitively from the executor) from inside a loop
		type item struct {
			f      *ssa.Function
			inLoop bool
		}
		seen := map[*ssa.Function]bool{}
		work := []item{{ex, false}}
		for len(work) > 0 {
			it := work[0]
			work = work[1:]
			if seen[it.f] && !it.inLoop {
				continue
			}
			seen[it.f] = true
			loops := naturalLoops(it.f)
			inLoopBlock := func(b *ssa.BasicBlock) bool {
				for _, body := range loops {
					if body[b] {
						return true
					}
				}
				return false
			}
			for _, b := range it.f.Blocks {
				for _, in := range b.Instrs {
					ci, ok := in.(ssa.CallInstruction)
					if !ok {
						continue
					}
					if _, isDefer := in.(*ssa.Defer); isDefer {
						continue
					}
					cf := callee(ci)
					if cf == nil {
						continue
					}
					looped := it.inLoop || inLoopBlock(b)
					if multi[cf] {
						acquires++
						if looped {
							bad = append(bad, c.pos(in.Pos())+": "+cf.Name()+" is reached inside a loop (in "+fnName(it.f)+")")
						}
						continue
					}
					if firstParty(cf) && pkgRel(cf) == "memdb" && len(cf.Blocks) > 0 && c.Facts.ExecNames[cf] == nil && len(seen) < 40 {
						if !seen[cf] || looped {
							work = append(work, item{cf, looped})
						}
					}
				}
			}
		}
		n++
		c.Add("R15a", fnName(ex), strings.ToUpper(name)+" acquires its stripes once, outside every loop", ex.Pos(), len(bad) == 0 && acquires >= 1, strings.Join(uniq(bad), "; ")+fmt.Sprintf(" (multi-key acquisitions found: %d)", acquires))
	}
	c.Count("R15a_atomic_commands", n)
	c.Min("R15a_atomic_commands", 3)
}}

// ---------- R17c: the matcher keeps no state between pattern elements ----------

var rR17c = RuleRef{Name: "R17c", Doc: "every pattern element is matched on its own: the main loop of the glob matcher carries only positions from one iteration to the next (integer loop variables); a boolean that survives an iteration -- set flags hoisted out of the '[' arm, say -- makes the second set of a pattern start with the first one's negation, match and closing state", Run: func(c *C) {
	pm := c.P.Func("util", "PattenMatch")
	if pm == nil {
		c.Undecided("R17c", "anchor util.PattenMatch")
		return
	}
	n := 0
	var bad []string
	// the element loop is the outermost loop of the matcher itself (a helper that scans the inside of one set has a
	// loop of its own, which legitimately remembers whether a member matched)
	for _, fn := range []*ssa.Function{pm} {
		loops := naturalLoops(fn)
		for head, body := range loops {
			// outermost loops only: a header that lies in no other loop's body
			inner := false
			for h2, b2 := range loops {
				if h2 != head && b2[head] {
					inner = true
				}
			}
			if inner {
				continue
			}
			_ = body
			for _, in := range head.Instrs {
				phi, ok := in.(*ssa.Phi)
				if !ok {
					break
				}
				n++
				if isBoolType(phi.Type()) {
					bad = append(bad, c.pos(head.Instrs[len(head.Instrs)-1].Pos())+": "+fnName(fn)+" carries the boolean "+phi.Comment+" across iterations of its element loop")
				}
			}
		}
	}
	c.Add("R17c", fnName(pm), "the element loop of the matcher carries positions only", pm.Pos(), len(bad) == 0, strings.Join(uniq(bad), "; "))
	c.Count("R17c_loop_variables", n)
	c.Min("R17c_loop_variables", 2)
}}

// ---------- R22m: a deadline record is made where its timer is started ----------

var rR22m = RuleRef{Name: "R22m", Doc: "a deadline record is never moved: every insertion into the deadline table (ttlKeys.Set/SetIf*) stores a TTLInfo allocated by the inserting function (or by a constructor whose every return is a fresh allocation), never a record read out of the table or handed in. A record carries the cancel channel of its timer goroutine, which was started for one key name: re-inserting it under another name (RENAME 'moving' the deadline) leaves a timer that expires the old name, and when the two names are the same key the record was already cancelled -- the next retirement closes its channel a second time and takes the process down", Run: func(c *C) {
	n := 0
	var fresh func(v ssa.Value, depth int, seen map[ssa.Value]bool) bool
	fresh = func(v ssa.Value, depth int, seen map[ssa.Value]bool) bool {
		if v == nil || seen[v] || depth > 3 {
			return false
		}
		seen[v] = true
		switch x := v.(type) {
		case *ssa.MakeInterface:
			return fresh(x.X, depth, seen)
		case *ssa.Alloc:
			return true
		case *ssa.UnOp:
			// a local variable kept in a cell (captured by the timer closure): whatever is stored into it
			if al, ok := x.X.(*ssa.Alloc); ok && x.Op == token.MUL {
				if sv := singleStore(al); sv != nil {
					return fresh(sv, depth, seen)
				}
			}
			return false
		case *ssa.Phi:
			for _, e := range x.Edges {
				if !fresh(e, depth, seen) {
					return false
				}
			}
			return len(x.Edges) > 0
		case *ssa.Call:
			cf := callee(x)
			if cf == nil || !firstParty(cf) || len(cf.Blocks) == 0 {
				return false
			}
			any := false
			for _, b := range cf.Blocks {
				if ret, ok := b.Instrs[len(b.Instrs)-1].(*ssa.Return); ok && len(ret.Results) >= 1 {
					any = true
					if !fresh(ret.Results[0], depth+1, seen) {
						return false
					}
				}
			}
			return any
		}
		return false
	}
	for _, fn := range c.P.allFuncs("memdb") {
		ord := 0
		for _, b := range fn.Blocks {
			for _, in := range b.Instrs {
				call, ok := in.(*ssa.Call)
				if !ok {
					continue
				}
				a := c.keyspaceAccess(call)
				if a == nil || a.Map != "ttlKeys" || !a.Write || a.Method == "Delete" || len(call.Call.Args) < 3 {
					continue
				}
				n++
				ord++
				c.Add("R22m", fnName(fn), fmt.Sprintf("deadline record #%d put into the table is allocated here", ord), call.Pos(), fresh(call.Call.Args[2], 0, map[ssa.Value]bool{}), "the record stored is not a fresh allocation (it was read from the table or handed in): its timer and cancel channel belong to another insertion")
			}
		}
	}
	c.Count("R22m_deadline_insertions", n)
	c.Min("R22m_deadline_insertions", 1)
}}

// ---------- R16v: a paginated log read has no hole ----------

var rR16v = RuleRef{Name: "R16v", Doc: "a read that spans storage and the unstable tail (raftLog.slice) appends the tail only behind a complete storage part: every path from the Storage.Entries call (made directly or by a helper) to the call that fetches the unstable part passes the false edge of the test `fewer entries came back than were asked for` -- the comparison of the length of what storage returned with the size of the range, evaluated in slice itself or returned as a boolean by the helper that made the read. Glued behind a prefix that the size limit cut short, the tail makes a log with a hole, which followers store at consecutive positions", Run: func(c *C) {
	fn := c.P.Func(raftPkg, "raftLog.slice")
	if fn == nil {
		c.Undecided("R16v", "anchor raftLog.slice")
		return
	}
	condNameOK = true
	defer func() { condNameOK = false }()
	// the "short read" comparison: len(x) < something, x a result of Storage.Entries (interface call)
	isShortReadCmp := func(v ssa.Value) bool {
		bo, ok := v.(*ssa.BinOp)
		if !ok {
			return false
		}
		switch bo.Op {
		case token.LSS, token.GTR, token.LEQ, token.GEQ:
		default:
			return false
		}
		hasLen := false
		for _, side := range []ssa.Value{bo.X, bo.Y} {
			s := side
			if cv, ok := s.(*ssa.Convert); ok {
				s = cv.X
			}
			if call, ok := s.(*ssa.Call); ok {
				if bi, ok := call.Call.Value.(*ssa.Builtin); ok && bi.Name() == "len" {
					hasLen = true
				}
			}
		}
		return hasLen
	}
	// helpers of slice that make the storage read and hand back such a comparison as a boolean result
	readers := map[*ssa.Function]int{}
	callsEntries := func(f *ssa.Function) bool {
		for _, b := range f.Blocks {
			for _, in := range b.Instrs {
				if ci, ok := in.(ssa.CallInstruction); ok && ci.Common().IsInvoke() && ci.Common().Method.Name() == "Entries" {
					return true
				}
			}
		}
		return false
	}
	for _, b := range fn.Blocks {
		for _, in := range b.Instrs {
			if call, ok := in.(*ssa.Call); ok {
				if cf := callee(call); cf != nil && cf != fn && cf.Pkg == fn.Pkg && len(cf.Blocks) > 0 && callsEntries(cf) {
					for _, b2 := range cf.Blocks {
						if ret, ok := b2.Instrs[len(b2.Instrs)-1].(*ssa.Return); ok {
							for i, r := range ret.Results {
								if isShortReadCmp(r) {
									readers[cf] = i
								}
							}
						}
					}
				}
			}
		}
	}
	of := c.orderFlow(fn, nil, true, "T|cmp:*", "F|cmp:*", "T|ok:*", "F|ok:*", "C|*")
	n := 0
	var bad []string
	for _, b := range fn.Blocks {
		for _, in := range b.Instrs {
			call, ok := in.(*ssa.Call)
			if !ok {
				continue
			}
			cf := callee(call)
			if cf == nil || cf.Signature.Recv() == nil || namedOf(cf.Signature.Recv().Type()) != "unstable" {
				continue
			}
			states, live := of.States(in)
			if !live {
				continue
			}
			n++
			for _, st := range states {
				read := st["C|Entries"]
				for h := range readers {
					if st["C|"+h.Name()] {
						read = true
					}
				}
				if !read {
					continue
				}
				good := false
				for f := range st {
					if !strings.HasPrefix(f, "F|") {
						continue
					}
					name := f[2:]
					if strings.HasPrefix(name, "cmp:len(") && strings.Contains(name, "<") {
						good = true
					}
					for h, idx := range readers {
						if strings.HasPrefix(name, "ok:"+h.Name()+"#") {
							// which result of the helper was tested: the register named in the fact
							reg := name[strings.Index(name, "#")+1:]
							for _, b2 := range fn.Blocks {
								for _, in2 := range b2.Instrs {
									if ex, ok := in2.(*ssa.Extract); ok && ex.Index == idx {
										if c2, ok := ex.Tuple.(*ssa.Call); ok && c2.Name() == reg {
											good = true
										}
									}
								}
							}
						}
					}
				}
				if !good {
					bad = append(bad, c.pos(call.Pos())+": a path reads from storage and then appends the unstable part without having passed the short-read test")
				}
			}
		}
	}
	c.Add("R16v", fnName(fn), "the unstable tail is appended only behind a complete storage part", fn.Pos(), len(bad) == 0 && n > 0, strings.Join(uniq(bad), "; "))
	c.Count("R16v_tail_reads", n)
}}

// ---------- R20k: operand loops visit every operand ----------

var rR20k = RuleRef{Name: "R20k", Doc: "every operand of a multi-key command is looked at: in the executors of SUNION/SINTER/SDIFF, their STORE forms, MGET, DEL and EXISTS (and the helpers they hand their key list to), a loop that looks keys up and type-tests what it finds is left only when the keys are exhausted or by returning -- never by `break`. The loop is where a wrong-typed operand is detected; leaving it early because the result is already known (a missing key makes an intersection empty) answers a command that has to be refused and, for a STORE form, overwrites the destination", Run: func(c *C) {
	n := 0
	seenFn := map[*ssa.Function]bool{}
	for _, name := range []string{"sunion", "sinter", "sdiff", "sunionstore", "sinterstore", "sdiffstore", "mget", "del", "exists"} {
		ex := c.Facts.Executors[name]
		if ex == nil {
			continue
		}
		for _, fn := range helperScope(ex, 2) {
			if seenFn[fn] || fn.Pkg != ex.Pkg || (fn != ex && c.Facts.ExecNames[fn] != nil) {
				continue
			}
			seenFn[fn] = true
			loops := naturalLoops(fn)
			var heads []*ssa.BasicBlock
			for head := range loops {
				heads = append(heads, head)
			}
			sort.Slice(heads, func(i, j int) bool { return heads[i].Index < heads[j].Index })
			k := 0
			for _, head := range heads {
				body := loops[head]
				looksUp, typeTests := false, false
				for b := range body {
					for _, in := range b.Instrs {
						if ci, ok := in.(ssa.CallInstruction); ok {
							if a := c.keyspaceAccess(ci); a != nil && a.Map == "db" && a.Method == "Get" {
								looksUp = true
							}
						}
						if ta, ok := in.(*ssa.TypeAssert); ok && ta.CommaOk {
							typeTests = true
						}
					}
				}
				if !looksUp || !typeTests {
					continue
				}
				n++
				k++
				// the regular way out: the successor of the header that is not part of the loop
				var normal []*ssa.BasicBlock
				for _, e := range head.Succs {
					if !body[e] {
						normal = append(normal, e)
					}
				}
				var bad []string
				for b := range body {
					if b == head {
						continue
					}
					for _, sc := range b.Succs {
						if body[sc] {
							continue
						}
						// an edge that leaves the loop from inside its body: a `return` never comes back to the code
						// behind the loop, a `break` does
						for _, e := range normal {
							if sc == e || reaches(sc, e, nil) {
								bad = append(bad, c.pos(b.Instrs[len(b.Instrs)-1].Pos())+": the loop is left early and the code behind it runs")
							}
						}
					}
				}
				c.Add("R20k", fnName(fn), fmt.Sprintf("operand loop #%d is left only at the end of the keys or by returning", k), fn.Pos(), len(bad) == 0, strings.Join(uniq(bad), "; "))
			}
		}
	}
	c.Count("R20k_operand_loops", n)
	c.Min("R20k_operand_loops", 3)
}}

// fieldTruth: rec is a record value (a helper's result, a parameter bound at the call sites, a local copy); the argument
// counts with which its boolean field `field` is true / false. ok is false when the record's origin is not understood.
func (a *arityFlow) fieldTruth(rec ssa.Value, field int, m uint16, f *ssa.Function, depth int) (tm, fm uint16, ok bool) {
	if depth > 8 {
		return 0, 0, false
	}
	switch x := rec.(type) {
	case *ssa.UnOp:
		if x.Op == token.MUL {
			if al, isAl := x.X.(*ssa.Alloc); isAl {
				// a record literal built in place: the store into the field (none: the zero value, false)
				if sv := singleStore(al); sv != nil {
					return a.fieldTruth(sv, field, m, f, depth+1)
				}
				stored := false
				if al.Referrers() != nil {
					for _, r := range *al.Referrers() {
						fa, isFA := r.(*ssa.FieldAddr)
						if !isFA || fa.Field != field || fa.Referrers() == nil {
							continue
						}
						for _, rr := range *fa.Referrers() {
							if st, isSt := rr.(*ssa.Store); isSt && st.Addr == ssa.Value(fa) {
								stored = true
								bm := m & a.in[st.Block()]
								t, fl := a.filter(st.Val, bm, f, depth+1)
								if k, isC := st.Val.(*ssa.Const); isC && k.Value != nil {
									if k.Value.ExactString() == "true" {
										t, fl = bm, 0
									} else {
										t, fl = 0, bm
									}
								}
								tm |= t
								fm |= fl
							}
						}
					}
				}
				if !stored {
					return 0, m, true
				}
				return tm, fm, true
			}
			if v := a.cellValue(x.X, f); v != nil {
				return a.fieldTruth(v, field, m, f, depth+1)
			}
		}
	case *ssa.Phi:
		all := true
		for _, e := range x.Edges {
			t, fl, ok2 := a.fieldTruth(e, field, m, f, depth+1)
			if !ok2 {
				all = false
			}
			tm |= t
			fm |= fl
		}
		return tm, fm, all
	case *ssa.Parameter:
		idx := -1
		for i, p := range f.Params {
			if p == x {
				idx = i
			}
		}
		if idx < 0 || f == a.exec {
			return 0, 0, false
		}
		any, all := false, true
		for g := range a.family {
			for _, b := range g.Blocks {
				for _, in := range b.Instrs {
					ci, isCall := in.(ssa.CallInstruction)
					if !isCall || a.calleeOf(ci) != f || idx >= len(ci.Common().Args) {
						continue
					}
					any = true
					t, fl, ok2 := a.fieldTruth(ci.Common().Args[idx], field, arityAll, g, depth+1)
					if !ok2 {
						all = false
					}
					tm |= t
					fm |= fl
				}
			}
		}
		return m & tm, m & fm, any && all
	case *ssa.Call, *ssa.Extract:
		var call *ssa.Call
		ri := 0
		if c2, isCall := x.(*ssa.Call); isCall {
			call = c2
		} else if ex := x.(*ssa.Extract); ex != nil {
			call, _ = ex.Tuple.(*ssa.Call)
			ri = ex.Index
		}
		if call == nil {
			return 0, 0, false
		}
		h := a.calleeOf(call)
		if h == nil || !a.family[h] {
			return 0, 0, false
		}
		any, all := false, true
		for _, b := range h.Blocks {
			ret, isRet := b.Instrs[len(b.Instrs)-1].(*ssa.Return)
			if !isRet || ri >= len(ret.Results) {
				continue
			}
			any = true
			bm := a.in[b]
			if bm == 0 {
				continue // this return is not reached with any argument count seen so far (the fixpoint comes back)
			}
			for _, rv := range retResults(ret)[ri] {
				t, fl, ok2 := a.fieldTruth(rv, field, bm, h, depth+1)
				if !ok2 {
					all = false
				}
				tm |= t
				fm |= fl
			}
		}
		return m & tm, m & fm, any && all
	}
	return 0, 0, false
}

// intZero: the argument counts (within m) with which the integer v can be zero, and with which it can be non-zero, at a
// use in block `use` of function f. v is a constant, a phi, a parameter bound inside the family, or a result of a family
// helper; a helper's returns that also hand back a non-nil reply or error are left out when the use lies behind the
// caller's test of that companion result. ok is false when v's origin is not understood.
func (a *arityFlow) intEq(v ssa.Value, K int64, m uint16, f *ssa.Function, use *ssa.BasicBlock, depth int) (zm, nzm uint16, ok bool) {
	if depth > 8 {
		return 0, 0, false
	}
	switch x := v.(type) {
	case *ssa.Const:
		if k, isInt := constInt(x); isInt {
			if k == K {
				return m, 0, true
			}
			return 0, m, true
		}
	case *ssa.ChangeType:
		return a.intEq(x.X, K, m, f, use, depth+1)
	case *ssa.Phi:
		all := true
		for i, e := range x.Edges {
			em := m
			if i < len(x.Block().Preds) {
				em = m & a.edge[[2]*ssa.BasicBlock{x.Block().Preds[i], x.Block()}]
			}
			z, nz, ok2 := a.intEq(e, K, em, f, x.Block().Preds[i], depth+1)
			if !ok2 {
				all = false
			}
			zm |= z
			nzm |= nz
		}
		return zm, nzm, all
	case *ssa.UnOp:
		if x.Op == token.MUL {
			if cv := a.cellValue(x.X, f); cv != nil {
				return a.intEq(cv, K, m, f, use, depth+1)
			}
		}
	case *ssa.Parameter:
		idx := -1
		for i, p := range f.Params {
			if p == x {
				idx = i
			}
		}
		if idx < 0 || f == a.exec {
			return 0, 0, false
		}
		any, all := false, true
		for g := range a.family {
			for _, b := range g.Blocks {
				for _, in := range b.Instrs {
					ci, isCall := in.(ssa.CallInstruction)
					if !isCall || a.calleeOf(ci) != f || idx >= len(ci.Common().Args) {
						continue
					}
					any = true
					z, nz, ok2 := a.intEq(ci.Common().Args[idx], K, a.in[b], g, b, depth+1)
					if !ok2 {
						all = false
					}
					zm |= z
					nzm |= nz
				}
			}
		}
		return m & zm, m & nzm, any && all
	case *ssa.Extract:
		call, isCall := x.Tuple.(*ssa.Call)
		if !isCall {
			return 0, 0, false
		}
		h := a.calleeOf(call)
		if h == nil || !a.family[h] {
			return 0, 0, false
		}
		// companion results the use lies behind a nil test of
		nilTested := map[int]bool{}
		if call.Referrers() != nil && use != nil {
			for _, r := range *call.Referrers() {
				ex, isEx := r.(*ssa.Extract)
				if !isEx || ex.Index == x.Index {
					continue
				}
				if _, isIface := ex.Type().Underlying().(*types.Interface); !isIface {
					continue
				}
				for d := use; d != nil && d.Idom() != nil; d = d.Idom() {
					id := d.Idom()
					if len(d.Preds) != 1 || d.Preds[0] != id {
						continue
					}
					cond, neg, okc := branchCond(id, d)
					if !okc {
						continue
					}
					bo, isBo := cond.(*ssa.BinOp)
					if !isBo || (bo.Op != token.EQL && bo.Op != token.NEQ) {
						continue
					}
					if !((bo.X == ssa.Value(ex) && isNilConst(bo.Y)) || (bo.Y == ssa.Value(ex) && isNilConst(bo.X))) {
						continue
					}
					// d is entered when (cond != neg); the companion is nil there iff the test is == on its true edge or != on its false edge
					if (bo.Op == token.EQL) != neg {
						nilTested[ex.Index] = true
					}
				}
			}
		}
		any, all := false, true
		for _, b := range h.Blocks {
			ret, isRet := b.Instrs[len(b.Instrs)-1].(*ssa.Return)
			if !isRet || x.Index >= len(ret.Results) {
				continue
			}
			any = true
			bm := a.in[b]
			if bm == 0 {
				continue
			}
			rr := retResults(ret)
			skip := false
			for ci := range nilTested {
				if ci < len(rr) {
					nonNil := len(rr[ci]) > 0
					for _, cv := range rr[ci] {
						switch cv.(type) {
						case *ssa.MakeInterface:
						default:
							nonNil = false
						}
					}
					if nonNil {
						skip = true // this return hands back a reply/error the caller has answered with already
					}
				}
			}
			if skip {
				continue
			}
			for _, rv := range rr[x.Index] {
				if _, isC := rv.(*ssa.Const); !isC {
					if _, isPhi := rv.(*ssa.Phi); !isPhi {
						// a computed value: non-zero when a dominating test of it says so, else either
						if K == 0 && a.knownNonZero(rv, b) {
							nzm |= bm
						} else {
							zm |= bm
							nzm |= bm
						}
						continue
					}
				}
				z, nz, ok2 := a.intEq(rv, K, bm, h, b, depth+1)
				if !ok2 {
					all = false
				}
				zm |= z
				nzm |= nz
			}
		}
		return m & zm, m & nzm, any && all
	}
	return 0, 0, false
}

// knownNonZero: block b is only entered when v != 0 (v > 0, !(v <= 0), v >= 1, ...).
func (a *arityFlow) knownNonZero(v ssa.Value, b *ssa.BasicBlock) bool {
	type edgeT struct{ from, to *ssa.BasicBlock }
	// every path into b passes an edge that excludes zero: walk the dominator chain, and through short-circuit
	// conditions (a || b leading away) by looking at each block with a single predecessor
	for d := b; d != nil && d.Idom() != nil; d = d.Idom() {
		id := d.Idom()
		if len(d.Preds) != 1 || d.Preds[0] != id {
			continue
		}
		cond, neg, ok := branchCond(id, d)
		if !ok {
			continue
		}
		bo, isBo := cond.(*ssa.BinOp)
		if !isBo {
			continue
		}
		var k int64
		op := bo.Op
		switch {
		case bo.X == v:
			kk, isK := constInt(bo.Y)
			if !isK {
				continue
			}
			k = kk
		case bo.Y == v:
			kk, isK := constInt(bo.X)
			if !isK {
				continue
			}
			k = kk
			switch op {
			case token.LSS:
				op = token.GTR
			case token.GTR:
				op = token.LSS
			case token.LEQ:
				op = token.GEQ
			case token.GEQ:
				op = token.LEQ
			}
		default:
			continue
		}
		truth := !neg // d is entered when cond == truth
		switch {
		case op == token.GTR && k >= 0 && truth, op == token.GEQ && k >= 1 && truth, op == token.NEQ && k == 0 && truth,
			op == token.LEQ && k >= 0 && !truth, op == token.LSS && k >= 1 && !truth, op == token.EQL && k == 0 && !truth,
			op == token.LSS && k <= 0 && truth, op == token.LEQ && k <= -1 && truth:
			return true
		}
	}
	return false
}

// storedRecordTypes: the names of the memdb struct types that make up stored values: the container types and every
// struct reachable from them through fields, pointers, slices, arrays and maps.
func (c *C) storedRecordTypes() map[string]bool {
	if c.storedTypesMemo != nil {
		return c.storedTypesMemo
	}
	out := map[string]bool{}
	seen := map[types.Type]bool{}
	var visit func(t types.Type, depth int)
	visit = func(t types.Type, depth int) {
		if t == nil || seen[t] || depth > 10 {
			return
		}
		seen[t] = true
		switch u := t.(type) {
		case *types.Pointer:
			visit(u.Elem(), depth+1)
		case *types.Slice:
			visit(u.Elem(), depth+1)
		case *types.Array:
			visit(u.Elem(), depth+1)
		case *types.Map:
			visit(u.Key(), depth+1)
			visit(u.Elem(), depth+1)
		case *types.Named:
			if u.Obj().Pkg() != nil && u.Obj().Pkg().Path() == ModPath+"/memdb" {
				if st, ok := u.Underlying().(*types.Struct); ok {
					out[u.Obj().Name()] = true
					for i := 0; i < st.NumFields(); i++ {
						visit(st.Field(i).Type(), depth+1)
					}
				}
			}
			if ta := u.TypeArgs(); ta != nil {
				for i := 0; i < ta.Len(); i++ {
					visit(ta.At(i), depth+1)
				}
			}
		case *types.Struct:
			for i := 0; i < u.NumFields(); i++ {
				visit(u.Field(i).Type(), depth+1)
			}
		}
	}
	sp := c.P.Pkg("memdb")
	if sp != nil {
		for _, m := range sp.Members {
			t, ok := m.(*ssa.Type)
			if !ok {
				continue
			}
			switch t.Name() {
			case "List", "Set", "Hash", "SortedSet", "Stream", "Btree", "Node", "ListNode", "SortedSetNode", "StreamID":
				visit(t.Type(), 0)
			}
		}
	}
	// instantiated generic containers met in function bodies
	for _, fn := range c.P.allFuncs("memdb") {
		for _, p := range fn.Params {
			if n, ok := derefNamed(p.Type()); ok && n.Obj().Pkg() != nil && n.Obj().Pkg().Path() == ModPath+"/memdb" {
				switch n.Obj().Name() {
				case "SortedSet", "Btree", "Node":
					visit(n, 0)
				}
			}
		}
	}
	c.storedTypesMemo = out
	return out
}
