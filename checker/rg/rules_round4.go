package rg

import (
	"fmt"
	"go/token"
	"go/types"
	"sort"
	"strings"

	"golang.org/x/tools/go/ssa"
)

// Rules added after the fourth round of seeded changes (see DESIGN.md 7.9). As before: structural necessary
// conditions, located by what the code does, never by text or position.

var _ = sort.Strings
var _ = types.Identical
var _ = token.ADD

// R22w: a deadline is dropped only together with a write of the key.
var rR22w = RuleRef{Name: "R22w", Doc: "a deadline is dropped only together with a write of its key: in a function that both writes a key of the keyspace (db.Set/SetIfExist/SetIfNotExist/Delete) and removes that key's deadline (DelTTL), every path through the DelTTL passes a write of the same key, before or after it. A path that drops the deadline and then leaves without the write (an NX/XX refusal, an error return) turns a rejected command into a PERSIST", Run: func(c *C) {
	delTTL := c.P.Func("memdb", "MemDb.DelTTL")
	if delTTL == nil {
		c.Undecided("R22w", "anchor DelTTL")
		return
	}
	n := 0
	for _, fn := range c.P.allFuncs("memdb") {
		written := map[string]bool{}
		var sites []*ssa.Call
		for _, b := range fn.Blocks {
			for _, in := range b.Instrs {
				ci, ok := in.(ssa.CallInstruction)
				if !ok {
					continue
				}
				if a := c.keyspaceAccess(ci); a != nil && a.Map == "db" && a.Write {
					written[ttlCanon(a.Key)] = true
				}
				if call, ok := in.(*ssa.Call); ok && callee(call) == delTTL {
					sites = append(sites, call)
				}
			}
		}
		any := false
		for _, s := range sites {
			if written[ttlCanon(s.Call.Args[1])] {
				any = true
			}
		}
		if !any {
			continue
		}
		tr1 := func(in ssa.Instruction, s Set) Set {
			ci, ok := in.(*ssa.Call)
			if !ok {
				return s
			}
			if a := c.keyspaceAccess(ci); a != nil && a.Map == "db" && a.Write {
				k := ttlCanon(a.Key)
				s["W|"+k] = true
				for f := range s {
					if strings.HasPrefix(f, "PD|") && strings.HasSuffix(f, "|"+k) {
						delete(s, f)
					}
				}
				return s
			}
			if callee(ci) == delTTL {
				k := ttlCanon(ci.Call.Args[1])
				if written[k] && !s["W|"+k] {
					s["PD|"+c.pos(ci.Pos())+"|"+k] = true
				}
			}
			return s
		}
		tr := func(in ssa.Instruction, states Set) (Set, bool) {
			if noReturnCall(in) {
				return nil, true
			}
			out := Set{}
			for e := range states {
				out[encState(tr1(in, decState(e)))] = true
			}
			return collapse(out), false
		}
		fl := &Flow{Fn: fn, Must: false, Entry: Set{"": true}, Transfer: tr}
		fl.Run()
		pending := map[string]bool{}
		for _, b := range fn.Blocks {
			if len(b.Instrs) == 0 {
				continue
			}
			ret, ok := b.Instrs[len(b.Instrs)-1].(*ssa.Return)
			if !ok {
				continue
			}
			st, live := fl.Before(ret)
			if !live {
				continue
			}
			for e := range st {
				for f := range decState(e) {
					if strings.HasPrefix(f, "PD|") {
						pending[f+" -> return at "+c.pos(ret.Pos())] = true
					}
				}
			}
		}
		ord := map[string]int{}
		for _, s := range sites {
			k := ttlCanon(s.Call.Args[1])
			if !written[k] {
				continue
			}
			n++
			con := "DelTTL(" + k + ") accompanies a write of the key"
			ord[con]++
			if ord[con] > 1 {
				con = fmt.Sprintf("%s#%d", con, ord[con])
			}
			var bad []string
			pre := "PD|" + c.pos(s.Pos()) + "|" + k
			for f := range pending {
				if strings.HasPrefix(f, pre) {
					bad = append(bad, "a path drops the deadline and leaves without writing the key"+f[len(pre):])
				}
			}
			sort.Strings(bad)
			c.Add("R22w", fnName(fn), con, s.Pos(), len(bad) == 0, strings.Join(bad, "; "))
		}
	}
	c.Count("R22w_sites", n)
	c.Min("R22w_sites", 8)
}}

// nilCollapsing: v is a copy idiom that yields nil for an empty source (append([]byte(nil), src...)), possibly
// re-sliced, chosen by a phi, or returned by a first-party helper.
func nilCollapsing(v ssa.Value, depth int, seen map[ssa.Value]bool) bool {
	if v == nil || seen[v] || depth > 3 {
		return false
	}
	seen[v] = true
	switch x := v.(type) {
	case *ssa.Call:
		if b, ok := x.Call.Value.(*ssa.Builtin); ok && b.Name() == "append" && len(x.Call.Args) == 2 {
			if isNilConst(x.Call.Args[0]) || phiWithNilEdge(x.Call.Args[0], map[ssa.Value]bool{}) {
				// append(nil, lit...) of a non-empty constant is never nil
				if k, ok := x.Call.Args[1].(*ssa.Const); ok && k.Value != nil && len(k.Value.ExactString()) > 2 {
					return false
				}
				// a base that is nil on some path (var old []byte, filled only when the key exists): the same collapse
				return true
			}
			return nilCollapsing(x.Call.Args[0], depth, seen)
		}
		// unsafe.Slice / unsafe.StringData style conversions: the data pointer of an empty string is nil
		if b, ok := x.Call.Value.(*ssa.Builtin); ok {
			switch b.Name() {
			case "Slice", "SliceData", "StringData", "String":
				return true
			}
		}
		if cf := x.Call.StaticCallee(); cf != nil && firstParty(cf) && cf.Blocks != nil && cf.Signature.Results().Len() == 1 {
			for _, b := range cf.Blocks {
				if ret, ok := b.Instrs[len(b.Instrs)-1].(*ssa.Return); ok && len(ret.Results) == 1 {
					if nilCollapsing(ret.Results[0], depth+1, seen) {
						return true
					}
				}
			}
		}
	case *ssa.Slice:
		return nilCollapsing(x.X, depth, seen)
	case *ssa.Parameter:
		// the payload is handed in (Send(key, val []byte)): what the call sites pass
		if simC == nil || x.Parent() == nil {
			return false
		}
		pi := -1
		for i, p := range x.Parent().Params {
			if p == x {
				pi = i
			}
		}
		for _, g := range simC.P.allFuncs("memdb", "server", "resp") {
			for _, b := range g.Blocks {
				for _, in := range b.Instrs {
					ci, ok := in.(ssa.CallInstruction)
					if !ok || callee(ci) != x.Parent() || pi < 0 || pi >= len(ci.Common().Args) {
						continue
					}
					if nilCollapsing(ci.Common().Args[pi], depth+1, seen) {
						return true
					}
				}
			}
		}
	case *ssa.Phi:
		for _, e := range x.Edges {
			if nilCollapsing(e, depth, seen) {
				return true
			}
		}
	case *ssa.ChangeType:
		return nilCollapsing(x.X, depth, seen)
	case *ssa.TypeAssert:
		return nilCollapsing(x.X, depth, seen)
	case *ssa.MakeInterface:
		return nilCollapsing(x.X, depth, seen)
	case *ssa.Extract:
		if ta, ok := x.Tuple.(*ssa.TypeAssert); ok && x.Index == 0 {
			return nilCollapsing(ta.X, depth, seen)
		}
	case *ssa.UnOp:
		// a field of a record built in this function (msg := &ChanMsg{val: payload}; ... msg.val.([]byte)): what was stored
		if fa, ok := x.X.(*ssa.FieldAddr); ok && x.Op == token.MUL {
			if al, ok := fa.X.(*ssa.Alloc); ok && al.Referrers() != nil {
				for _, r := range *al.Referrers() {
					fa2, ok := r.(*ssa.FieldAddr)
					if !ok || fa2.Field != fa.Field || fa2.Referrers() == nil {
						continue
					}
					for _, rr := range *fa2.Referrers() {
						if st, ok := rr.(*ssa.Store); ok && st.Addr == ssa.Value(fa2) && nilCollapsing(st.Val, depth, seen) {
							return true
						}
					}
				}
			}
		}
		// an element of a slice this function collected (vals = append(vals, copyOf(arg)); ...; db.Set(k, vals[i])):
		// what was put into the slice
		if ia, ok := x.X.(*ssa.IndexAddr); ok && x.Op == token.MUL {
			for _, e := range collectedElements(ia.X, map[ssa.Value]bool{}) {
				if nilCollapsing(e, depth+1, seen) {
					return true
				}
			}
		}
		// *(*[]byte)(unsafe.Pointer(&s)): a reinterpreted string header; the empty string has no data pointer
		if x.Op == token.MUL {
			if cv, ok := x.X.(*ssa.Convert); ok {
				if bt, ok := cv.X.Type().Underlying().(*types.Basic); ok && bt.Kind() == types.UnsafePointer {
					return true
				}
			}
		}
	case *ssa.Convert:
		if bt, ok := x.X.Type().Underlying().(*types.Basic); ok && bt.Kind() == types.UnsafePointer {
			return true
		}
	}
	return false
}

// phiWithNilEdge: a slice value that is the nil constant on some incoming path.
func phiWithNilEdge(v ssa.Value, seen map[ssa.Value]bool) bool {
	if seen[v] {
		return false
	}
	seen[v] = true
	phi, ok := v.(*ssa.Phi)
	if !ok {
		return false
	}
	for _, e := range phi.Edges {
		if isNilConst(e) || phiWithNilEdge(e, seen) {
			return true
		}
	}
	return false
}

// mayBeNilPointer: a pointer value that is, on some path, the nil constant (directly, through a phi, or as the result
// of a first-party helper that returns nil). Unknown values (parameters, loads) are not accused.
func mayBeNilPointer(v ssa.Value, depth int, seen map[ssa.Value]bool) bool {
	if v == nil || seen[v] || depth > 3 {
		return false
	}
	seen[v] = true
	switch x := v.(type) {
	case *ssa.Const:
		return x.Value == nil
	case *ssa.Phi:
		for _, e := range x.Edges {
			if mayBeNilPointer(e, depth, seen) {
				return true
			}
		}
	case *ssa.Call:
		if cf := x.Call.StaticCallee(); cf != nil && firstParty(cf) && cf.Blocks != nil && cf.Signature.Results().Len() == 1 {
			for _, b := range cf.Blocks {
				if ret, ok := b.Instrs[len(b.Instrs)-1].(*ssa.Return); ok && len(ret.Results) == 1 {
					if mayBeNilPointer(ret.Results[0], depth+1, seen) {
						return true
					}
				}
			}
		}
	case *ssa.Extract:
		if call, ok := x.Tuple.(*ssa.Call); ok {
			if cf := call.Call.StaticCallee(); cf != nil && firstParty(cf) && cf.Blocks != nil {
				// (whole, complete := push(..); if complete { use(whole) }): every use of this result sits behind tests of
				// boolean results of the same call; the returns that hand back the other truth value do not count
				guard := siblingGuards(x, call)
				for _, b := range cf.Blocks {
					if ret, ok := b.Instrs[len(b.Instrs)-1].(*ssa.Return); ok && x.Index < len(ret.Results) {
						rr := retResults(ret)
						excluded := false
						for gi, want := range guard {
							if gi >= len(rr) || len(rr[gi]) == 0 {
								continue
							}
							all := true
							for _, v := range rr[gi] {
								k, isC := v.(*ssa.Const)
								if !isC || k.Value == nil || (k.Value.ExactString() == "true") == want {
									all = false
								}
							}
							excluded = excluded || all
						}
						if excluded {
							continue
						}
						for _, rv := range rr[x.Index] {
							if mayBeNilPointer(rv, depth+1, seen) {
								return true
							}
						}
					}
				}
			}
		}
	}
	return false
}

// testedNonNil: block at lies behind a test `v != nil` of this very value (if errReply != nil { return errReply }).
func testedNonNil(v ssa.Value, at *ssa.BasicBlock) bool {
	for d := at; d != nil && d.Idom() != nil; d = d.Idom() {
		id := d.Idom()
		if len(d.Preds) != 1 || d.Preds[0] != id {
			continue
		}
		cond, neg, ok := branchCond(id, d)
		if !ok {
			continue
		}
		val := !neg
		bo, ok := cond.(*ssa.BinOp)
		if !ok || (bo.Op != token.EQL && bo.Op != token.NEQ) {
			continue
		}
		if (bo.X == v && isNilConst(bo.Y)) || (bo.Y == v && isNilConst(bo.X)) {
			if (bo.Op == token.NEQ) == val {
				return true
			}
		}
	}
	return false
}

// siblingGuards: the truth values of boolean results of `call` that every use of result `ex` of the same call lies behind
// (the intersection over the uses of ex of the tests that dominate them).
func siblingGuards(ex *ssa.Extract, call *ssa.Call) map[int]bool {
	if ex.Referrers() == nil {
		return nil
	}
	var common map[int]bool
	for _, r := range *ex.Referrers() {
		if _, dbg := r.(*ssa.DebugRef); dbg {
			continue
		}
		here := map[int]bool{}
		for d := r.Block(); d != nil && d.Idom() != nil; d = d.Idom() {
			id := d.Idom()
			if len(d.Preds) != 1 || d.Preds[0] != id {
				continue
			}
			cond, neg, ok := branchCond(id, d)
			if !ok {
				continue
			}
			for {
				u, isNot := cond.(*ssa.UnOp)
				if !isNot || u.Op != token.NOT {
					break
				}
				cond, neg = u.X, !neg
			}
			if e2, ok := cond.(*ssa.Extract); ok && e2.Tuple == ssa.Value(call) && isBoolType(e2.Type()) {
				here[e2.Index] = !neg
			}
		}
		if common == nil {
			common = here
		} else {
			for k, v := range common {
				if hv, ok := here[k]; !ok || hv != v {
					delete(common, k)
				}
			}
		}
	}
	return common
}

// R31: replies and arguments keep "empty" and "null" apart, and no reply is a typed nil.
var rR31 = RuleRef{Name: "R31", Doc: "null is written, never computed: (a) a pointer converted to the reply interface (resp.RedisData) is never the nil constant, directly, through a phi or as the result of a first-party helper that returns nil -- a typed-nil reply passes every `reply != nil` test of the connection loops and panics in ToBytes; (b) the payload handed to MakeBulkData, the values written to the keyspace and the elements of the argument vector built by the decoder are never a copy idiom that turns an empty value into nil (append([]byte(nil), src...)): BulkData encodes a nil payload as the null bulk, so a stored or sent empty string would read as absent", Run: func(c *C) {
	var replyIface types.Type
	if nt := c.P.NamedType("resp", "RedisData"); nt != nil {
		replyIface = nt
	}
	mkBulk := c.P.Func("resp", "MakeBulkData")
	if mkBulk == nil {
		c.Undecided("R31", "anchor MakeBulkData")
		return
	}
	nConv, nPay := 0, 0
	for _, fn := range c.P.allFuncs("memdb", "server", "resp") {
		ordC, ordP := 0, 0
		for _, b := range fn.Blocks {
			for _, in := range b.Instrs {
				switch x := in.(type) {
				case *ssa.MakeInterface:
					if replyIface == nil || !types.Identical(x.Type(), replyIface) {
						continue
					}
					if _, isPtr := x.X.Type().Underlying().(*types.Pointer); !isPtr {
						continue
					}
					nConv++
					// only conversions whose operand is not a plain constructor result are worth an obligation
					if _, isCall := x.X.(*ssa.Call); isCall && !mayBeNilPointer(x.X, 0, map[ssa.Value]bool{}) {
						continue
					}
					ordC++
					bad := mayBeNilPointer(x.X, 0, map[ssa.Value]bool{}) && !testedNonNil(x.X, x.Block())
					c.Add("R31", fnName(fn), fmt.Sprintf("reply conversion #%d of a %s is never a typed nil", ordC, x.X.Type().String()), x.Pos(), !bad, "the operand can be the nil pointer (a nil constant reaches it through a phi or a helper's return)")
				case *ssa.Call:
					var payload ssa.Value
					what := ""
					if callee(x) == mkBulk && len(x.Call.Args) == 1 {
						payload, what = x.Call.Args[0], "bulk payload"
					} else if a := c.keyspaceAccess(x); a != nil && a.Map == "db" && a.Write && len(x.Call.Args) >= 3 {
						payload, what = x.Call.Args[2], "stored value"
						if mi, ok := payload.(*ssa.MakeInterface); ok {
							payload = mi.X
						}
					} else if bi, ok := x.Call.Value.(*ssa.Builtin); ok && bi.Name() == "append" && len(x.Call.Args) == 2 && fn.Pkg != nil && fn.Pkg.Pkg.Name() == "resp" && x.Type().String() == "[][]byte" {
						// the argument vector built by the decoder: append(vec, elem) is compiled with elem in a one-element slice
						payload, what = variadicFirst(x.Call.Args[1]), "argument-vector element"
					}
					if payload == nil {
						continue
					}
					nPay++
					ordP++
					bad := nilCollapsing(payload, 0, map[ssa.Value]bool{})
					if !bad && isNilConst(payload) {
						continue // the written null
					}
					c.Add("R31", fnName(fn), fmt.Sprintf("%s #%d keeps empty apart from null", what, ordP), x.Pos(), !bad, "the value comes out of an idiom that yields nil for an empty source: append onto a slice that is nil (on some path), or a reinterpreted string header (unsafe)")
				}
			}
		}
	}
	c.Count("R31_reply_conversions", nConv)
	c.Count("R31_payloads", nPay)
	c.Min("R31_reply_conversions", 200)
	c.Min("R31_payloads", 40)
}}

// variadicFirst: the first element of the one-element slice go/ssa builds for append(s, e).
func variadicFirst(v ssa.Value) ssa.Value {
	sl, ok := v.(*ssa.Slice)
	if !ok {
		return v
	}
	al, ok := sl.X.(*ssa.Alloc)
	if !ok || al.Referrers() == nil {
		return v
	}
	for _, r := range *al.Referrers() {
		if ia, ok := r.(*ssa.IndexAddr); ok && ia.Referrers() != nil {
			for _, rr := range *ia.Referrers() {
				if st, ok := rr.(*ssa.Store); ok && st.Addr == ssa.Value(ia) {
					return st.Val
				}
			}
		}
	}
	return v
}

// isRendezvousTable: a struct of package server that holds a map to channels and a mutex (found by shape).
func isRendezvousTable(t types.Type) bool {
	nt, ok := derefNamed(t)
	if !ok || nt.Obj().Pkg() == nil || !strings.HasSuffix(nt.Obj().Pkg().Path(), "/server") {
		return false
	}
	st, ok := nt.Underlying().(*types.Struct)
	if !ok {
		return false
	}
	hasMap, hasMu := false, false
	for i := 0; i < st.NumFields(); i++ {
		ft := st.Field(i).Type()
		if mt, ok := ft.Underlying().(*types.Map); ok {
			if _, isChan := mt.Elem().Underlying().(*types.Chan); isChan {
				hasMap = true
			}
		}
		if strings.HasSuffix(ft.String(), "sync.Mutex") || strings.HasSuffix(ft.String(), "sync.RWMutex") {
			hasMu = true
		}
	}
	return hasMap && hasMu
}

// dispatchCallsIn: the calls in fn that reach the command dispatcher (the indirect call through command.Executor).
func (c *C) dispatchCallsIn(fn *ssa.Function) []*ssa.Call {
	var out []*ssa.Call
	for _, b := range fn.Blocks {
		for _, in := range b.Instrs {
			call, ok := in.(*ssa.Call)
			if !ok {
				continue
			}
			for _, d := range c.Facts.Dispatchers {
				if d == call {
					out = append(out, call)
					break
				}
				if cf := callee(call); cf != nil && firstParty(cf) && (cf == d.Parent() || callsTransitively(cf, d.Parent(), 0)) {
					out = append(out, call)
					break
				}
			}
		}
	}
	return out
}

// R16e: every committed entry is executed, whoever proposed it.
var rR16e = RuleRef{Name: "R16e", Doc: "replicas apply the same history: in the apply loop, whether a committed entry reaches the dispatcher never depends on the proposal rendezvous table (which only says whether a client of THIS node waits for the answer). Every branch of the per-entry loop that can lead to the next entry without executing the current one is examined; its condition may look at the entry, never at the table", Run: func(c *C) {
	fn := c.applyLoop()
	if fn == nil {
		c.Undecided("R16e", "the apply loop (the server function that receives RaftCommit and reaches the dispatcher)")
		return
	}
	calls := c.dispatchCallsIn(fn)
	if len(calls) == 0 {
		c.Undecided("R16e", "the dispatcher call inside the apply loop")
		return
	}
	loops := naturalLoops(fn)
	n := 0
	for _, d := range calls {
		// innermost loop around the call
		var head *ssa.BasicBlock
		var body map[*ssa.BasicBlock]bool
		for h, bd := range loops {
			if bd[d.Block()] && (body == nil || len(bd) < len(body)) {
				head, body = h, bd
			}
		}
		if head == nil {
			c.Add("R16e", fnName(fn), "the dispatcher call sits in the per-entry loop", d.Pos(), false, "no loop around the dispatcher call")
			continue
		}
		reach := func(from, to, avoid *ssa.BasicBlock) bool {
			seen := map[*ssa.BasicBlock]bool{}
			stack := []*ssa.BasicBlock{from}
			for len(stack) > 0 {
				x := stack[len(stack)-1]
				stack = stack[:len(stack)-1]
				if x == to {
					return true
				}
				if seen[x] || !body[x] || x == avoid {
					continue
				}
				seen[x] = true
				stack = append(stack, x.Succs...)
			}
			return false
		}
		var bad []string
		deciders := 0
		for b := range body {
			iff, ok := b.Instrs[len(b.Instrs)-1].(*ssa.If)
			if !ok || b == d.Block() {
				continue
			}
			// is the current entry still unexecuted here? the call must be reachable from b without passing the header
			if b != head && !reach(b, d.Block(), head) {
				continue
			}
			skips := false
			for _, s := range b.Succs {
				if s != d.Block() && body[s] && reach(s, head, d.Block()) {
					skips = true
				}
				if !body[s] && b != head {
					// leaving the loop with entries unexecuted is the same question
					skips = true
				}
			}
			if !skips {
				continue
			}
			deciders++
			backslice(iff.Cond, func(v ssa.Value) bool {
				if call, ok := v.(*ssa.Call); ok {
					for _, a := range call.Call.Args {
						if isRendezvousTable(a.Type()) {
							bad = append(bad, "the branch at "+c.pos(iff.Pos())+" can skip the entry and its condition derives from "+canon(call))
						}
					}
				}
				return true
			})
		}
		n++
		c.Add("R16e", fnName(fn), "whether an entry is executed does not depend on the rendezvous table", d.Pos(), len(bad) == 0, strings.Join(uniq(bad), "; "))
		_ = deciders
	}
	c.Count("R16e_dispatch_sites", n)
	c.Min("R16e_dispatch_sites", 1)
}}

// R24u: one unit for deadlines.
var rR24u = RuleRef{Name: "R24u", Doc: "deadlines and the clock meet in one unit: every clock reading (time.Time.Unix/UnixMilli/UnixMicro/UnixNano) that is compared with, subtracted from or added into a deadline (a TTLInfo integer field, SetTTL's deadline parameter, an argument handed to SetTTL) uses the same method. A comparison of a deadline kept in seconds with a millisecond clock makes every key with a deadline look expired (or none)", Run: func(c *C) {
	setTTL := c.P.Func("memdb", "MemDb.SetTTL")
	ttlInfo := c.P.NamedType("memdb", "TTLInfo")
	if setTTL == nil || ttlInfo == nil {
		c.Undecided("R24u", "anchors SetTTL / TTLInfo")
		return
	}
	clockMethod := func(v ssa.Value) string {
		call, ok := v.(*ssa.Call)
		if !ok {
			return ""
		}
		cf := call.Call.StaticCallee()
		if cf == nil || cf.Pkg == nil || cf.Pkg.Pkg.Path() != "time" || cf.Signature.Recv() == nil {
			return ""
		}
		switch cf.Name() {
		case "Unix", "UnixMilli", "UnixMicro", "UnixNano":
			return cf.Name()
		}
		return ""
	}
	isDeadlineSource := func(v ssa.Value) bool {
		switch x := v.(type) {
		case *ssa.UnOp:
			if fa, ok := x.X.(*ssa.FieldAddr); ok && x.Op == token.MUL {
				if nt, ok := derefNamed(fa.X.Type()); ok && nt == ttlInfo {
					if b, ok := x.Type().Underlying().(*types.Basic); ok && b.Info()&types.IsInteger != 0 {
						return true
					}
				}
			}
		case *ssa.Parameter:
			if x.Parent() == setTTL {
				if b, ok := x.Type().Underlying().(*types.Basic); ok && b.Info()&types.IsInteger != 0 {
					return true
				}
			}
		}
		return false
	}
	derivesDeadline := func(v ssa.Value) bool {
		found := false
		backslice(v, func(x ssa.Value) bool {
			if isDeadlineSource(x) {
				found = true
			}
			if _, isCall := x.(*ssa.Call); isCall {
				return false
			}
			return !found
		})
		return found
	}
	type site struct {
		fn     *ssa.Function
		call   *ssa.Call
		method string
		how    string
	}
	var sites []site
	seenSite := map[*ssa.Call]bool{}
	add := func(fn *ssa.Function, k *ssa.Call, how string) {
		if !seenSite[k] {
			seenSite[k] = true
			sites = append(sites, site{fn, k, clockMethod(k), how})
		}
	}
	clocksIn := func(v ssa.Value) []*ssa.Call {
		var out []*ssa.Call
		backslice(v, func(x ssa.Value) bool {
			if clockMethod(x) != "" {
				out = append(out, x.(*ssa.Call))
				return false
			}
			return true
		})
		return out
	}
	for _, fn := range c.P.allFuncs("memdb") {
		for _, b := range fn.Blocks {
			for _, in := range b.Instrs {
				switch x := in.(type) {
				case *ssa.BinOp:
					for i, side := range []ssa.Value{x.X, x.Y} {
						other := []ssa.Value{x.Y, x.X}[i]
						ks := clocksIn(side)
						if len(ks) > 0 && derivesDeadline(other) {
							for _, k := range ks {
								add(fn, k, "meets a deadline in "+x.Op.String())
							}
						}
					}
				case *ssa.Call:
					if callee(x) == setTTL && len(x.Call.Args) >= 3 {
						for _, k := range clocksIn(x.Call.Args[2]) {
							add(fn, k, "builds the deadline handed to SetTTL")
						}
					}
				case *ssa.Store:
					if fa, ok := x.Addr.(*ssa.FieldAddr); ok {
						if nt, ok := derefNamed(fa.X.Type()); ok && nt == ttlInfo {
							for _, k := range clocksIn(x.Val) {
								add(fn, k, "builds the deadline stored in TTLInfo")
							}
						}
					}
				}
			}
		}
	}
	// deadlines computed into a local first (ttl := now + n; ... SetTTL(key, ttl)) are found through the backslice above
	count := map[string]int{}
	for _, s := range sites {
		count[s.method]++
	}
	major, best := "", -1
	tie := false
	for m, n := range count {
		if n > best {
			major, best, tie = m, n, false
		} else if n == best {
			tie = true
		}
	}
	ord := map[string]int{}
	for _, s := range sites {
		con := "clock reading that " + s.how + " uses the deadline unit"
		key := fnName(s.fn) + con
		ord[key]++
		if ord[key] > 1 {
			con = fmt.Sprintf("%s#%d", con, ord[key])
		}
		ok := !tie && s.method == major
		c.Add("R24u", fnName(s.fn), con, s.call.Pos(), ok, fmt.Sprintf("reads the clock with %s; the other %d deadline sites use %s", s.method, best, major))
	}
	c.Count("R24u_sites", len(sites))
	c.Min("R24u_sites", 5)
}}

// R16f: a decoded log entry gets a record of its own.
var rR16f = RuleRef{Name: "R16f", Doc: "committed entries do not share memory: every decode of the standard library's encoding packages (json.Unmarshal, gob/json Decoder.Decode) on the raft/apply path decodes into a record allocated by the decoding function itself, and when the decode sits in a loop, allocated in that loop iteration. encoding/json reuses the backing arrays of a record it is handed again, so entries decoded into one scratch record and published together overwrite each other", Run: func(c *C) {
	n := 0
	for _, fn := range c.P.allFuncs("raftexample", "server") {
		if fn.Blocks == nil {
			continue
		}
		var loops map[*ssa.BasicBlock]map[*ssa.BasicBlock]bool
		ord := 0
		for _, b := range fn.Blocks {
			for _, in := range b.Instrs {
				call, ok := in.(*ssa.Call)
				if !ok {
					continue
				}
				cf := call.Call.StaticCallee()
				if cf == nil || cf.Pkg == nil || !strings.HasPrefix(cf.Pkg.Pkg.Path(), "encoding/") {
					continue
				}
				var target ssa.Value
				switch {
				case cf.Name() == "Unmarshal" && len(call.Call.Args) == 2:
					target = call.Call.Args[1]
				case cf.Name() == "Decode" && cf.Signature.Recv() != nil && len(call.Call.Args) == 2:
					target = call.Call.Args[1]
				default:
					continue
				}
				if loops == nil {
					loops = naturalLoops(fn)
				}
				var body map[*ssa.BasicBlock]bool
				for _, bd := range loops {
					if bd[b] && (body == nil || len(bd) < len(body)) {
						body = bd
					}
				}
				if mi, ok := target.(*ssa.MakeInterface); ok {
					target = mi.X
				}
				n++
				ord++
				fresh := false
				why := "the target is not a record allocated in this function: a caller may hand the same record in again"
				if al, ok := target.(*ssa.Alloc); ok {
					fresh = body == nil || body[al.Block()]
					why = "the target record is allocated at " + c.pos(al.Pos()) + ", outside the loop, and handed to the decoder on every iteration"
				} else if cl, ok := target.(*ssa.Call); ok && (body == nil || body[cl.Block()]) && returnsFresh(cl.Call.StaticCallee(), 0) {
					fresh = true
				}
				c.Add("R16f", fnName(fn), fmt.Sprintf("decode #%d fills a record of its own", ord), call.Pos(), fresh, why)
			}
		}
	}
	c.Count("R16f_decodes", n)
	c.Min("R16f_decodes", 1)
}}

// R10t: only the dispatcher decides which commands exist.
var rR10t = RuleRef{Name: "R10t", Doc: "one place decides what a command name means: the command table (the package-level map to *command) is looked up only where the entry found is dispatched (a function that contains the indirect call through command.Executor, or a helper called only from such functions). A second lookup elsewhere -- a pre-validation in the cluster handler, say -- disagrees with the dispatcher about every command the dispatcher handles before it consults the table (SELECT), so the two modes stop accepting the same commands", Run: func(c *C) {
	cmdT := c.P.NamedType("memdb", "command")
	if cmdT == nil {
		c.Undecided("R10t", "anchor memdb.command")
		return
	}
	isTable := func(v ssa.Value) bool {
		u, ok := v.(*ssa.UnOp)
		if !ok || u.Op != token.MUL {
			return false
		}
		g, ok := u.X.(*ssa.Global)
		if !ok {
			return false
		}
		mt, ok := g.Type().Underlying().(*types.Pointer).Elem().Underlying().(*types.Map)
		if !ok {
			return false
		}
		nt, ok := derefNamed(mt.Elem())
		return ok && nt == cmdT
	}
	dispatches := map[*ssa.Function]bool{}
	for _, d := range c.Facts.Dispatchers {
		dispatches[d.Parent()] = true
	}
	callers := map[*ssa.Function][]*ssa.Function{}
	for _, fn := range c.P.allFuncs(firstPartyPkgs...) {
		for _, b := range fn.Blocks {
			for _, in := range b.Instrs {
				if ci, ok := in.(ssa.CallInstruction); ok {
					if cf := callee(ci); cf != nil && firstParty(cf) {
						callers[cf] = append(callers[cf], fn)
					}
				}
			}
		}
	}
	var okFn func(fn *ssa.Function, depth int) bool
	okFn = func(fn *ssa.Function, depth int) bool {
		if dispatches[fn] {
			return true
		}
		if depth > 2 || len(callers[fn]) == 0 {
			return false
		}
		for _, cl := range callers[fn] {
			if !okFn(cl, depth+1) {
				return false
			}
		}
		return true
	}
	n := 0
	for _, fn := range c.P.allFuncs("memdb", "server") {
		ord := 0
		for _, b := range fn.Blocks {
			for _, in := range b.Instrs {
				lk, ok := in.(*ssa.Lookup)
				if !ok || !isTable(lk.X) {
					continue
				}
				n++
				ord++
				c.Add("R10t", fnName(fn), fmt.Sprintf("command-table lookup #%d is made by the dispatcher", ord), lk.Pos(), okFn(fn, 0), "this function looks a command name up but does not dispatch the entry it finds (nor is it a helper of a function that does)")
			}
		}
	}
	c.Count("R10t_lookups", n)
	c.Min("R10t_lookups", 1)
}}

// R19g: a goroutine started in a loop does not share the loop's variables.
var rR19g = RuleRef{Name: "R19g", Doc: "goroutines started inside a loop get their own copies: a closure handed to `go` (or to defer) inside a loop captures no variable cell that is allocated outside that loop and assigned inside it. The module declares go 1.19, so a range/for variable is ONE cell for the whole loop: every goroutine started in the loop that captures it sees the value of the last iteration (the per-channel unsubscribe watchers of SUBSCRIBE would all unsubscribe the last channel)", Run: func(c *C) {
	n := 0
	for _, fn := range c.P.allFuncs("memdb", "server", "resp", "raftexample") {
		if fn.Blocks == nil {
			continue
		}
		var loops map[*ssa.BasicBlock]map[*ssa.BasicBlock]bool
		ord := 0
		for _, b := range fn.Blocks {
			for _, in := range b.Instrs {
				var fnVal ssa.Value
				switch x := in.(type) {
				case *ssa.Go:
					fnVal = x.Call.Value
				default:
					continue
				}
				mc, ok := fnVal.(*ssa.MakeClosure)
				if !ok {
					continue
				}
				if loops == nil {
					loops = naturalLoops(fn)
				}
				var bad []string
				inLoop := false
				for _, body := range loops {
					if !body[b] {
						continue
					}
					inLoop = true
					for _, bv := range mc.Bindings {
						al, ok := bv.(*ssa.Alloc)
						if !ok || body[al.Block()] || al.Referrers() == nil {
							continue
						}
						for _, r := range *al.Referrers() {
							if st, ok := r.(*ssa.Store); ok && st.Addr == ssa.Value(al) && body[st.Block()] {
								bad = append(bad, "captures "+al.Comment+" (one cell for the whole loop, assigned at "+c.pos(st.Pos())+")")
							}
						}
					}
				}
				if !inLoop {
					continue
				}
				n++
				ord++
				c.Add("R19g", fnName(fn), fmt.Sprintf("goroutine #%d started in a loop captures no variable the loop assigns", ord), in.Pos(), len(bad) == 0, strings.Join(uniq(bad), "; "))
			}
		}
	}
	c.Count("R19g_goroutines_in_loops", n)
	c.Min("R19g_goroutines_in_loops", 1)
}}

// R18c: the cluster filter is as case-blind as the dispatcher.
var rR18c = RuleRef{Name: "R18c", Doc: "the cluster command filter recognises a command in every spelling the dispatcher accepts: each comparison of the command name with a constant name, and each lookup of it in a table of names, inside the filter (and its helpers) is made on a case-folded value (strings.ToLower/ToUpper in its derivation, or strings.EqualFold). The dispatcher lower-cases the name, so a filter that compares the raw bytes lets SUBSCRIBE through where it stops subscribe", Run: func(c *C) {
	filter := c.P.Func("server", "ClusterCmdFilter")
	if filter == nil {
		c.Undecided("R18c", "anchor server.ClusterCmdFilter")
		return
	}
	scope := helperScope(filter, 2)
	inScope := map[*ssa.Function]bool{}
	for _, f := range scope {
		inScope[f] = true
	}
	var folded func(v ssa.Value, depth int) bool
	folded = func(v ssa.Value, depth int) bool {
		if depth > 3 {
			return false
		}
		found, viaParam := false, []*ssa.Parameter{}
		backslice(v, func(x ssa.Value) bool {
			switch y := x.(type) {
			case *ssa.Call:
				if cf := y.Call.StaticCallee(); cf != nil && cf.Pkg != nil && (cf.Pkg.Pkg.Path() == "strings" || cf.Pkg.Pkg.Path() == "bytes") && (cf.Name() == "ToLower" || cf.Name() == "ToUpper") {
					found = true
					return false
				}
				return true
			case *ssa.Parameter:
				viaParam = append(viaParam, y)
			}
			return !found
		})
		if found {
			return true
		}
		// a helper's parameter: every caller in the filter's scope hands over a folded value
		for _, p := range viaParam {
			pf := p.Parent()
			if pf == filter || !inScope[pf] {
				continue
			}
			idx := -1
			for i, q := range pf.Params {
				if q == p {
					idx = i
				}
			}
			all, any := true, false
			for _, f := range scope {
				for _, b := range f.Blocks {
					for _, in := range b.Instrs {
						if ci, ok := in.(ssa.CallInstruction); ok && callee(ci) == pf && idx >= 0 && idx < len(ci.Common().Args) {
							any = true
							if !folded(ci.Common().Args[idx], depth+1) {
								all = false
							}
						}
					}
				}
			}
			if any && all {
				return true
			}
		}
		return false
	}
	isName := func(s string) bool {
		_, ok := c.Facts.Executors[strings.ToLower(s)]
		return ok
	}
	n := 0
	for _, fn := range scope {
		ord := 0
		for _, b := range fn.Blocks {
			for _, in := range b.Instrs {
				var subject ssa.Value
				what := ""
				switch x := in.(type) {
				case *ssa.BinOp:
					if x.Op != token.EQL && x.Op != token.NEQ {
						continue
					}
					if s, ok := constString(x.X); ok && isName(s) {
						subject, what = x.Y, "comparison with \""+s+"\""
					} else if s, ok := constString(x.Y); ok && isName(s) {
						subject, what = x.X, "comparison with \""+s+"\""
					}
				case *ssa.Lookup:
					if g, key := lookupOfGlobalMap(x); g != nil {
						if ents, ok := c.globalMapInit(g); ok {
							for _, e := range ents {
								if s, ok := constString(e.Key); ok && isName(s) {
									subject, what = key, "lookup in the table "+g.Name()
								}
							}
						}
					}
				}
				if subject == nil {
					continue
				}
				n++
				ord++
				c.Add("R18c", fnName(fn), fmt.Sprintf("%s (#%d) is made on the case-folded name", what, ord), in.Pos(), folded(subject, 0), "the value compared is not derived through strings.ToLower/ToUpper: other spellings of the command pass the filter")
			}
		}
	}
	c.Count("R18c_name_tests", n)
	c.Min("R18c_name_tests", 1)
}}

// counterDelta: in moves one of the mirrored counters by a constant; which pair, and by how much.
func counterDelta(in ssa.Instruction) (*counterPair, int64, bool) {
	var fa *ssa.FieldAddr
	delta, okDelta := int64(0), false
	switch x := in.(type) {
	case *ssa.Store:
		f, ok := x.Addr.(*ssa.FieldAddr)
		if !ok {
			return nil, 0, false
		}
		fa = f
		if bo, ok := x.Val.(*ssa.BinOp); ok && (bo.Op == token.ADD || bo.Op == token.SUB) {
			if k, ok := bo.Y.(*ssa.Const); ok {
				if v, ok := constInt(k); ok {
					delta, okDelta = v, true
					if bo.Op == token.SUB {
						delta = -v
					}
				}
			}
		}
	case *ssa.Call:
		cf := x.Call.StaticCallee()
		if cf == nil || cf.Pkg == nil || cf.Pkg.Pkg.Path() != "sync/atomic" || !strings.HasPrefix(cf.Name(), "Add") || len(x.Call.Args) != 2 {
			return nil, 0, false
		}
		f, ok := x.Call.Args[0].(*ssa.FieldAddr)
		if !ok {
			return nil, 0, false
		}
		fa = f
		if k, ok := x.Call.Args[1].(*ssa.Const); ok {
			if v, ok := constInt(k); ok {
				delta, okDelta = v, true
			}
		}
	default:
		return nil, 0, false
	}
	for i := range counterPairs {
		if namedOf(fa.X.Type()) == counterPairs[i].cntType && fieldName(fa) == counterPairs[i].cntField {
			return &counterPairs[i], delta, okDelta
		}
	}
	return nil, 0, false
}

// R20m: the converse of R20n -- every entry that enters or leaves a mirrored table is counted.
var rR20m = RuleRef{Name: "R20m", Doc: "no uncounted entry: every insertion into a table whose size is mirrored by a counter (the shard maps / ConcurrentMap.count, Chan.conns / Chan.numSubs) that is not an overwrite of an entry a successful lookup just found goes with a +1 of the counter in the region its guard dominates, and every delete of an entry goes with a -1. R20n ties each counter update to a table event; this rule ties each table event to a counter update, so a rewrite that drops the atomic.AddInt64 from one insert path (Len() then runs behind, later negative, and make(.., 0, Len()) panics) is a missing obligation, not a silent pass", Run: func(c *C) {
	c.ensureCounterPairs()
	n := 0
	for _, fn := range c.P.allFuncs("memdb") {
		if fn.Blocks == nil {
			continue
		}
		ord := 0
		for _, b := range fn.Blocks {
			for _, in := range b.Instrs {
				var tbl, key ssa.Value
				want := int64(0)
				switch x := in.(type) {
				case *ssa.MapUpdate:
					tbl, key, want = x.Map, x.Key, 1
				case *ssa.Call:
					if bi, ok := x.Call.Value.(*ssa.Builtin); ok && bi.Name() == "delete" && len(x.Call.Args) == 2 {
						tbl, key, want = x.Call.Args[0], x.Call.Args[1], -1
					}
				}
				if tbl == nil {
					continue
				}
				var pair *counterPair
				if _, isMap := tbl.Type().Underlying().(*types.Map); isMap {
					for i := range counterPairs {
						if c.isMirroredTable(tbl, &counterPairs[i]) {
							pair = &counterPairs[i]
						}
					}
				}
				if pair == nil {
					continue
				}
				// the closest dominating comma-ok lookup of the same entry
				found, gTruth := false, false
				var gBlock *ssa.BasicBlock
				for d := b; d != nil && d.Idom() != nil && !found; d = d.Idom() {
					id := d.Idom()
					if len(d.Preds) != 1 || d.Preds[0] != id {
						continue
					}
					cond, neg, ok := branchCond(id, d)
					if !ok {
						continue
					}
					for {
						u, isNot := cond.(*ssa.UnOp)
						if !isNot || u.Op != token.NOT {
							break
						}
						cond, neg = u.X, !neg
					}
					cond, neg = stripBoolCompare(cond, neg)
					mc, kc, _, ok := commaOkLookup(cond)
					if !ok || mc != canon(tbl) || kc != canon(key) {
						continue
					}
					found, gTruth, gBlock = true, !neg, d
				}
				if want == 1 && found && gTruth {
					continue // overwrite of an entry that is there: the size does not change
				}
				n++
				ord++
				what := map[int64]string{1: "insertion into", -1: "delete from"}[want]
				counted := false
				for _, b2 := range fn.Blocks {
					if found && !gBlock.Dominates(b2) {
						continue
					}
					for _, i2 := range b2.Instrs {
						if p2, d2, ok := counterDelta(i2); ok && p2 == pair && d2 == want {
							counted = true
						}
					}
				}
				// a delete inside a loop that empties the table is paired with a reset of the counter
				if !counted && want == -1 {
					for _, b2 := range fn.Blocks {
						for _, i2 := range b2.Instrs {
							if st, ok := i2.(*ssa.Store); ok {
								if f, ok := st.Addr.(*ssa.FieldAddr); ok && namedOf(f.X.Type()) == pair.cntType && fieldName(f) == pair.cntField {
									if k, ok := st.Val.(*ssa.Const); ok {
										if v, ok := constInt(k); ok && v == 0 {
											counted = true
										}
									}
								}
							}
						}
					}
				}
				c.Add("R20m", fnName(fn), fmt.Sprintf("%s %s.%s (#%d) is counted in %s.%s", what, pair.mapType, pair.mapField, ord, pair.cntType, pair.cntField), in.Pos(), counted, "no matching update of the counter in the region this table event's guard dominates")
			}
		}
	}
	c.Count("R20m_table_events", n)
	c.Min("R20m_table_events", 4)
}}

// sharedRecordTypes: the struct types of memdb/server that more than one goroutine can reach: everything reachable
// through typed fields from server.Manager, plus every struct that carries its own mutex.
func (c *C) sharedRecordTypes() map[*types.Named]bool {
	out := map[*types.Named]bool{}
	var visit func(t types.Type, depth int)
	visit = func(t types.Type, depth int) {
		if depth > 8 {
			return
		}
		switch u := t.(type) {
		case *types.Pointer:
			visit(u.Elem(), depth+1)
		case *types.Slice:
			visit(u.Elem(), depth+1)
		case *types.Array:
			visit(u.Elem(), depth+1)
		case *types.Map:
			visit(u.Elem(), depth+1)
		case *types.Named:
			if u.Obj().Pkg() == nil || !strings.HasPrefix(u.Obj().Pkg().Path(), ModPath) {
				return
			}
			st, ok := u.Underlying().(*types.Struct)
			if !ok || out[u] {
				return
			}
			out[u] = true
			for i := 0; i < st.NumFields(); i++ {
				visit(st.Field(i).Type(), depth+1)
			}
		}
	}
	if m := c.P.NamedType("server", "Manager"); m != nil {
		visit(m, 0)
	}
	for _, pk := range []string{"memdb", "server"} {
		sp := c.P.Pkg(pk)
		if sp == nil {
			continue
		}
		for _, mem := range sp.Members {
			t, ok := mem.(*ssa.Type)
			if !ok {
				continue
			}
			nt, ok := t.Type().(*types.Named)
			if !ok {
				continue
			}
			st, ok := nt.Underlying().(*types.Struct)
			if !ok {
				continue
			}
			for i := 0; i < st.NumFields(); i++ {
				fs := st.Field(i).Type().String()
				if strings.HasSuffix(fs, "sync.Mutex") || strings.HasSuffix(fs, "sync.RWMutex") {
					out[nt] = true
				}
			}
		}
	}
	return out
}

// R6w: shared records are written in their constructor, under their own mutex, or atomically.
var rR6w = RuleRef{Name: "R6w", Doc: "no unsynchronised write to a record that several goroutines reach: in code that runs while clients are served (reachable from a connection handler, an executor or the apply loop) and outside the function that allocates the record, a field of a shared record (everything reachable through typed fields from server.Manager -- the database slice, MemDb, ConcurrentMap and its shards, Locks, the Pub/Sub tables -- and every struct that carries a mutex) and the elements of a slice or map held in such a field are written only while a mutex of that record (or of the record that owns it) is held in write mode, or through sync/atomic. A memo field updated on a lock-free fast path, or a table slot filled lazily on first use, is a data race between connection goroutines", Run: func(c *C) {
	shared := c.sharedRecordTypes()
	la := c.lockAn()
	reach := c.requestReach()
	n := 0
	// a helper that every caller calls with a mutex held in write mode
	var callersHoldMutex func(fn *ssa.Function, depth int) bool
	callersHoldMutex = func(fn *ssa.Function, depth int) bool {
		if depth > 2 {
			return false
		}
		any := false
		for _, g := range c.P.allFuncs("memdb", "server") {
			if g.Blocks == nil || !reach[g] {
				continue
			}
			var glf *LockFlow
			for _, gb := range g.Blocks {
				for _, gi := range gb.Instrs {
					ci, isCall := gi.(ssa.CallInstruction)
					if !isCall || callee(ci) != fn {
						continue
					}
					if _, isGo := gi.(*ssa.Go); isGo {
						return false
					}
					any = true
					if glf == nil {
						glf = la.flow(g)
					}
					held, live := glf.Held(gi)
					good := !live
					for _, h := range held {
						if h.Class != "stripe" && h.Mode == "W" {
							good = true
						}
					}
					if !good && g.Parent() == nil && callersHoldMutex(g, depth+1) {
						good = true
					}
					if !good {
						return false
					}
				}
			}
		}
		return any
	}
	for _, fn := range c.P.allFuncs("memdb", "server") {
		if fn.Blocks == nil {
			continue
		}
		// start-up code (not reachable from a connection handler, an executor or the apply loop) runs before the
		// goroutines that share the records exist
		if !reach[fn] {
			continue
		}
		var lf *LockFlow
		ord := 0
		for _, b := range fn.Blocks {
			for _, in := range b.Instrs {
				var rec ssa.Value
				var fld string
				how := ""
				fieldOf := func(v ssa.Value) (ssa.Value, string, bool) {
					fa, ok := v.(*ssa.FieldAddr)
					if !ok {
						return nil, "", false
					}
					nt, ok := derefNamed(fa.X.Type())
					if !ok || !shared[nt] {
						return nil, "", false
					}
					return fa.X, nt.Obj().Name() + "." + fieldName(fa), true
				}
				loadedField := func(v ssa.Value) (ssa.Value, string, bool) {
					if u, ok := v.(*ssa.UnOp); ok && u.Op == token.MUL {
						return fieldOf(u.X)
					}
					return nil, "", false
				}
				switch x := in.(type) {
				case *ssa.Store:
					if r, f, ok := fieldOf(x.Addr); ok {
						rec, fld, how = r, f, "assignment to"
					} else if ia, ok := x.Addr.(*ssa.IndexAddr); ok {
						if r, f, ok := loadedField(ia.X); ok {
							rec, fld, how = r, f, "element store into"
						}
					}
				case *ssa.MapUpdate:
					if r, f, ok := loadedField(x.Map); ok {
						rec, fld, how = r, f, "map insertion into"
					}
				case *ssa.Call:
					if bi, ok := x.Call.Value.(*ssa.Builtin); ok && bi.Name() == "delete" && len(x.Call.Args) == 2 {
						if r, f, ok := loadedField(x.Call.Args[0]); ok {
							rec, fld, how = r, f, "map delete from"
						}
					}
				}
				if rec == nil {
					continue
				}
				// the constructor: the record is allocated in this function
				fresh := false
				backslice(rec, func(v ssa.Value) bool {
					switch y := v.(type) {
					case *ssa.Alloc:
						fresh = true
						return false
					case *ssa.Call:
						if returnsFresh(y.Call.StaticCallee(), 0) {
							fresh = true
						}
						return false
					case *ssa.Phi, *ssa.ChangeType:
						return true
					}
					return false
				})
				if fresh {
					continue
				}
				n++
				ord++
				if lf == nil {
					lf = la.flow(fn)
				}
				held, live := lf.Held(in)
				ok := !live
				var hs []string
				for _, h := range held {
					hs = append(hs, h.Class+" "+h.Mode)
					if h.Class != "stripe" && h.Mode == "W" {
						ok = true
					}
				}
				// a closure or helper that runs with its caller's mutex held
				if !ok {
					if e := la.closureEntry[fn]; e != nil {
						for t := range e {
							if h, isL := parseTok(t); isL && h.Class != "stripe" && h.Mode == "W" {
								ok = true
							}
						}
					}
				}
				if !ok && fn.Parent() == nil && callersHoldMutex(fn, 0) {
					ok = true
				}
				c.Add("R6w", fnName(fn), fmt.Sprintf("%s %s (#%d) is made under the record's mutex", how, fld, ord), in.Pos(), ok, "no mutex is held in write mode here (held: ["+strings.Join(hs, ", ")+"]) and the record was not allocated in this function")
			}
		}
	}
	c.Count("R6w_shared_writes", n)
	c.Min("R6w_shared_writes", 5)
}}

// R17m: only the grammar's metacharacters are special.
var rR17m = RuleRef{Name: "R17m", Doc: "the matcher's alphabet of special bytes is the documented one: every byte constant a PATTERN byte is compared with (in the matcher and its helpers, if/switch alike) is one of ? * [ ] - ^ and the backslash. A comparison with any other constant ('!' as a second negation mark, say) gives a literal byte a meaning the grammar does not have, so a pattern containing it matches the wrong keys", Run: func(c *C) {
	pm := c.P.Func("util", "PattenMatch")
	if pm == nil || len(pm.Params) < 1 {
		c.Undecided("R17m", "anchor util.PattenMatch")
		return
	}
	grammar := map[int64]bool{'?': true, '*': true, '[': true, ']': true, '-': true, '^': true, '\\': true}
	scope := helperScope(pm, 3)
	// pattern-carrying string parameters: the first parameter of the matcher, and helper parameters bound to values
	// derived from one
	pat := map[*ssa.Parameter]bool{pm.Params[0]: true}
	fromPattern := func(v ssa.Value) bool {
		hit := false
		backslice(v, func(x ssa.Value) bool {
			if p, ok := x.(*ssa.Parameter); ok && pat[p] {
				hit = true
			}
			if _, isCall := x.(*ssa.Call); isCall {
				return false
			}
			return !hit
		})
		return hit
	}
	for iter := 0; iter < 4; iter++ {
		for _, f := range scope {
			for _, b := range f.Blocks {
				for _, in := range b.Instrs {
					ci, ok := in.(ssa.CallInstruction)
					if !ok {
						continue
					}
					cf := callee(ci)
					if cf == nil || cf.Blocks == nil || !firstParty(cf) {
						continue
					}
					for i, a := range ci.Common().Args {
						if i < len(cf.Params) && isStringish(a.Type()) && fromPattern(a) {
							// the subject of a recursive call is not the pattern: keep parameter positions apart
							if cf == pm && i != 0 {
								continue
							}
							pat[cf.Params[i]] = true
						}
					}
				}
			}
		}
	}
	n := 0
	for _, f := range scope {
		ord := 0
		for _, b := range f.Blocks {
			for _, in := range b.Instrs {
				bo, ok := in.(*ssa.BinOp)
				if !ok || (bo.Op != token.EQL && bo.Op != token.NEQ) {
					continue
				}
				var k *ssa.Const
				var other ssa.Value
				if kc, ok := bo.X.(*ssa.Const); ok {
					k, other = kc, bo.Y
				} else if kc, ok := bo.Y.(*ssa.Const); ok {
					k, other = kc, bo.X
				}
				if k == nil || k.Value == nil {
					continue
				}
				bt, ok := k.Type().Underlying().(*types.Basic)
				if !ok || (bt.Kind() != types.Uint8 && bt.Kind() != types.Int32 && bt.Kind() != types.UntypedRune) {
					continue
				}
				// a byte read from a pattern string
				isPatByte := false
				backslice(other, func(x ssa.Value) bool {
					var s ssa.Value
					switch y := x.(type) {
					case *ssa.Index:
						s = y.X
					case *ssa.Lookup:
						s = y.X
					}
					if s != nil && isStringish(s.Type()) && fromPattern(s) {
						isPatByte = true
					}
					if _, isCall := x.(*ssa.Call); isCall {
						return false
					}
					return !isPatByte
				})
				if !isPatByte {
					continue
				}
				n++
				ord++
				v := k.Int64()
				c.Add("R17m", fnName(f), fmt.Sprintf("pattern byte test #%d compares with a metacharacter of the grammar", ord), bo.Pos(), grammar[v], fmt.Sprintf("the pattern byte is compared with %q, which the documented grammar (? * [ ] - ^ \\\\) gives no special meaning", rune(v)))
			}
		}
	}
	c.Count("R17m_pattern_byte_tests", n)
	c.Min("R17m_pattern_byte_tests", 5)
}}

func isStringish(t types.Type) bool {
	switch u := t.Underlying().(type) {
	case *types.Basic:
		return u.Info()&types.IsString != 0
	case *types.Slice:
		if b, ok := u.Elem().Underlying().(*types.Basic); ok {
			return b.Kind() == types.Uint8
		}
	}
	return false
}

// R16s / R16p / R16a: three WAL invariants that torn-write recovery leans on.
var rR16s = RuleRef{Name: "R16s", Doc: "the hard state remembered by the WAL is the one last written: a function of the wal package that encodes a state record from a *HardState it was handed stores that value into the WAL's HardState field on every path to the encode (or each of its callers does before calling it). cut() writes the remembered state at the head of the new segment and ReadAll returns the last state record it reads, so a Save that both changes the hard state and fills the segment must not leave the old one remembered while the segment is cut", Run: func(c *C) {
	n := 0
	isHardState := func(t types.Type) bool {
		nt, ok := derefNamed(t)
		return ok && nt.Obj().Name() == "HardState"
	}
	// stores of a value derived from src into a HardState-typed field of a wal struct, in fn
	stateStores := func(fn *ssa.Function, src ssa.Value) []*ssa.Store {
		var out []*ssa.Store
		for _, b := range fn.Blocks {
			for _, in := range b.Instrs {
				st, ok := in.(*ssa.Store)
				if !ok {
					continue
				}
				fa, ok := st.Addr.(*ssa.FieldAddr)
				if !ok || !isHardState(st.Val.Type()) {
					continue
				}
				hit := false
				backslice(st.Val, func(v ssa.Value) bool {
					if v == src {
						hit = true
					}
					return !hit
				})
				// w.state = st where src is &st (the caller takes the address of a local)
				if !hit {
					if u, ok := st.Val.(*ssa.UnOp); ok && u.Op == token.MUL && u.X == src {
						hit = true
					}
				}
				_ = fa
				if hit {
					out = append(out, st)
				}
			}
		}
		return out
	}
	for _, fn := range c.P.allFuncs(walPkg) {
		if fn.Blocks == nil {
			continue
		}
		for _, b := range fn.Blocks {
			for _, in := range b.Instrs {
				call, ok := in.(*ssa.Call)
				if !ok || callName(call) != "encode" {
					continue
				}
				// the payload of the record derives from a *HardState parameter of fn
				var prm *ssa.Parameter
				for _, a := range call.Call.Args {
					al, ok := a.(*ssa.Alloc)
					if !ok || namedOf(al.Type()) != "Record" || al.Referrers() == nil {
						continue
					}
					for _, r := range *al.Referrers() {
						fa, ok := r.(*ssa.FieldAddr)
						if !ok || fieldName(fa) != "Data" || fa.Referrers() == nil {
							continue
						}
						for _, rr := range *fa.Referrers() {
							if st, ok := rr.(*ssa.Store); ok && st.Addr == ssa.Value(fa) {
								backslice(st.Val, func(v ssa.Value) bool {
									if p, ok := v.(*ssa.Parameter); ok && p.Parent() == fn && isHardState(p.Type()) {
										prm = p
									}
									return prm == nil
								})
							}
						}
					}
				}
				if prm == nil {
					continue
				}
				n++
				ok2 := false
				for _, st := range stateStores(fn, prm) {
					if st.Block().Dominates(b) {
						ok2 = true
					}
				}
				why := "no store of the handed-over hard state into the WAL's HardState field dominates the encode"
				if !ok2 {
					// every caller remembers it before the call
					idx := -1
					for i, q := range fn.Params {
						if q == prm {
							idx = i
						}
					}
					all, any := true, false
					for _, g := range c.P.allFuncs(walPkg) {
						for _, gb := range g.Blocks {
							for _, gi := range gb.Instrs {
								gc, ok := gi.(*ssa.Call)
								if !ok || callee(gc) != fn || idx >= len(gc.Call.Args) {
									continue
								}
								any = true
								arg := gc.Call.Args[idx]
								// handing over the remembered state itself (cut): nothing to remember
								if fa, ok := arg.(*ssa.FieldAddr); ok && isHardState(fa.Type()) {
									continue
								}
								good := false
								for _, st := range stateStores(g, arg) {
									if st.Block().Dominates(gb) {
										good = true
									}
								}
								if !good {
									all = false
									why += "; the caller " + fnName(g) + " does not remember it before the call either"
								}
							}
						}
					}
					ok2 = any && all
				}
				c.Add("R16s", fnName(fn), "the state record written is the state remembered for the next segment head", call.Pos(), ok2, why)
			}
		}
	}
	c.Count("R16s_state_encoders", n)
	c.Min("R16s_state_encoders", 1)
}}

var rR16p = RuleRef{Name: "R16p", Doc: "segment files are zero-filled to their full length when they are created: every fileutil.Preallocate call of the wal package passes extendFile = true (the constant, or a parameter bound to it). The decoder tells a torn tail from corruption by the zeroes behind the last record (isTornEntry, the frame-size check against the file length); a segment that merely reserves blocks ends inside the torn record instead, and ReadAll/Repair then refuse the log", Run: func(c *C) {
	n := 0
	for _, fn := range c.P.allFuncs(walPkg) {
		ord := 0
		for _, b := range fn.Blocks {
			for _, in := range b.Instrs {
				call, ok := in.(*ssa.Call)
				if !ok || callName(call) != "Preallocate" || len(call.Call.Args) != 3 {
					continue
				}
				cf := call.Call.StaticCallee()
				if cf == nil || cf.Pkg == nil || !strings.HasSuffix(cf.Pkg.Pkg.Path(), "/fileutil") {
					continue
				}
				n++
				ord++
				k, isC := call.Call.Args[2].(*ssa.Const)
				good := isC && k.Value != nil && k.Value.ExactString() == "true"
				c.Add("R16p", fnName(fn), fmt.Sprintf("segment preallocation #%d extends the file", ord), call.Pos(), good, "extendFile is not the constant true: the segment is not zero-filled to its full size")
			}
		}
	}
	c.Count("R16p_preallocations", n)
	c.Min("R16p_preallocations", 2)
}}

var rR16a = RuleRef{Name: "R16a", Doc: "every WAL frame is 8-byte aligned: in encoder.encode the length word handed to writeUint64 is, on every path, the first result of encodeFrameSize for the record being written, and the second result (the padding) sizes the bytes appended to it. The alignment is what keeps a length word inside one sector; a frame written without its padding lets a later length word straddle two sectors, and a torn write there reads as corruption instead of a torn tail", Run: func(c *C) {
	enc := c.P.Func(walPkg, "encoder.encode")
	if enc == nil {
		c.Undecided("R16a", "anchor encoder.encode")
		return
	}
	n := 0
	for _, b := range enc.Blocks {
		for _, in := range b.Instrs {
			call, ok := in.(*ssa.Call)
			if !ok || callName(call) != "writeUint64" || len(call.Call.Args) < 2 {
				continue
			}
			n++
			good := false
			var frame *ssa.Call
			if ex, ok := call.Call.Args[1].(*ssa.Extract); ok && ex.Index == 0 {
				if fc, ok := ex.Tuple.(*ssa.Call); ok && callName(fc) == "encodeFrameSize" {
					good, frame = true, fc
				}
			}
			c.Add("R16a", fnName(enc), "the length word written is the one encodeFrameSize computed", call.Pos(), good, "the value handed to writeUint64 is not (on every path) the first result of encodeFrameSize: some path frames the record differently")
			if frame == nil {
				continue
			}
			// the padding result sizes a make that is appended to the record
			padded := false
			if frame.Referrers() != nil {
				for _, r := range *frame.Referrers() {
					ex, ok := r.(*ssa.Extract)
					if !ok || ex.Index != 1 || ex.Referrers() == nil {
						continue
					}
					// padBytes sizes what is appended: make([]byte, padBytes), or the first padBytes bytes of a zero array
					var sized []ssa.Value
					for _, rr := range *ex.Referrers() {
						switch y := rr.(type) {
						case *ssa.MakeSlice:
							if y.Len == ssa.Value(ex) {
								sized = append(sized, y)
							}
						case *ssa.Slice:
							if y.High == ssa.Value(ex) && (y.Low == nil || isZeroConst(y.Low)) {
								sized = append(sized, y)
							}
						}
					}
					for i := 0; i < len(sized) && i < 8; i++ {
						v := sized[i]
						if v.Referrers() == nil {
							continue
						}
						for _, r3 := range *v.Referrers() {
							switch y := r3.(type) {
							case *ssa.Slice:
								if y.X == v && y.Low == nil && y.High == nil {
									sized = append(sized, y)
								}
							case *ssa.Call:
								if bi, ok := y.Call.Value.(*ssa.Builtin); ok && bi.Name() == "append" && len(y.Call.Args) == 2 && y.Call.Args[1] == v {
									padded = true
								}
							}
						}
					}
				}
			}
			c.Add("R16a", fnName(enc), "the padding encodeFrameSize asked for is appended to the record", call.Pos(), padded, "the second result of encodeFrameSize does not size bytes appended to the record")
		}
	}
	c.Count("R16a_length_words", n)
	c.Min("R16a_length_words", 1)
}}

// R9m: argument order is kept.
var rR9m = RuleRef{Name: "R9m", Doc: "commands visit their arguments in the order given: an executor (or a closure of one) never iterates with `range` over a Go map it built itself when the loop body touches the keyspace, pops/pushes a container or can return -- Go randomises map iteration, so BLPOP k1 k2 would serve k2 first on some calls, MSET/DEL-style loops would apply in a different order on every replica. Maps read from the keyspace (set members, hash fields: unordered by definition) are not concerned", Run: func(c *C) {
	n, nExec := 0, 0
	doneFn := map[*ssa.Function]bool{}
	for _, ex := range c.Facts.SortedExecutors() {
		nExec++
		var fns []*ssa.Function
		for _, h := range helperScope(ex, 2) {
			fns = append(fns, h)
			fns = append(fns, h.AnonFuncs...)
		}
		for _, fn := range fns {
			if fn.Blocks == nil || doneFn[fn] {
				continue
			}
			doneFn[fn] = true
			var loops map[*ssa.BasicBlock]map[*ssa.BasicBlock]bool
			ord := 0
			for _, b := range fn.Blocks {
				for _, in := range b.Instrs {
					rg, ok := in.(*ssa.Range)
					if !ok {
						continue
					}
					if _, isMap := rg.X.Type().Underlying().(*types.Map); !isMap {
						continue
					}
					// built here?
					local := false
					backslice(rg.X, func(v ssa.Value) bool {
						switch v.(type) {
						case *ssa.MakeMap:
							local = true
							return false
						case *ssa.Phi, *ssa.UnOp, *ssa.Alloc:
							return true
						}
						return false
					})
					if !local {
						// a map kept in a local cell
						if u, ok := rg.X.(*ssa.UnOp); ok {
							if al, ok := u.X.(*ssa.Alloc); ok && al.Referrers() != nil {
								for _, r := range *al.Referrers() {
									if st, ok := r.(*ssa.Store); ok {
										if _, ok := st.Val.(*ssa.MakeMap); ok {
											local = true
										}
									}
								}
							}
						}
					}
					if !local {
						continue
					}
					n++
					ord++
					if loops == nil {
						loops = naturalLoops(fn)
					}
					// the loop driven by this iterator: the smallest loop that contains a Next on it
					var body map[*ssa.BasicBlock]bool
					if rg.Referrers() != nil {
						for _, r := range *rg.Referrers() {
							if nx, ok := r.(*ssa.Next); ok {
								for _, bd := range loops {
									if bd[nx.Block()] && (body == nil || len(bd) < len(body)) {
										body = bd
									}
								}
							}
						}
					}
					var bad []string
					for lb := range body {
						for _, li := range lb.Instrs {
							switch y := li.(type) {
							case *ssa.Return:
								bad = append(bad, "returns from inside the loop at "+c.pos(y.Pos()))
							case ssa.CallInstruction:
								if a := c.keyspaceAccess(y); a != nil {
									bad = append(bad, "touches the keyspace ("+a.Map+"."+a.Method+") at "+c.pos(y.Pos()))
								}
							}
						}
					}
					sort.Strings(bad)
					c.Add("R9m", fnName(fn), fmt.Sprintf("range over a locally built map #%d has an order-independent body", ord), rg.Pos(), len(bad) == 0, strings.Join(uniq(bad), "; "))
				}
			}
		}
	}
	c.Count("R9m_local_map_ranges", n)
	c.Count("R9m_executors", nExec)
	c.Min("R9m_executors", 70)
}}

// R20o: the default database is database 0.
var rR20o = RuleRef{Name: "R20o", Doc: "a connection that never sends SELECT is on database 0: wherever a Manager is built, the database stored in its single-database field (the default a fresh connection starts on) is element 0 of the slice stored in its database-table field -- the very same object, not a database of its own. Otherwise the server has one keyspace more than SELECT can reach and `SELECT 0` leaves the default keyspace for good", Run: func(c *C) {
	mgr := c.P.NamedType("server", "Manager")
	memDb := c.P.NamedType("memdb", "MemDb")
	if mgr == nil || memDb == nil {
		c.Undecided("R20o", "anchors server.Manager / memdb.MemDb")
		return
	}
	st, _ := mgr.Underlying().(*types.Struct)
	one, tbl := -1, -1
	for i := 0; st != nil && i < st.NumFields(); i++ {
		ft := st.Field(i).Type()
		if nt, ok := derefNamed(ft); ok && nt == memDb {
			if _, isPtr := ft.(*types.Pointer); isPtr {
				one = i
			}
		}
		if sl, ok := ft.Underlying().(*types.Slice); ok {
			if nt, ok := derefNamed(sl.Elem()); ok && nt == memDb {
				tbl = i
			}
		}
	}
	if one < 0 || tbl < 0 {
		c.Undecided("R20o", "the default-database and database-table fields of server.Manager")
		return
	}
	n := 0
	for _, fn := range c.P.allFuncs("server") {
		for _, b := range fn.Blocks {
			for _, in := range b.Instrs {
				sto, ok := in.(*ssa.Store)
				if !ok {
					continue
				}
				fa, ok := sto.Addr.(*ssa.FieldAddr)
				if !ok || fa.Field != one {
					continue
				}
				if nt, ok := derefNamed(fa.X.Type()); !ok || nt != mgr {
					continue
				}
				n++
				// the table stored into the same record
				var tables []ssa.Value
				if fa.X.Referrers() != nil {
					for _, r := range *fa.X.Referrers() {
						if f2, ok := r.(*ssa.FieldAddr); ok && f2.Field == tbl && f2.Referrers() != nil {
							for _, rr := range *f2.Referrers() {
								if s2, ok := rr.(*ssa.Store); ok && s2.Addr == ssa.Value(f2) {
									tables = append(tables, s2.Val)
								}
							}
						}
					}
				}
				good := false
				why := "the value stored is not element 0 of the table stored in the same record"
				// shape 1: CurrentDB: DBs[0]
				if u, ok := sto.Val.(*ssa.UnOp); ok && u.Op == token.MUL {
					if ia, ok := u.X.(*ssa.IndexAddr); ok {
						if k, ok := ia.Index.(*ssa.Const); ok && k.Int64() == 0 {
							for _, t := range tables {
								if canon(sliceBase(ia.X)) == canon(sliceBase(t)) || ia.X == t {
									good = true
								}
							}
						}
					}
				}
				// shape 2: the same object is stored into slot 0 of the table
				if !good {
					for _, t := range tables {
						base := sliceBase(t)
						if base.Referrers() == nil {
							continue
						}
						for _, r := range *base.Referrers() {
							if ia, ok := r.(*ssa.IndexAddr); ok && ia.Referrers() != nil {
								if k, ok := ia.Index.(*ssa.Const); ok && k.Int64() == 0 {
									for _, rr := range *ia.Referrers() {
										if s3, ok := rr.(*ssa.Store); ok && s3.Addr == ssa.Value(ia) && s3.Val == sto.Val {
											good = true
										}
									}
								}
							}
						}
					}
				}
				c.Add("R20o", fnName(fn), "the default database is element 0 of the database table", sto.Pos(), good, why)
			}
		}
	}
	c.Count("R20o_default_db_stores", n)
	c.Min("R20o_default_db_stores", 1)
}}

// R11t: both terminator bytes of a bulk body are compared.
var rR11t = RuleRef{Name: "R11t", Doc: "a bulk body is accepted only with its CRLF: in the function that fills a buffer with io.ReadFull (the body plus two terminator bytes), every path from that read to a return without error passes the comparison of the last byte with '\\n' AND of the last-but-one byte with '\\r', each on its `equal` edge. ReadBytes('\\n') guarantees the final LF of a header line; ReadFull guarantees nothing, so a check shared with the header branch that looks at the CR only accepts `$4\\r\\nPING\\rX` and swallows the X", Run: func(c *C) {
	n := 0
	for _, fn := range c.P.allFuncs("resp") {
		if fn.Blocks == nil {
			continue
		}
		var rf *ssa.Call
		for _, b := range fn.Blocks {
			for _, in := range b.Instrs {
				if call, ok := in.(*ssa.Call); ok {
					if cf := call.Call.StaticCallee(); cf != nil && cf.Pkg != nil && cf.Pkg.Pkg.Path() == "io" && cf.Name() == "ReadFull" {
						rf = call
					}
				}
			}
		}
		if rf == nil {
			continue
		}
		// which byte of which buffer does a condition compare, and with what
		termTest := func(cond ssa.Value) (fact string, eqOnTrue bool, ok bool) {
			bo, isB := cond.(*ssa.BinOp)
			if !isB || (bo.Op != token.EQL && bo.Op != token.NEQ) {
				return "", false, false
			}
			k, isK := bo.Y.(*ssa.Const)
			x := bo.X
			if !isK {
				k, isK = bo.X.(*ssa.Const)
				x = bo.Y
			}
			if !isK || k.Value == nil {
				return "", false, false
			}
			u, isU := x.(*ssa.UnOp)
			if !isU || u.Op != token.MUL {
				return "", false, false
			}
			ia, isI := u.X.(*ssa.IndexAddr)
			if !isI {
				return "", false, false
			}
			// the index as len(buffer) - off, however the subtraction is spelled (len(b)-2; last := len(b)-1, last-1)
			off, isO := lenOffset(ia.Index, ia.X, 0)
			if !isO {
				return "", false, false
			}
			switch {
			case k.Int64() == '\n' && off == 1:
				return "LF", bo.Op == token.EQL, true
			case k.Int64() == '\r' && off == 2:
				return "CR", bo.Op == token.EQL, true
			}
			return "", false, false
		}
		tr := func(in ssa.Instruction, states Set) (Set, bool) {
			if noReturnCall(in) {
				return nil, true
			}
			if in != ssa.Instruction(rf) {
				return states, false
			}
			out := Set{}
			for e := range states {
				s := decState(e)
				s["RF"] = true
				delete(s, "LF")
				delete(s, "CR")
				out[encState(s)] = true
			}
			return out, false
		}
		edgeGen := func(from, to *ssa.BasicBlock, states Set) Set {
			cond, neg, ok := branchCond(from, to)
			if !ok {
				return states
			}
			for {
				u, isNot := cond.(*ssa.UnOp)
				if !isNot || u.Op != token.NOT {
					break
				}
				cond, neg = u.X, !neg
			}
			var facts []string
			if fact, eqOnTrue, ok := termTest(cond); ok {
				if eqOnTrue == neg { // this edge is the `different` edge
					return states
				}
				facts = []string{fact}
			} else if !neg && crlfPredicate(cond, 0) {
				// the true edge of a test that compares both terminator bytes at once: bytes.HasSuffix(buf, "\r\n"),
				// or a first-party predicate whose every way of returning true passed both comparisons
				facts = []string{"LF", "CR"}
			} else {
				return states
			}
			out := Set{}
			for e := range states {
				s := decState(e)
				for _, f := range facts {
					s[f] = true
				}
				out[encState(s)] = true
			}
			return out
		}
		fl := &Flow{Fn: fn, Must: false, Entry: Set{"": true}, Transfer: tr, EdgeGen: edgeGen}
		fl.Run()
		var bad []string
		for _, b := range fn.Blocks {
			ret, ok := b.Instrs[len(b.Instrs)-1].(*ssa.Return)
			if !ok || len(ret.Results) == 0 {
				continue
			}
			okRet := false
			for _, rv := range retResults(ret)[len(ret.Results)-1] {
				if isNilConst(rv) {
					okRet = true
				}
			}
			if !okRet {
				continue
			}
			st, live := fl.Before(ret)
			if !live {
				continue
			}
			for e := range st {
				s := decState(e)
				if s["RF"] && !(s["LF"] && s["CR"]) {
					miss := []string{}
					if !s["LF"] {
						miss = append(miss, "the last byte is not compared with '\\n'")
					}
					if !s["CR"] {
						miss = append(miss, "the last-but-one byte is not compared with '\\r'")
					}
					bad = append(bad, "return at "+c.pos(ret.Pos())+": "+strings.Join(miss, ", "))
				}
			}
		}
		n++
		sort.Strings(bad)
		c.Add("R11t", fnName(fn), "a body read with ReadFull is accepted only after both terminator bytes matched", rf.Pos(), len(bad) == 0, strings.Join(uniq(bad), "; "))
	}
	c.Count("R11t_readfull_functions", n)
	c.Min("R11t_readfull_functions", 1)
}}

// R20c: the database of a command is read when the command is dispatched.
var rR20q = RuleRef{Name: "R20q", Doc: "a command runs on the database its connection has selected NOW: at every dispatch point of package server (the indirect call through command.Executor) the *MemDb argument is a load of the per-connection state's database field made in the dispatching function itself, from the state it was handed -- never a value captured in a closure, cached in another field or computed before a SELECT could have changed the selection", Run: func(c *C) {
	memDb := c.P.NamedType("memdb", "MemDb")
	n := 0
	for _, d := range c.Facts.Dispatchers {
		fn := d.Parent()
		if fn == nil || fn.Pkg == nil || fn.Pkg.Pkg.Name() != "server" {
			continue
		}
		for _, a := range d.Call.Args {
			nt, ok := derefNamed(a.Type())
			if !ok || nt != memDb {
				continue
			}
			n++
			good := false
			why := "the database argument is not a load of a field of the connection state handed to this function"
			if call, ok := a.(*ssa.Call); ok && fn.Parent() == nil && len(call.Call.Args) == 1 {
				// st.selected(): an accessor that returns the field, called on the state handed to this function
				if _, isG := thinGetter(callee(call)); isG {
					if prm, isParam := call.Call.Args[0].(*ssa.Parameter); isParam {
						if st, ok := derefNamed(prm.Type()); ok && st.Obj().Pkg() != nil && st.Obj().Pkg().Name() == "server" && st != c.P.NamedType("server", "Manager") {
							good = true
						}
					}
				}
			}
			if u, ok := a.(*ssa.UnOp); ok && u.Op == token.MUL {
				if fa, ok := u.X.(*ssa.FieldAddr); ok {
					if _, isParam := fa.X.(*ssa.Parameter); isParam && fn.Parent() == nil {
						if st, ok := derefNamed(fa.X.Type()); ok && st.Obj().Pkg() != nil && st.Obj().Pkg().Name() == "server" && st != c.P.NamedType("server", "Manager") {
							good = true
						}
					}
					if _, isFree := fa.X.(*ssa.FreeVar); isFree {
						why = "the connection state is captured by a closure (the load happens whenever the closure runs, which is fine) -- but the closure itself may be cached: dispatch is expected in a named function"
					}
				}
			}
			if _, isFree := a.(*ssa.FreeVar); isFree {
				why = "the database is captured in a closure: a SELECT issued after the closure was built does not reach it"
			}
			c.Add("R20q", fnName(fn), "the dispatched command runs on the connection's current database", d.Pos(), good, why)
		}
	}
	c.Count("R20q_dispatch_sites", n)
	c.Min("R20q_dispatch_sites", 1)
}}

// constBytesOf: the constant text a []byte/string value stands for: a converted string constant, or a package-level
// variable initialised once from one and never assigned again.
func constBytesOf(v ssa.Value) (string, bool) {
	for i := 0; i < 4; i++ {
		switch x := v.(type) {
		case *ssa.Const:
			return constString(x)
		case *ssa.Convert:
			v = x.X
			continue
		case *ssa.ChangeType:
			v = x.X
			continue
		case *ssa.UnOp:
			g, ok := x.X.(*ssa.Global)
			if !ok || x.Op != token.MUL || g.Pkg == nil {
				return "", false
			}
			var val ssa.Value
			stores := 0
			for _, m := range g.Pkg.Members {
				fn, ok := m.(*ssa.Function)
				if !ok {
					continue
				}
				fns := append([]*ssa.Function{fn}, fn.AnonFuncs...)
				for _, f := range fns {
					for _, b := range f.Blocks {
						for _, in := range b.Instrs {
							if st, ok := in.(*ssa.Store); ok && st.Addr == ssa.Value(g) {
								stores++
								val = st.Val
								if f.Name() != "init" {
									stores += 10
								}
							}
						}
					}
				}
			}
			if stores != 1 {
				return "", false
			}
			v = val
			continue
		}
		return "", false
	}
	return "", false
}

// crlfPredicate: cond being true means the buffer it was given ends in CR LF.
func crlfPredicate(cond ssa.Value, depth int) bool {
	call, ok := cond.(*ssa.Call)
	if !ok || depth > 2 {
		return false
	}
	cf := call.Call.StaticCallee()
	if cf == nil {
		return false
	}
	if cf.Pkg != nil && (cf.Pkg.Pkg.Path() == "bytes" || cf.Pkg.Pkg.Path() == "strings") && cf.Name() == "HasSuffix" && len(call.Call.Args) == 2 {
		s, ok := constBytesOf(call.Call.Args[1])
		return ok && strings.HasSuffix(s, "\r\n")
	}
	if !firstParty(cf) || len(cf.Blocks) == 0 || len(cf.Params) != 1 {
		return false
	}
	// a first-party predicate on one buffer: every return that can be true lies behind both byte comparisons
	buf := cf.Params[0]
	byteTest := func(v ssa.Value) (string, bool, bool) {
		bo, isB := v.(*ssa.BinOp)
		if !isB || (bo.Op != token.EQL && bo.Op != token.NEQ) {
			return "", false, false
		}
		k, isK := bo.Y.(*ssa.Const)
		x := bo.X
		if !isK {
			k, isK = bo.X.(*ssa.Const)
			x = bo.Y
		}
		if !isK || k.Value == nil {
			return "", false, false
		}
		u, isU := x.(*ssa.UnOp)
		if !isU || u.Op != token.MUL {
			return "", false, false
		}
		ia, isI := u.X.(*ssa.IndexAddr)
		if !isI || ia.X != ssa.Value(buf) {
			return "", false, false
		}
		sub, isS := ia.Index.(*ssa.BinOp)
		if !isS || sub.Op != token.SUB {
			return "", false, false
		}
		off, isO := sub.Y.(*ssa.Const)
		ln, isL := sub.X.(*ssa.Call)
		if !isO || !isL {
			return "", false, false
		}
		if bi, ok := ln.Call.Value.(*ssa.Builtin); !ok || bi.Name() != "len" || ln.Call.Args[0] != ssa.Value(buf) {
			return "", false, false
		}
		switch {
		case k.Int64() == '\n' && off.Int64() == 1:
			return "LF", bo.Op == token.EQL, true
		case k.Int64() == '\r' && off.Int64() == 2:
			return "CR", bo.Op == token.EQL, true
		}
		return "", false, false
	}
	edge := func(from, to *ssa.BasicBlock, s Set) Set {
		c2, neg, ok := branchCond(from, to)
		if !ok {
			return s
		}
		if f, eqOnTrue, ok := byteTest(c2); ok && eqOnTrue != neg {
			s[f] = true
		}
		return s
	}
	fl := &Flow{Fn: cf, Must: true, Entry: Set{}, Transfer: func(in ssa.Instruction, s Set) (Set, bool) { return s, false }, EdgeGen: edge}
	fl.Run()
	any := false
	for _, b := range cf.Blocks {
		ret, ok := b.Instrs[len(b.Instrs)-1].(*ssa.Return)
		if !ok || len(ret.Results) != 1 {
			continue
		}
		st, live := fl.Before(ret)
		if !live {
			continue
		}
		var vals []ssa.Value
		var preds []*ssa.BasicBlock
		if phi, ok := ret.Results[0].(*ssa.Phi); ok && phi.Block() == b {
			vals, preds = phi.Edges, b.Preds
		} else {
			vals, preds = []ssa.Value{ret.Results[0]}, []*ssa.BasicBlock{nil}
		}
		for i, v := range vals {
			have := Set{}
			if preds[i] == nil {
				for f := range st {
					have[f] = true
				}
			} else if last := preds[i].Instrs[len(preds[i].Instrs)-1]; last != nil {
				if s2, live := fl.Before(last); live {
					for f := range s2 {
						have[f] = true
					}
				}
			}
			if k, ok := v.(*ssa.Const); ok && k.Value != nil {
				if k.Value.ExactString() == "false" {
					continue
				}
			} else if f, eqOnTrue, ok := byteTest(v); ok && eqOnTrue {
				have[f] = true // the returned comparison itself
			} else if !ok {
				return false
			}
			any = true
			if !(have["LF"] && have["CR"]) {
				return false
			}
		}
	}
	return any
}

// collectedElements: the values appended to (or stored into elements of) the local slice v.
func collectedElements(v ssa.Value, seen map[ssa.Value]bool) []ssa.Value {
	if v == nil || seen[v] {
		return nil
	}
	seen[v] = true
	var out []ssa.Value
	switch x := v.(type) {
	case *ssa.Phi:
		for _, e := range x.Edges {
			out = append(out, collectedElements(e, seen)...)
		}
	case *ssa.Slice:
		out = append(out, collectedElements(x.X, seen)...)
	case *ssa.Call:
		if b, ok := x.Call.Value.(*ssa.Builtin); ok && b.Name() == "append" && len(x.Call.Args) == 2 {
			out = append(out, collectedElements(x.Call.Args[0], seen)...)
			if e := variadicFirst(x.Call.Args[1]); e != x.Call.Args[1] {
				out = append(out, e)
			}
		}
	case *ssa.MakeSlice:
		// elements stored by index
		if x.Referrers() != nil {
			for _, r := range *x.Referrers() {
				if ia, ok := r.(*ssa.IndexAddr); ok && ia.Referrers() != nil {
					for _, rr := range *ia.Referrers() {
						if st, ok := rr.(*ssa.Store); ok && st.Addr == ssa.Value(ia) {
							out = append(out, st.Val)
						}
					}
				}
			}
		}
	}
	return out
}

// lenOffset: idx is len(x) - off for a constant off >= 0, through any chain of additions and subtractions of constants.
func lenOffset(idx ssa.Value, x ssa.Value, depth int) (int64, bool) {
	if depth > 6 {
		return 0, false
	}
	switch y := idx.(type) {
	case *ssa.Call:
		if bi, ok := y.Call.Value.(*ssa.Builtin); ok && bi.Name() == "len" && len(y.Call.Args) == 1 && canon(y.Call.Args[0]) == canon(x) {
			return 0, true
		}
	case *ssa.BinOp:
		if k, ok := constInt(y.Y); ok && (y.Op == token.SUB || y.Op == token.ADD) {
			off, ok := lenOffset(y.X, x, depth+1)
			if !ok {
				return 0, false
			}
			if y.Op == token.SUB {
				return off + k, true
			}
			return off - k, true
		}
	}
	return 0, false
}

func isZeroConst(v ssa.Value) bool {
	k, ok := constInt(v)
	return ok && k == 0
}
