package rg

import (
	"go/constant"
	"go/token"
	"go/types"
	"sort"
	"strings"

	"golang.org/x/tools/go/ssa"
)

// Facts is the repository model discovered from the code.
type Facts struct {
	Executors   map[string]*ssa.Function // command name -> executor
	ExecNames   map[*ssa.Function][]string
	RegSites    map[string]token.Pos
	Dispatchers []*ssa.Call // indirect calls through command.Executor
	MemDb       *types.Named
	CMap        *types.Named
	Locks       *types.Named
	fnCache     map[string]*ssa.Function
	Reach       map[*ssa.Function]bool // request-reachable first-party functions
	ReachWhy    map[*ssa.Function]*ssa.Function
	MutParams   map[*ssa.Function]map[int]bool // which parameters' reachable memory a function may write
	ValueTypes  map[string]bool
}

// NamedType looks up a named type in a package (relative first-party path or full path).
func (p *Program) NamedType(pkg, name string) *types.Named {
	sp := p.Pkg(pkg)
	if sp == nil {
		return nil
	}
	o := sp.Pkg.Scope().Lookup(name)
	if o == nil {
		return nil
	}
	n, _ := o.Type().(*types.Named)
	return n
}

// Func looks up "Name" or "Type.Method" in a package. Nil if absent.
func (p *Program) Func(pkg, name string) *ssa.Function {
	sp := p.Pkg(pkg)
	if sp == nil {
		return nil
	}
	if i := strings.Index(name, "."); i >= 0 {
		tn, mn := name[:i], name[i+1:]
		o := sp.Pkg.Scope().Lookup(tn)
		if o == nil {
			return nil
		}
		T := o.Type()
		var synthetic *ssa.Function
		for _, t := range []types.Type{types.NewPointer(T), T} {
			ms := p.Prog.MethodSets.MethodSet(t)
			for i := 0; i < ms.Len(); i++ {
				sel := ms.At(i)
				if sel.Obj().Name() == mn {
					if f := p.Prog.MethodValue(sel); f != nil {
						if f.Synthetic == "" {
							return f
						}
						synthetic = f
					}
				}
			}
		}
		return synthetic
	}
	return sp.Func(name)
}

func isNamed(t types.Type, n *types.Named) bool {
	if n == nil {
		return false
	}
	if pt, ok := t.(*types.Pointer); ok {
		t = pt.Elem()
	}
	nt, ok := t.(*types.Named)
	return ok && nt.Obj() == n.Obj()
}

// callee returns the statically resolved callee of a call instruction (nil for dynamic calls).
func callee(ci ssa.CallInstruction) *ssa.Function {
	if f := ci.Common().StaticCallee(); f != nil {
		return f
	}
	if ci.Common().IsInvoke() {
		return nil
	}
	// a closure kept in a local variable that is assigned once (it lives in a cell because another closure captures
	// it, or is reached as a captured variable from inside such a closure)
	return closureInCell(ci.Common().Value, ci.Parent(), 0)
}

func closureInCell(v ssa.Value, in *ssa.Function, depth int) *ssa.Function {
	if depth > 3 || in == nil {
		return nil
	}
	switch x := v.(type) {
	case *ssa.MakeClosure:
		f, _ := x.Fn.(*ssa.Function)
		return f
	case *ssa.Function:
		return x
	case *ssa.UnOp:
		if x.Op != token.MUL {
			return nil
		}
		switch a := x.X.(type) {
		case *ssa.Alloc:
			if sv := singleStore(a); sv != nil {
				return closureInCell(sv, in, depth+1)
			}
		case *ssa.FreeVar:
			par := in.Parent()
			if par == nil {
				return nil
			}
			for _, b := range par.Blocks {
				for _, ins := range b.Instrs {
					mc, ok := ins.(*ssa.MakeClosure)
					if !ok || mc.Fn != ssa.Value(in) {
						continue
					}
					for i, fv := range in.FreeVars {
						if fv == a && i < len(mc.Bindings) {
							switch bnd := mc.Bindings[i].(type) {
							case *ssa.Alloc:
								if sv := singleStore(bnd); sv != nil {
									return closureInCell(sv, par, depth+1)
								}
							case *ssa.FreeVar:
								return closureInCell(&ssa.UnOp{Op: token.MUL, X: bnd}, par, depth+1)
							}
						}
					}
				}
			}
		}
	}
	return nil
}

// origin strips generic instantiation.
func origin(f *ssa.Function) *ssa.Function {
	if f == nil {
		return nil
	}
	if o := f.Origin(); o != nil {
		return o
	}
	return f
}

// isMethodOf reports whether f is a method named one of names on named type n (pointer or value receiver).
func isMethodOf(f *ssa.Function, n *types.Named, names ...string) bool {
	f = origin(f)
	if f == nil || f.Signature.Recv() == nil || n == nil {
		return false
	}
	if !isNamed(f.Signature.Recv().Type(), n) {
		return false
	}
	if len(names) == 0 {
		return true
	}
	for _, nm := range names {
		if f.Name() == nm {
			return true
		}
	}
	return false
}

// fieldOf: if v is a load of (or address of) field `field` of a struct of named type n, return true.
func isFieldLoad(v ssa.Value, n *types.Named, field string) bool {
	// m.store(): an accessor that does nothing but return the field
	if call, ok := v.(*ssa.Call); ok && len(call.Call.Args) == 1 {
		if cf := call.Call.StaticCallee(); cf != nil && cf.Signature.Recv() != nil {
			if pt, ok := cf.Signature.Recv().Type().Underlying().(*types.Pointer); ok && isNamed(pt.Elem(), n) {
				if f, ok := thinGetter(cf); ok && f == field {
					return true
				}
			}
		}
		return false
	}
	if u, ok := v.(*ssa.UnOp); ok && u.Op == token.MUL {
		v = u.X
	}
	fa, ok := v.(*ssa.FieldAddr)
	if !ok {
		if f, ok := v.(*ssa.Field); ok {
			st, _ := f.X.Type().Underlying().(*types.Struct)
			return st != nil && isNamed(f.X.Type(), n) && st.Field(f.Field).Name() == field
		}
		return false
	}
	pt, ok := fa.X.Type().Underlying().(*types.Pointer)
	if !ok || !isNamed(pt.Elem(), n) {
		return false
	}
	st, _ := pt.Elem().Underlying().(*types.Struct)
	return st != nil && st.Field(fa.Field).Name() == field
}

func fieldName(fa *ssa.FieldAddr) string {
	pt, ok := fa.X.Type().Underlying().(*types.Pointer)
	if !ok {
		return "?"
	}
	st, _ := pt.Elem().Underlying().(*types.Struct)
	if st == nil {
		return "?"
	}
	return st.Field(fa.Field).Name()
}

func constString(v ssa.Value) (string, bool) {
	c, ok := v.(*ssa.Const)
	if !ok || c.Value == nil || c.Value.Kind() != constant.String {
		return "", false
	}
	return constant.StringVal(c.Value), true
}

func constInt(v ssa.Value) (int64, bool) {
	c, ok := v.(*ssa.Const)
	if !ok || c.Value == nil || c.Value.Kind() != constant.Int {
		return 0, false
	}
	i, exact := constant.Int64Val(c.Value)
	return i, exact
}

// funcValue resolves a function-typed value to the function it denotes (through closures w/o bindings and conversions).
func funcValue(v ssa.Value) *ssa.Function {
	switch x := v.(type) {
	case *ssa.Function:
		return x
	case *ssa.MakeClosure:
		return x.Fn.(*ssa.Function)
	case *ssa.ChangeType:
		return funcValue(x.X)
	case *ssa.MakeInterface:
		return funcValue(x.X)
	case *ssa.Call:
		// a factory that builds the function: every one of its returns hands back a closure of the same body
		cf := x.Call.StaticCallee()
		if cf == nil || cf.Blocks == nil || !firstParty(cf) {
			return nil
		}
		var res *ssa.Function
		for _, b := range cf.Blocks {
			for _, in := range b.Instrs {
				ret, ok := in.(*ssa.Return)
				if !ok || len(ret.Results) != 1 {
					continue
				}
				f := funcValueNoCall(ret.Results[0])
				if f == nil || (res != nil && res != f) {
					return nil
				}
				res = f
			}
		}
		return res
	}
	return nil
}

func funcValueNoCall(v ssa.Value) *ssa.Function {
	if _, isCall := v.(*ssa.Call); isCall {
		return nil
	}
	return funcValue(v)
}

// globalSliceInit: the elements a package-level slice of structs is initialised with (a composite literal in its
// declaration): per element, the value stored into each field. ok is false when that cannot be read off the init code.
func globalSliceInit(g *ssa.Global) ([]map[int]ssa.Value, bool) {
	if g == nil || g.Pkg == nil {
		return nil, false
	}
	initFn := g.Pkg.Func("init")
	if initFn == nil {
		return nil, false
	}
	var backing *ssa.Alloc
	for _, b := range initFn.Blocks {
		for _, in := range b.Instrs {
			if st, ok := in.(*ssa.Store); ok && st.Addr == ssa.Value(g) {
				if sl, ok := st.Val.(*ssa.Slice); ok {
					backing, _ = sl.X.(*ssa.Alloc)
				}
			}
		}
	}
	return allocSliceInit(backing)
}

// allocSliceInit: the elements of a composite literal of structs whose backing array is the given allocation.
func allocSliceInit(backing *ssa.Alloc) ([]map[int]ssa.Value, bool) {
	if backing == nil || backing.Referrers() == nil {
		return nil, false
	}
	byIdx := map[int64]map[int]ssa.Value{}
	max := int64(-1)
	for _, r := range *backing.Referrers() {
		ia, ok := r.(*ssa.IndexAddr)
		if !ok {
			continue
		}
		i, ok := constInt(ia.Index)
		if !ok || ia.Referrers() == nil {
			return nil, false
		}
		if i > max {
			max = i
		}
		for _, rr := range *ia.Referrers() {
			fa, ok := rr.(*ssa.FieldAddr)
			if !ok || fa.Referrers() == nil {
				continue
			}
			for _, r3 := range *fa.Referrers() {
				if st, ok := r3.(*ssa.Store); ok && st.Addr == ssa.Value(fa) {
					if byIdx[i] == nil {
						byIdx[i] = map[int]ssa.Value{}
					}
					byIdx[i][fa.Field] = st.Val
				}
			}
		}
	}
	var out []map[int]ssa.Value
	for i := int64(0); i <= max; i++ {
		out = append(out, byIdx[i])
	}
	return out, len(out) > 0
}

// tableField: v reads field k of an element of a package-level slice (for _, e := range table { use(e.k) }).
func tableField(v ssa.Value) (*ssa.Global, int, bool) {
	v = stripConv(v)
	var elem ssa.Value
	field := -1
	switch x := v.(type) {
	case *ssa.Field:
		elem, field = x.X, x.Field
	case *ssa.UnOp:
		if fa, ok := x.X.(*ssa.FieldAddr); ok {
			elem, field = fa.X, fa.Field
		}
	}
	if elem == nil {
		return nil, 0, false
	}
	// the loop variable copy: c := table[i] kept in a local cell
	if al, ok := elem.(*ssa.Alloc); ok {
		if sv := singleStore(al); sv != nil {
			elem = sv
		} else if al.Referrers() != nil {
			var vals []ssa.Value
			for _, r := range *al.Referrers() {
				if st, ok := r.(*ssa.Store); ok && st.Addr == ssa.Value(al) {
					vals = append(vals, st.Val)
				}
			}
			if len(vals) == 1 {
				elem = vals[0]
			}
		}
	}
	// elem: *(&table[i])  or  &table[i]
	if u, ok := elem.(*ssa.UnOp); ok {
		elem = u.X
	}
	ia, ok := elem.(*ssa.IndexAddr)
	if !ok {
		return nil, 0, false
	}
	u, ok := ia.X.(*ssa.UnOp)
	if !ok {
		return nil, 0, false
	}
	g, ok := u.X.(*ssa.Global)
	if !ok {
		return nil, 0, false
	}
	return g, field, true
}

// localTableField: like tableField for a table that is a composite literal local to the function
// (table := []struct{..}{..}; for _, e := range table { use(e.k) }): returns the literal's backing array.
func localTableField(v ssa.Value) (*ssa.Alloc, int, bool) {
	v = stripConv(v)
	var elem ssa.Value
	field := -1
	switch x := v.(type) {
	case *ssa.Field:
		elem, field = x.X, x.Field
	case *ssa.UnOp:
		if fa, ok := x.X.(*ssa.FieldAddr); ok {
			elem, field = fa.X, fa.Field
		}
	}
	if elem == nil {
		return nil, 0, false
	}
	if al, ok := elem.(*ssa.Alloc); ok {
		if sv := singleStore(al); sv != nil {
			elem = sv
		} else if al.Referrers() != nil {
			var vals []ssa.Value
			for _, r := range *al.Referrers() {
				if st, ok := r.(*ssa.Store); ok && st.Addr == ssa.Value(al) {
					vals = append(vals, st.Val)
				}
			}
			if len(vals) == 1 {
				elem = vals[0]
			}
		}
	}
	// ranging over an array literal by value: go/ssa copies the array and reads elements with Index
	if ix, ok := elem.(*ssa.Index); ok {
		if ld, ok := ix.X.(*ssa.UnOp); ok && ld.Op == token.MUL {
			if al, ok := ld.X.(*ssa.Alloc); ok {
				if _, isArr := al.Type().Underlying().(*types.Pointer).Elem().Underlying().(*types.Array); isArr {
					return al, field, true
				}
			}
		}
	}
	if u, ok := elem.(*ssa.UnOp); ok {
		elem = u.X
	}
	ia, ok := elem.(*ssa.IndexAddr)
	if !ok {
		return nil, 0, false
	}
	base := ia.X
	// the slice may pass through a phi-free local or be the literal's slice directly
	if sl, ok := base.(*ssa.Slice); ok {
		if al, ok := sl.X.(*ssa.Alloc); ok && sl.Low == nil && sl.High == nil {
			if _, isArr := al.Type().Underlying().(*types.Pointer).Elem().Underlying().(*types.Array); isArr {
				return al, field, true
			}
		}
	}
	// ranging over an array literal directly: &arr[i]
	if al, ok := base.(*ssa.Alloc); ok {
		if _, isArr := al.Type().Underlying().(*types.Pointer).Elem().Underlying().(*types.Array); isArr {
			return al, field, true
		}
	}
	return nil, 0, false
}

func firstParty(f *ssa.Function) bool {
	f = origin(f)
	return f != nil && f.Pkg != nil && (f.Pkg.Pkg.Path() == ModPath || strings.HasPrefix(f.Pkg.Pkg.Path(), ModPath+"/"))
}

func pkgRel(f *ssa.Function) string {
	f = origin(f)
	for f != nil && f.Pkg == nil && f.Parent() != nil {
		f = f.Parent()
	}
	if f == nil || f.Pkg == nil {
		return ""
	}
	return strings.TrimPrefix(strings.TrimPrefix(f.Pkg.Pkg.Path(), ModPath), "/")
}

// allFuncs returns every function (incl. anonymous, methods) of a first-party package, sorted by name.
func (p *Program) allFuncs(pkgs ...string) []*ssa.Function {
	want := map[string]bool{}
	for _, k := range pkgs {
		want[k] = true
	}
	var out []*ssa.Function
	seen := map[*ssa.Function]bool{}
	var add func(f *ssa.Function)
	add = func(f *ssa.Function) {
		if f == nil || seen[f] || f.Blocks == nil {
			return
		}
		seen[f] = true
		out = append(out, f)
		for _, a := range f.AnonFuncs {
			add(a)
		}
	}
	for _, k := range pkgs {
		sp := p.Pkg(k)
		if sp == nil {
			continue
		}
		for _, m := range sp.Members {
			switch x := m.(type) {
			case *ssa.Function:
				add(x)
			case *ssa.Type:
				for _, t := range []types.Type{x.Type(), types.NewPointer(x.Type())} {
					ms := p.Prog.MethodSets.MethodSet(t)
					for i := 0; i < ms.Len(); i++ {
						f := p.Prog.MethodValue(ms.At(i))
						if f != nil && f.Synthetic == "" && f.Pkg == sp {
							add(f)
						}
					}
				}
			}
		}
	}
	// generic instantiations used by first-party code
	for f := range allFunctionsCache(p) {
		if f.Origin() != nil && f.Blocks != nil {
			pr := pkgRel(f)
			if want[pr] || want[ModPath+"/"+pr] {
				add(f)
			}
		}
	}
	sort.Slice(out, func(i, j int) bool {
		if out[i].String() != out[j].String() {
			return out[i].String() < out[j].String()
		}
		return out[i].Pos() < out[j].Pos()
	})
	return out
}

var allFnCache map[*ssa.Function]bool

func allFunctionsCache(p *Program) map[*ssa.Function]bool {
	if allFnCache == nil {
		allFnCache = map[*ssa.Function]bool{}
		// only walk instantiations reachable from first-party code: collect from call sites lazily
		for _, sp := range p.Prog.AllPackages() {
			if !(sp.Pkg.Path() == ModPath || strings.HasPrefix(sp.Pkg.Path(), ModPath+"/")) {
				continue
			}
			var visit func(f *ssa.Function)
			seen := map[*ssa.Function]bool{}
			visit = func(f *ssa.Function) {
				if f == nil || seen[f] {
					return
				}
				seen[f] = true
				for _, b := range f.Blocks {
					for _, in := range b.Instrs {
						if ci, ok := in.(ssa.CallInstruction); ok {
							if cf := callee(ci); cf != nil && cf.Origin() != nil && firstParty(cf) {
								allFnCache[cf] = true
								visit(cf)
							}
						}
					}
				}
				for _, a := range f.AnonFuncs {
					visit(a)
				}
			}
			for _, m := range sp.Members {
				switch x := m.(type) {
				case *ssa.Function:
					visit(x)
				case *ssa.Type:
					for _, t := range []types.Type{x.Type(), types.NewPointer(x.Type())} {
						ms := p.Prog.MethodSets.MethodSet(t)
						for i := 0; i < ms.Len(); i++ {
							visit(p.Prog.MethodValue(ms.At(i)))
						}
					}
				}
			}
		}
	}
	return allFnCache
}

// BuildFacts discovers the executor table, dispatcher sites and anchors.
func BuildFacts(c *C) *Facts {
	p := c.P
	f := &Facts{Executors: map[string]*ssa.Function{}, ExecNames: map[*ssa.Function][]string{}, RegSites: map[string]token.Pos{}, fnCache: map[string]*ssa.Function{}}
	c.Facts = f
	f.MemDb = p.NamedType("memdb", "MemDb")
	f.CMap = p.NamedType("memdb", "ConcurrentMap")
	f.Locks = p.NamedType("memdb", "Locks")
	for name, t := range map[string]*types.Named{"memdb.MemDb": f.MemDb, "memdb.ConcurrentMap": f.CMap, "memdb.Locks": f.Locks} {
		if t == nil {
			c.Undecided("ANCHOR", name)
		}
	}
	reg := p.Func("memdb", "RegisterCommand")
	if reg == nil {
		c.Undecided("ANCHOR", "memdb.RegisterCommand")
		return f
	}
	// registration functions reachable from main.init
	mainPkg := p.Pkg(ModPath)
	regFns := map[*ssa.Function]bool{}
	if mainPkg != nil {
		seen := map[*ssa.Function]bool{}
		var walk func(fn *ssa.Function)
		walk = func(fn *ssa.Function) {
			if fn == nil || seen[fn] || !firstParty(fn) {
				return
			}
			seen[fn] = true
			regFns[fn] = true
			for _, b := range fn.Blocks {
				for _, in := range b.Instrs {
					if ci, ok := in.(ssa.CallInstruction); ok {
						walk(callee(ci))
					}
				}
			}
		}
		for name, m := range mainPkg.Members {
			if fn, ok := m.(*ssa.Function); ok && strings.HasPrefix(name, "init") {
				walk(fn)
			}
		}
	} else {
		c.Undecided("ANCHOR", "package main")
	}
	for fn := range regFns {
		for _, b := range fn.Blocks {
			for _, in := range b.Instrs {
				call, ok := in.(*ssa.Call)
				if !ok || callee(call) != reg {
					continue
				}
				name, ok1 := constString(call.Call.Args[0])
				ex := funcValue(call.Call.Args[1])
				// registration driven by a package-level table: for _, c := range table { RegisterCommand(c.name, c.executor) }
				if g1, nf, okN := tableField(call.Call.Args[0]); okN {
					if g2, ef, okE := tableField(call.Call.Args[1]); okE && g1 == g2 {
						if elems, ok := globalSliceInit(g1); ok {
							all := true
							for _, e := range elems {
								en, okn := constString(e[nf])
								ee := funcValue(e[ef])
								if !okn || ee == nil {
									all = false
									continue
								}
								f.Executors[en] = ee
								f.ExecNames[ee] = append(f.ExecNames[ee], en)
								f.RegSites[en] = call.Pos()
							}
							if all {
								continue
							}
						}
					}
				}
				if a1, nf, okN := localTableField(call.Call.Args[0]); okN {
					if a2, ef, okE := localTableField(call.Call.Args[1]); okE && a1 == a2 {
						if elems, ok := allocSliceInit(a1); ok {
							all := true
							for _, e := range elems {
								en, okn := constString(e[nf])
								ee := funcValue(e[ef])
								if !okn || ee == nil {
									all = false
									continue
								}
								f.Executors[en] = ee
								f.ExecNames[ee] = append(f.ExecNames[ee], en)
								f.RegSites[en] = call.Pos()
							}
							if all {
								continue
							}
						}
					}
				}
				if !ok1 || ex == nil {
					c.Add("FACT", fnName(fn), "RegisterCommand with non-constant name or non-function executor", call.Pos(), false, "executor table cannot be reconstructed")
					continue
				}
				f.Executors[name] = ex
				f.ExecNames[ex] = append(f.ExecNames[ex], name)
				f.RegSites[name] = call.Pos()
			}
		}
	}
	// dispatcher sites: indirect calls whose callee value is a load of command.Executor
	cmdT := p.NamedType("memdb", "command")
	for _, fn := range p.allFuncs("memdb", "server") {
		for _, b := range fn.Blocks {
			for _, in := range b.Instrs {
				call, ok := in.(*ssa.Call)
				if !ok || call.Call.IsInvoke() || callee(call) != nil {
					continue
				}
				if isFieldLoad(call.Call.Value, cmdT, "Executor") {
					f.Dispatchers = append(f.Dispatchers, call)
				}
			}
		}
	}
	c.Count("executors_registered", len(f.Executors))
	c.Count("dispatcher_sites", len(f.Dispatchers))
	return f
}

// SortedExecutors returns distinct executor functions in deterministic order.
func (f *Facts) SortedExecutors() []*ssa.Function {
	var out []*ssa.Function
	for fn := range f.ExecNames {
		out = append(out, fn)
	}
	sort.Slice(out, func(i, j int) bool { return out[i].String() < out[j].String() })
	return out
}
