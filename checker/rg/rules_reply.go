package rg

import (
	"fmt"
	"go/constant"
	"go/token"
	"go/types"
	"strings"

	"golang.org/x/tools/go/ssa"
)

// ---------- R13: reply-kind provenance ----------

type provCtx struct {
	c     *C
	memo  map[*ssa.Function]int // 0 unknown, 1 safe, 2 unsafe, 3 in progress
	depth int
}

func isNumericOrBool(t types.Type) bool {
	b, ok := t.Underlying().(*types.Basic)
	return ok && b.Info()&(types.IsNumeric|types.IsBoolean) != 0
}

func isBuiltinCall(v ssa.Value, name string) (*ssa.Call, bool) {
	c, ok := v.(*ssa.Call)
	if !ok {
		return nil, false
	}
	b, ok := c.Call.Value.(*ssa.Builtin)
	return c, ok && b.Name() == name
}

// safeString: the value has constant-or-numeric provenance (cannot contain client-controlled CR/LF).
func (p *provCtx) safeString(v ssa.Value, why *string) bool {
	seen := map[ssa.Value]bool{}
	var ok func(v ssa.Value) bool
	fail := func(v ssa.Value, msg string) bool {
		if *why == "" {
			*why = msg
		}
		return false
	}
	ok = func(v ssa.Value) bool {
		if seen[v] {
			return true
		}
		seen[v] = true
		switch x := v.(type) {
		case *ssa.Const:
			return true
		case *ssa.BinOp:
			if x.Op == token.ADD {
				return ok(x.X) && ok(x.Y)
			}
			return fail(v, "operator "+x.Op.String())
		case *ssa.Phi:
			for _, e := range x.Edges {
				if !ok(e) {
					return false
				}
			}
			return true
		case *ssa.ChangeType:
			return ok(x.X)
		case *ssa.Convert:
			if isNumericOrBool(x.X.Type()) {
				return true // string(rune) etc.
			}
			if bt, isB := x.X.Type().Underlying().(*types.Basic); isB && bt.Info()&types.IsString != 0 {
				return ok(x.X)
			}
			return fail(v, "conversion of a byte slice / payload ("+canon(x.X)+")")
		case *ssa.UnOp:
			if al, isAl := x.X.(*ssa.Alloc); isAl && x.Op == token.MUL {
				for _, r := range *al.Referrers() {
					if st, isSt := r.(*ssa.Store); isSt && st.Addr == al {
						if !ok(st.Val) {
							return false
						}
					}
				}
				return true
			}
			return fail(v, "load from memory "+canon(v))
		case *ssa.Extract:
			if call, isCall := x.Tuple.(*ssa.Call); isCall {
				return p.safeCall(call, x.Index, ok, why)
			}
			return fail(v, "tuple element")
		case *ssa.Call:
			return p.safeCall(x, 0, ok, why)
		case *ssa.Parameter:
			return fail(v, "function parameter "+x.Name())
		}
		return fail(v, fmt.Sprintf("%T %s", v, canon(v)))
	}
	return ok(v)
}

func (p *provCtx) safeCall(call *ssa.Call, resIdx int, ok func(ssa.Value) bool, why *string) bool {
	fail := func(msg string) bool {
		if *why == "" {
			*why = msg
		}
		return false
	}
	cc := call.Common()
	if cc.IsInvoke() {
		// err.Error() on an error whose provenance is constant
		if cc.Method.Name() == "Error" && isErrorType(cc.Value.Type()) {
			return p.safeError(cc.Value, why)
		}
		return fail("dynamic call " + cc.Method.Name())
	}
	cf := cc.StaticCallee()
	if cf == nil {
		return fail("dynamic call")
	}
	pkg := ""
	if cf.Pkg != nil {
		pkg = cf.Pkg.Pkg.Path()
	}
	switch pkg {
	case "strconv":
		if strings.HasPrefix(cf.Name(), "Format") || cf.Name() == "Itoa" || strings.HasPrefix(cf.Name(), "Quote") {
			return true
		}
	case "fmt":
		if cf.Name() == "Sprintf" || cf.Name() == "Sprint" || cf.Name() == "Sprintln" {
			args := cc.Args
			start := 0
			if cf.Name() == "Sprintf" {
				if _, isC := args[0].(*ssa.Const); !isC {
					return fail("non-constant format string")
				}
				start = 1
			}
			for _, a := range args[start:] {
				if isNilConst(a) {
					continue
				}
				elems, isLit := sliceLiteralElems(a)
				if !isLit {
					return fail("variadic arguments are not a literal list")
				}
				for _, e := range elems {
					mi, isMI := e.(*ssa.MakeInterface)
					if !isMI {
						if _, isC := e.(*ssa.Const); isC {
							continue
						}
						return fail("formatted operand of unknown shape")
					}
					if isNumericOrBool(mi.X.Type()) {
						continue
					}
					if bt, isB := mi.X.Type().Underlying().(*types.Basic); isB && bt.Info()&types.IsString != 0 {
						if !ok(mi.X) {
							return false
						}
						continue
					}
					if isErrorType(mi.X.Type()) {
						if !p.safeError(mi.X, why) {
							return false
						}
						continue
					}
					return fail("formatted operand of type " + mi.X.Type().String() + " (" + canon(mi.X) + ")")
				}
			}
			return true
		}
	}
	if firstParty(cf) && cf.Blocks != nil {
		return p.safeFunc(cf, resIdx, why)
	}
	return fail("result of " + cf.String())
}

// safeFunc: every value returned at result index idx has safe provenance (parameters count as unsafe).
func (p *provCtx) safeFunc(fn *ssa.Function, idx int, why *string) bool {
	key := fn
	switch p.memo[key] {
	case 1:
		return true
	case 2:
		if *why == "" {
			*why = "result of " + fnName(fn) + " may carry payload bytes"
		}
		return false
	case 3:
		return true // recursion: optimistic
	}
	if p.depth > 4 {
		if *why == "" {
			*why = "summary depth exceeded at " + fnName(fn)
		}
		return false
	}
	p.memo[key] = 3
	p.depth++
	res := true
	for _, b := range fn.Blocks {
		for _, in := range b.Instrs {
			if ret, isRet := in.(*ssa.Return); isRet && idx < len(ret.Results) {
				rv := ret.Results[idx]
				if isErrorType(rv.Type()) {
					if !p.safeError(rv, why) {
						res = false
					}
				} else if !p.safeString(rv, why) {
					res = false
				}
			}
		}
	}
	p.depth--
	if res {
		p.memo[key] = 1
	} else {
		p.memo[key] = 2
	}
	return res
}

// safeError: the error value was built from constant text (errors.New(const), fmt.Errorf(const, numeric...)) or is nil.
func (p *provCtx) safeError(v ssa.Value, why *string) bool {
	seen := map[ssa.Value]bool{}
	var ok func(v ssa.Value) bool
	fail := func(msg string) bool {
		if *why == "" {
			*why = msg
		}
		return false
	}
	ok = func(v ssa.Value) bool {
		if seen[v] {
			return true
		}
		seen[v] = true
		switch x := v.(type) {
		case *ssa.Const:
			return true
		case *ssa.Phi:
			for _, e := range x.Edges {
				if !ok(e) {
					return false
				}
			}
			return true
		case *ssa.MakeInterface:
			return ok(x.X)
		case *ssa.ChangeInterface:
			return ok(x.X)
		case *ssa.UnOp:
			if al, isAl := x.X.(*ssa.Alloc); isAl && x.Op == token.MUL {
				for _, r := range *al.Referrers() {
					if st, isSt := r.(*ssa.Store); isSt && st.Addr == al && !ok(st.Val) {
						return false
					}
				}
				return true
			}
			if g, isG := x.X.(*ssa.Global); isG {
				_ = g
				return true // package-level sentinel errors are constants of the program
			}
			return fail("error loaded from memory")
		case *ssa.Extract:
			call, isCall := x.Tuple.(*ssa.Call)
			if !isCall {
				return fail("error from tuple")
			}
			return okCall(p, call, x.Index, why)
		case *ssa.Call:
			return okCall(p, x, 0, why)
		}
		return fail(fmt.Sprintf("error of unknown provenance (%T)", v))
	}
	return ok(v)
}

func okCall(p *provCtx, call *ssa.Call, idx int, why *string) bool {
	fail := func(msg string) bool {
		if *why == "" {
			*why = msg
		}
		return false
	}
	cf := call.Common().StaticCallee()
	if cf == nil {
		return fail("error from a dynamic call")
	}
	pkg := ""
	if cf.Pkg != nil {
		pkg = cf.Pkg.Pkg.Path()
	}
	if pkg == "errors" && cf.Name() == "New" {
		if _, isC := call.Call.Args[0].(*ssa.Const); isC {
			return true
		}
		var w string
		if p.safeString(call.Call.Args[0], &w) {
			return true
		}
		return fail("errors.New of non-constant text: " + w)
	}
	if pkg == "fmt" && cf.Name() == "Errorf" {
		var w string
		dummy := func(v ssa.Value) bool { return p.safeString(v, &w) }
		// reuse Sprintf logic through a synthetic check
		args := call.Call.Args
		if _, isC := args[0].(*ssa.Const); !isC {
			return fail("fmt.Errorf with non-constant format")
		}
		for _, a := range args[1:] {
			if isNilConst(a) {
				continue
			}
			elems, isLit := sliceLiteralElems(a)
			if !isLit {
				return fail("fmt.Errorf operands unknown")
			}
			for _, e := range elems {
				if mi, isMI := e.(*ssa.MakeInterface); isMI {
					if isNumericOrBool(mi.X.Type()) {
						continue
					}
					if bt, isB := mi.X.Type().Underlying().(*types.Basic); isB && bt.Info()&types.IsString != 0 && dummy(mi.X) {
						continue
					}
					return fail("fmt.Errorf echoes a non-numeric operand: " + w)
				}
			}
		}
		return true
	}
	if firstParty(cf) && cf.Blocks != nil {
		return p.safeFunc(cf, idx, why)
	}
	// errors of the standard library (strconv.ParseInt ...) quote their input: NumError text contains the argument
	return fail("error produced by " + cf.String() + " may quote its input")
}

// lineFramedCtor describes a constructor of a line-framed reply.
type lineFramedCtor struct {
	Fn        *ssa.Function
	Kind      string // StringData | ErrorData | PlainData
	Sanitised bool
	Params    []int // parameters flowing into the data field
}

// sanitises: the value passes through a CR/LF-removing idiom: (*strings.Replacer).Replace, strings.ReplaceAll, strings.Map
// whose configuration mentions both "\r" and "\n".
func sanitises(v ssa.Value) bool {
	found := false
	backslice(v, func(x ssa.Value) bool {
		call, ok := x.(*ssa.Call)
		if !ok {
			return true
		}
		cf := call.Call.StaticCallee()
		if cf == nil {
			return true
		}
		full := cf.String()
		switch {
		case full == "(*strings.Replacer).Replace":
			// the replacer must be built with "\r" and "\n"
			if replacerHasCRLF(call.Call.Args[0]) {
				found = true
			}
			return false
		case full == "strings.ReplaceAll":
			// nested ReplaceAll calls: need both CR and LF somewhere in the chain
			cr, lf := false, false
			backslice(x, func(y ssa.Value) bool {
				if c2, ok := y.(*ssa.Call); ok && c2.Call.StaticCallee() != nil && c2.Call.StaticCallee().String() == "strings.ReplaceAll" {
					if s, ok := constString(c2.Call.Args[1]); ok {
						cr = cr || s == "\r"
						lf = lf || s == "\n"
					}
				}
				return true
			})
			if cr && lf {
				found = true
			}
			return false
		}
		return true
	})
	return found
}

func replacerHasCRLF(v ssa.Value) bool {
	cr, lf := false, false
	scanNew := func(call *ssa.Call) {
		if cf := call.Call.StaticCallee(); cf != nil && cf.String() == "strings.NewReplacer" {
			if elems, ok := sliceLiteralElems(call.Call.Args[0]); ok {
				for i := 0; i < len(elems); i += 2 {
					if s, ok := constString(elems[i]); ok {
						cr = cr || s == "\r"
						lf = lf || s == "\n"
					}
				}
			}
		}
	}
	backslice(v, func(x ssa.Value) bool {
		switch y := x.(type) {
		case *ssa.Call:
			scanNew(y)
			return false
		case *ssa.Global:
			// package-level replacer: find its initialisation store in the package init
			if y.Pkg != nil {
				if init := y.Pkg.Func("init"); init != nil {
					for _, b := range init.Blocks {
						for _, in := range b.Instrs {
							if st, ok := in.(*ssa.Store); ok && st.Addr == y {
								if c2, ok := st.Val.(*ssa.Call); ok {
									scanNew(c2)
								}
							}
						}
					}
				}
			}
			return false
		}
		return true
	})
	return cr && lf
}

// findLineFramed discovers constructors by "who writes the data field" of the three line-framed reply types.
func (c *C) findLineFramed() (ctors []*lineFramedCtor, strays []string) {
	respPkg := c.P.Pkg("resp")
	if respPkg == nil {
		return
	}
	kinds := map[string]bool{"StringData": true, "ErrorData": true, "PlainData": true}
	byFn := map[*ssa.Function]*lineFramedCtor{}
	for _, pk := range firstPartyPkgs {
		for _, fn := range c.P.allFuncs(pk) {
			for _, b := range fn.Blocks {
				for _, in := range b.Instrs {
					st, ok := in.(*ssa.Store)
					if !ok {
						continue
					}
					fa, ok := st.Addr.(*ssa.FieldAddr)
					if !ok {
						continue
					}
					pt, _ := fa.X.Type().Underlying().(*types.Pointer)
					if pt == nil {
						continue
					}
					n, _ := pt.Elem().(*types.Named)
					if n == nil || n.Obj().Pkg() == nil || n.Obj().Pkg() != respPkg.Pkg || !kinds[n.Obj().Name()] || fieldName(fa) != "data" {
						continue
					}
					if pk != "resp" {
						strays = append(strays, c.pos(st.Pos())+" "+fnName(fn)+" writes "+n.Obj().Name()+".data")
						continue
					}
					lc := byFn[fn]
					if lc == nil {
						lc = &lineFramedCtor{Fn: fn, Kind: n.Obj().Name(), Sanitised: true}
						byFn[fn] = lc
						ctors = append(ctors, lc)
					}
					if !sanitises(st.Val) {
						lc.Sanitised = false
					}
					// which parameters flow into the stored value
					backslice(st.Val, func(x ssa.Value) bool {
						if p, ok := x.(*ssa.Parameter); ok {
							for i, q := range fn.Params {
								if q == p {
									dup := false
									for _, e := range lc.Params {
										dup = dup || e == i
									}
									if !dup {
										lc.Params = append(lc.Params, i)
									}
								}
							}
						}
						return true
					})
				}
			}
		}
	}
	// wrappers: a function of package resp that hands (text derived from) its own parameters to a constructor's
	// data parameter is itself a constructor for the purposes of this rule (MakeErrorData -> newSanitizedError)
	for iter := 0; iter < 3; iter++ {
		for _, fn := range c.P.allFuncs("resp") {
			if byFn[fn] != nil || fn.Parent() != nil {
				continue
			}
			for _, b := range fn.Blocks {
				for _, in := range b.Instrs {
					call, ok := in.(*ssa.Call)
					if !ok {
						continue
					}
					inner := byFn[callee(call)]
					if inner == nil {
						continue
					}
					var ps []int
					for _, pi := range inner.Params {
						if pi >= len(call.Call.Args) {
							continue
						}
						backslice(call.Call.Args[pi], func(x ssa.Value) bool {
							if p, ok := x.(*ssa.Parameter); ok {
								for i, q := range fn.Params {
									if q == p {
										dup := false
										for _, e := range ps {
											dup = dup || e == i
										}
										if !dup {
											ps = append(ps, i)
										}
									}
								}
							}
							return true
						})
					}
					if len(ps) == 0 {
						continue
					}
					lc := &lineFramedCtor{Fn: fn, Kind: inner.Kind, Sanitised: inner.Sanitised, Params: ps}
					byFn[fn] = lc
					ctors = append(ctors, lc)
				}
			}
		}
	}
	return
}

var rR13 = RuleRef{Name: "R13", Doc: "reply-kind provenance: line-framed reply constructors (simple string, error, plain) only ever receive text of constant-or-numeric provenance, or sanitise CR/LF centrally; payload bytes travel in length-prefixed bulk strings; bulk/array headers are len() of exactly what is emitted", Run: func(c *C) {
	ctors, strays := c.findLineFramed()
	c.Add("R13", "-", "line-framed reply data fields are written only by constructors in package resp", token.NoPos, len(strays) == 0, strings.Join(strays, "; "))
	c.Count("R13_line_framed_constructors", len(ctors))
	c.Min("R13_line_framed_constructors", 4)
	byFn := map[*ssa.Function]*lineFramedCtor{}
	for _, lc := range ctors {
		byFn[lc.Fn] = lc
		if lc.Kind == "ErrorData" {
			c.AddNote("error constructor %s sanitises CR/LF centrally: %v", fnName(lc.Fn), lc.Sanitised)
		}
	}
	pc := &provCtx{c: c, memo: map[*ssa.Function]int{}}
	nSites := 0
	// the decoding direction (the request parser rebuilding what a client sent line by line) is not a reply path
	decoding := map[*ssa.Function]bool{}
	if parse := c.P.Func("resp", "parse"); parse != nil {
		for f := range c.reachableFirstParty([]*ssa.Function{parse}) {
			if pkgRel(f) == "resp" {
				decoding[f] = true
			}
		}
	}
	// function values kept in a package-level table (map or slice initialised in the package's init) that only decoding
	// functions consult belong to the decoding direction too
	if rp := c.P.Pkg("resp"); rp != nil {
		if initFn := rp.Func("init"); initFn != nil {
			users := map[*ssa.Global][]*ssa.Function{}
			for _, f := range c.P.allFuncs("resp") {
				root := f
				for root.Parent() != nil {
					root = root.Parent()
				}
				if root == initFn {
					continue
				}
				for _, b := range f.Blocks {
					for _, in := range b.Instrs {
						for _, op := range in.Operands(nil) {
							if g, ok := (*op).(*ssa.Global); ok {
								users[g] = append(users[g], f)
							}
						}
					}
				}
			}
			flowsTo := func(v ssa.Value) *ssa.Global {
				seen := map[ssa.Value]bool{}
				work := []ssa.Value{v}
				for len(work) > 0 && len(seen) < 200 {
					x := work[0]
					work = work[1:]
					if seen[x] || x.Referrers() == nil {
						continue
					}
					seen[x] = true
					for _, r := range *x.Referrers() {
						switch y := r.(type) {
						case *ssa.MapUpdate:
							if y.Value == x {
								work = append(work, y.Map)
							}
						case *ssa.Store:
							if y.Val != x {
								continue
							}
							if g, ok := y.Addr.(*ssa.Global); ok {
								return g
							}
							a := y.Addr
							for i := 0; i < 4; i++ {
								switch z := a.(type) {
								case *ssa.IndexAddr:
									a = z.X
									continue
								case *ssa.FieldAddr:
									a = z.X
									continue
								}
								break
							}
							work = append(work, a)
						case *ssa.Slice:
							work = append(work, y)
						case *ssa.MakeInterface:
							work = append(work, y)
						case *ssa.ChangeType:
							work = append(work, y)
						case *ssa.MakeClosure:
							work = append(work, y)
						}
					}
				}
				return nil
			}
			for _, an := range initFn.AnonFuncs {
				var g *ssa.Global
				for _, b := range initFn.Blocks {
					for _, in := range b.Instrs {
						for _, op := range in.Operands(nil) {
							if *op == ssa.Value(an) {
								if v, ok := in.(ssa.Value); ok {
									if gg := flowsTo(v); gg != nil {
										g = gg
									}
								}
								switch y := in.(type) {
								case *ssa.MapUpdate:
									if gg := flowsTo(y.Map); gg != nil {
										g = gg
									}
								case *ssa.Store:
									if gg, ok := y.Addr.(*ssa.Global); ok {
										g = gg
									} else {
										a := y.Addr
										for i := 0; i < 4; i++ {
											switch z := a.(type) {
											case *ssa.IndexAddr:
												a = z.X
												continue
											case *ssa.FieldAddr:
												a = z.X
												continue
											}
											break
										}
										if gg := flowsTo(a); gg != nil {
											g = gg
										}
									}
								}
							}
						}
					}
				}
				if g == nil || len(users[g]) == 0 {
					continue
				}
				all := true
				for _, u := range users[g] {
					if !decoding[u] {
						all = false
					}
				}
				if all {
					decoding[an] = true
				}
			}
		}
	}
	for _, pk := range []string{"memdb", "server", "resp"} {
		for _, fn := range c.P.allFuncs(pk) {
			if byFn[fn] != nil || byFn[origin(fn)] != nil || decoding[fn] {
				continue // the constructors themselves
			}
			ord := map[string]int{}
			for _, b := range fn.Blocks {
				for _, in := range b.Instrs {
					call, ok := in.(*ssa.Call)
					if !ok {
						continue
					}
					lc := byFn[callee(call)]
					if lc == nil {
						continue
					}
					nSites++
					con := "argument of " + lc.Fn.Name()
					ord[con]++
					if ord[con] > 1 {
						con = fmt.Sprintf("%s#%d", con, ord[con])
					}
					if lc.Sanitised {
						o := c.Add("R13", fnName(fn), con, call.Pos(), true, "constructor removes CR/LF centrally")
						o.Trivial = true
						continue
					}
					good := true
					why := ""
					for _, pi := range lc.Params {
						if pi >= len(call.Call.Args) {
							continue
						}
						a := call.Call.Args[pi]
						if lc.Fn.Signature.Variadic() && pi == len(lc.Fn.Params)-1 {
							if isNilConst(a) {
								continue
							}
							elems, isLit := sliceLiteralElems(a)
							if !isLit {
								good, why = false, "variadic argument list is not a literal"
								continue
							}
							for _, e := range elems {
								if !pc.safeString(e, &why) {
									good = false
								}
							}
							continue
						}
						if !pc.safeString(a, &why) {
							good = false
						}
					}
					c.Add("R13", fnName(fn), con, call.Pos(), good, "text is not of constant-or-numeric provenance: "+why+" — payload bytes must be sent with MakeBulkData")
				}
			}
		}
	}
	c.Count("R13_constructor_call_sites", nSites)
	c.Min("R13_constructor_call_sites", 250)
	// encoder obligations
	if fn := c.P.Func("resp", "BulkData.ToBytes"); fn != nil {
		hdr, payload := false, false
		for _, b := range fn.Blocks {
			for _, in := range b.Instrs {
				// header: some strconv formatting of len(r.data); payload: r.data used as data (not only len / nil test)
				if call, ok := in.(*ssa.Call); ok && formatsLenOf(call, "recv.data", 0) {
					hdr = true
				}
				var rands [8]*ssa.Value
				for _, op := range in.Operands(rands[:0]) {
					if *op == nil || canon(*op) != "recv.data" {
						continue
					}
					if _, isLoad := (*op).(*ssa.UnOp); !isLoad {
						continue
					}
					switch y := in.(type) {
					case *ssa.BinOp:
						_ = y // nil comparison
					case *ssa.Call:
						if bi, ok := y.Call.Value.(*ssa.Builtin); ok && bi.Name() == "len" {
							continue
						}
						payload = true
					default:
						payload = true
					}
				}
			}
		}
		c.Add("R13", fnName(fn), "bulk header is len() of the emitted payload field", fn.Pos(), hdr && payload, "the formatted length must be len(r.data) and the bytes emitted after it must be r.data")
	} else {
		c.Undecided("R13", "anchor (*BulkData).ToBytes")
	}
	if fn := c.P.Func("resp", "ArrayData.ToBytes"); fn != nil {
		hdr, ranged := false, false
		for _, b := range fn.Blocks {
			for _, in := range b.Instrs {
				switch x := in.(type) {
				case *ssa.Call:
					// Itoa/FormatInt(n), AppendInt(buf, n, 10), or a first-party helper that formats the number it is given
					if formatsLenOf(x, "recv.data", 0) {
						hdr = true
					}
					if x.Call.IsInvoke() && x.Call.Method.Name() == "ToBytes" {
						// element being encoded must be an element of r.data
						if strings.HasPrefix(canon(x.Call.Value), "recv.data[") {
							ranged = true
						}
					}
					// a visitor: r.each(func(elem) { .. elem.ToBytes() .. }) where each ranges over recv.data and hands
					// every element to its function argument
					if cf := callee(x); cf != nil && cf.Signature.Recv() != nil && len(x.Call.Args) == 2 && canon(x.Call.Args[0]) == "recv" && len(cf.Blocks) > 0 {
						visits := false
						for _, b2 := range cf.Blocks {
							for _, in2 := range b2.Instrs {
								if c2, ok := in2.(*ssa.Call); ok {
									if prm, ok := c2.Call.Value.(*ssa.Parameter); ok && len(cf.Params) == 2 && prm == cf.Params[1] && len(c2.Call.Args) == 1 && strings.HasPrefix(canon(c2.Call.Args[0]), "recv.data[") {
										visits = true
									}
								}
							}
						}
						if mc, ok := x.Call.Args[1].(*ssa.MakeClosure); ok && visits {
							if cl, ok := mc.Fn.(*ssa.Function); ok && len(cl.Params) == 1 {
								for _, b2 := range cl.Blocks {
									for _, in2 := range b2.Instrs {
										if c2, ok := in2.(*ssa.Call); ok && c2.Call.IsInvoke() && c2.Call.Method.Name() == "ToBytes" && c2.Call.Value == ssa.Value(cl.Params[0]) {
											ranged = true
										}
									}
								}
							}
						}
					}
				}
			}
		}
		c.Add("R13", fnName(fn), "array header is len() of the slice whose elements are emitted", fn.Pos(), hdr && ranged, "the formatted count must be len(r.data) and the loop must encode the elements of r.data")
	} else {
		c.Undecided("R13", "anchor (*ArrayData).ToBytes")
	}
	// decoder objects never re-enter the reply path: no ToBytes call in code reachable from resp.parse
	if parse := c.P.Func("resp", "parse"); parse != nil {
		bad := ""
		for _, fn := range c.P.allFuncs("resp") {
			if fn != parse && fn.Name() != "readLine" && !strings.HasPrefix(fn.Name(), "parse") {
				continue
			}
			for _, b := range fn.Blocks {
				for _, in := range b.Instrs {
					if ci, ok := in.(ssa.CallInstruction); ok && ci.Common().IsInvoke() && ci.Common().Method.Name() == "ToBytes" {
						bad = c.pos(in.Pos())
					}
				}
			}
		}
		c.Add("R13", fnName(parse), "decoder-built line objects are never encoded as replies", parse.Pos(), bad == "", bad)
	}
}}

// ---------- R7: every executor path returns a non-nil reply ----------

func mayBeNil(v ssa.Value, seen map[ssa.Value]bool) (bool, string) {
	if seen[v] {
		return false, ""
	}
	seen[v] = true
	switch x := v.(type) {
	case *ssa.Const:
		if x.Value == nil {
			return true, "nil constant"
		}
		return false, ""
	case *ssa.Phi:
		for _, e := range x.Edges {
			if n, w := mayBeNil(e, seen); n {
				return true, w
			}
		}
		return false, ""
	case *ssa.MakeInterface:
		return false, "" // typed pointer inside an interface: non-nil interface
	case *ssa.ChangeInterface:
		return mayBeNil(x.X, seen)
	case *ssa.UnOp:
		if al, ok := x.X.(*ssa.Alloc); ok && x.Op == token.MUL {
			stores := 0
			for _, r := range *al.Referrers() {
				if st, ok := r.(*ssa.Store); ok && st.Addr == al {
					stores++
					if n, w := mayBeNil(st.Val, seen); n {
						return true, w
					}
				}
			}
			if stores == 0 {
				return true, "zero value of the result variable"
			}
			return false, ""
		}
		return false, ""
	case *ssa.Call:
		// result of another executor-like function returning RedisData: checked at that function
		return false, ""
	}
	return false, ""
}

var rR7 = RuleRef{Name: "R7", Doc: "every path of every registered executor returns a non-nil reply (no return of the nil interface, no result variable left at its zero value)", Run: func(c *C) {
	n := 0
	check := func(fn *ssa.Function) {
		n++
		bad := []string{}
		// a result variable (spilled because of defers) that is not assigned on some path to the return:
		// use a must-flow of "assigned" on the result cell
		var cell *ssa.Alloc
		for _, b := range fn.Blocks {
			for _, in := range b.Instrs {
				ret, ok := in.(*ssa.Return)
				if !ok || len(ret.Results) != 1 {
					continue
				}
				if u, ok := ret.Results[0].(*ssa.UnOp); ok {
					if al, ok := u.X.(*ssa.Alloc); ok {
						cell = al
					}
				}
				if isNil, why := mayBeNil(ret.Results[0], map[ssa.Value]bool{}); isNil {
					bad = append(bad, c.pos(ret.Pos())+": may return nil ("+why+")")
				}
			}
		}
		_ = cell
		c.Add("R7", fnName(fn), "returns a non-nil reply on every path", fn.Pos(), len(bad) == 0, strings.Join(uniq(bad), "; "))
	}
	done := map[*ssa.Function]bool{}
	for _, fn := range c.Facts.SortedExecutors() {
		check(fn)
		done[fn] = true
	}
	// helpers that produce an executor's reply (static callees returning resp.RedisData). A helper whose result the
	// executor only ever returns behind a `result != nil` test reports "nothing to object" with nil (a validation
	// phase): its nil is not a reply and it is not held to the rule
	guardedOnly := func(call *ssa.Call) bool {
		if call.Referrers() == nil {
			return false
		}
		used := false
		for _, r := range *call.Referrers() {
			switch x := r.(type) {
			case *ssa.DebugRef:
			case *ssa.BinOp:
				if !(x.Op == token.EQL || x.Op == token.NEQ) || !(isNilConst(x.X) || isNilConst(x.Y)) {
					return false
				}
			case *ssa.Return, *ssa.Store:
				if st, isSt := r.(*ssa.Store); isSt {
					// the result variable of a function with deferred calls
					if _, isCell := st.Addr.(*ssa.Alloc); !isCell || st.Val != ssa.Value(call) {
						return false
					}
				}
				used = true
				// the return must sit behind the non-nil edge of a test of this very value
				blk := r.Block()
				okEdge := false
				for d := blk; d != nil && d.Idom() != nil; d = d.Idom() {
					id := d.Idom()
					if len(d.Preds) != 1 || d.Preds[0] != id {
						continue
					}
					cond, neg, ok := branchCond(id, d)
					if !ok {
						continue
					}
					if bo, ok := cond.(*ssa.BinOp); ok && (bo.X == ssa.Value(call) || bo.Y == ssa.Value(call)) && (isNilConst(bo.X) || isNilConst(bo.Y)) {
						if (bo.Op == token.NEQ) != neg {
							okEdge = true
						}
					}
				}
				if !okEdge {
					return false
				}
			default:
				return false
			}
		}
		return used
	}
	for _, fn := range c.Facts.SortedExecutors() {
		for _, b := range fn.Blocks {
			for _, in := range b.Instrs {
				if call, ok := in.(*ssa.Call); ok {
					if cf := callee(call); cf != nil && firstParty(cf) && pkgRel(cf) == "memdb" && !done[cf] && cf.Signature.Results().Len() == 1 {
						if n, ok := cf.Signature.Results().At(0).Type().(*types.Named); ok && n.Obj().Name() == "RedisData" {
							if guardedOnly(call) {
								continue
							}
							done[cf] = true
							check(cf)
						}
					}
				}
			}
		}
	}
	c.Count("R7_reply_functions", n)
	c.Min("R7_reply_functions", 70)
}}

var _ = constant.MakeBool

// formatsLenOf: call hands len(<what>) (possibly converted) to a strconv formatter, directly or through a first-party
// helper that passes the parameter on to one (appendHeader(buf, '$', int64(len(r.data)))).
func formatsLenOf(call *ssa.Call, what string, depth int) bool {
	cf := callee(call)
	if cf == nil || cf.Pkg == nil {
		return false
	}
	for i, arg := range call.Call.Args {
		for {
			if cv, ok := arg.(*ssa.Convert); ok {
				arg = cv.X
				continue
			}
			break
		}
		ln, ok := isBuiltinCall(arg, "len")
		if !ok || canon(ln.Call.Args[0]) != what {
			continue
		}
		if cf.Pkg.Pkg.Path() == "strconv" {
			return true
		}
		if firstParty(cf) && cf.Blocks != nil && i < len(cf.Params) && depth < 2 && paramReachesFormatter(cf, cf.Params[i], depth) {
			return true
		}
	}
	return false
}

func paramReachesFormatter(fn *ssa.Function, prm ssa.Value, depth int) bool {
	seen := map[ssa.Value]bool{}
	var walk func(v ssa.Value) bool
	walk = func(v ssa.Value) bool {
		if seen[v] || v.Referrers() == nil {
			return false
		}
		seen[v] = true
		for _, r := range *v.Referrers() {
			switch x := r.(type) {
			case *ssa.Convert:
				if walk(x) {
					return true
				}
			case *ssa.Phi:
				if walk(x) {
					return true
				}
			case *ssa.Call:
				if cf := callee(x); cf != nil && cf.Pkg != nil {
					if cf.Pkg.Pkg.Path() == "strconv" {
						return true
					}
					if firstParty(cf) && cf.Blocks != nil && depth < 2 {
						for i, a := range x.Call.Args {
							if a == v && i < len(cf.Params) && paramReachesFormatter(cf, cf.Params[i], depth+1) {
								return true
							}
						}
					}
				}
			}
		}
		return false
	}
	return walk(prm)
}
