package rg

import (
	"fmt"
	"os"
	"go/token"
	"go/types"
	"strings"

	"golang.org/x/tools/go/ssa"
)

// R16r: order of the raft Ready loop and of the apply/acknowledge path.
var rR16r = RuleRef{Name: "R16r", Doc: "raft ready loop (raftexample serveChannels), every path of the Ready case: wal.Save (and saveSnap before it when a snapshot is present) precedes transport.Send and publishEntries; raftStorage.Append precedes Node.Advance; publishEntries precedes maybeTriggerSnapshot precedes Advance; every path ends in Advance or stop(). Apply loop: the executor runs before the result is handed to the waiting client, and before ApplyDoneC is closed; publishEntries advances appliedIndex only after the commit was handed over", Run: func(c *C) {
	// the Ready handler: the raftexample function that calls Node.Advance (serveChannels itself, or a helper the
	// Ready case was extracted into)
	var fn *ssa.Function
	for _, f := range c.P.allFuncs("raftexample") {
		for _, b := range f.Blocks {
			for _, in := range b.Instrs {
				if ci, ok := in.(ssa.CallInstruction); ok && callName(ci) == "Advance" && ci.Common().IsInvoke() {
					fn = f
				}
			}
		}
	}
	if fn == nil {
		c.Undecided("R16r", "the function that calls Node.Advance in package raftexample")
		return
	}
	// the event loop's select (if the handler is the loop itself): the one with a receive from Node.Ready()
	var sel *ssa.Select
	for _, b := range fn.Blocks {
		for _, in := range b.Instrs {
			s, ok := in.(*ssa.Select)
			if !ok {
				continue
			}
			for _, st := range s.States {
				if call, ok := st.Chan.(*ssa.Call); ok && callName(call) == "Ready" {
					sel = s
				}
			}
		}
	}
	of := c.orderFlow(fn, func(in ssa.Instruction) bool { return sel != nil && in == ssa.Instruction(sel) }, true, "C|Save", "C|saveSnap", "C|Append", "C|Send", "C|publishEntries", "C|maybeTriggerSnapshot", "C|Advance", "C|ApplySnapshot", "T|call:IsEmptySnap")
	type need struct {
		at   string
		all  []string
		what string
	}
	needs := []need{
		{"Send", []string{"C|Save"}, "wal.Save precedes transport.Send"},
		{"publishEntries", []string{"C|Save", "C|Append"}, "wal.Save and raftStorage.Append precede publishEntries"},
		{"ApplySnapshot", []string{"C|saveSnap", "C|Save"}, "a received snapshot is saved (file, then WAL) before it is applied"},
		{"maybeTriggerSnapshot", []string{"C|publishEntries"}, "publishEntries precedes maybeTriggerSnapshot"},
		{"Advance", []string{"C|Save", "C|Append", "C|Send", "C|publishEntries", "C|maybeTriggerSnapshot"}, "Advance comes last"},
	}
	for _, nd := range needs {
		matched := 0
		var bad []string
		for _, b := range fn.Blocks {
			for _, in := range b.Instrs {
				ci, ok := in.(ssa.CallInstruction)
				if !ok || callName(ci) != nd.at {
					continue
				}
				if _, isDefer := in.(*ssa.Defer); isDefer {
					continue
				}
				states, live := of.States(in)
				if !live {
					continue
				}
				matched++
				for _, st := range states {
					for _, f := range nd.all {
						if !st[f] {
							bad = append(bad, c.pos(in.Pos())+": a path reaches "+nd.at+" without "+f[2:])
						}
					}
				}
			}
		}
		c.Add("R16r", fnName(fn), nd.what, fn.Pos(), len(bad) == 0 && matched > 0, strings.Join(uniq(bad), "; ")+map[bool]string{true: "", false: " (call not found: undecided)"}[matched > 0])
	}
	// the snapshot of a Ready goes to disk (file and WAL marker) before its hard state and entries: a crash between the two
	// must not leave a WAL whose committed prefix starts behind a snapshot that does not exist yet
	{
		matched := 0
		var bad []string
		for _, b := range fn.Blocks {
			for _, in := range b.Instrs {
				ci, ok := in.(ssa.CallInstruction)
				if !ok || callName(ci) != "Save" {
					continue
				}
				if _, isDefer := in.(*ssa.Defer); isDefer {
					continue
				}
				states, live := of.States(in)
				if !live {
					continue
				}
				matched++
				for _, st := range states {
					if os.Getenv("RG_DBG_R16R") != "" {
						fmt.Fprintf(os.Stderr, "state at Save: %v\n", st)
					}
					empty := st["T|call:IsEmptySnap"]
					for f := range st {
						if strings.HasPrefix(f, "T|pure:IsEmptySnap(") {
							empty = true
						}
					}
					if !st["C|saveSnap"] && !empty {
						bad = append(bad, c.pos(in.Pos())+": a path reaches wal.Save with a snapshot in the Ready that was not saved yet")
					}
				}
			}
		}
		c.Add("R16r", fnName(fn), "a received snapshot is saved before the hard state and the entries of the same Ready", fn.Pos(), len(bad) == 0 && matched > 0, strings.Join(uniq(bad), "; ")+map[bool]string{true: "", false: " (call not found: undecided)"}[matched > 0])
	}
	// wal.Save call is unconditional w.r.t. the entries: it must receive rd.HardState and rd.Entries of the same Ready
	for _, b := range fn.Blocks {
		for _, in := range b.Instrs {
			call, ok := in.(*ssa.Call)
			if !ok || callName(call) != "Save" || len(call.Call.Args) < 3 {
				continue
			}
			hs, ents := canon(call.Call.Args[1]), canon(call.Call.Args[2])
			okArgs := strings.HasSuffix(hs, ".HardState") && strings.HasSuffix(ents, ".Entries") && strings.TrimSuffix(hs, ".HardState") == strings.TrimSuffix(ents, ".Entries")
			c.Add("R16r", fnName(fn), "wal.Save persists the HardState and the Entries of the Ready being processed", call.Pos(), okArgs, "arguments: "+hs+", "+ents)
			// Append must receive the same entries
		}
	}
	// every path from the Ready case back to the select passed Advance (or left through stop/return)
	if sel != nil {
		states, live := of.F.Before(sel)
		var bad []string
		if live {
			for e := range states {
				st := decState(e)
				if st["C|Save"] && !st["C|Advance"] {
					bad = append(bad, "a path processes a Ready and returns to the select without Node.Advance")
				}
			}
		}
		c.Add("R16r", fnName(fn), "every processed Ready is followed by Advance before the next select", fn.Pos(), len(bad) == 0, strings.Join(uniq(bad), "; "))
	}
	// --- apply loop ---
	ap := c.applyLoop()
	if ap == nil {
		c.Undecided("R16r", "anchor server.handleClusterCommits")
		return
	}
	// outer iteration starts at the receive from commitC (range over channel = UnOp ARROW with CommaOk)
	isRecv := func(in ssa.Instruction) bool {
		u, ok := in.(*ssa.UnOp)
		return ok && u.Op == token.ARROW
	}
	af := c.orderFlow(ap, isRecv, true, "C|*")
	isDispatch := func(in ssa.Instruction) bool {
		call, ok := in.(*ssa.Call)
		if !ok {
			return false
		}
		cf := callee(call)
		if cf == nil {
			return false
		}
		if isDispatcherParent(c, cf) {
			return true
		}
		// a helper of the apply loop that wraps the dispatcher call
		if firstParty(cf) && pkgRel(cf) == "server" {
			for _, d := range c.Facts.Dispatchers {
				if callsTransitively(cf, d.Parent(), 0) {
					return true
				}
			}
		}
		return false
	}
	var execName string
	nExec := 0
	for _, b := range ap.Blocks {
		for _, in := range b.Instrs {
			if isDispatch(in) {
				nExec++
				execName = callName(in.(ssa.CallInstruction))
			}
		}
	}
	c.Add("R16r", fnName(ap), "the apply loop executes committed commands through exactly one dispatcher call", ap.Pos(), nExec == 1, "dispatcher calls found: "+itoa(nExec))
	for _, b := range ap.Blocks {
		for _, in := range b.Instrs {
			switch x := in.(type) {
			case *ssa.Send:
				// hand-off of the result to the waiting connection
				if _, ok := x.Chan.Type().Underlying().(*types.Chan); ok {
					states, live := af.States(in)
					good := true
					if live {
						for _, st := range states {
							if !st["C|"+execName] {
								good = false
							}
						}
					}
					// the value sent is the executor's result
					fromExec := false
					backslice(x.X, func(v ssa.Value) bool {
						if call, ok := v.(*ssa.Call); ok && isDispatch(call) {
							fromExec = true
						}
						return true
					})
					c.Add("R16r", fnName(ap), "the value handed to the waiting client is the result of executing its own command", in.Pos(), good && fromExec, "the send must be preceded by the dispatcher call of the same iteration and carry its result")
				}
			case *ssa.Call:
				if bi, ok := x.Call.Value.(*ssa.Builtin); ok && bi.Name() == "close" {
					if strings.Contains(canon(x.Call.Args[0]), "ApplyDoneC") {
						// no dispatch after the close within one commit message
						c.Add("R16r", fnName(ap), "ApplyDoneC is closed after the commands of the commit were executed", in.Pos(), !reachesBefore(x, isDispatch, isRecv), "a dispatcher call is reachable after close(ApplyDoneC) within the same commit")
					}
				}
			}
		}
	}
	// publishEntries: appliedIndex updated only after the hand-over select
	pe := c.P.Func("raftexample", "RaftNode.publishEntries")
	if pe == nil {
		c.Undecided("R16r", "anchor raftexample.(*RaftNode).publishEntries")
		return
	}
	for _, b := range pe.Blocks {
		for _, in := range b.Instrs {
			st, ok := in.(*ssa.Store)
			if !ok {
				continue
			}
			fa, ok := st.Addr.(*ssa.FieldAddr)
			if !ok || fieldName(fa) != "appliedIndex" {
				continue
			}
			isSel := func(i ssa.Instruction) bool { _, ok := i.(*ssa.Select); return ok }
			c.Add("R16r", fnName(pe), "appliedIndex advances only after the commit was handed to the apply loop", st.Pos(), !reachesBefore(st, isSel, nil), "the hand-over select is reachable after the store to appliedIndex")
		}
	}
	// conf changes are applied from the log only
	var outside []string
	// publishEntries and the helpers that only it (or one of them) calls
	scope := map[*ssa.Function]bool{}
	for _, f := range helperScope(pe, 3) {
		scope[f] = true
	}
	for changed := true; changed; {
		changed = false
		for f := range scope {
			if f == pe {
				continue
			}
			for _, g := range c.P.allFuncs(firstPartyPkgs...) {
				if scope[g] {
					continue
				}
				for _, b := range g.Blocks {
					for _, in := range b.Instrs {
						if ci, ok := in.(ssa.CallInstruction); ok && callee(ci) == f && scope[f] {
							delete(scope, f) // also called from elsewhere: not a private helper of the publish path
							changed = true
						}
					}
				}
			}
		}
	}
	for _, f := range c.P.allFuncs(firstPartyPkgs...) {
		if f == pe || scope[f] {
			continue
		}
		for _, b := range f.Blocks {
			for _, in := range b.Instrs {
				if ci, ok := in.(ssa.CallInstruction); ok && callName(ci) == "ApplyConfChange" {
					outside = append(outside, c.pos(in.Pos()))
				}
			}
		}
	}
	c.Add("R16r", "first-party", "Node.ApplyConfChange is called only from publishEntries (membership changes come from the log)", token.NoPos, len(outside) == 0, strings.Join(outside, "; "))
}}

// reachesBefore: starting after instruction `from`, is an instruction satisfying target reachable without passing a stop instruction?
func reachesBefore(from ssa.Instruction, target func(ssa.Instruction) bool, stop func(ssa.Instruction) bool) bool {
	seen := map[*ssa.BasicBlock]bool{}
	var scan func(b *ssa.BasicBlock, start int) bool
	scan = func(b *ssa.BasicBlock, start int) bool {
		for i := start; i < len(b.Instrs); i++ {
			in := b.Instrs[i]
			if stop != nil && stop(in) {
				return false
			}
			if target(in) {
				return true
			}
		}
		for _, s := range b.Succs {
			if !seen[s] {
				seen[s] = true
				if scan(s, 0) {
					return true
				}
			}
		}
		return false
	}
	b := from.Block()
	for i, in := range b.Instrs {
		if in == from {
			return scan(b, i+1)
		}
	}
	return false
}
