package rg

import (
	"fmt"
	"go/token"
	"go/types"
	"sort"
	"strings"

	"golang.org/x/tools/go/ssa"
)

var firstPartyPkgs = []string{"memdb", "server", "resp", "util", "logger", "config", "raftexample"}

// summarise computes, for first-party functions, a transitive set-valued summary over static calls
// (go statements excluded: they run in another goroutine).
func (c *C) summarise(direct func(fn *ssa.Function, in ssa.Instruction) []string) map[*ssa.Function]Set {
	fns := c.P.allFuncs(firstPartyPkgs...)
	sum := map[*ssa.Function]Set{}
	calls := map[*ssa.Function][]*ssa.Function{}
	for _, fn := range fns {
		sum[fn] = Set{}
		for _, b := range fn.Blocks {
			for _, in := range b.Instrs {
				for _, s := range direct(fn, in) {
					sum[fn][s] = true
				}
				if ci, ok := in.(ssa.CallInstruction); ok {
					if _, isGo := in.(*ssa.Go); isGo {
						continue
					}
					if cf := callee(ci); cf != nil && firstParty(cf) {
						calls[fn] = append(calls[fn], cf)
					}
					if mc, ok := ci.Common().Value.(*ssa.MakeClosure); ok {
						calls[fn] = append(calls[fn], mc.Fn.(*ssa.Function))
					}
					// a call of a function-typed parameter runs whatever the call sites bind to it
					if prm, ok := ci.Common().Value.(*ssa.Parameter); ok {
						fab, _ := c.funcArgBindings()
						calls[fn] = append(calls[fn], fab[prm]...)
					}
				}
			}
		}
	}
	for changed := true; changed; {
		changed = false
		for _, fn := range fns {
			for _, cf := range calls[fn] {
				src := sum[cf]
				if src == nil {
					src = sum[origin(cf)]
				}
				for k := range src {
					if !sum[fn][k] {
						sum[fn][k] = true
						changed = true
					}
				}
			}
		}
	}
	return sum
}

func (c *C) acquireSummary() map[*ssa.Function]Set {
	return c.summarise(func(fn *ssa.Function, in ssa.Instruction) []string {
		if ci, ok := in.(ssa.CallInstruction); ok {
			if _, isDefer := in.(*ssa.Defer); isDefer {
				return nil
			}
			if e := c.classifyLock(ci); e != nil && e.Acquire {
				return []string{e.Class}
			}
		}
		return nil
	})
}

// blockingOp classifies an instruction that may block the goroutine.
func blockingOp(in ssa.Instruction) string {
	switch x := in.(type) {
	case *ssa.Send:
		return "channel send"
	case *ssa.UnOp:
		if x.Op == token.ARROW {
			return "channel receive"
		}
	case *ssa.Select:
		if x.Blocking {
			return "select"
		}
	case ssa.CallInstruction:
		if _, isGo := in.(*ssa.Go); isGo {
			return ""
		}
		cc := x.Common()
		if cc.IsInvoke() {
			if cc.Method.Pkg() != nil && cc.Method.Pkg().Path() == "net" && (cc.Method.Name() == "Write" || cc.Method.Name() == "Read") {
				return "net.Conn." + cc.Method.Name()
			}
			return ""
		}
		f := cc.StaticCallee()
		if f == nil || f.Pkg == nil {
			if f != nil && f.Signature.Recv() != nil {
				if n, ok := derefNamed(f.Signature.Recv().Type()); ok && n.Obj().Pkg() != nil && n.Obj().Pkg().Path() == "sync" {
					if (n.Obj().Name() == "WaitGroup" && f.Name() == "Wait") || (n.Obj().Name() == "Cond" && f.Name() == "Wait") {
						return "sync." + n.Obj().Name() + ".Wait"
					}
				}
			}
			return ""
		}
		if f.Pkg.Pkg.Path() == "time" && (f.Name() == "Sleep") {
			return "time.Sleep"
		}
	}
	return ""
}

// R14 order: class graph acyclic; no stripe acquisition while a stripe is held (outside the *Multi helpers); no blocking under a stripe.
var rR14order = RuleRef{Name: "R14o", Doc: "lock order: every acquisition (direct or through a callee) made while another lock is held adds an edge to a global class graph, which must be acyclic; the stripe class must have no self-edge outside the *Multi helpers (so CheckTTL, which acquires a stripe, is never called with one held); no blocking operation while a stripe is held", Run: func(c *C) {
	la := c.lockAn()
	acq := c.acquireSummary()
	subsIdle := c.listSubscriptionsNeverPopulated()
	blk := c.summarise(func(fn *ssa.Function, in ssa.Instruction) []string {
		if snd, ok := in.(*ssa.Send); ok && subsIdle && sendOnListSubscription(snd) {
			return nil // conditional exception, side condition re-verified on this run
		}
		if b := blockingOp(in); b != "" {
			return []string{b + " in " + fnName(fn)}
		}
		return nil
	})
	type edge struct{ from, to string }
	edges := map[edge]string{}
	nAcq := 0
	for _, fn := range c.P.allFuncs(firstPartyPkgs...) {
		if isMethodOf(fn, c.Facts.Locks) {
			continue // the helpers are checked by R15m
		}
		// quick skip: functions that neither lock nor call
		lf := la.flow(fn)
		selfEdge := []string{}
		blocking := []string{}
		hasLock := false
		for _, b := range fn.Blocks {
			for _, in := range b.Instrs {
				var classes []string
				var what string
				if ci, ok := in.(ssa.CallInstruction); ok {
					if _, isGo := in.(*ssa.Go); isGo {
						continue
					}
					if _, isDefer := in.(*ssa.Defer); isDefer {
						continue
					}
					if e := c.classifyLock(ci); e != nil {
						hasLock = true
						if e.Acquire {
							classes = []string{e.Class}
							what = "acquire " + e.Class + "(" + e.Key + ")"
							nAcq++
						}
					} else if cf := callee(ci); cf != nil {
						s := acq[cf]
						if s == nil {
							s = acq[origin(cf)]
						}
						classes = s.Sorted()
						what = "call " + cf.Name()
					} else if mc, ok := ci.Common().Value.(*ssa.MakeClosure); ok {
						classes = acq[mc.Fn.(*ssa.Function)].Sorted()
						what = "call closure"
					} else if prm, ok := ci.Common().Value.(*ssa.Parameter); ok {
						// a callback: whatever the call sites of this function hand in for that parameter
						fab, _ := c.funcArgBindings()
						all := Set{}
						for _, g := range fab[prm] {
							for k := range acq[g] {
								all[k] = true
							}
						}
						classes = all.Sorted()
						what = "call of the function argument " + prm.Name()
					}
				}
				bop := blockingOp(in)
				var bsum []string
				if ci, ok := in.(ssa.CallInstruction); ok && bop == "" {
					if _, isGo := in.(*ssa.Go); !isGo {
						if _, isDefer := in.(*ssa.Defer); !isDefer {
							if cf := callee(ci); cf != nil {
								s := blk[cf]
								if s == nil {
									s = blk[origin(cf)]
								}
								bsum = s.Sorted()
							}
						}
					}
				}
				if len(classes) == 0 && bop == "" && len(bsum) == 0 {
					continue
				}
				held := lf.MayHeld(in)
				if len(held) == 0 {
					continue
				}
				for _, h := range held {
					for _, cl := range classes {
						edges[edge{h.Class, cl}] = fmt.Sprintf("%s: %s while holding %s %s(%s)", c.pos(in.Pos()), what, h.Class, h.Mode, h.Key)
						if h.Class == "stripe" && cl == "stripe" {
							selfEdge = append(selfEdge, fmt.Sprintf("%s: %s while holding stripe %s(%s)", c.pos(in.Pos()), what, h.Mode, h.Key))
						}
					}
					if h.Class == "stripe" {
						if bop != "" {
							blocking = append(blocking, fmt.Sprintf("%s: %s while holding stripe %s(%s)", c.pos(in.Pos()), bop, h.Mode, h.Key))
						}
						for _, bs := range bsum {
							blocking = append(blocking, fmt.Sprintf("%s: callee may block (%s) while holding stripe %s(%s)", c.pos(in.Pos()), bs, h.Mode, h.Key))
						}
					}
				}
			}
		}
		if hasLock || len(selfEdge) > 0 || len(blocking) > 0 {
			c.Add("R14o", fnName(fn), "no stripe acquisition (direct or via callee) while a stripe is held", fn.Pos(), len(selfEdge) == 0, strings.Join(uniq(selfEdge), "; "))
			c.Add("R14o", fnName(fn), "no blocking operation while a stripe is held", fn.Pos(), len(blocking) == 0, strings.Join(uniq(blocking), "; "))
		}
	}
	c.Count("R14_acquire_sites", nAcq)
	c.Min("R14_acquire_sites", 60)
	// acyclicity of the class graph (ignoring the stripe self-edge reported above)
	adj := map[string][]string{}
	var es []string
	for e, why := range edges {
		if e.from == e.to {
			if e.from != "stripe" {
				c.Add("R14o", "-", "lock class "+e.from+" nested in itself", token.NoPos, false, why)
			}
			continue
		}
		adj[e.from] = append(adj[e.from], e.to)
		es = append(es, e.from+"->"+e.to)
	}
	sort.Strings(es)
	cyc := findCycle(adj)
	c.Add("R14o", "-", "global lock-class order graph is acyclic", token.NoPos, cyc == "", "edges: "+strings.Join(es, ", ")+cyc)
}}

func uniq(s []string) []string {
	seen := map[string]bool{}
	var out []string
	for _, x := range s {
		if !seen[x] {
			seen[x] = true
			out = append(out, x)
		}
	}
	return out
}

func findCycle(adj map[string][]string) string {
	state := map[string]int{}
	var stack []string
	var res string
	var dfs func(n string) bool
	dfs = func(n string) bool {
		state[n] = 1
		stack = append(stack, n)
		for _, m := range adj[n] {
			if state[m] == 1 {
				res = " CYCLE: " + strings.Join(append(stack, m), " -> ")
				return true
			}
			if state[m] == 0 && dfs(m) {
				return true
			}
		}
		stack = stack[:len(stack)-1]
		state[n] = 2
		return false
	}
	var nodes []string
	for n := range adj {
		nodes = append(nodes, n)
	}
	sort.Strings(nodes)
	for _, n := range nodes {
		if state[n] == 0 && dfs(n) {
			return res
		}
	}
	return ""
}

// sendOnListSubscription: the channel of the send is an element of List.LSubscriptions / RSubscriptions.
func sendOnListSubscription(snd *ssa.Send) bool {
	found := false
	backslice(snd.Chan, func(v ssa.Value) bool {
		if fa, ok := v.(*ssa.FieldAddr); ok {
			n := fieldName(fa)
			if n == "LSubscriptions" || n == "RSubscriptions" {
				found = true
			}
			return false
		}
		return true
	})
	return found
}

// listSubscriptionsNeverPopulated re-verifies the side condition of the List.LPush/RPush exception:
// no function that inserts into List.LSubscriptions/RSubscriptions is called or referenced from first-party code.
func (c *C) listSubscriptionsNeverPopulated() bool {
	inserters := map[*ssa.Function]bool{}
	fns := c.P.allFuncs(firstPartyPkgs...)
	for _, fn := range fns {
		for _, b := range fn.Blocks {
			for _, in := range b.Instrs {
				mu, ok := in.(*ssa.MapUpdate)
				if !ok {
					continue
				}
				backslice(mu.Map, func(v ssa.Value) bool {
					if fa, ok := v.(*ssa.FieldAddr); ok {
						if n := fieldName(fa); n == "LSubscriptions" || n == "RSubscriptions" {
							f := fn
							for f.Parent() != nil {
								f = f.Parent()
							}
							inserters[f] = true
						}
						return false
					}
					return true
				})
			}
		}
	}
	ok := true
	for _, fn := range fns {
		for _, b := range fn.Blocks {
			for _, in := range b.Instrs {
				var rands [12]*ssa.Value
				for _, op := range in.Operands(rands[:0]) {
					if f, isF := (*op).(*ssa.Function); isF && inserters[f] {
						root := fn
						for root.Parent() != nil {
							root = root.Parent()
						}
						if root != f {
							ok = false
						}
					}
				}
			}
		}
	}
	c.AddNote("side condition 'List subscriptions are never populated' (%d inserter functions, none referenced): %v", len(inserters), ok)
	return ok
}

// R15m: the *Multi helpers acquire in ascending, de-duplicated stripe order.
var rR15m = RuleRef{Name: "R15m", Doc: "the four *Multi lock helpers (directly or through a shared helper) touch only stripes whose position comes from one common position function applied to their key slice; that function returns a slice filled from the keys of a map (de-duplication) and passed to sort.Ints/slices.Sort on a path that dominates the return; the stripe index is a pure function of the key (hash % len)", Run: func(c *C) {
	var common *ssa.Function
	n := 0
	isLocksField := func(ia *ssa.IndexAddr) bool {
		if u, ok := ia.X.(*ssa.UnOp); ok {
			if fa, ok := u.X.(*ssa.FieldAddr); ok {
				return namedOf(fa.X.Type()) == "Locks" && fieldName(fa) == "locks"
			}
		}
		return false
	}
	for _, name := range []string{"LockMulti", "RLockMulti", "UnLockMulti", "RUnLockMulti"} {
		fn := c.P.Func("memdb", "Locks."+name)
		if fn == nil {
			c.Undecided("R15m", "anchor (*Locks)."+name)
			continue
		}
		n++
		// the helper itself and the first-party functions it calls (depth 2)
		scope := map[*ssa.Function]bool{fn: true}
		frontier := []*ssa.Function{fn}
		for depth := 0; depth < 2; depth++ {
			var next []*ssa.Function
			for _, f := range frontier {
				for _, a := range f.AnonFuncs {
					if !scope[a] {
						scope[a] = true
						next = append(next, a)
					}
				}
				for _, b := range f.Blocks {
					for _, in := range b.Instrs {
						if ci, ok := in.(ssa.CallInstruction); ok {
							if cf := callee(ci); cf != nil && firstParty(cf) && pkgRel(cf) == "memdb" && !scope[cf] {
								scope[cf] = true
								next = append(next, cf)
							}
						}
					}
				}
			}
			frontier = next
		}
		sources := map[*ssa.Function]bool{}
		sites, bad := 0, ""
		for f := range scope {
			if isMethodOf(f, c.Facts.Locks, "Lock", "RLock", "UnLock", "RUnLock", "GetKeyPos") {
				continue // the single-key API is a different matter
			}
			for _, b := range f.Blocks {
				for _, in := range b.Instrs {
					ia, ok := in.(*ssa.IndexAddr)
					if !ok || !isLocksField(ia) {
						continue
					}
					sites++
					var from *ssa.Function
					var origin func(v ssa.Value, of *ssa.Function, d int)
					origin = func(v ssa.Value, of *ssa.Function, d int) {
						backslice(v, func(v ssa.Value) bool {
							if cl, isC := v.(*ssa.Call); isC {
								if cf := callee(cl); cf != nil && firstParty(cf) {
									from = cf
								}
								return false
							}
							// an accessor that is handed the position (l.at(pos)): where its callers in scope got it from
							if prm, isP := v.(*ssa.Parameter); isP && d < 2 {
								for pi, fp := range of.Params {
									if fp != prm {
										continue
									}
									for g := range scope {
										if isMethodOf(g, c.Facts.Locks, "Lock", "RLock", "UnLock", "RUnLock", "GetKeyPos") {
											continue
										}
										for _, gb := range g.Blocks {
											for _, gi := range gb.Instrs {
												if ci, ok := gi.(ssa.CallInstruction); ok && callee(ci) == of && pi < len(ci.Common().Args) {
													origin(ci.Common().Args[pi], g, d+1)
												}
											}
										}
									}
								}
							}
							return true
						})
					}
					origin(ia.Index, f, 0)
					if from == nil {
						bad = "a stripe index in " + fnName(f) + " does not come from a position function"
					} else {
						sources[from] = true
					}
				}
			}
		}
		why := bad
		if sites == 0 {
			why = "no stripe operation found in the helper or the functions it calls"
		}
		if len(sources) > 1 {
			why = "stripe indexes come from different position functions"
		}
		for f := range sources {
			if common == nil {
				common = f
			} else if common != f {
				why = "helpers use different ordering functions (" + common.Name() + " vs " + f.Name() + ")"
			}
		}
		c.Add("R15m", fnName(fn), "acquires/releases only stripes listed by the common ordering function", fn.Pos(), why == "", why)
	}
	c.Count("R15m_helpers", n)
	c.Min("R15m_helpers", 4)
	if common == nil {
		c.Undecided("R15m", "common ordering function of the *Multi helpers")
		return
	}
	// in the common function: returned slice is sorted on every path and filled from map keys
	sorted, dedup := true, false
	why := ""
	fromMapRange := func(v ssa.Value) bool {
		found := false
		backslice(v, func(x ssa.Value) bool {
			if nx, ok := x.(*ssa.Next); ok {
				if rg, ok := nx.Iter.(*ssa.Range); ok {
					if _, isMap := rg.X.Type().Underlying().(*types.Map); isMap {
						found = true
					}
				}
				return false
			}
			_, isCall := x.(*ssa.Call)
			return !isCall && !found
		})
		return found
	}
	// analyse: the slice returned by fn is sorted / filled from map keys on every non-nil return; a slice obtained
	// from a first-party helper inherits what holds for the helper's own returns.
	var analyse func(fn *ssa.Function, depth int) (bool, bool, string)
	analyse = func(fn *ssa.Function, depth int) (sorted bool, dedup bool, why string) {
		sorted, dedup = true, false
		allDedup, nRet := true, 0
		if fn == nil || fn.Blocks == nil || depth > 2 {
			return false, false, "the slice comes from a function that cannot be analysed"
		}
		helperOf := func(v ssa.Value) *ssa.Function {
			for {
				switch x := v.(type) {
				case *ssa.Extract:
					v = x.Tuple
					continue
				case *ssa.Call:
					if _, isApp := isAppend(x); isApp {
						return nil
					}
					if cf := callee(x); cf != nil && firstParty(cf) && cf.Blocks != nil {
						return cf
					}
				}
				return nil
			}
		}
		for _, b := range fn.Blocks {
			for _, in := range b.Instrs {
				ret, isRet := in.(*ssa.Return)
				if !isRet || len(ret.Results) == 0 {
					continue
				}
				rv := ret.Results[0]
				if isNilConst(rv) {
					continue // error path: callers lock nothing
				}
				if _, isSl := rv.Type().Underlying().(*types.Slice); !isSl {
					continue
				}
				found := false
				for _, b2 := range fn.Blocks {
					for _, in2 := range b2.Instrs {
						cl, isC := in2.(*ssa.Call)
						if !isC {
							continue
						}
						cf := callee(cl)
						if cf == nil || cf.Pkg == nil {
							continue
						}
						isSort := (cf.Pkg.Pkg.Path() == "sort" && cf.Name() == "Ints") || (cf.Pkg.Pkg.Path() == "slices" && cf.Name() == "Sort")
						if !isSort {
							if cf.Pkg.Pkg.Path() == "sort" || cf.Pkg.Pkg.Path() == "slices" {
								sorted, why = false, "ordering construct "+cf.String()+" is not recognised (undecided)"
							}
							continue
						}
						if cl.Call.Args[0] == rv && b2.Dominates(b) {
							found = true
						}
					}
				}
				// the other way of getting distinct ascending positions: sort everything, then keep the first of each run
				compacted := sortedCompact(rv, fn)
				if compacted {
					found = true
				}
				var hs, hd bool
				h := helperOf(rv)
				if h != nil {
					hs, hd, _ = analyse(h, depth+1)
					if hs {
						found = true
					}
				}
				if !found {
					sorted = false
					if why == "" {
						why = "a non-nil return is not dominated by sort.Ints on the returned slice"
					}
				}
				// de-duplication: every element of the returned slice comes from ranging over a map
				elemsOK, any := true, false
				seen := map[ssa.Value]bool{}
				var walk func(v ssa.Value)
				walk = func(v ssa.Value) {
					if seen[v] {
						return
					}
					seen[v] = true
					switch x := v.(type) {
					case *ssa.Phi:
						for _, e := range x.Edges {
							walk(e)
						}
					case *ssa.MakeSlice:
						for _, r := range *x.Referrers() {
							if ia, ok := r.(*ssa.IndexAddr); ok {
								for _, rr := range *ia.Referrers() {
									if st, ok := rr.(*ssa.Store); ok && st.Addr == ia {
										any = true
										if !fromMapRange(st.Val) {
											elemsOK = false
										}
									}
								}
							}
						}
					case *ssa.Slice:
						walk(x.X)
					case *ssa.Alloc:
					case *ssa.Extract:
						walk(x.Tuple)
					case *ssa.Call:
						if ap, ok := isAppend(x); ok {
							walk(ap.Call.Args[0])
							if elems, ok := sliceLiteralElems(ap.Call.Args[1]); ok {
								for _, e := range elems {
									any = true
									if !fromMapRange(e) {
										elemsOK = false
									}
								}
							} else {
								elemsOK = false
							}
							return
						}
						if helperOf(x) != nil {
							_, d2, _ := analyse(helperOf(x), depth+1)
							any = true
							if !d2 {
								elemsOK = false
							}
							return
						}
						elemsOK = false
					default:
						elemsOK = false
					}
				}
				walk(rv)
				_ = hd
				nRet++
				if !(elemsOK && any) && !compacted {
					allDedup = false
				}
			}
		}
		dedup = allDedup && nRet > 0
		return
	}
	sorted, dedup, why = analyse(common, 0)
	c.Add("R15m", fnName(common), "returned stripe positions are sorted ascending on every non-nil return", common.Pos(), sorted, why)
	c.Add("R15m", fnName(common), "returned stripe positions are de-duplicated (filled from the keys of a map, or sorted and compacted)", common.Pos(), dedup, "the slice elements must come from a range over a map keyed by position, or from a sorted slice of which only the first element of each run of equal values is kept")
	// stripe position is a pure function of the key: GetKeyPos = HashKey(key) % len(l.locks)
	if gp := c.P.Func("memdb", "Locks.GetKeyPos"); gp != nil {
		pure := true
		for _, b := range gp.Blocks {
			for _, in := range b.Instrs {
				switch x := in.(type) {
				case *ssa.Call:
					if cf := callee(x); cf != nil {
						if bi, isB := x.Call.Value.(*ssa.Builtin); isB && bi.Name() == "len" {
							continue
						}
						if !(pkgRel(cf) == "util" && cf.Name() == "HashKey") {
							pure = false
						}
					}
				case *ssa.Store, *ssa.MapUpdate, *ssa.Go, *ssa.Send:
					pure = false
				}
			}
		}
		c.Add("R15m", fnName(gp), "stripe position is a pure function of the key", gp.Pos(), pure, "GetKeyPos must only hash the key and reduce it modulo the stripe count")
	} else {
		c.Undecided("R15m", "anchor (*Locks).GetKeyPos")
	}
}}

// sortedCompact: rv is built by appending, in order, elements of a slice S that sort.Ints/slices.Sort put into ascending
// order before the loop, and an element equal to its predecessor is skipped (the branch taken when the element equals an
// element of S or of the result leads back to the loop without passing the append); or rv is slices.Compact of such an S.
// What comes out is strictly ascending.
func sortedCompact(rv ssa.Value, fn *ssa.Function) bool {
	isSortCall := func(in ssa.Instruction) (ssa.Value, bool) {
		cl, ok := in.(*ssa.Call)
		if !ok {
			return nil, false
		}
		cf := cl.Call.StaticCallee()
		if cf == nil || cf.Pkg == nil || len(cl.Call.Args) == 0 {
			return nil, false
		}
		if (cf.Pkg.Pkg.Path() == "sort" && cf.Name() == "Ints") || (cf.Pkg.Pkg.Path() == "slices" && cf.Name() == "Sort") {
			return cl.Call.Args[0], true
		}
		return nil, false
	}
	sortedBefore := func(s ssa.Value, b *ssa.BasicBlock) bool {
		for _, b2 := range fn.Blocks {
			for _, in := range b2.Instrs {
				if a, ok := isSortCall(in); ok && canon(a) == canon(s) && b2.Dominates(b) {
					return true
				}
			}
		}
		return false
	}
	// slices.Compact(S) with S sorted
	if call, ok := rv.(*ssa.Call); ok {
		if cf := call.Call.StaticCallee(); cf != nil && cf.Pkg != nil && cf.Pkg.Pkg.Path() == "slices" && cf.Name() == "Compact" && len(call.Call.Args) == 1 {
			return sortedBefore(call.Call.Args[0], call.Block())
		}
	}
	if inPlaceSqueeze(rv, fn, sortedBefore) {
		return true
	}
	// the appends that feed rv
	var appends []*ssa.Call
	seen := map[ssa.Value]bool{}
	var walk func(v ssa.Value) bool
	walk = func(v ssa.Value) bool {
		if seen[v] {
			return true
		}
		seen[v] = true
		switch x := v.(type) {
		case *ssa.Phi:
			for _, e := range x.Edges {
				if !walk(e) {
					return false
				}
			}
			return true
		case *ssa.Slice:
			// the empty prefix of the sorted slice (reuse of its array) or of anything else: no elements
			if k, ok := constInt(x.High); ok && k == 0 {
				return true
			}
			return false
		case *ssa.MakeSlice:
			k, ok := constInt(x.Len)
			return ok && k == 0
		case *ssa.Const:
			return x.Value == nil
		case *ssa.Call:
			if ap, ok := isAppend(x); ok {
				appends = append(appends, ap)
				return walk(ap.Call.Args[0])
			}
		}
		return false
	}
	if !walk(rv) || len(appends) == 0 {
		return false
	}
	loops := naturalLoops(fn)
	for _, ap := range appends {
		elems, ok := sliceLiteralElems(ap.Call.Args[1])
		if !ok || len(elems) != 1 {
			return false
		}
		e := elems[0]
		// e = S[i] with S sorted before the loop the append sits in
		var src ssa.Value
		switch y := e.(type) {
		case *ssa.UnOp:
			if ia, ok := y.X.(*ssa.IndexAddr); ok {
				src = ia.X
			}
		case *ssa.Index:
			src = y.X
		case *ssa.Extract:
			// range over a slice yields values through an index load in go/ssa; a map/string range does not qualify
		}
		if src == nil {
			return false
		}
		var head *ssa.BasicBlock
		var body map[*ssa.BasicBlock]bool
		for h, bd := range loops {
			if bd[ap.Block()] && (body == nil || len(bd) < len(body)) {
				head, body = h, bd
			}
		}
		if head == nil || !sortedBefore(src, head) {
			return false
		}
		// a test `e == <element>` in the loop whose equal outcome goes round without the append
		skips := false
		for b := range body {
			iff, ok := b.Instrs[len(b.Instrs)-1].(*ssa.If)
			if !ok {
				continue
			}
			bo, ok := iff.Cond.(*ssa.BinOp)
			if !ok || (bo.Op != token.EQL && bo.Op != token.NEQ) {
				continue
			}
			other := bo.Y
			if bo.Y == e {
				other = bo.X
			} else if bo.X != e {
				continue
			}
			isElem := false
			switch o := other.(type) {
			case *ssa.UnOp:
				_, isElem = o.X.(*ssa.IndexAddr)
			case *ssa.Index:
				isElem = true
			case *ssa.Phi:
				isElem = true // the previous element carried round the loop
			}
			if !isElem {
				continue
			}
			eqSucc := b.Succs[0]
			if bo.Op == token.NEQ {
				eqSucc = b.Succs[1]
			}
			if eqSucc != ap.Block() && !reaches(eqSucc, ap.Block(), head) {
				skips = true
			}
		}
		if !skips {
			return false
		}
	}
	return true
}

// inPlaceSqueeze: rv is a prefix S[:w+1] (or S itself where nothing was cut) of a slice S that was sorted and then squeezed
// in place: behind the sort the only writes to S are S[w] = S[i] in a block entered on the unequal outcome of a
// comparison of two elements of S (the first of every run of equal values is kept), and the cut uses the write index.
func inPlaceSqueeze(rv ssa.Value, fn *ssa.Function, sortedBefore func(ssa.Value, *ssa.BasicBlock) bool) bool {
	var base ssa.Value
	var cuts []*ssa.Slice
	sortArg := map[string]bool{}
	for _, b := range fn.Blocks {
		for _, in := range b.Instrs {
			if cl, ok := in.(*ssa.Call); ok {
				if cf := cl.Call.StaticCallee(); cf != nil && cf.Pkg != nil && len(cl.Call.Args) > 0 &&
					((cf.Pkg.Pkg.Path() == "sort" && cf.Name() == "Ints") || (cf.Pkg.Pkg.Path() == "slices" && cf.Name() == "Sort")) {
					sortArg[canon(cl.Call.Args[0])] = true
				}
			}
		}
	}
	seen := map[ssa.Value]bool{}
	var walk func(v ssa.Value) bool
	walk = func(v ssa.Value) bool {
		if seen[v] {
			return true
		}
		seen[v] = true
		if sortArg[canon(v)] {
			if base != nil && canon(base) != canon(v) {
				return false
			}
			base = v
			return true
		}
		switch x := v.(type) {
		case *ssa.Phi:
			for _, e := range x.Edges {
				if !walk(e) {
					return false
				}
			}
			return true
		case *ssa.Slice:
			if x.Low != nil || x.High == nil {
				return false
			}
			cuts = append(cuts, x)
			return walk(x.X)
		}
		if base != nil && canon(base) != canon(v) {
			return false
		}
		base = v
		return true
	}
	if !walk(rv) || base == nil || len(cuts) == 0 {
		return false
	}
	elemOf := func(v ssa.Value) (ssa.Value, bool) {
		switch y := v.(type) {
		case *ssa.UnOp:
			if ia, ok := y.X.(*ssa.IndexAddr); ok && y.Op == token.MUL && canon(ia.X) == canon(base) {
				return ia.Index, true
			}
		}
		return nil, false
	}
	var sortBlock *ssa.BasicBlock
	for _, b := range fn.Blocks {
		for _, in := range b.Instrs {
			if cl, ok := in.(*ssa.Call); ok {
				if cf := cl.Call.StaticCallee(); cf != nil && cf.Pkg != nil && len(cl.Call.Args) > 0 && canon(cl.Call.Args[0]) == canon(base) &&
					((cf.Pkg.Pkg.Path() == "sort" && cf.Name() == "Ints") || (cf.Pkg.Pkg.Path() == "slices" && cf.Name() == "Sort")) {
					sortBlock = b
				}
			}
		}
	}
	if sortBlock == nil {
		return false
	}
	for _, c := range cuts {
		if !sortedBefore(base, c.Block()) {
			return false
		}
	}
	var writeIdx []ssa.Value
	for _, b := range fn.Blocks {
		if b == sortBlock || !sortBlock.Dominates(b) {
			continue
		}
		for _, in := range b.Instrs {
			st, ok := in.(*ssa.Store)
			if !ok {
				continue
			}
			ia, ok := st.Addr.(*ssa.IndexAddr)
			if !ok || canon(ia.X) != canon(base) {
				continue
			}
			if _, isElem := elemOf(st.Val); !isElem {
				return false
			}
			// the block is entered only when two elements of S differ
			guarded := false
			for d := b; d != nil && d.Idom() != nil && d != sortBlock; d = d.Idom() {
				id := d.Idom()
				if len(d.Preds) != 1 || d.Preds[0] != id {
					continue
				}
				cond, neg, ok := branchCond(id, d)
				if !ok {
					continue
				}
				bo, ok := cond.(*ssa.BinOp)
				if !ok || (bo.Op != token.EQL && bo.Op != token.NEQ) {
					continue
				}
				_, xe := elemOf(bo.X)
				_, ye := elemOf(bo.Y)
				if xe && ye && (bo.Op == token.NEQ) != neg {
					guarded = true
				}
			}
			if !guarded {
				return false
			}
			writeIdx = append(writeIdx, ia.Index)
		}
	}
	if len(writeIdx) == 0 {
		return false
	}
	// the cut is made at the write index
	for _, c := range cuts {
		rel := false
		backslice(c.High, func(x ssa.Value) bool {
			for _, w := range writeIdx {
				wb := w
				if bo, ok := w.(*ssa.BinOp); ok {
					wb = bo.X
				}
				if x == w || x == wb {
					rel = true
				}
			}
			return !rel
		})
		if !rel {
			return false
		}
	}
	return true
}
