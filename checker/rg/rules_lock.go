package rg

import (
	"fmt"
	"go/token"
	"go/types"
	"os"
	"sort"
	"strings"

	"golang.org/x/tools/go/ssa"
)

// ---------- keyspace access recognition ----------

type ksAccess struct {
	In     ssa.CallInstruction
	Map    string // "db" | "ttlKeys"
	Method string
	Key    ssa.Value
	Write  bool
}

var cmapKeyed = map[string]bool{"Get": false, "Set": true, "SetIfExist": true, "SetIfNotExist": true, "Delete": true}

// keyspaceAccess recognises m.db.X(key,...) / m.ttlKeys.X(key,...) calls.
func (c *C) keyspaceAccess(ci ssa.CallInstruction) *ksAccess {
	f := callee(ci)
	if f != nil && !isMethodOf(f, c.Facts.CMap) && firstParty(f) && f.Blocks != nil {
		// a thin wrapper that is handed the map itself: getAs[T](m.ttlKeys, key) = Get + type assertion
		if mi, ki, meth, ok := c.cmapWrapper(f); ok {
			args := ci.Common().Args
			if mi < len(args) && ki < len(args) {
				for _, fld := range []string{"db", "ttlKeys"} {
					if isFieldLoad(args[mi], c.Facts.MemDb, fld) {
						return &ksAccess{In: ci, Map: fld, Method: meth, Key: args[ki], Write: cmapKeyed[meth]}
					}
				}
			}
		}
		// a thin lookup of the database itself: m.ttlRecord(key) = m.ttlKeys.Get(key) + type assertion
		if fld, ki, meth, ok := c.memdbWrapper(f); ok {
			if args := ci.Common().Args; ki < len(args) {
				return &ksAccess{In: ci, Map: fld, Method: meth, Key: args[ki], Write: false}
			}
		}
		return nil
	}
	if f == nil || !isMethodOf(f, c.Facts.CMap) {
		return nil
	}
	w, keyed := cmapKeyed[f.Name()]
	if !keyed {
		return nil
	}
	args := ci.Common().Args
	if len(args) < 2 {
		return nil
	}
	for _, fld := range []string{"db", "ttlKeys"} {
		if isFieldLoad(args[0], c.Facts.MemDb, fld) {
			return &ksAccess{In: ci, Map: fld, Method: f.Name(), Key: args[1], Write: w}
		}
	}
	return nil
}

// ---------- mutator summary ----------

// rootOf follows an address/value back to what it is rooted at:
// >=0 parameter index, -1 global/unknown shared memory, -2 free variable, -3 function-local fresh memory.
func rootOf(a ssa.Value) int {
	seen := map[ssa.Value]bool{}
	var walk func(a ssa.Value) int
	walk = func(a ssa.Value) int {
		for i := 0; i < 40; i++ {
			if seen[a] {
				return -3
			}
			seen[a] = true
			switch x := a.(type) {
			case *ssa.Parameter:
				for i, p := range x.Parent().Params {
					if p == x {
						return i
					}
				}
				return -1
			case *ssa.FreeVar:
				return -2
			case *ssa.Global:
				return -1
			case *ssa.Alloc:
				// a local cell: if it holds a pointer that was stored from elsewhere, loads are handled at UnOp
				return -3
			case *ssa.MakeSlice, *ssa.MakeMap, *ssa.MakeChan, *ssa.MakeInterface, *ssa.MakeClosure, *ssa.Const:
				return -3
			case *ssa.FieldAddr:
				a = x.X
			case *ssa.Field:
				a = x.X
			case *ssa.IndexAddr:
				a = x.X
			case *ssa.Index:
				a = x.X
			case *ssa.Lookup:
				a = x.X
			case *ssa.Slice:
				a = x.X
			case *ssa.ChangeType:
				a = x.X
			case *ssa.Convert:
				a = x.X
			case *ssa.TypeAssert:
				a = x.X
			case *ssa.Extract:
				a = x.Tuple
			case *ssa.UnOp:
				if al, ok := x.X.(*ssa.Alloc); ok {
					// load of a local variable cell: union of stored values
					worst := -3
					for _, r := range *al.Referrers() {
						if st, ok := r.(*ssa.Store); ok && st.Addr == al {
							if w := walk(st.Val); w != -3 {
								worst = w
							}
						}
					}
					return worst
				}
				a = x.X
			case *ssa.Phi:
				worst := -3
				for _, e := range x.Edges {
					if w := walk(e); w != -3 {
						worst = w
					}
				}
				return worst
			case *ssa.Call:
				// result of a call: fresh unless it is a lookup in shared memory (Get-like); treat as fresh
				// except for method calls on a rooted receiver returning interior pointers
				if cf := x.Call.StaticCallee(); cf != nil && cf.Signature.Recv() != nil && len(x.Call.Args) > 0 {
					if _, isPtr := x.Type().Underlying().(*types.Pointer); isPtr && !returnsFresh(cf, 0) {
						a = x.Call.Args[0]
						continue
					}
				}
				return -3
			default:
				return -1
			}
		}
		return -1
	}
	return walk(a)
}

// computeMutators: for first-party functions, the set of parameter indices whose reachable memory the
// function may write (transitively through static calls); key -1 = global/unknown, -2 = captured variable.
func (c *C) computeMutParams() map[*ssa.Function]map[int]bool {
	if c.Facts.MutParams != nil {
		return c.Facts.MutParams
	}
	fns := c.P.allFuncs("memdb", "util")
	mp := map[*ssa.Function]map[int]bool{}
	mark := func(fn *ssa.Function, r int) bool {
		if r == -3 {
			return false
		}
		if mp[fn] == nil {
			mp[fn] = map[int]bool{}
		}
		if mp[fn][r] {
			return false
		}
		mp[fn][r] = true
		return true
	}
	type edge struct {
		callee *ssa.Function
		args   []ssa.Value
	}
	calls := map[*ssa.Function][]edge{}
	for _, fn := range fns {
		for _, b := range fn.Blocks {
			for _, in := range b.Instrs {
				switch x := in.(type) {
				case *ssa.Store:
					mark(fn, rootOf(x.Addr))
				case *ssa.MapUpdate:
					mark(fn, rootOf(x.Map))
				case ssa.CallInstruction:
					if bi, ok := x.Common().Value.(*ssa.Builtin); ok && (bi.Name() == "delete" || bi.Name() == "copy" || bi.Name() == "clear") {
						mark(fn, rootOf(x.Common().Args[0]))
					}
					if _, isGo := in.(*ssa.Go); isGo {
						continue
					}
					if cf := callee(x); cf != nil && firstParty(cf) {
						calls[fn] = append(calls[fn], edge{cf, x.Common().Args})
					}
				}
			}
		}
	}
	for changed := true; changed; {
		changed = false
		for _, fn := range fns {
			for _, e := range calls[fn] {
				m := mp[e.callee]
				if m == nil {
					m = mp[origin(e.callee)]
				}
				for j := range m {
					if j == -1 {
						if mark(fn, -1) {
							changed = true
						}
					} else if j >= 0 && j < len(e.args) {
						if mark(fn, rootOf(e.args[j])) {
							changed = true
						}
					}
				}
			}
		}
	}
	c.Facts.MutParams = mp
	return mp
}

func (c *C) mutates(fn *ssa.Function, param int) bool {
	mp := c.computeMutParams()
	if m := mp[fn]; m != nil && m[param] {
		return true
	}
	if m := mp[origin(fn)]; m != nil && m[param] {
		return true
	}
	return false
}

// containerType reports whether t is one of the keyspace container value types (pointer to named struct in memdb other than infrastructure).
func (c *C) containerType(t types.Type) (string, bool) {
	pt, ok := t.(*types.Pointer)
	if !ok {
		return "", false
	}
	n, ok := pt.Elem().(*types.Named)
	if !ok || n.Obj().Pkg() == nil || n.Obj().Pkg().Path() != ModPath+"/memdb" {
		return "", false
	}
	switch n.Obj().Name() {
	case "List", "Set", "Hash", "SortedSet", "Stream", "Btree":
		return n.Obj().Name(), true
	}
	return "", false
}

// originKeys traces a container value back to the db.Get/db.Set calls that tie it to a key.
func (c *C) originKeys(v ssa.Value) (keys []string, unknown bool) {
	seen := map[ssa.Value]bool{}
	ks := map[string]bool{}
	var walk func(v ssa.Value)
	var walkSlice func(v ssa.Value)
	walkSlice = func(v ssa.Value) {
		if v == nil || seen[v] {
			return
		}
		seen[v] = true
		switch x := v.(type) {
		case *ssa.Phi:
			for _, e := range x.Edges {
				walkSlice(e)
			}
		case *ssa.Slice:
			walkSlice(x.X)
		case *ssa.Call:
			if bi, ok := x.Call.Value.(*ssa.Builtin); ok && bi.Name() == "append" && len(x.Call.Args) == 2 {
				walkSlice(x.Call.Args[0])
				// append(s, e): e sits in a one-element array that go/ssa slices
				if sl, ok := x.Call.Args[1].(*ssa.Slice); ok {
					if al, ok := sl.X.(*ssa.Alloc); ok && al.Referrers() != nil {
						if _, isArr := al.Type().Underlying().(*types.Pointer).Elem().Underlying().(*types.Array); isArr {
							for _, r := range *al.Referrers() {
								if ia, ok := r.(*ssa.IndexAddr); ok && ia.Referrers() != nil {
									for _, rr := range *ia.Referrers() {
										if st, ok := rr.(*ssa.Store); ok && st.Addr == ssa.Value(ia) {
											walk(st.Val)
										}
									}
								}
							}
							return
						}
					}
				}
				walkSlice(x.Call.Args[1])
				return
			}
			unknown = true
		case *ssa.UnOp:
			if al, ok := x.X.(*ssa.Alloc); ok && x.Op == token.MUL && al.Referrers() != nil {
				for _, r := range *al.Referrers() {
					if st, ok := r.(*ssa.Store); ok && st.Addr == ssa.Value(al) {
						walkSlice(st.Val)
					}
				}
				return
			}
			unknown = true
		case *ssa.MakeSlice, *ssa.Const:
		default:
			unknown = true
		}
	}
	walk = func(v ssa.Value) {
		if v == nil || seen[v] {
			return
		}
		seen[v] = true
		if _, isSl := v.Type().Underlying().(*types.Slice); isSl {
			seen[v] = false
			walkSlice(v)
			return
		}
		switch x := v.(type) {
		case *ssa.Phi:
			for _, e := range x.Edges {
				walk(e)
			}
		case *ssa.Extract:
			walk(x.Tuple)
		case *ssa.TypeAssert:
			walk(x.X)
		case *ssa.ChangeInterface:
			walk(x.X)
		case *ssa.MakeInterface:
			walk(x.X)
		case *ssa.ChangeType:
			walk(x.X)
		case *ssa.UnOp:
			if al, ok := x.X.(*ssa.Alloc); ok && x.Op == token.MUL {
				for _, r := range *al.Referrers() {
					if st, ok := r.(*ssa.Store); ok && st.Addr == al {
						walk(st.Val)
					}
				}
				return
			}
			// an element of a local slice of containers: the origins of everything appended to it
			if ia, ok := x.X.(*ssa.IndexAddr); ok && x.Op == token.MUL {
				if _, isSl := ia.X.Type().Underlying().(*types.Slice); isSl {
					walkSlice(ia.X)
					return
				}
			}
			// embedded part of a container (sortedSet.Btree): same origin as the enclosing container
			if fa, ok := x.X.(*ssa.FieldAddr); ok && x.Op == token.MUL {
				if _, isCont := c.containerType(fa.X.Type()); isCont {
					walk(fa.X)
					return
				}
			}
			unknown = true
		case *ssa.Const:
			// nil container
		case *ssa.Call:
			if a := c.keyspaceAccess(x); a != nil && a.Map == "db" && a.Method == "Get" {
				ks[canon(a.Key)] = true
				return
			}
			// fresh value (constructor): tied to a key by a db.Set*(key, v) that uses it
			found := false
			var uses func(val ssa.Value, d int)
			uses = func(val ssa.Value, d int) {
				if d > 4 || val.Referrers() == nil {
					return
				}
				for _, r := range *val.Referrers() {
					switch y := r.(type) {
					case ssa.CallInstruction:
						if a := c.keyspaceAccess(y); a != nil && a.Map == "db" && a.Write {
							ks[canon(a.Key)] = true
							found = true
						}
					case *ssa.MakeInterface:
						uses(y, d+1)
					case *ssa.Phi:
						uses(y, d+1)
					case *ssa.Store:
						if al, ok := y.Addr.(*ssa.Alloc); ok {
							for _, rr := range *al.Referrers() {
								if ld, ok := rr.(*ssa.UnOp); ok {
									uses(ld, d+1)
								}
							}
						}
					}
				}
			}
			uses(x, 0)
			if !found {
				unknown = true
			}
		default:
			unknown = true
		}
	}
	walk(v)
	for k := range ks {
		keys = append(keys, k)
	}
	sort.Strings(keys)
	return
}

// ---------- per-function lock analysis with inferred caller requirements ----------

type lockReq struct {
	Param int
	Write bool
	What  string
}

type reqOrigin struct {
	Param int
	Write bool
	Block *ssa.BasicBlock
}

type lockAnalysis struct {
	c            *C
	flows        map[*ssa.Function]*LockFlow
	reqs         map[*ssa.Function][]lockReq   // requirements on callers: lock on parameter i
	origins      map[*ssa.Function][]reqOrigin // the sites the requirements come from
	fns          []*ssa.Function
	closureEntry map[*ssa.Function]Set
}

func (c *C) lockAn() *lockAnalysis {
	la := &lockAnalysis{c: c, flows: map[*ssa.Function]*LockFlow{}, reqs: map[*ssa.Function][]lockReq{}, origins: map[*ssa.Function][]reqOrigin{}, closureEntry: map[*ssa.Function]Set{}}
	la.fns = c.P.allFuncs("memdb")
	if c.la != nil {
		return c.la
	}
	c.la = la
	return la
}

// entryFor computes the entry lockset of a closure from its creation site in the parent.
func (la *lockAnalysis) entryFor(fn *ssa.Function) Set {
	if s, ok := la.closureEntry[fn]; ok {
		return s
	}
	la.closureEntry[fn] = Set{}
	par := fn.Parent()
	if par == nil {
		return Set{}
	}
	// find the MakeClosure in the parent and how it is used
	for _, b := range par.Blocks {
		for _, in := range b.Instrs {
			mc, ok := in.(*ssa.MakeClosure)
			if !ok || mc.Fn != fn {
				continue
			}
			refs := mc.Referrers()
			if refs == nil || len(*refs) == 0 {
				return Set{}
			}
			// every use is a direct call (or one defer): the closure starts with what is held at all of them
			type useSite struct {
				site     ssa.Instruction
				deferred bool
			}
			var sites []useSite
			// a closure handed to a helper that takes a lock and then runs it (withKeyLock(key, func() reply {...}),
			// t.locked(func() {...})): what the helper holds where it calls its function parameter, in the caller's names
			var wrapped []Set
			for _, r := range *refs {
				switch u := r.(type) {
				case *ssa.Defer:
					if u.Call.Value == mc {
						sites = append(sites, useSite{u, true})
					} else if ws, ok := la.heldInWrapper(u, mc); ok {
						wrapped = append(wrapped, ws...)
					} else {
						return Set{}
					}
				case *ssa.Call:
					if u.Call.Value == mc {
						sites = append(sites, useSite{u, false})
					} else if ws, ok := la.heldInWrapper(u, mc); ok {
						wrapped = append(wrapped, ws...)
					} else {
						return Set{}
					}
				case *ssa.DebugRef:
				default:
					return Set{}
				}
			}
			if len(sites) == 0 && len(wrapped) == 0 {
				return Set{}
			}
			pf := la.flow(par)
			ren := map[string]string{}
			sub := map[string]string{}
			for i, bnd := range mc.Bindings {
				ren[bnd.Name()] = "free:" + fn.FreeVars[i].Name()
				if al, ok := bnd.(*ssa.Alloc); ok {
					if sv := singleStore(al); sv != nil {
						if k := canon(sv); len(k) > 1 {
							sub[k] = "*free:" + fn.FreeVars[i].Name()
						}
					}
				}
			}
			var out Set
			for _, us := range sites {
				s, ok := pf.Must.Before(us.site)
				if !ok {
					continue // an unreachable use
				}
				one := Set{}
				for t := range s {
					h, ok := parseTok(t)
					if !ok {
						continue
					}
					if us.deferred {
						// only locks whose release is itself deferred (registered earlier, hence run later) are still held
						if !s["D|"+h.Class+"|"+h.Mode+"|"+h.Key] {
							continue
						}
					}
					key := h.Key
					key = applySubst(key, sub)
					one["L|"+h.Class+"|"+h.Mode+"|"+renameIdents(key, ren)+"|entry"] = true
				}
				if out == nil {
					out = one
				} else {
					for t := range out {
						if !one[t] {
							delete(out, t)
						}
					}
				}
			}
			// the holds established by wrapping helpers, translated into the closure's names like the caller's own
			for _, ws := range wrapped {
				one := Set{}
				for t := range ws {
					h, ok := parseTok(t)
					if !ok {
						continue
					}
					key := h.Key
					key = applySubst(key, sub)
					one["L|"+h.Class+"|"+h.Mode+"|"+renameIdents(key, ren)+"|entry"] = true
				}
				if out == nil {
					out = one
				} else {
					for t := range out {
						if !one[t] {
							delete(out, t)
						}
					}
				}
			}
			if out == nil {
				out = Set{}
			}
			la.closureEntry[fn] = out
			return out
		}
	}
	return Set{}
}

func (la *lockAnalysis) flow(fn *ssa.Function) *LockFlow {
	if lf, ok := la.flows[fn]; ok {
		return lf
	}
	entry := Set{}
	if fn.Parent() != nil {
		entry = la.entryFor(fn)
	}
	lf := la.c.LockFlowOf(fn, entry)
	la.flows[fn] = lf
	return lf
}

func paramIndex(fn *ssa.Function, key string) int {
	for i, p := range fn.Params {
		pc := paramCanon(p)
		if pc == key {
			return i
		}
		// an element of a key-slice parameter ([]string): the requirement is on the whole slice argument
		if sl, ok := p.Type().Underlying().(*types.Slice); ok && strings.HasPrefix(key, pc+"[") {
			if bt, ok := sl.Elem().Underlying().(*types.Basic); ok && bt.Info()&types.IsString != 0 {
				return i
			}
		}
	}
	return -1
}

type lockSite struct {
	Fn        *ssa.Function
	In        ssa.Instruction
	Construct string
	Key       string
	Write     bool
	Kind      string          // "keyspace" | "ttl" | "value" | "call"
	GetCall   ssa.Instruction // for value uses: nil
	PosHint   token.Pos       // reported instead of In.Pos() when that is not known (range iteration steps)
}

func (s lockSite) pos() token.Pos {
	if p := s.In.Pos(); p.IsValid() || !s.PosHint.IsValid() {
		return p
	}
	return s.PosHint
}

// sites enumerates the lock-relevant access sites of fn.
func (la *lockAnalysis) sites(fn *ssa.Function) []lockSite {
	c := la.c
	var out []lockSite
	ord := map[string]int{}
	name := func(s string) string {
		ord[s]++
		if ord[s] > 1 {
			return fmt.Sprintf("%s#%d", s, ord[s])
		}
		return s
	}
	setTTL, delTTL := c.P.Func("memdb", "MemDb.SetTTL"), c.P.Func("memdb", "MemDb.DelTTL")
	for _, b := range fn.Blocks {
		for _, in := range b.Instrs {
			ci, ok := in.(ssa.CallInstruction)
			if !ok {
				continue
			}
			if _, isGo := in.(*ssa.Go); isGo {
				continue
			}
			if a := c.keyspaceAccess(ci); a != nil {
				if a.Map == "ttlKeys" && !a.Write {
					continue // deadline reads are advisory; writers are serialised (R17 covers check-then-act)
				}
				out = append(out, lockSite{Fn: fn, In: in, Construct: name(a.Map + "." + a.Method + "(" + canon(a.Key) + ")"), Key: canon(a.Key), Write: a.Write, Kind: "keyspace"})
				continue
			}
			cf := callee(ci)
			if cf == nil {
				continue
			}
			if (cf == setTTL && setTTL != nil) || (cf == delTTL && delTTL != nil) {
				k := ci.Common().Args[1]
				out = append(out, lockSite{Fn: fn, In: in, Construct: name(cf.Name() + "(" + canon(k) + ")"), Key: canon(k), Write: true, Kind: "ttl"})
				continue
			}
			// requirements inferred for first-party helpers; a helper steered by a flag or a small enum and called with a
			// literal needs what the sites reachable with that literal need (lookup(key, create=false) reads)
			reqs := la.reqs[cf]
			if ca := constArgs(ci); len(ca) > 0 && len(reqs) > 0 {
				reach := prunedReach(cf, ca)
				need := map[int]int{} // 1 read, 2 write
				for _, o := range la.origins[cf] {
					if !reach[o.Block] {
						continue
					}
					lvl := 1
					if o.Write {
						lvl = 2
					}
					if need[o.Param] < lvl {
						need[o.Param] = lvl
					}
				}
				var eff []lockReq
				for pi, lvl := range need {
					what := "R"
					if lvl == 2 {
						what = "W"
					}
					eff = append(eff, lockReq{Param: pi, Write: lvl == 2, What: what + " stripe lock on its key argument"})
				}
				sort.Slice(eff, func(i, j int) bool { return eff[i].Param < eff[j].Param })
				reqs = eff
			}
			for _, rq := range reqs {
				if rq.Param < len(ci.Common().Args) {
					k := ci.Common().Args[rq.Param]
					out = append(out, lockSite{Fn: fn, In: in, Construct: name("call " + cf.Name() + "(" + canon(k) + ") needs " + rq.What), Key: canon(k), Write: rq.Write, Kind: "call"})
				}
			}
			// container values passed as receiver or argument to a first-party function
			if !firstParty(cf) {
				continue
			}
			for j, arg := range ci.Common().Args {
				tn, ok := c.containerType(arg.Type())
				if !ok {
					if sl, isSl := arg.Type().Underlying().(*types.Slice); isSl {
						tn, ok = c.containerType(sl.Elem())
					}
				}
				if !ok {
					continue
				}
				keys, _ := c.originKeys(arg)
				w := c.mutates(cf, j)
				for _, k := range keys {
					role := "arg"
					if j == 0 && cf.Signature.Recv() != nil {
						role = "recv"
					}
					out = append(out, lockSite{Fn: fn, In: in, Construct: name("(" + tn + ")." + cf.Name() + " " + role + " value of " + k), Key: k, Write: w, Kind: "value"})
				}
			}
		}
	}
	out = append(out, la.aliasSites(fn, name)...)
	// direct field access on container values
	for _, b := range fn.Blocks {
		for _, in := range b.Instrs {
			fa, ok := in.(*ssa.FieldAddr)
			if !ok {
				continue
			}
			tn, ok := c.containerType(fa.X.Type())
			if !ok {
				continue
			}
			keys, _ := c.originKeys(fa.X)
			w := false
			for _, r := range *fa.Referrers() {
				if st, ok := r.(*ssa.Store); ok && st.Addr == fa {
					w = true
				}
			}
			for _, k := range keys {
				out = append(out, lockSite{Fn: fn, In: in, Construct: name("field " + tn + "." + fieldName(fa) + " of value of " + k), Key: k, Write: w, Kind: "value"})
			}
		}
	}
	return out
}

// check evaluates one site against the lockset; returns ok, detail.
func (la *lockAnalysis) check(s lockSite) (bool, string) {
	lf := la.flow(s.Fn)
	held, live := lf.Held(s.In)
	if !live {
		return true, "unreachable"
	}
	for _, h := range held {
		if covers(h, s.Key) {
			if s.Write && h.Mode != "W" {
				return false, fmt.Sprintf("write access under read lock %s(%s)", h.Mode, h.Key)
			}
			return true, fmt.Sprintf("held: stripe %s(%s) acquired at %s", h.Mode, h.Key, h.Site)
		}
	}
	var hs []string
	for _, h := range held {
		hs = append(hs, h.Class+" "+h.Mode+"("+h.Key+")")
	}
	return false, "no stripe lock covering key " + s.Key + " is held on every path (held: [" + strings.Join(hs, ", ") + "])"
}

// advisoryGet: a db.Get whose results are used only in a comma-ok type test / ok test that selects an early return.
func advisoryGet(in ssa.Instruction) bool {
	call, ok := in.(*ssa.Call)
	if !ok || call.Referrers() == nil {
		return false
	}
	for _, r := range *call.Referrers() {
		ex, ok := r.(*ssa.Extract)
		if !ok {
			return false
		}
		if ex.Referrers() == nil {
			continue
		}
		for _, u := range *ex.Referrers() {
			switch y := u.(type) {
			case *ssa.If:
			case *ssa.TypeAssert:
				if !y.CommaOk {
					return false
				}
				// the asserted value itself must be unused (only the ok bit)
				for _, tr := range *y.Referrers() {
					te, ok := tr.(*ssa.Extract)
					if !ok {
						return false
					}
					if te.Index == 0 && te.Referrers() != nil && len(*te.Referrers()) > 0 {
						return false
					}
				}
			case *ssa.DebugRef:
			default:
				if isBoolType(ex.Type()) {
					continue // one bit (present / absent) leaves the read, never the stored value
				}
				return false
			}
		}
	}
	return true
}

// advisoryCall: a call of a first-party helper that needs a read lock on its key argument, made without the lock, is an
// existence/type probe like advisoryGet when (a) only bits leave the call -- every non-boolean result is unused -- and
// (b) the helper (and what it calls) only looks the key up and tests the type of what it finds: it never touches the
// inside of a stored container and writes nothing.
func (la *lockAnalysis) advisoryCall(in ssa.Instruction) bool {
	call, ok := in.(*ssa.Call)
	if !ok {
		return false
	}
	cf := callee(call)
	if cf == nil || !firstParty(cf) {
		return false
	}
	res := cf.Signature.Results()
	if res.Len() == 0 {
		return false
	}
	if res.Len() == 1 {
		if !isBoolType(res.At(0).Type()) && !la.verdictOnly(cf) {
			return false
		}
	} else if call.Referrers() != nil {
		for _, r := range *call.Referrers() {
			ex, ok := r.(*ssa.Extract)
			if !ok {
				if _, dbg := r.(*ssa.DebugRef); dbg {
					continue
				}
				return false
			}
			if isBoolType(ex.Type()) {
				continue
			}
			if ex.Referrers() != nil {
				for _, u := range *ex.Referrers() {
					if _, dbg := u.(*ssa.DebugRef); !dbg {
						return false
					}
				}
			}
		}
	}
	var probeOnly func(fn *ssa.Function, depth int) bool
	probeOnly = func(fn *ssa.Function, depth int) bool {
		if depth > 3 {
			return false
		}
		for _, s := range la.sites(fn) {
			switch s.Kind {
			case "keyspace":
				if s.Write {
					return false
				}
			case "call":
				if s.Write {
					return false
				}
				if c2, ok := s.In.(*ssa.Call); ok {
					if f2 := callee(c2); f2 != nil && f2 != fn && !probeOnly(f2, depth+1) {
						return false
					}
				}
			default:
				return false
			}
		}
		return true
	}
	return probeOnly(cf, 0)
}

// verdictOnly: the single result of fn carries a verdict, not data: every value it returns is nil or is built without
// anything that was read out of the keyspace (a constant error reply chosen by what the lookup found).
func (la *lockAnalysis) verdictOnly(fn *ssa.Function) bool {
	if fn.Blocks == nil {
		return false
	}
	for _, b := range fn.Blocks {
		ret, ok := b.Instrs[len(b.Instrs)-1].(*ssa.Return)
		if !ok || len(ret.Results) != 1 {
			continue
		}
		for _, v := range retResults(ret)[0] {
			if isNilConst(v) {
				continue
			}
			tainted := false
			backslice(v, func(x ssa.Value) bool {
				if ci, ok := x.(ssa.CallInstruction); ok {
					if a := la.c.keyspaceAccess(ci); a != nil {
						tainted = true
					}
				}
				switch x.(type) {
				case *ssa.Parameter, *ssa.FreeVar, *ssa.Global:
					// the key, the database: not stored data
				case *ssa.TypeAssert:
					tainted = true
				}
				return !tainted
			})
			if tainted {
				return false
			}
		}
	}
	return true
}

func isBoolType(t types.Type) bool {
	b, ok := t.Underlying().(*types.Basic)
	return ok && b.Kind() == types.Bool
}

// runLockset performs R15 over package memdb.
func (la *lockAnalysis) run(rule string) {
	c := la.c
	execs := map[*ssa.Function]bool{}
	for fn := range c.Facts.ExecNames {
		execs[fn] = true
	}
	// fixpoint on inferred requirements for non-executor named functions
	for iter := 0; iter < 5; iter++ {
		changed := false
		for _, fn := range la.fns {
			if execs[fn] || fn.Parent() != nil {
				continue
			}
			var reqs []lockReq
			var orig []reqOrigin
			seen := map[string]bool{}
			for _, s := range la.sites(fn) {
				ok, _ := la.check(s)
				if ok {
					continue
				}
				if s.Kind == "keyspace" && !s.Write && advisoryGet(s.In) && la.recheckedUnderLock(s) {
					continue // an existence/type probe: no requirement on the callers (reported as advisory below)
				}
				if s.Kind == "call" && !s.Write && la.advisoryCall(s.In) {
					continue
				}
				if pi := paramIndex(fn, s.Key); pi >= 0 {
					what := "R"
					if s.Write {
						what = "W"
					}
					orig = append(orig, reqOrigin{Param: pi, Write: s.Write, Block: s.In.Block()})
					k := fmt.Sprint(pi, what)
					if !seen[k] {
						seen[k] = true
						reqs = append(reqs, lockReq{Param: pi, Write: s.Write, What: what + " stripe lock on its key argument"})
					}
				}
			}
			la.origins[fn] = orig
			if len(reqs) != len(la.reqs[fn]) {
				la.reqs[fn] = reqs
				changed = true
			}
		}
		if !changed {
			break
		}
	}
	nsites := 0
	for _, fn := range la.fns {
		for _, s := range la.sites(fn) {
			ok, detail := la.check(s)
			if os.Getenv("RG_DBG_LOCK") != "" && strings.Contains(fn.Name(), os.Getenv("RG_DBG_LOCK")) {
				fmt.Fprintln(os.Stderr, "DBGLOCK", fn.Name(), s.Construct, s.Kind, s.Key, ok, detail)
			}
			if !ok && s.Kind == "keyspace" && !s.Write && advisoryGet(s.In) && la.recheckedUnderLock(s) {
				c.Add(rule, fnName(fn), s.Construct, s.pos(), true, "advisory pre-check: result used only in a type/existence test (the read itself is atomic inside ConcurrentMap)")
				nsites++
				continue
			}
			if !ok && s.Kind == "call" && !s.Write && la.advisoryCall(s.In) {
				c.Add(rule, fnName(fn), s.Construct, s.pos(), true, "advisory pre-check through a helper: only existence/type bits leave the call and the helper never touches the inside of a stored value")
				nsites++
				continue
			}
			if !ok && !execs[fn] && fn.Parent() == nil && paramIndex(fn, s.Key) >= 0 {
				// discharged as a requirement on callers (checked at every call site)
				c.Add(rule, fnName(fn), s.Construct, s.pos(), true, "precondition on callers: "+detail)
				nsites++
				continue
			}
			if !ok && s.Kind == "keyspace" && !s.Write && advisoryGet(s.In) && la.recheckedUnderLock(s) {
				c.Add(rule, fnName(fn), s.Construct, s.pos(), true, "advisory pre-check: result used only in a type/existence test (the read itself is atomic inside ConcurrentMap)")
				nsites++
				continue
			}
			c.Add(rule, fnName(fn), s.Construct, s.pos(), ok, detail)
			nsites++
		}
	}
	c.Count("R15_access_sites", nsites)
}

var rR15 = RuleRef{Name: "R15", Doc: "lockset at every keyspace and container-value access: the stripe lock of the same key is held (write mode for writes/mutators) on every path, in the same uninterrupted hold as the read it depends on", Run: func(c *C) {
	la := c.lockAn()
	la.run("R15")
	c.Min("R15_access_sites", 150)
}}

// R14 pairing: no leak at return, no unmatched release, in every memdb function that touches a lock.
var rR14pair = RuleRef{Name: "R14p", Doc: "lock pairing: every acquire is released on all exits (defer modelled at RunDefers), no release without a hold, release mode matches", Run: func(c *C) {
	la := c.lockAn()
	n := 0
	for _, fn := range c.P.allFuncs("memdb", "server", "resp", "util", "logger") {
		has := false
		for _, b := range fn.Blocks {
			for _, in := range b.Instrs {
				if ci, ok := in.(ssa.CallInstruction); ok {
					if e := c.classifyLock(ci); e != nil {
						has = true
					}
				}
			}
		}
		if !has {
			continue
		}
		// the Locks methods themselves acquire for their callers
		if isMethodOf(fn, c.Facts.Locks) {
			continue
		}
		n++
		lf := la.flow(fn)
		entry := la.closureEntry[fn]
		var leaks []string
		for _, b := range fn.Blocks {
			if len(b.Instrs) == 0 {
				continue
			}
			ret, ok := b.Instrs[len(b.Instrs)-1].(*ssa.Return)
			if !ok {
				continue
			}
			for _, h := range lf.MayHeld(ret) {
				if entry != nil && entry["L|"+h.Class+"|"+h.Mode+"|"+h.Key+"|entry"] {
					continue
				}
				leaks = append(leaks, fmt.Sprintf("%s %s(%s) acquired at %s may still be held at return %s", h.Class, h.Mode, h.Key, h.Site, c.pos(ret.Pos())))
			}
		}
		c.Add("R14p", fnName(fn), "every acquire released on all exits", fn.Pos(), len(leaks) == 0, strings.Join(leaks, "; "))
		c.Add("R14p", fnName(fn), "no release without a matching hold", fn.Pos(), len(lf.Violations) == 0, strings.Join(lf.Violations, "; "))
	}
	c.Count("R14_functions_with_locks", n)
	c.Min("R14_functions_with_locks", 60)
}}

// returnsFresh: every first result of fn is newly allocated inside fn (or by a callee for which the same holds).
func returnsFresh(fn *ssa.Function, depth int) bool {
	if fn == nil || fn.Blocks == nil || depth > 4 {
		return false
	}
	var fresh func(v ssa.Value, seen map[ssa.Value]bool) bool
	fresh = func(v ssa.Value, seen map[ssa.Value]bool) bool {
		if seen[v] {
			return true
		}
		seen[v] = true
		switch x := v.(type) {
		case *ssa.Alloc:
			return x.Heap
		case *ssa.Phi:
			for _, e := range x.Edges {
				if !fresh(e, seen) {
					return false
				}
			}
			return true
		case *ssa.Call:
			return returnsFresh(x.Call.StaticCallee(), depth+1)
		case *ssa.UnOp:
			if al, ok := x.X.(*ssa.Alloc); ok && x.Op == token.MUL {
				for _, r := range *al.Referrers() {
					if st, ok := r.(*ssa.Store); ok && st.Addr == al && !fresh(st.Val, seen) {
						return false
					}
				}
				return true
			}
		}
		return false
	}
	any := false
	for _, b := range fn.Blocks {
		for _, in := range b.Instrs {
			if ret, ok := in.(*ssa.Return); ok && len(ret.Results) >= 1 {
				any = true
				if !fresh(ret.Results[0], map[ssa.Value]bool{}) {
					return false
				}
			}
		}
	}
	return any
}

// cmapWrapper: fn takes a *ConcurrentMap parameter (index mi) and a key parameter (index ki) and its only use of the map
// is one keyed method call M(map, key): a typed getter or the like. Returns the parameter indexes and M.
func (c *C) cmapWrapper(fn *ssa.Function) (mi, ki int, meth string, ok bool) {
	fn0 := origin(fn)
	if c.wrapMemo == nil {
		c.wrapMemo = map[*ssa.Function][4]int{}
		c.wrapMeth = map[*ssa.Function]string{}
	}
	if r, done := c.wrapMemo[fn0]; done {
		return r[0], r[1], c.wrapMeth[fn0], r[2] == 1
	}
	c.wrapMemo[fn0] = [4]int{0, 0, 0, 0}
	mi, ki = -1, -1
	for i, p := range fn.Params {
		if isNamed(p.Type(), c.Facts.CMap) {
			if mi >= 0 {
				return 0, 0, "", false
			}
			mi = i
		}
	}
	if mi < 0 || fn.Signature.Recv() != nil {
		return 0, 0, "", false
	}
	n := 0
	for _, b := range fn.Blocks {
		for _, in := range b.Instrs {
			ci, isCall := in.(ssa.CallInstruction)
			if !isCall {
				continue
			}
			cf := callee(ci)
			args := ci.Common().Args
			usesMap := false
			for _, a := range args {
				if a == ssa.Value(fn.Params[mi]) {
					usesMap = true
				}
			}
			if !usesMap {
				continue
			}
			if cf == nil || !isMethodOf(cf, c.Facts.CMap) || len(args) < 2 || args[0] != ssa.Value(fn.Params[mi]) {
				return 0, 0, "", false
			}
			if _, keyed := cmapKeyed[cf.Name()]; !keyed {
				return 0, 0, "", false
			}
			kp, isP := args[1].(*ssa.Parameter)
			if !isP {
				return 0, 0, "", false
			}
			for i, p := range fn.Params {
				if p == kp {
					ki = i
				}
			}
			meth = cf.Name()
			n++
		}
	}
	if n != 1 || ki < 0 {
		return 0, 0, "", false
	}
	c.wrapMemo[fn0] = [4]int{mi, ki, 1, 0}
	c.wrapMeth[fn0] = meth
	return mi, ki, meth, true
}

// memdbWrapper: fn takes a *MemDb (usually as its receiver) and a key parameter (index ki), and all it calls is one
// keyed read M(m.<fld>, key) of that database's keyspace or deadline table: a typed lookup. Returns the field, the key
// parameter's index and M.
func (c *C) memdbWrapper(fn *ssa.Function) (fld string, ki int, meth string, ok bool) {
	fn0 := origin(fn)
	if c.mwrapMemo == nil {
		c.mwrapMemo = map[*ssa.Function]*[3]string{}
	}
	if r, done := c.mwrapMemo[fn0]; done {
		if r == nil {
			return "", 0, "", false
		}
		k := 0
		fmt.Sscan(r[1], &k)
		return r[0], k, r[2], true
	}
	c.mwrapMemo[fn0] = nil
	if fn.Blocks == nil || len(fn.Blocks) > 8 {
		return "", 0, "", false
	}
	// it hands out what it found (a predicate that only answers yes or no is an existence/type probe, see advisoryCall)
	if r := fn.Signature.Results(); r.Len() == 0 || isBoolType(r.At(0).Type()) {
		return "", 0, "", false
	}
	mi := -1
	for i, p := range fn.Params {
		if isNamed(p.Type(), c.Facts.MemDb) {
			mi = i
		}
	}
	if mi < 0 {
		return "", 0, "", false
	}
	n := 0
	ki = -1
	for _, b := range fn.Blocks {
		for _, in := range b.Instrs {
			switch in.(type) {
			case *ssa.Go, *ssa.Defer, *ssa.Send, *ssa.Store, *ssa.MapUpdate:
				// a store into the result cell of a function with named results is fine; any other write is not a lookup
				if st, isSt := in.(*ssa.Store); isSt {
					if al, isAl := st.Addr.(*ssa.Alloc); isAl && !al.Heap {
						continue
					}
				}
				return "", 0, "", false
			}
			ci, isCall := in.(ssa.CallInstruction)
			if !isCall {
				continue
			}
			if _, isB := ci.Common().Value.(*ssa.Builtin); isB {
				continue
			}
			cf := callee(ci)
			args := ci.Common().Args
			if cf == nil || !isMethodOf(cf, c.Facts.CMap) || len(args) < 2 {
				return "", 0, "", false
			}
			w, keyed := cmapKeyed[cf.Name()]
			if !keyed || w {
				return "", 0, "", false
			}
			f := ""
			for _, cand := range []string{"db", "ttlKeys"} {
				if isFieldLoad(args[0], c.Facts.MemDb, cand) {
					f = cand
				}
			}
			kp, isP := args[1].(*ssa.Parameter)
			if f == "" || !isP {
				return "", 0, "", false
			}
			for i, p := range fn.Params {
				if p == kp {
					ki = i
				}
			}
			fld, meth = f, cf.Name()
			n++
		}
	}
	if n != 1 || ki < 0 {
		return "", 0, "", false
	}
	c.mwrapMemo[fn0] = &[3]string{fld, fmt.Sprint(ki), meth}
	return fld, ki, meth, true
}

// recheckedUnderLock: the unlocked probe s (an existence/type test of key) is a PRE-check: the same function looks the key
// up again, or touches what is stored there, with the stripe held. A lone unlocked probe whose outcome becomes the
// reply (EXISTS without the stripe) is not a pre-check of anything: it can answer from the middle of RENAME.
func (la *lockAnalysis) recheckedUnderLock(s lockSite) bool {
	for _, o := range la.sites(s.Fn) {
		if o.In == s.In || o.Key != s.Key {
			continue
		}
		if ok, _ := la.check(o); ok {
			return true
		}
	}
	// ... or hands the key to a helper that takes the stripe itself and looks again (storeResult(m, dstKey, set))
	for _, b := range s.Fn.Blocks {
		for _, in := range b.Instrs {
			ci, ok := in.(ssa.CallInstruction)
			if !ok || in == s.In {
				continue
			}
			cf := callee(ci)
			if cf == nil || !firstParty(cf) || cf.Blocks == nil || cf == s.Fn {
				continue
			}
			for i, a := range ci.Common().Args {
				if canon(a) != s.Key || i >= len(cf.Params) {
					continue
				}
				pk := paramCanon(cf.Params[i])
				for _, o := range la.sites(cf) {
					if o.Key != pk || o.Write || o.Kind != "keyspace" {
						continue // looking again means reading the keyspace entry (CheckTTL's locked removal is no second look)
					}
					if held, live := la.flow(cf).Held(o.In); live {
						for _, h := range held {
							if covers(h, pk) && !strings.HasSuffix(h.Site, "entry") {
								return true
							}
						}
					}
				}
			}
		}
	}
	return false
}

// heldInWrapper: the call u hands the closure mc to a first-party helper H as a function argument; H calls that
// parameter directly. Returns, per such call inside H, the locks H certainly holds there (acquired in H), with H's
// parameter names replaced by the caller's argument expressions.
func (la *lockAnalysis) heldInWrapper(u ssa.CallInstruction, mc *ssa.MakeClosure) ([]Set, bool) {
	h := u.Common().StaticCallee()
	if h == nil || !firstParty(h) || h.Blocks == nil {
		return nil, false
	}
	args := u.Common().Args
	ai := -1
	for i, a := range args {
		if a == ssa.Value(mc) {
			ai = i
		}
	}
	if ai < 0 || ai >= len(h.Params) {
		return nil, false
	}
	names := map[string]string{}
	for i, p := range h.Params {
		if i < len(args) {
			names[paramCanon(p)] = canon(args[i])
		}
	}
	var out []Set
	hf := la.flow(h)
	for _, b := range h.Blocks {
		for _, in := range b.Instrs {
			ci, ok := in.(ssa.CallInstruction)
			if !ok || ci.Common().Value != ssa.Value(h.Params[ai]) {
				continue
			}
			if _, isGo := in.(*ssa.Go); isGo {
				return nil, false
			}
			s, live := hf.Must.Before(in)
			if !live {
				continue
			}
			one := Set{}
			for t := range s {
				hl, ok := parseTok(t)
				if !ok {
					continue
				}
				one["L|"+hl.Class+"|"+hl.Mode+"|"+renameIdents(hl.Key, names)+"|"+hl.Site] = true
			}
			out = append(out, one)
		}
	}
	// the parameter must not escape in any other way (stored, passed on, started as a goroutine)
	if refs := h.Params[ai].Referrers(); refs != nil {
		for _, r := range *refs {
			switch y := r.(type) {
			case *ssa.Call:
				if y.Call.Value != ssa.Value(h.Params[ai]) {
					return nil, false
				}
			case *ssa.Defer:
				if y.Call.Value != ssa.Value(h.Params[ai]) {
					return nil, false
				}
			case *ssa.DebugRef:
			default:
				return nil, false
			}
		}
	}
	return out, len(out) > 0
}
