package rg

import (
	"fmt"
	"go/token"
	"go/types"
	"strings"

	"golang.org/x/tools/go/ssa"
)

// connHandlers: methods/functions in package server that take a net.Conn and start the RESP parser on it.
func (c *C) connHandlers() []*ssa.Function {
	ps := c.P.Func("resp", "ParseStream")
	var out []*ssa.Function
	for _, fn := range c.P.allFuncs("server") {
		if fn.Parent() != nil {
			continue
		}
		for _, b := range fn.Blocks {
			for _, in := range b.Instrs {
				if call, ok := in.(*ssa.Call); ok && callee(call) == ps && ps != nil {
					out = append(out, fn)
				}
			}
		}
	}
	return out
}

func isNetConn(t types.Type) bool {
	n, ok := t.(*types.Named)
	return ok && n.Obj().Pkg() != nil && n.Obj().Pkg().Path() == "net" && n.Obj().Name() == "Conn"
}

func connParam(fn *ssa.Function) *ssa.Parameter {
	for _, p := range fn.Params {
		if isNetConn(p.Type()) {
			return p
		}
	}
	return nil
}

// connCarrierType: a small record (or a pointer to one) that holds exactly one net.Conn (replyWriter{conn}).
func connCarrierType(t types.Type) (int, bool) {
	if pt, ok := t.Underlying().(*types.Pointer); ok {
		t = pt.Elem()
	}
	st, ok := t.Underlying().(*types.Struct)
	if !ok {
		return 0, false
	}
	idx, n := -1, 0
	for i := 0; i < st.NumFields(); i++ {
		if isNetConn(st.Field(i).Type()) {
			idx = i
			n++
		}
	}
	return idx, n == 1 && st.NumFields() <= 4
}

// connBearer: the parameter through which a server-side helper gets the client connection: a net.Conn, or a record
// that carries one.
func connBearer(fn *ssa.Function) *ssa.Parameter {
	if p := connParam(fn); p != nil {
		return p
	}
	if fn.Pkg == nil || !strings.HasSuffix(fn.Pkg.Pkg.Path(), "/server") {
		return nil
	}
	for _, p := range fn.Params {
		if _, ok := connCarrierType(p.Type()); ok {
			return p
		}
	}
	return nil
}

// sameValueOrCopy: v is p, or a load of a local cell that only ever held p.
func sameValueOrCopy(v, p ssa.Value) bool {
	if v == p {
		return true
	}
	if u, ok := v.(*ssa.UnOp); ok && u.Op == token.MUL {
		if al, ok := u.X.(*ssa.Alloc); ok {
			return singleStore(al) == p
		}
	}
	return false
}

// connOf: v is the connection that bearer p stands for: p itself (a net.Conn, possibly through its cell), or the
// connection field of the carrier record p.
func connOf(v, p ssa.Value) bool {
	if sameValueOrCopy(v, p) {
		return true
	}
	switch x := v.(type) {
	case *ssa.Field:
		return sameValueOrCopy(x.X, p)
	case *ssa.UnOp:
		if fa, ok := x.X.(*ssa.FieldAddr); ok && x.Op == token.MUL {
			if fa.X == p {
				return true
			}
			if al, ok := fa.X.(*ssa.Alloc); ok {
				return singleStore(al) == p
			}
		}
	}
	return false
}

// carriesConn: a is a carrier record (value or pointer) local to the function whose connection field was filled with conn.
func carriesConn(a ssa.Value, conn ssa.Value) bool {
	var al *ssa.Alloc
	switch x := a.(type) {
	case *ssa.Alloc:
		al = x
	case *ssa.UnOp:
		if x.Op == token.MUL {
			al, _ = x.X.(*ssa.Alloc)
		}
	}
	if al == nil || al.Referrers() == nil {
		return false
	}
	if _, ok := connCarrierType(al.Type().Underlying().(*types.Pointer).Elem()); !ok {
		return false
	}
	for _, r := range *al.Referrers() {
		fa, ok := r.(*ssa.FieldAddr)
		if !ok || fa.Referrers() == nil || !isNetConn(fa.Type().Underlying().(*types.Pointer).Elem()) {
			continue
		}
		for _, rr := range *fa.Referrers() {
			if st, ok := rr.(*ssa.Store); ok && st.Addr == ssa.Value(fa) && sameValueOrCopy(st.Val, conn) {
				return true
			}
		}
	}
	return false
}

// isConnWrite: invoke of Write on the given connection value (directly or through its captured cell).
func isConnWrite(in ssa.Instruction, conn ssa.Value) bool {
	ci, ok := in.(ssa.CallInstruction)
	if !ok {
		return false
	}
	cc := ci.Common()
	if !cc.IsInvoke() || cc.Method.Name() != "Write" || !isNetConn(cc.Value.Type()) {
		return false
	}
	if conn == nil {
		return true
	}
	return connOf(cc.Value, conn)
}

// connWriteSummary: for a first-party helper with a net.Conn parameter, the set of possible numbers of Write calls on
// that parameter over all paths ("1" = exactly once on every path). Helpers are analysed with the same counting flow.
func (c *C) connWriteSummary(fn *ssa.Function, depth int) (Set, *ssa.Parameter) {
	p := connBearer(fn)
	if p == nil || fn.Blocks == nil || depth > 3 {
		return nil, nil
	}
	tr := func(in ssa.Instruction, s Set) (Set, bool) {
		if noReturnCall(in) {
			return nil, true
		}
		add := func(k int) {
			n := Set{}
			for st := range s {
				w := int(st[0]-'0') + k
				if w > 2 {
					w = 2
				}
				n[fmt.Sprint(w)] = true
			}
			s = n
		}
		if isConnWrite(in, p) {
			add(1)
		} else if ci, ok := in.(*ssa.Call); ok {
			if cf := callee(ci); cf != nil && firstParty(cf) && pkgRel(cf) == "server" {
				if sum, cp := c.connWriteSummary(cf, depth+1); sum != nil {
					for i, a := range ci.Call.Args {
						if sameValueOrCopy(a, p) && i < len(cf.Params) && cf.Params[i] == cp {
							// conservative: only the exactly-once helper is composed
							if len(sum) == 1 && sum["1"] {
								add(1)
							} else if !(len(sum) == 1 && sum["0"]) {
								add(2)
							}
						}
					}
				}
			}
		}
		return s, false
	}
	fl := &Flow{Fn: fn, Must: false, Entry: Set{"0": true}, Transfer: tr}
	fl.Run()
	out := Set{}
	for _, b := range fn.Blocks {
		if len(b.Instrs) == 0 {
			continue
		}
		if ret, ok := b.Instrs[len(b.Instrs)-1].(*ssa.Return); ok {
			if s, live := fl.Before(ret); live {
				for k := range s {
					out[k] = true
				}
			}
		}
	}
	return out, p
}

// callsTransitively: fn (or a first-party callee, depth <= 2) calls target.
func callsTransitively(fn, target *ssa.Function, depth int) bool {
	if fn == nil || fn.Blocks == nil || depth > 2 {
		return false
	}
	for _, b := range fn.Blocks {
		for _, in := range b.Instrs {
			if ci, ok := in.(ssa.CallInstruction); ok {
				if cf := callee(ci); cf != nil {
					if cf == target {
						return true
					}
					if firstParty(cf) && callsTransitively(cf, target, depth+1) {
						return true
					}
				}
			}
		}
	}
	return false
}

var rR8 = RuleRef{Name: "R8", Doc: "exactly one reply write per command: on every path of a connection loop iteration that extracted a command (ArrayData.ToCommand) the handler's own conn.Write is called exactly once before the next iteration, never from a spawned goroutine; executors never write to their conn themselves (it may only be handed to the Pub/Sub subscriber table)", Run: func(c *C) {
	hs := c.connHandlers()
	c.Count("R8_connection_handlers", len(hs))
	c.Min("R8_connection_handlers", 2)
	toCmd := c.P.Func("resp", "ArrayData.ToCommand")
	if toCmd == nil {
		c.Undecided("R8", "anchor (*ArrayData).ToCommand")
	}
	for _, fn := range hs {
		conn := connParam(fn)
		if conn == nil {
			c.Undecided("R8", "connection parameter of "+fnName(fn))
			continue
		}
		// where an iteration of the connection loop starts: the select that receives from the parser (in the handler
		// itself, or in a receive helper the handler calls: recvOrDone(ctx, ch))
		var sel ssa.Instruction
		nWrites := 0
		nWritesViaHelper := 0
		for _, b := range fn.Blocks {
			for _, in := range b.Instrs {
				if s, ok := in.(*ssa.Select); ok && sel == nil {
					sel = s
				}
				if isConnWrite(in, conn) {
					nWrites++
				}
			}
		}
		if sel == nil {
			for _, b := range fn.Blocks {
				for _, in := range b.Instrs {
					call, ok := in.(*ssa.Call)
					if !ok || sel != nil {
						continue
					}
					cf := callee(call)
					if cf == nil || !firstParty(cf) || len(cf.Blocks) == 0 {
						continue
					}
					recvParsed := false
					for _, a := range call.Call.Args {
						if strings.Contains(a.Type().String(), "ParsedRes") {
							if _, isChan := a.Type().Underlying().(*types.Chan); isChan {
								recvParsed = true
							}
						}
					}
					if !recvParsed {
						continue
					}
					for _, b2 := range cf.Blocks {
						for _, in2 := range b2.Instrs {
							if _, ok := in2.(*ssa.Select); ok {
								sel = call
							}
							if u, ok := in2.(*ssa.UnOp); ok && u.Op == token.ARROW {
								sel = call
							}
						}
					}
				}
			}
		}
		if sel == nil {
			c.Undecided("R8", "connection loop (select) of "+fnName(fn))
			continue
		}
		tr := func(in ssa.Instruction, s Set) (Set, bool) {
			if noReturnCall(in) {
				return nil, true
			}
			if in == sel {
				return Set{"c0w0": true}, false
			}
			// a command is being executed once the path passes a dispatch point: the dispatcher call, the proposal
			// send, or a helper of this package that contains one
			isDispatchHere := false
			switch x := in.(type) {
			case *ssa.Call:
				if cf := callee(x); cf != nil {
					if isDispatcherParent(c, cf) {
						isDispatchHere = true
					} else if firstParty(cf) && pkgRel(cf) == "server" && cf != fn {
						for _, d := range c.Facts.Dispatchers {
							if callsTransitively(cf, d.Parent(), 0) {
								isDispatchHere = true
							}
						}
						if sendsProposal(cf) {
							isDispatchHere = true
						}
					}
				}
			case *ssa.Send:
				if strings.Contains(x.Chan.Type().String(), "RaftProposal") {
					isDispatchHere = true
				}
			}
			if isDispatchHere {
				n := Set{}
				for st := range s {
					n["c1"+st[2:]] = true
				}
				s = n
			}
			// a local closure called in place (reply := func(..){ conn.Write(..) }): its writes count at the call
			if call, ok := in.(*ssa.Call); ok {
				if mc, ok := call.Call.Value.(*ssa.MakeClosure); ok {
					if cl, ok := mc.Fn.(*ssa.Function); ok && cl.Parent() == fn && syncLocalClosure(fn, cl) {
						if sum := closureWriteCounts(cl); len(sum) > 0 && !(len(sum) == 1 && sum["0"]) {
							n := Set{}
							for st := range s {
								for k := range sum {
									w := int(st[3]-'0') + int(k[0]-'0')
									if w > 2 {
										w = 2
									}
									n[fmt.Sprintf("%sw%d", st[:2], w)] = true
								}
							}
							nWritesViaHelper++
							return n, false
						}
					}
				}
			}
			// a helper that writes to this connection: composed through its write-count summary
			if call, ok := in.(*ssa.Call); ok {
				if cf := callee(call); cf != nil && firstParty(cf) && pkgRel(cf) == "server" && !isDispatcherParent(c, cf) {
					if sum, cp := c.connWriteSummary(cf, 0); sum != nil {
						for i, a := range call.Call.Args {
							if i < len(cf.Params) && cf.Params[i] == cp && (a == ssa.Value(conn) || isConnLoad(a, conn) || carriesConn(a, conn)) {
								n := Set{}
								for st := range s {
									for k := range sum {
										w := int(st[3]-'0') + int(k[0]-'0')
										if w > 2 {
											w = 2
										}
										n[fmt.Sprintf("%sw%d", st[:2], w)] = true
									}
								}
								nWritesViaHelper++
								return n, false
							}
						}
					}
				}
			}
			if isConnWrite(in, conn) {
				n := Set{}
				for st := range s {
					w := int(st[3] - '0')
					if w < 2 {
						w++
					}
					n[fmt.Sprintf("%sw%d", st[:2], w)] = true
				}
				return n, false
			}
			return s, false
		}
		fl := &Flow{Fn: fn, Must: false, Entry: Set{"c0w0": true}, Transfer: tr}
		fl.Run()
		if nWritesViaHelper > 0 {
			nWritesViaHelper = 1
		}
		c.Count("R8_write_sites", nWrites+nWritesViaHelper)
		s, live := fl.Before(sel)
		var bad []string
		if live {
			for st := range s {
				switch st {
				case "c0w0", "c1w1", "c0w1": // c0w1: an error reply for a command that was rejected before dispatch
				case "c1w0":
					bad = append(bad, "a path executes a command and starts the next iteration without writing a reply")
				default:
					bad = append(bad, "a path writes more than one reply for one command ("+st+")")
				}
			}
		}
		c.Add("R8", fnName(fn), "exactly one conn.Write per dispatched command, at most one otherwise, on every path of the loop body", fn.Pos(), len(bad) == 0, strings.Join(bad, "; "))
		// no write on this connection from closures (spawned goroutines)
		var stray []string
		for _, a := range fn.AnonFuncs {
			if syncLocalClosure(fn, a) {
				continue // runs in place on the handler's goroutine; its writes were counted at the calls above
			}
			for _, b := range a.Blocks {
				for _, in := range b.Instrs {
					if isConnWrite(in, nil) {
						if _, isDefer := firstUseOfClosure(fn, a).(*ssa.Defer); !isDefer {
							stray = append(stray, c.pos(in.Pos()))
						}
					}
				}
			}
		}
		c.Add("R8", fnName(fn), "no reply write from a closure/goroutine", fn.Pos(), len(stray) == 0, strings.Join(stray, "; "))
	}
	c.Min("R8_write_sites", 4)
	// in package server, net.Conn.Write is called only by the connection handlers themselves
	var others []string
	isH := map[*ssa.Function]bool{}
	for _, h := range hs {
		isH[h] = true
	}
	// reply helpers: named functions with a connection parameter whose every caller is a connection handler or another
	// reply helper (writeResult -> writeReply), never a go statement
	replyHelper := map[*ssa.Function]bool{}
	for _, fn := range c.P.allFuncs("server") {
		if !isH[fn] && connBearer(fn) != nil && fn.Parent() == nil {
			replyHelper[fn] = true
		}
	}
	for changed := true; changed; {
		changed = false
		for fn := range replyHelper {
			ncall, ok := 0, true
			for _, g := range c.P.allFuncs("server") {
				for _, b := range g.Blocks {
					for _, in := range b.Instrs {
						if ci, isCall := in.(ssa.CallInstruction); isCall && callee(ci) == fn {
							ncall++
							if _, isGo := in.(*ssa.Go); isGo || !(isH[g] || replyHelper[g]) {
								ok = false
							}
						}
					}
				}
			}
			if ncall == 0 || !ok {
				delete(replyHelper, fn)
				changed = true
			}
		}
	}
	for _, fn := range c.P.allFuncs("server") {
		if isH[fn] {
			continue
		}
		if par := fn.Parent(); par != nil && isH[par] && syncLocalClosure(par, fn) {
			continue // a local reply helper of a handler, counted there
		}
		helperOK := replyHelper[fn]
		for _, b := range fn.Blocks {
			for _, in := range b.Instrs {
				if isConnWrite(in, nil) && !(helperOK && isConnWrite(in, connBearer(fn))) {
					others = append(others, c.pos(in.Pos())+" in "+fnName(fn))
				}
			}
		}
	}
	c.Add("R8", "server", "only the connection handlers write to client connections", token.NoPos, len(others) == 0, strings.Join(others, "; "))
	// executors: the conn parameter flows only to the subscriber table or to another executor-shaped function
	sub := c.P.Func("memdb", "ChanMap.Subscribe")
	n := 0
	for _, fn := range c.Facts.SortedExecutors() {
		p := connParam(fn)
		if p == nil {
			continue
		}
		n++
		var bad []string
		seenTable := map[*ssa.Function]bool{}
		var visit func(v ssa.Value, depth int)
		visit = func(v ssa.Value, depth int) {
			if v.Referrers() == nil || depth > 4 {
				return
			}
			for _, r := range *v.Referrers() {
				switch x := r.(type) {
				case *ssa.DebugRef:
				case ssa.CallInstruction:
					cc := x.Common()
					if cc.IsInvoke() && cc.Value == v {
						bad = append(bad, c.pos(r.Pos())+": executor calls "+cc.Method.Name()+" on its connection")
						continue
					}
					cf := cc.StaticCallee()
					if cf == sub && sub != nil {
						continue
					}
					if cf != nil && firstParty(cf) && connParam(cf) != nil && pkgRel(cf) == "memdb" {
						continue // forwarded to a sibling executor, itself checked
					}
					// dispatch through a package-level table of sub-command functions: every entry is judged
					if g, _ := lookupOfGlobalMap(cc.Value); g != nil {
						if ents, ok := c.globalMapInit(g); ok && len(ents) > 0 {
							allOK := true
							for _, e := range ents {
								tf, isFn := stripConv(e.Val).(*ssa.Function)
								if !isFn || !firstParty(tf) || connParam(tf) == nil || pkgRel(tf) != "memdb" {
									allOK = false
									continue
								}
								if !seenTable[tf] {
									seenTable[tf] = true
									visit(connParam(tf), depth+1)
								}
							}
							if allOK {
								continue
							}
						}
					}
					bad = append(bad, c.pos(r.Pos())+": connection passed to "+fmt.Sprint(cc.Value))
				case *ssa.Store:
					if al, ok := x.Addr.(*ssa.Alloc); ok {
						for _, rr := range *al.Referrers() {
							if ld, ok := rr.(*ssa.UnOp); ok {
								visit(ld, depth+1)
							}
							if mc, ok := rr.(*ssa.MakeClosure); ok {
								// captured: look inside the closure
								cl := mc.Fn.(*ssa.Function)
								for i, bnd := range mc.Bindings {
									if bnd == al {
										for _, fr := range *cl.FreeVars[i].Referrers() {
											if ld, ok := fr.(*ssa.UnOp); ok {
												visit(ld, depth+1)
											}
										}
									}
								}
							}
						}
					} else {
						bad = append(bad, c.pos(r.Pos())+": connection stored to memory")
					}
				case *ssa.MakeInterface, *ssa.ChangeInterface, *ssa.Phi:
					visit(x.(ssa.Value), depth+1)
				default:
					bad = append(bad, c.pos(r.Pos())+": connection used by "+fmt.Sprintf("%T", r))
				}
			}
		}
		visit(p, 0)
		c.Add("R8", fnName(fn), "executor does not write to its connection", fn.Pos(), len(bad) == 0, strings.Join(bad, "; "))
	}
	c.Count("R8_executors_with_conn", n)
	c.Min("R8_executors_with_conn", 70)
}}

func firstUseOfClosure(parent, cl *ssa.Function) ssa.Instruction {
	for _, b := range parent.Blocks {
		for _, in := range b.Instrs {
			if mc, ok := in.(*ssa.MakeClosure); ok && mc.Fn == cl {
				return firstUse(mc)
			}
		}
	}
	return nil
}

// helperScope: fn and the first-party functions of its package it calls, to the given depth.
func helperScope(fn *ssa.Function, depth int) []*ssa.Function {
	seen := map[*ssa.Function]bool{fn: true}
	out := []*ssa.Function{fn}
	frontier := []*ssa.Function{fn}
	for d := 0; d < depth; d++ {
		var next []*ssa.Function
		for _, f := range frontier {
			for _, b := range f.Blocks {
				for _, in := range b.Instrs {
					if ci, ok := in.(ssa.CallInstruction); ok {
						if _, isGo := in.(*ssa.Go); isGo {
							continue
						}
						if cf := callee(ci); cf != nil && firstParty(cf) && pkgRel(cf) == pkgRel(fn) && !seen[cf] && cf.Blocks != nil {
							seen[cf] = true
							out = append(out, cf)
							next = append(next, cf)
						}
					}
				}
			}
		}
		frontier = next
	}
	return out
}

// derivesFromCall: the value derives (through phis, extracts, first-party helper returns and the command filter)
// from a call to target.
func derivesFromCall(v ssa.Value, target *ssa.Function, depth int) bool {
	return derivesFromCallB(v, target, depth, nil)
}

// derivesFromCallB: bind maps the parameters of the helper being looked into to the arguments of the call that led there.
func derivesFromCallB(v ssa.Value, target *ssa.Function, depth int, bind map[*ssa.Parameter]ssa.Value) bool {
	if depth > 5 {
		return false
	}
	found := false
	backslice(v, func(x ssa.Value) bool {
		if found {
			return false
		}
		// a parameter of the helper we are inside: the argument it was called with
		if prm, isP := x.(*ssa.Parameter); isP && bind != nil {
			if a, ok := bind[prm]; ok && a != nil {
				if derivesFromCallB(a, target, depth+1, nil) {
					found = true
				}
				return false
			}
		}
		// a field of a result record of a first-party helper: what the helper stored into that field
		if fld, isF := x.(*ssa.Field); isF {
			for _, src := range structFieldSources(fld.X, fld.Field) {
				if derivesFromCallB(src, target, depth+1, bind) {
					found = true
				}
			}
			if found {
				return false
			}
		}
		// the same through a local record variable: fr := helper(...); use(fr.cmd)
		if fa, isFA := x.(*ssa.FieldAddr); isFA {
			if al, isAl := fa.X.(*ssa.Alloc); isAl && al.Referrers() != nil {
				for _, r := range *al.Referrers() {
					if st, ok := r.(*ssa.Store); ok && st.Addr == ssa.Value(al) {
						for _, src := range structFieldSources(st.Val, fa.Field) {
							if derivesFromCallB(src, target, depth+1, bind) {
								found = true
							}
						}
					}
				}
				if found {
					return false
				}
			}
		}
		call, ok := x.(*ssa.Call)
		if !ok {
			if ex, isEx := x.(*ssa.Extract); isEx {
				if c2, isC := ex.Tuple.(*ssa.Call); isC {
					if cf := c2.Call.StaticCallee(); cf != nil && cf != target && firstParty(cf) && cf.Blocks != nil && callName(c2) != "Filter" {
						nb := map[*ssa.Parameter]ssa.Value{}
						for i, prm := range cf.Params {
							if i < len(c2.Call.Args) {
								nb[prm] = c2.Call.Args[i]
							}
						}
						for _, b := range cf.Blocks {
							for _, in := range b.Instrs {
								if ret, isRet := in.(*ssa.Return); isRet && ex.Index < len(ret.Results) {
									if isNilConst(ret.Results[ex.Index]) {
										continue
									}
									if derivesFromCallB(ret.Results[ex.Index], target, depth+1, nb) {
										found = true
									}
								}
							}
						}
						return false
					}
				}
			}
			return true
		}
		cf := call.Call.StaticCallee()
		if cf == target {
			found = true
			return false
		}
		if callName(call) == "Filter" {
			return true // the filter hands the command through
		}
		if cf != nil && firstParty(cf) && cf.Blocks != nil {
			nb := map[*ssa.Parameter]ssa.Value{}
			for i, prm := range cf.Params {
				if i < len(call.Call.Args) {
					nb[prm] = call.Call.Args[i]
				}
			}
			for _, b := range cf.Blocks {
				for _, in := range b.Instrs {
					if ret, isRet := in.(*ssa.Return); isRet && len(ret.Results) > 0 {
						if derivesFromCallB(ret.Results[0], target, depth+1, nb) {
							found = true
						}
					}
				}
			}
		}
		return false
	})
	return found
}

// R12 (connection-loop part): a protocol error closes the connection without executing anything; only arrays reach dispatch.
var rR12c = RuleRef{Name: "R12c", Doc: "connection loops: every argument vector that reaches a dispatch point (executor dispatch, proposal) derives from (*ArrayData).ToCommand, i.e. from a well-formed array; in the function that tests the parser's error, the error edge reaches neither command extraction nor a dispatch point; when that test is in the connection loop itself, the error branch returns (deferred conn.Close) and never starts another iteration", Run: func(c *C) {
	hs := c.connHandlers()
	parsed := c.P.NamedType("resp", "ParsedRes")
	toCmd := c.P.Func("resp", "ArrayData.ToCommand")
	if parsed == nil || toCmd == nil {
		c.Undecided("R12c", "anchors resp.ParsedRes / (*ArrayData).ToCommand")
		return
	}
	isDispatchCall := func(in ssa.Instruction) (ssa.Value, string) {
		switch x := in.(type) {
		case *ssa.Call:
			if cf := callee(x); cf != nil && isDispatcherParent(c, cf) {
				for _, a := range x.Call.Args {
					if a.Type().String() == "[][]byte" {
						return a, "call " + cf.Name()
					}
				}
			}
		case *ssa.Store:
			if fa, ok := x.Addr.(*ssa.FieldAddr); ok && namedOf(fa.X.Type()) == "RaftProposal" && fieldName(fa) == "Data" {
				return x.Val, "proposal"
			}
		}
		return nil, ""
	}
	nd, nerr := 0, 0
	for _, h := range hs {
		scope := helperScope(h, 2)
		for _, fn := range scope {
			for _, b := range fn.Blocks {
				for _, in := range b.Instrs {
					if v, what := isDispatchCall(in); v != nil {
						// a helper that receives the vector as a parameter is judged at its call sites in scope
						if p, isP := v.(*ssa.Parameter); isP {
							okAll, any := true, false
							for _, g := range scope {
								for _, bb := range g.Blocks {
									for _, ii := range bb.Instrs {
										if ci, ok := ii.(*ssa.Call); ok && callee(ci) == fn {
											for i, prm := range fn.Params {
												if prm == p && i < len(ci.Call.Args) {
													any = true
													if !derivesFromCall(ci.Call.Args[i], toCmd, 0) {
														okAll = false
													}
												}
											}
										}
									}
								}
							}
							nd++
							c.Add("R12c", fnName(fn), what+" receives a vector extracted from a well-formed array", in.Pos(), okAll && any, "the argument vector does not derive from ArrayData.ToCommand at some call site")
							continue
						}
						nd++
						c.Add("R12c", fnName(fn), what+" receives a vector extracted from a well-formed array", in.Pos(), derivesFromCall(v, toCmd, 0), "the argument vector does not derive from ArrayData.ToCommand")
					}
				}
			}
		}
		// the function that tests ParsedRes.Err
		for _, fn := range scope {
			for _, b := range fn.Blocks {
				if len(b.Instrs) == 0 {
					continue
				}
				iff, ok := b.Instrs[len(b.Instrs)-1].(*ssa.If)
				if !ok {
					continue
				}
				bo, ok := iff.Cond.(*ssa.BinOp)
				if !ok || (bo.Op != token.NEQ && bo.Op != token.EQL) {
					continue
				}
				var x ssa.Value
				if isNilConst(bo.Y) {
					x = bo.X
				} else if isNilConst(bo.X) {
					x = bo.Y
				}
				if x == nil || !isFieldLoad(x, parsed, "Err") {
					continue
				}
				nerr++
				errSucc := b.Succs[0]
				if bo.Op == token.EQL {
					errSucc = b.Succs[1]
				}
				bad := false
				if len(errSucc.Instrs) > 0 {
					bad = reachesBefore(errSucc.Instrs[0], func(in ssa.Instruction) bool {
						if ci, ok := in.(*ssa.Call); ok && callee(ci) == toCmd {
							return true
						}
						v, _ := isDispatchCall(in)
						return v != nil
					}, func(in ssa.Instruction) bool {
						_, isSel := in.(*ssa.Select)
						return isSel
					})
				}
				c.Add("R12c", fnName(fn), "the parser-error edge reaches neither command extraction nor dispatch", iff.Pos(), !bad, "after a protocol error nothing of the malformed input may be executed")
				if fn == h {
					// the loop itself tests the error: the branch must leave the loop
					cont := false
					if len(errSucc.Instrs) > 0 {
						cont = reachesBefore(errSucc.Instrs[0], func(in ssa.Instruction) bool {
							_, isSel := in.(*ssa.Select)
							return isSel
						}, nil)
					}
					c.Add("R12c", fnName(h), "parser error closes the connection (no further iteration)", iff.Pos(), !cont, "a path from the Err != nil branch reaches the next select")
				}
			}
		}
	}
	c.Count("R12c_dispatch_points", nd)
	c.Count("R12c_error_tests", nerr)
	c.Min("R12c_dispatch_points", 3)
	c.Min("R12c_error_tests", 2)
}}

func isConnLoad(a ssa.Value, conn ssa.Value) bool {
	if u, ok := a.(*ssa.UnOp); ok {
		if al, ok := u.X.(*ssa.Alloc); ok {
			return singleStore(al) == conn
		}
	}
	return false
}

func isDispatcherParent(c *C, fn *ssa.Function) bool {
	for _, d := range c.Facts.Dispatchers {
		if d.Parent() == fn {
			return true
		}
	}
	return false
}

// syncLocalClosure: cl is an anonymous function of parent that is only ever called directly, in place (never started
// as a goroutine, deferred, stored or passed on): a local helper whose body runs on the caller's goroutine at the call.
func syncLocalClosure(parent, cl *ssa.Function) bool {
	found := false
	for _, b := range parent.Blocks {
		for _, in := range b.Instrs {
			mc, ok := in.(*ssa.MakeClosure)
			if !ok || mc.Fn != ssa.Value(cl) {
				continue
			}
			found = true
			if mc.Referrers() == nil {
				return false
			}
			for _, r := range *mc.Referrers() {
				switch x := r.(type) {
				case *ssa.DebugRef:
				case *ssa.Call:
					if x.Call.Value != ssa.Value(mc) {
						return false
					}
				default:
					return false
				}
			}
		}
	}
	return found
}

// closureWriteCounts: the possible numbers of net.Conn Write calls over the paths of a closure body (0, 1, 2 = many).
func closureWriteCounts(cl *ssa.Function) Set {
	tr := func(in ssa.Instruction, s Set) (Set, bool) {
		if noReturnCall(in) {
			return nil, true
		}
		if isConnWrite(in, nil) {
			n := Set{}
			for st := range s {
				w := int(st[0]-'0') + 1
				if w > 2 {
					w = 2
				}
				n[fmt.Sprint(w)] = true
			}
			return n, false
		}
		return s, false
	}
	fl := &Flow{Fn: cl, Must: false, Entry: Set{"0": true}, Transfer: tr}
	fl.Run()
	out := Set{}
	for _, b := range cl.Blocks {
		if len(b.Instrs) == 0 {
			continue
		}
		if ret, ok := b.Instrs[len(b.Instrs)-1].(*ssa.Return); ok {
			if st, live := fl.Before(ret); live {
				for k := range st {
					out[k] = true
				}
			}
		}
	}
	return out
}

// structFieldSources: fld reads field k of a struct value that a first-party helper returned (directly or as one of
// several results); the values the helper stored into field k of the records it returns.
func structFieldSources(rec ssa.Value, field int) []ssa.Value {
	var call *ssa.Call
	idx := 0
	switch y := rec.(type) {
	case *ssa.Call:
		call = y
	case *ssa.Extract:
		if c2, ok := y.Tuple.(*ssa.Call); ok {
			call, idx = c2, y.Index
		}
	}
	if call == nil {
		return nil
	}
	cf := call.Call.StaticCallee()
	if cf == nil || !firstParty(cf) || cf.Blocks == nil {
		return nil
	}
	var out []ssa.Value
	for _, b := range cf.Blocks {
		for _, in := range b.Instrs {
			ret, ok := in.(*ssa.Return)
			if !ok || idx >= len(ret.Results) {
				continue
			}
			for _, rv := range retResults(ret)[idx] {
				u, ok := rv.(*ssa.UnOp)
				if !ok {
					continue
				}
				al, ok := u.X.(*ssa.Alloc)
				if !ok || al.Referrers() == nil {
					continue
				}
				for _, r := range *al.Referrers() {
					fa, ok := r.(*ssa.FieldAddr)
					if !ok || fa.Field != field || fa.Referrers() == nil {
						continue
					}
					for _, rr := range *fa.Referrers() {
						if st, ok := rr.(*ssa.Store); ok && st.Addr == ssa.Value(fa) {
							out = append(out, st.Val)
						}
					}
				}
			}
		}
	}
	return out
}
