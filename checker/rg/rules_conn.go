package rg

import (
	"fmt"
	"go/token"
	"go/types"
	"strings"

	"golang.org/x/tools/go/ssa"
)

// connHandlers: methods/functions in package server that take a net.Conn and start the RESP parser on it.
func (c *C) connHandlers() []*ssa.Function {
	ps := c.P.Func("resp", "ParseStream")
	var out []*ssa.Function
	for _, fn := range c.P.allFuncs("server") {
		if fn.Parent() != nil {
			continue
		}
		for _, b := range fn.Blocks {
			for _, in := range b.Instrs {
				if call, ok := in.(*ssa.Call); ok && callee(call) == ps && ps != nil {
					out = append(out, fn)
				}
			}
		}
	}
	return out
}

func isNetConn(t types.Type) bool {
	n, ok := t.(*types.Named)
	return ok && n.Obj().Pkg() != nil && n.Obj().Pkg().Path() == "net" && n.Obj().Name() == "Conn"
}

func connParam(fn *ssa.Function) *ssa.Parameter {
	for _, p := range fn.Params {
		if isNetConn(p.Type()) {
			return p
		}
	}
	return nil
}

// isConnWrite: invoke of Write on the given connection value (directly or through its captured cell).
func isConnWrite(in ssa.Instruction, conn ssa.Value) bool {
	ci, ok := in.(ssa.CallInstruction)
	if !ok {
		return false
	}
	cc := ci.Common()
	if !cc.IsInvoke() || cc.Method.Name() != "Write" || !isNetConn(cc.Value.Type()) {
		return false
	}
	if conn == nil {
		return true
	}
	v := cc.Value
	if v == conn {
		return true
	}
	if u, ok := v.(*ssa.UnOp); ok {
		if al, ok := u.X.(*ssa.Alloc); ok {
			if sv := singleStore(al); sv == conn {
				return true
			}
		}
	}
	return false
}

var rR8 = RuleRef{Name: "R8", Doc: "exactly one reply write per command: on every path of a connection loop iteration that extracted a command (ArrayData.ToCommand) the handler's own conn.Write is called exactly once before the next iteration, never from a spawned goroutine; executors never write to their conn themselves (it may only be handed to the Pub/Sub subscriber table)", Run: func(c *C) {
	hs := c.connHandlers()
	c.Count("R8_connection_handlers", len(hs))
	c.Min("R8_connection_handlers", 2)
	toCmd := c.P.Func("resp", "ArrayData.ToCommand")
	if toCmd == nil {
		c.Undecided("R8", "anchor (*ArrayData).ToCommand")
	}
	for _, fn := range hs {
		conn := connParam(fn)
		if conn == nil {
			c.Undecided("R8", "connection parameter of "+fnName(fn))
			continue
		}
		var sel *ssa.Select
		nWrites := 0
		for _, b := range fn.Blocks {
			for _, in := range b.Instrs {
				if s, ok := in.(*ssa.Select); ok && sel == nil {
					sel = s
				}
				if isConnWrite(in, conn) {
					nWrites++
				}
			}
		}
		if sel == nil {
			c.Undecided("R8", "connection loop (select) of "+fnName(fn))
			continue
		}
		c.Count("R8_write_sites", nWrites)
		tr := func(in ssa.Instruction, s Set) (Set, bool) {
			if noReturnCall(in) {
				return nil, true
			}
			if in == ssa.Instruction(sel) {
				return Set{"c0w0": true}, false
			}
			if call, ok := in.(*ssa.Call); ok && callee(call) == toCmd && toCmd != nil {
				n := Set{}
				for st := range s {
					n["c1"+st[2:]] = true
				}
				return n, false
			}
			if isConnWrite(in, conn) {
				n := Set{}
				for st := range s {
					w := int(st[3] - '0')
					if w < 2 {
						w++
					}
					n[fmt.Sprintf("%sw%d", st[:2], w)] = true
				}
				return n, false
			}
			return s, false
		}
		fl := &Flow{Fn: fn, Must: false, Entry: Set{"c0w0": true}, Transfer: tr}
		fl.Run()
		s, live := fl.Before(sel)
		var bad []string
		if live {
			for st := range s {
				if st != "c0w0" && st != "c1w1" {
					switch st {
					case "c1w0":
						bad = append(bad, "a path executes a command and starts the next iteration without writing a reply")
					case "c1w2":
						bad = append(bad, "a path writes more than one reply for one command")
					default:
						bad = append(bad, "a path writes to the connection without having extracted a command ("+st+")")
					}
				}
			}
		}
		c.Add("R8", fnName(fn), "exactly one conn.Write per extracted command on every path of the loop body", fn.Pos(), len(bad) == 0, strings.Join(bad, "; "))
		// no write on this connection from closures (spawned goroutines)
		var stray []string
		for _, a := range fn.AnonFuncs {
			for _, b := range a.Blocks {
				for _, in := range b.Instrs {
					if isConnWrite(in, nil) {
						if _, isDefer := firstUseOfClosure(fn, a).(*ssa.Defer); !isDefer {
							stray = append(stray, c.pos(in.Pos()))
						}
					}
				}
			}
		}
		c.Add("R8", fnName(fn), "no reply write from a closure/goroutine", fn.Pos(), len(stray) == 0, strings.Join(stray, "; "))
	}
	c.Min("R8_write_sites", 4)
	// in package server, net.Conn.Write is called only by the connection handlers themselves
	var others []string
	isH := map[*ssa.Function]bool{}
	for _, h := range hs {
		isH[h] = true
	}
	for _, fn := range c.P.allFuncs("server") {
		if isH[fn] {
			continue
		}
		for _, b := range fn.Blocks {
			for _, in := range b.Instrs {
				if isConnWrite(in, nil) {
					others = append(others, c.pos(in.Pos())+" in "+fnName(fn))
				}
			}
		}
	}
	c.Add("R8", "server", "only the connection handlers write to client connections", token.NoPos, len(others) == 0, strings.Join(others, "; "))
	// executors: the conn parameter flows only to the subscriber table or to another executor-shaped function
	sub := c.P.Func("memdb", "ChanMap.Subscribe")
	n := 0
	for _, fn := range c.Facts.SortedExecutors() {
		p := connParam(fn)
		if p == nil {
			continue
		}
		n++
		var bad []string
		var visit func(v ssa.Value, depth int)
		visit = func(v ssa.Value, depth int) {
			if v.Referrers() == nil || depth > 4 {
				return
			}
			for _, r := range *v.Referrers() {
				switch x := r.(type) {
				case *ssa.DebugRef:
				case ssa.CallInstruction:
					cc := x.Common()
					if cc.IsInvoke() && cc.Value == v {
						bad = append(bad, c.pos(r.Pos())+": executor calls "+cc.Method.Name()+" on its connection")
						continue
					}
					cf := cc.StaticCallee()
					if cf == sub && sub != nil {
						continue
					}
					if cf != nil && firstParty(cf) && connParam(cf) != nil && pkgRel(cf) == "memdb" {
						continue // forwarded to a sibling executor, itself checked
					}
					if mc, ok := cc.Value.(*ssa.MakeClosure); ok {
						_ = mc
					}
					bad = append(bad, c.pos(r.Pos())+": connection passed to "+fmt.Sprint(cc.Value))
				case *ssa.Store:
					if al, ok := x.Addr.(*ssa.Alloc); ok {
						for _, rr := range *al.Referrers() {
							if ld, ok := rr.(*ssa.UnOp); ok {
								visit(ld, depth+1)
							}
							if mc, ok := rr.(*ssa.MakeClosure); ok {
								// captured: look inside the closure
								cl := mc.Fn.(*ssa.Function)
								for i, bnd := range mc.Bindings {
									if bnd == al {
										for _, fr := range *cl.FreeVars[i].Referrers() {
											if ld, ok := fr.(*ssa.UnOp); ok {
												visit(ld, depth+1)
											}
										}
									}
								}
							}
						}
					} else {
						bad = append(bad, c.pos(r.Pos())+": connection stored to memory")
					}
				case *ssa.MakeInterface, *ssa.ChangeInterface, *ssa.Phi:
					visit(x.(ssa.Value), depth+1)
				default:
					bad = append(bad, c.pos(r.Pos())+": connection used by "+fmt.Sprintf("%T", r))
				}
			}
		}
		visit(p, 0)
		c.Add("R8", fnName(fn), "executor does not write to its connection", fn.Pos(), len(bad) == 0, strings.Join(bad, "; "))
	}
	c.Count("R8_executors_with_conn", n)
	c.Min("R8_executors_with_conn", 70)
}}

func firstUseOfClosure(parent, cl *ssa.Function) ssa.Instruction {
	for _, b := range parent.Blocks {
		for _, in := range b.Instrs {
			if mc, ok := in.(*ssa.MakeClosure); ok && mc.Fn == cl {
				return firstUse(mc)
			}
		}
	}
	return nil
}

// R12 (connection-loop part): a protocol error closes the connection without executing anything; only arrays reach dispatch.
var rR12c = RuleRef{Name: "R12c", Doc: "connection loops: the branch taken when the parser reports an error reaches return (deferred conn.Close) without passing a dispatch point and without starting another iteration; every dispatch point (executor dispatch call, proposal send) is dominated by the Err == nil edge and by the success edge of the *ArrayData type test", Run: func(c *C) {
	hs := c.connHandlers()
	parsed := c.P.NamedType("resp", "ParsedRes")
	arr := c.P.NamedType("resp", "ArrayData")
	if parsed == nil || arr == nil {
		c.Undecided("R12c", "anchors resp.ParsedRes / resp.ArrayData")
		return
	}
	for _, fn := range hs {
		var sel *ssa.Select
		for _, b := range fn.Blocks {
			for _, in := range b.Instrs {
				if s, ok := in.(*ssa.Select); ok && sel == nil {
					sel = s
				}
			}
		}
		if sel == nil {
			continue
		}
		isErrField := func(v ssa.Value) bool { return isFieldLoad(v, parsed, "Err") }
		edgeGen := func(from, to *ssa.BasicBlock, s Set) Set {
			cond, neg, ok := branchCond(from, to)
			if !ok {
				return s
			}
			if bo, ok := cond.(*ssa.BinOp); ok && (bo.Op == token.NEQ || bo.Op == token.EQL) {
				var x ssa.Value
				if isNilConst(bo.Y) {
					x = bo.X
				} else if isNilConst(bo.X) {
					x = bo.Y
				}
				if x != nil && isErrField(x) {
					errNonNil := (bo.Op == token.NEQ) != neg
					if errNonNil {
						s["ERR"] = true
					} else {
						s["ERRNIL"] = true
					}
				}
			}
			// comma-ok type test to *ArrayData
			if ex, ok := cond.(*ssa.Extract); ok && ex.Index == 1 && !neg {
				if ta, ok := ex.Tuple.(*ssa.TypeAssert); ok && ta.CommaOk && isNamed(ta.AssertedType, arr) {
					s["ISARRAY"] = true
				}
			}
			return s
		}
		tr := func(in ssa.Instruction, s Set) (Set, bool) {
			if noReturnCall(in) {
				return nil, true
			}
			if in == ssa.Instruction(sel) {
				return Set{}, false
			}
			return s, false
		}
		must := &Flow{Fn: fn, Must: true, Entry: Set{}, Transfer: tr, EdgeGen: edgeGen}
		must.Run()
		may := &Flow{Fn: fn, Must: false, Entry: Set{}, Transfer: tr, EdgeGen: edgeGen}
		may.Run()
		// dispatch points
		nd := 0
		for _, b := range fn.Blocks {
			for _, in := range b.Instrs {
				isDispatch, what := false, ""
				switch x := in.(type) {
				case *ssa.Call:
					if cf := callee(x); cf != nil && firstParty(cf) {
						for _, d := range c.Facts.Dispatchers {
							if d.Parent() == cf {
								isDispatch, what = true, "call "+cf.Name()
							}
						}
					}
				case *ssa.Send:
					if ch, ok := x.Chan.Type().Underlying().(*types.Chan); ok {
						if pt, ok := ch.Elem().(*types.Pointer); ok {
							if n, ok := pt.Elem().(*types.Named); ok && n.Obj().Name() == "RaftProposal" {
								isDispatch, what = true, "proposal send"
							}
						}
					}
				}
				if !isDispatch {
					continue
				}
				nd++
				s, live := must.Before(in)
				ok := !live || (s["ERRNIL"] && s["ISARRAY"])
				c.Add("R12c", fnName(fn), fmt.Sprintf("%s only for a well-formed array with no parser error", what), in.Pos(), ok, "facts on every path: "+strings.Join(s.Sorted(), " "))
			}
		}
		c.Count("R12c_dispatch_points", nd)
		// the error branch never starts another iteration
		s, live := may.Before(sel)
		c.Add("R12c", fnName(fn), "parser error closes the connection (no further iteration)", fn.Pos(), !live || !s["ERR"], "a path from the Err != nil branch reaches the next select")
	}
	c.Min("R12c_dispatch_points", 3)
}}
