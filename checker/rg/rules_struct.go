package rg

import (
	"sort"
	"fmt"
	"go/token"
	"go/types"
	"strings"

	"golang.org/x/tools/go/ssa"
)

func isLoopHeader(b *ssa.BasicBlock) bool {
	for _, p := range b.Preds {
		if b.Dominates(p) {
			return true
		}
	}
	return false
}

func namedOf(t types.Type) string {
	if n, ok := derefNamed(t); ok {
		return n.Obj().Name()
	}
	return ""
}

// R20a: list length bookkeeping.
var rR20a = RuleRef{Name: "R20a", Doc: "list length bookkeeping: in every List method, each link-in of a freshly allocated node and each detach (nil stored into a node's Prev/Next) is paired with a store to List.Len within the same loop iteration / before the function returns", Run: func(c *C) {
	listT := c.P.NamedType("memdb", "List")
	if listT == nil {
		c.Undecided("R20a", "anchor memdb.List")
		return
	}
	nEv, nFn := 0, 0
	for _, fn := range c.P.allFuncs("memdb") {
		if !isMethodOf(fn, listT) {
			continue
		}
		isEvent := func(in ssa.Instruction) string {
			switch x := in.(type) {
			case *ssa.Alloc:
				if x.Heap && namedOf(x.Type()) == "ListNode" {
					return "new node linked in"
				}
			case *ssa.Store:
				if fa, ok := x.Addr.(*ssa.FieldAddr); ok && isNilConst(x.Val) && namedOf(fa.X.Type()) == "ListNode" {
					if n := fieldName(fa); n == "Prev" || n == "Next" {
						return "node detached (" + n + " = nil)"
					}
				}
			}
			return ""
		}
		isLenStore := func(in ssa.Instruction) bool {
			st, ok := in.(*ssa.Store)
			if !ok {
				return false
			}
			fa, ok := st.Addr.(*ssa.FieldAddr)
			return ok && namedOf(fa.X.Type()) == "List" && fieldName(fa) == "Len"
		}
		has := false
		for _, b := range fn.Blocks {
			for _, in := range b.Instrs {
				if isEvent(in) != "" {
					has = true
				}
			}
		}
		if !has {
			continue
		}
		nFn++
		// backward: Len written since the segment start (must)
		trMust := func(in ssa.Instruction, s Set) (Set, bool) {
			if in == in.Block().Instrs[0] && isLoopHeader(in.Block()) {
				s = Set{}
			}
			if isLenStore(in) {
				s["LW"] = true
			}
			return s, false
		}
		must := &Flow{Fn: fn, Must: true, Entry: Set{}, Transfer: trMust}
		must.Run()
		// forward: pending events (may); a Len store clears them
		leaked := map[string]bool{}
		collect := false
		trMay := func(in ssa.Instruction, s Set) (Set, bool) {
			if in == in.Block().Instrs[0] && isLoopHeader(in.Block()) {
				if collect {
					for k := range s {
						leaked[k] = true
					}
				}
				s = Set{}
			}
			if ev := isEvent(in); ev != "" {
				if ms, live := must.Before(in); !live || !ms["LW"] {
					s["P|"+c.pos(in.Pos())] = true
				}
			}
			if isLenStore(in) {
				s = Set{}
			}
			if _, isRet := in.(*ssa.Return); isRet && collect {
				for k := range s {
					leaked[k] = true
				}
			}
			return s, false
		}
		may := &Flow{Fn: fn, Must: false, Entry: Set{}, Transfer: trMay}
		may.Run()
		collect = true
		for _, b := range fn.Blocks {
			if !may.Live(b) {
				continue
			}
			s := may.in[b].Clone()
			for _, in := range b.Instrs {
				s, _ = trMay(in, s)
			}
		}
		ord := map[string]int{}
		for _, b := range fn.Blocks {
			for _, in := range b.Instrs {
				ev := isEvent(in)
				if ev == "" {
					continue
				}
				nEv++
				ord[ev]++
				con := ev
				if ord[ev] > 1 {
					con = fmt.Sprintf("%s#%d", ev, ord[ev])
				}
				c.Add("R20a", fnName(fn), con+" paired with a List.Len update", in.Pos(), !leaked["P|"+c.pos(in.Pos())], "a path leaves the iteration/function after this link change without updating List.Len")
			}
		}
	}
	c.Count("R20a_link_events", nEv)
	c.Count("R20a_list_methods", nFn)
	c.Min("R20a_link_events", 12)
	c.Min("R20a_list_methods", 8)
}}

// shrinkers: methods of container types (except Stream) that can reduce the number of elements:
// they delete from a map rooted at the receiver or store a decremented/recomputed Len (transitively on the same receiver).
func (c *C) shrinkers() map[*ssa.Function]bool {
	out := map[*ssa.Function]bool{}
	fns := c.P.allFuncs("memdb")
	subsIdle := c.listSubscriptionsNeverPopulated()
	direct := func(fn *ssa.Function) bool {
		for _, b := range fn.Blocks {
			for _, in := range b.Instrs {
				switch x := in.(type) {
				case ssa.CallInstruction:
					if bi, ok := x.Common().Value.(*ssa.Builtin); ok && bi.Name() == "delete" && rootOf(x.Common().Args[0]) == 0 {
						return true
					}
				case *ssa.Store:
					if fa, ok := x.Addr.(*ssa.FieldAddr); ok && fieldName(fa) == "Len" && namedOf(fa.X.Type()) == "List" && rootOf(fa.X) == 0 {
						if bo, ok := x.Val.(*ssa.BinOp); ok && bo.Op == token.ADD {
							if k, ok := constInt(bo.Y); ok && k > 0 {
								continue // Len++
							}
						}
						return true
					}
				}
			}
		}
		return false
	}
	for _, fn := range fns {
		if fn.Signature.Recv() == nil {
			continue
		}
		if tn, ok := c.containerType(fn.Signature.Recv().Type()); !ok || tn == "Stream" {
			continue
		}
		if direct(fn) {
			out[fn] = true
		}
	}
	for changed := true; changed; {
		changed = false
		for _, fn := range fns {
			if out[fn] || fn.Signature.Recv() == nil {
				continue
			}
			if tn, ok := c.containerType(fn.Signature.Recv().Type()); !ok || tn == "Stream" {
				continue
			}
			for _, b := range fn.Blocks {
				for _, in := range b.Instrs {
					if ci, ok := in.(ssa.CallInstruction); ok {
						if subsIdle && inSubscriptionBranch(in) {
							continue // dead while no subscription can be registered (side condition re-verified)
						}
						if cf := callee(ci); cf != nil && (out[cf] || out[origin(cf)]) && len(ci.Common().Args) > 0 && rootOf(ci.Common().Args[0]) == 0 {
							out[fn] = true
							changed = true
						}
					}
				}
			}
		}
	}
	// generic sorted-set: Delete-like methods of Btree/SortedSet instantiations are found through origin()
	return out
}

// applySubst rewrites names in key, longest name first: "conv(cmd[1])" -> "*free:key" must win over "cmd" -> "*free:cmd",
// and the order must not depend on map iteration.
func applySubst(key string, sub map[string]string) string {
	froms := make([]string, 0, len(sub))
	for f := range sub {
		froms = append(froms, f)
	}
	sort.Slice(froms, func(i, j int) bool {
		if len(froms[i]) != len(froms[j]) {
			return len(froms[i]) > len(froms[j])
		}
		return froms[i] < froms[j]
	})
	for _, f := range froms {
		key = strings.ReplaceAll(key, f, sub[f])
	}
	return key
}

// closureKeySub returns the substitution closure-canon -> parent-canon for captured single-assignment variables.
func closureKeySub(mc *ssa.MakeClosure) map[string]string {
	fn := mc.Fn.(*ssa.Function)
	sub := map[string]string{}
	for i, bnd := range mc.Bindings {
		if al, ok := bnd.(*ssa.Alloc); ok {
			if sv := singleStore(al); sv != nil {
				sub["*free:"+fn.FreeVars[i].Name()] = canon(sv)
			}
		}
	}
	return sub
}

// R20b: an emptied container ceases to exist.
var rR20b = RuleRef{Name: "R20b", Doc: "an emptied container ceases to exist: after an executor calls a shrinking method (computed: deletes from the receiver's map or lowers List.Len) on a value read from db.Get(k), every path to a return passes an emptiness test of that value or a db.Delete(k), directly or in a deferred closure", Run: func(c *C) {
	shr := c.shrinkers()
	c.Count("R20b_shrinking_methods", len(shr))
	c.Min("R20b_shrinking_methods", 6)
	n := 0
	for _, fn := range c.P.allFuncs("memdb") {
		if fn.Signature.Recv() != nil {
			if _, ok := c.containerType(fn.Signature.Recv().Type()); ok {
				continue // container internals
			}
		}
		type shrinkSite struct {
			in  ssa.Instruction
			key string
			val ssa.Value
			nm  string
		}
		var sites []shrinkSite
		for _, b := range fn.Blocks {
			for _, in := range b.Instrs {
				ci, ok := in.(ssa.CallInstruction)
				if !ok {
					continue
				}
				cf := callee(ci)
				if cf == nil || !(shr[cf] || shr[origin(cf)]) {
					continue
				}
				keys, _ := c.originKeys(ci.Common().Args[0])
				for _, k := range keys {
					sites = append(sites, shrinkSite{in, k, ci.Common().Args[0], cf.Name()})
				}
			}
		}
		if len(sites) == 0 {
			continue
		}
		// facts: TESTED|k (must), DEFER|k (must)
		emptinessOf := func(cond ssa.Value) []string {
			var ks []string
			backslice(cond, func(x ssa.Value) bool {
				switch y := x.(type) {
				case *ssa.Call:
					if cf := y.Call.StaticCallee(); cf != nil && len(y.Call.Args) > 0 {
						if _, isCont := c.containerType(y.Call.Args[0].Type()); isCont {
							k, _ := c.originKeys(y.Call.Args[0])
							ks = append(ks, k...)
						}
					}
					if bi, ok := y.Call.Value.(*ssa.Builtin); ok && bi.Name() == "len" {
						return true
					}
					return false
				case *ssa.FieldAddr:
					if _, isCont := c.containerType(y.X.Type()); isCont {
						k, _ := c.originKeys(y.X)
						ks = append(ks, k...)
					}
					return false
				}
				return true
			})
			return ks
		}
		deferKeys := func(d *ssa.Defer) []string {
			mc, ok := d.Call.Value.(*ssa.MakeClosure)
			if !ok {
				// a named delete-if-empty helper: defer deleteIfEmpty(m, key, list)
				var ks []string
				if cf := d.Call.StaticCallee(); cf != nil {
					for _, pi := range c.deletesKeyParams(cf) {
						if pi < len(d.Call.Args) {
							ks = append(ks, canon(d.Call.Args[pi]))
						}
					}
				}
				return ks
			}
			sub := closureKeySub(mc)
			var ks []string
			cl := mc.Fn.(*ssa.Function)
			for _, b := range cl.Blocks {
				for _, in := range b.Instrs {
					if ci, ok := in.(ssa.CallInstruction); ok {
						if a := c.keyspaceAccess(ci); a != nil && a.Map == "db" && a.Method == "Delete" {
							k := canon(a.Key)
							if r, ok := sub[k]; ok {
								k = r
							}
							ks = append(ks, k)
						}
					}
				}
			}
			return ks
		}
		trD := func(in ssa.Instruction, s Set) (Set, bool) {
			if noReturnCall(in) {
				return nil, true
			}
			if d, ok := in.(*ssa.Defer); ok {
				for _, k := range deferKeys(d) {
					s["DEFER|"+k] = true
				}
			}
			return s, false
		}
		must := &Flow{Fn: fn, Must: true, Entry: Set{}, Transfer: trD}
		must.Run()
		siteID := func(st shrinkSite) string { return "S|" + st.key + "|" + c.pos(st.in.Pos()) + "|" + st.nm }
		killKey := func(s Set, k string) {
			for f := range s {
				if strings.HasPrefix(f, "S|"+k+"|") {
					delete(s, f)
				}
			}
		}
		tr := func(in ssa.Instruction, s Set) (Set, bool) {
			if noReturnCall(in) {
				return nil, true
			}
			if x, ok := in.(*ssa.Call); ok {
				if a := c.keyspaceAccess(x); a != nil && a.Map == "db" && a.Method == "Delete" {
					killKey(s, canon(a.Key))
				}
				if cf := callee(x); cf != nil && firstParty(cf) {
					for _, pi := range c.deletesKeyParams(cf) {
						if pi < len(x.Call.Args) {
							killKey(s, canon(x.Call.Args[pi]))
						}
					}
				}
			}
			// a growing mutator (insert/add/push) on the same container leaves it non-empty
			if x, ok := in.(*ssa.Call); ok {
				if cf := callee(x); cf != nil && firstParty(cf) && !(shr[cf] || shr[origin(cf)]) && len(x.Call.Args) > 0 {
					if _, isCont := c.containerType(x.Call.Args[0].Type()); isCont && c.mutates(cf, 0) {
						ks, _ := c.originKeys(x.Call.Args[0])
						for _, k := range ks {
							killKey(s, k)
						}
					}
				}
			}
			for _, st := range sites {
				if st.in == in {
					s[siteID(st)] = true
				}
			}
			return s, false
		}
		edgeGen := func(from, to *ssa.BasicBlock, s Set) Set {
			if cond, _, ok := branchCond(from, to); ok {
				for _, k := range emptinessOf(cond) {
					killKey(s, k)
				}
			}
			return s
		}
		may := &Flow{Fn: fn, Must: false, Entry: Set{}, Transfer: tr, EdgeGen: edgeGen}
		may.Run()
		pending := map[string][]string{}
		for _, b := range fn.Blocks {
			if len(b.Instrs) == 0 {
				continue
			}
			ret, ok := b.Instrs[len(b.Instrs)-1].(*ssa.Return)
			if !ok {
				continue
			}
			s, live := may.Before(ret)
			if !live {
				continue
			}
			ds, _ := must.Before(ret)
			for f := range s {
				if !strings.HasPrefix(f, "S|") {
					continue
				}
				k := strings.SplitN(f, "|", 3)[1]
				if ds != nil && ds["DEFER|"+k] {
					continue
				}
				pending[f] = append(pending[f], c.pos(ret.Pos()))
			}
		}
		ord := map[string]int{}
		for _, st := range sites {
			n++
			bad := pending[siteID(st)]
			con := "after " + st.nm + " on value of " + st.key + ": delete-if-empty on every path"
			ord[con]++
			if ord[con] > 1 {
				con = fmt.Sprintf("%s#%d", con, ord[con])
			}
			c.Add("R20b", fnName(fn), con, st.in.Pos(), len(bad) == 0, "returns reached without an emptiness test / db.Delete of the key: "+strings.Join(bad, ", "))
		}
	}
	c.Count("R20b_shrink_call_sites", n)
	c.Min("R20b_shrink_call_sites", 10)
}}

// R20c: absence is decided by membership, not by a sentinel.
var rR20c = RuleRef{Name: "R20c", Doc: "absence by membership: a payload accessor of a container type that cannot signal absence (returns the result of a non-comma-ok map lookup, or a constant empty value on some path, with no ok/err result) must not have its result compared with the empty value to decide 'missing'/'exhausted'", Run: func(c *C) {
	sentinel := map[*ssa.Function]string{}
	nAcc := 0
	for _, fn := range c.P.allFuncs("memdb") {
		if fn.Signature.Recv() == nil {
			continue
		}
		if _, ok := c.containerType(fn.Signature.Recv().Type()); !ok {
			continue
		}
		res := fn.Signature.Results()
		if res.Len() != 1 {
			continue // has an ok/err companion
		}
		rt := res.At(0).Type().Underlying()
		isPayload := false
		if bt, ok := rt.(*types.Basic); ok && bt.Info()&types.IsString != 0 {
			isPayload = true
		}
		if sl, ok := rt.(*types.Slice); ok {
			if bt, ok := sl.Elem().Underlying().(*types.Basic); ok && bt.Kind() == types.Byte {
				isPayload = true
			}
		}
		if !isPayload {
			continue
		}
		nAcc++
		lookup, constEmpty, other := false, false, false
		for _, b := range fn.Blocks {
			for _, in := range b.Instrs {
				ret, ok := in.(*ssa.Return)
				if !ok {
					continue
				}
				switch x := ret.Results[0].(type) {
				case *ssa.Lookup:
					if !x.CommaOk {
						lookup = true
					}
				case *ssa.Const:
					if x.Value == nil || x.Value.ExactString() == `""` {
						constEmpty = true
					} else {
						other = true
					}
				default:
					other = true
				}
			}
		}
		if lookup {
			sentinel[fn] = "returns a map lookup without the ok bit"
		} else if constEmpty && other {
			sentinel[fn] = "returns the empty value to signal exhaustion"
		}
	}
	c.Count("R20c_payload_accessors", nAcc)
	n := 0
	for _, fn := range c.P.allFuncs("memdb") {
		ord := 0
		for _, b := range fn.Blocks {
			for _, in := range b.Instrs {
				call, ok := in.(*ssa.Call)
				if !ok {
					continue
				}
				why, isS := sentinel[callee(call)]
				if !isS {
					continue
				}
				n++
				// does the result flow into a comparison with the empty value that feeds a branch?
				bad := ""
				var walk func(v ssa.Value, d int)
				seen := map[ssa.Value]bool{}
				walk = func(v ssa.Value, d int) {
					if seen[v] || d > 5 || v.Referrers() == nil {
						return
					}
					seen[v] = true
					for _, r := range *v.Referrers() {
						switch x := r.(type) {
						case *ssa.BinOp:
							if x.Op == token.EQL || x.Op == token.NEQ {
								other := x.Y
								if other == v {
									other = x.X
								}
								if s, ok := constString(other); (ok && s == "") || isNilConst(other) {
									bad = c.pos(x.Pos())
								}
								if k, ok := constInt(other); ok && k == 0 {
									bad = c.pos(x.Pos())
								}
							}
						case *ssa.Call:
							if bi, ok := x.Call.Value.(*ssa.Builtin); ok && bi.Name() == "len" {
								walk(x, d+1)
							}
						case *ssa.Phi:
							walk(x, d+1)
						case *ssa.Convert:
							walk(x, d+1)
						}
					}
				}
				walk(call, 0)
				ord++
				c.Add("R20c", fnName(fn), fmt.Sprintf("result of %s not used as an absence sentinel#%d", callee(call).Name(), ord), call.Pos(), bad == "", "accessor "+why+"; its result is compared with the empty value at "+bad)
			}
		}
	}
	c.Count("R20c_sentinel_accessor_calls", n)
	// map lookups on container tables inside accessors with an ok result must use the comma-ok form
	nl := 0
	for _, fn := range c.P.allFuncs("memdb") {
		if fn.Signature.Recv() == nil {
			continue
		}
		if _, ok := c.containerType(fn.Signature.Recv().Type()); !ok {
			continue
		}
		if fn.Signature.Results().Len() < 2 {
			continue
		}
		last := fn.Signature.Results().At(fn.Signature.Results().Len() - 1).Type()
		if bt, ok := last.Underlying().(*types.Basic); !ok || bt.Kind() != types.Bool {
			continue
		}
		for _, b := range fn.Blocks {
			for _, in := range b.Instrs {
				ret, ok := in.(*ssa.Return)
				if !ok {
					continue
				}
				// the ok result must not be derived from comparing the payload with the empty value
				okv := ret.Results[len(ret.Results)-1]
				bad := false
				backslice(okv, func(x ssa.Value) bool {
					if bo, ok := x.(*ssa.BinOp); ok && (bo.Op == token.EQL || bo.Op == token.NEQ || bo.Op == token.GTR) {
						for _, side := range []ssa.Value{bo.X, bo.Y} {
							if s, ok := constString(side); ok && s == "" {
								bad = true
							}
							if ln, ok := isBuiltinCall(side, "len"); ok {
								if _, isLookup := ln.Call.Args[0].(*ssa.Lookup); isLookup {
									bad = true
								}
								if ex, isEx := ln.Call.Args[0].(*ssa.Extract); isEx {
									if _, isLookup := ex.Tuple.(*ssa.Lookup); isLookup {
										bad = true
									}
								}
							}
						}
					}
					_, isCall := x.(*ssa.Call)
					return !isCall
				})
				nl++
				c.Add("R20c", fnName(fn), "presence result is decided by map membership", ret.Pos(), !bad, "the ok result is computed from the emptiness of the payload")
			}
		}
	}
	c.Count("R20c_ok_accessor_returns", nl)
	c.Min("R20c_ok_accessor_returns", 3)
}}

// returnedValue finds the value returned by a Return instruction, looking through a spilled result cell.
func returnedValues(ret *ssa.Return) []ssa.Value {
	if len(ret.Results) != 1 {
		return ret.Results
	}
	v := ret.Results[0]
	u, ok := v.(*ssa.UnOp)
	if !ok {
		return []ssa.Value{v}
	}
	al, ok := u.X.(*ssa.Alloc)
	if !ok {
		return []ssa.Value{v}
	}
	// last store to the cell in the same block before the return
	var last ssa.Value
	for _, in := range ret.Block().Instrs {
		if st, ok := in.(*ssa.Store); ok && st.Addr == al {
			last = st.Val
		}
	}
	if last != nil {
		return []ssa.Value{last}
	}
	var all []ssa.Value
	for _, r := range *al.Referrers() {
		if st, ok := r.(*ssa.Store); ok && st.Addr == al {
			all = append(all, st.Val)
		}
	}
	return all
}

func isErrorReply(v ssa.Value) bool { return isErrorReplyD(v, 0) }

// isErrorReplyD: the reply value is an error reply: built as *ErrorData here, or the (non-nil) reply result of a
// first-party helper all of whose non-nil values for that result are error replies (set, errReply := helper(...);
// if errReply != nil { return errReply }).
func isErrorReplyD(v ssa.Value, depth int) bool {
	if depth > 3 {
		return false
	}
	switch x := v.(type) {
	case *ssa.MakeInterface:
		return namedOf(x.X.Type()) == "ErrorData"
	case *ssa.Phi:
		any := false
		for _, e := range x.Edges {
			if isNilConst(e) {
				continue
			}
			any = true
			if !isErrorReplyD(e, depth+1) {
				return false
			}
		}
		return any
	case *ssa.Extract:
		call, ok := x.Tuple.(*ssa.Call)
		if !ok {
			return false
		}
		return helperResultIsError(call.Call.StaticCallee(), x.Index, depth)
	case *ssa.Call:
		return helperResultIsError(x.Call.StaticCallee(), 0, depth)
	}
	return false
}

func helperResultIsError(cf *ssa.Function, idx int, depth int) bool {
	if cf == nil || cf.Blocks == nil || !firstParty(cf) {
		return false
	}
	any := false
	for _, b := range cf.Blocks {
		for _, in := range b.Instrs {
			ret, ok := in.(*ssa.Return)
			if !ok || idx >= len(ret.Results) {
				continue
			}
			for _, rv := range retResults(ret)[idx] {
				if isNilConst(rv) {
					continue
				}
				any = true
				if !isErrorReplyD(rv, depth+1) {
					return false
				}
			}
		}
	}
	return any
}

// R20d: STORE forms write (or delete) the destination on every success path.
var rR20d = RuleRef{Name: "R20d", Doc: "the *STORE set-algebra executors replace the destination on every non-error return: a db.Set(destination) or db.Delete(destination) lies on every path to a return of a non-error reply", Run: func(c *C) {
	n := 0
	for name, fn := range c.Facts.Executors {
		if !strings.HasSuffix(name, "store") {
			continue
		}
		n++
		tr := func(in ssa.Instruction, s Set) (Set, bool) {
			if noReturnCall(in) {
				return nil, true
			}
			if ci, ok := in.(*ssa.Call); ok {
				if a := c.keyspaceAccess(ci); a != nil && a.Map == "db" && (a.Method == "Set" || a.Method == "Delete") {
					s["DESTW|"+canon(a.Key)] = true
				}
				if cf := callee(ci); cf != nil && firstParty(cf) {
					for _, pi := range c.writesKeyParams(cf) {
						if pi < len(ci.Call.Args) {
							s["DESTW|"+canon(ci.Call.Args[pi])] = true
						}
					}
				}
			}
			return s, false
		}
		must := &Flow{Fn: fn, Must: true, Entry: Set{}, Transfer: tr}
		must.Run()
		var bad []string
		rets := 0
		for _, b := range fn.Blocks {
			if len(b.Instrs) == 0 {
				continue
			}
			ret, ok := b.Instrs[len(b.Instrs)-1].(*ssa.Return)
			if !ok {
				continue
			}
			s, live := must.Before(ret)
			if !live {
				continue
			}
			success := false
			for _, v := range returnedValues(ret) {
				if !isErrorReply(v) {
					success = true
				}
			}
			if !success {
				continue
			}
			rets++
			if !s["DESTW|conv(cmd[1])"] {
				bad = append(bad, c.pos(ret.Pos()))
			}
		}
		c.Add("R20d", fnName(fn), "destination written or deleted on every non-error return", fn.Pos(), len(bad) == 0 && rets > 0, fmt.Sprintf("%d success returns; without a write of cmd[1]: %s", rets, strings.Join(bad, ", ")))
	}
	c.Count("R20d_store_executors", n)
	c.Min("R20d_store_executors", 3)
}}

// inSubscriptionBranch: the instruction is control-dependent on a test of List.LSubscriptions/RSubscriptions.
func inSubscriptionBranch(in ssa.Instruction) bool {
	for d := in.Block(); d != nil; d = d.Idom() {
		id := d.Idom()
		if id == nil || len(id.Instrs) == 0 {
			continue
		}
		iff, ok := id.Instrs[len(id.Instrs)-1].(*ssa.If)
		if !ok {
			continue
		}
		found := false
		backslice(iff.Cond, func(v ssa.Value) bool {
			if fa, ok := v.(*ssa.FieldAddr); ok {
				if n := fieldName(fa); n == "LSubscriptions" || n == "RSubscriptions" {
					found = true
				}
				return false
			}
			return true
		})
		if found {
			return true
		}
	}
	return false
}

// deletesKeyParams: parameters of fn that are used as the key of a db.Delete inside fn (a delete-if-empty helper).
func (c *C) deletesKeyParams(fn *ssa.Function) []int {
	if fn == nil || fn.Blocks == nil || pkgRel(fn) != "memdb" || fn.Parent() != nil {
		return nil
	}
	if _, isExec := c.Facts.ExecNames[fn]; isExec {
		return nil
	}
	var out []int
	for _, b := range fn.Blocks {
		for _, in := range b.Instrs {
			if ci, ok := in.(ssa.CallInstruction); ok {
				if a := c.keyspaceAccess(ci); a != nil && a.Map == "db" && a.Method == "Delete" {
					if pi := paramIndex(fn, canon(a.Key)); pi >= 0 {
						out = append(out, pi)
					}
				}
			}
		}
	}
	return out
}

// writesKeyParams: parameters of fn that are written (db.Set) or deleted (db.Delete) on every path to every
// return of a non-error reply (the shared "store the result under the destination" tail of the *STORE commands).
func (c *C) writesKeyParams(fn *ssa.Function) []int {
	if fn == nil || fn.Blocks == nil || pkgRel(fn) != "memdb" || fn.Parent() != nil {
		return nil
	}
	if _, isExec := c.Facts.ExecNames[fn]; isExec {
		return nil
	}
	if c.wkMemo == nil {
		c.wkMemo = map[*ssa.Function][]int{}
	}
	if r, ok := c.wkMemo[fn]; ok {
		return r
	}
	c.wkMemo[fn] = nil
	tr := func(in ssa.Instruction, s Set) (Set, bool) {
		if noReturnCall(in) {
			return nil, true
		}
		if ci, ok := in.(*ssa.Call); ok {
			if a := c.keyspaceAccess(ci); a != nil && a.Map == "db" && (a.Method == "Set" || a.Method == "Delete") {
				s["DESTW|"+canon(a.Key)] = true
			}
		}
		return s, false
	}
	must := &Flow{Fn: fn, Must: true, Entry: Set{}, Transfer: tr}
	must.Run()
	var cand map[int]bool
	for _, b := range fn.Blocks {
		if len(b.Instrs) == 0 {
			continue
		}
		ret, ok := b.Instrs[len(b.Instrs)-1].(*ssa.Return)
		if !ok {
			continue
		}
		s, live := must.Before(ret)
		if !live {
			continue
		}
		success := false
		for _, v := range returnedValues(ret) {
			if !isErrorReply(v) {
				success = true
			}
		}
		if !success {
			continue
		}
		here := map[int]bool{}
		for f := range s {
			if strings.HasPrefix(f, "DESTW|") {
				if pi := paramIndex(fn, f[6:]); pi >= 0 {
					here[pi] = true
				}
			}
		}
		if cand == nil {
			cand = here
		} else {
			for k := range cand {
				if !here[k] {
					delete(cand, k)
				}
			}
		}
	}
	var out []int
	for k := range cand {
		out = append(out, k)
	}
	c.wkMemo[fn] = out
	return out
}

// R20t: the tree's size is changed at most once per structural change; R20o: the ordering compares raw scores.
var rR20t = RuleRef{Name: "R20t", Doc: "sorted-set tree bookkeeping, structural part only: a function that updates the tree's size field never also calls itself on the same path (a recursive removal that decrements per visited node counts a two-child delete twice); the node comparator orders by the raw stored scores (exact <, >, == on the Score fields, no tolerance or arithmetic), so that the order is total and agrees with the equality used elsewhere", Run: func(c *C) {
	n := 0
	for _, fn := range c.P.allFuncs("memdb") {
		writes := false
		for _, b := range fn.Blocks {
			for _, in := range b.Instrs {
				if st, ok := in.(*ssa.Store); ok {
					if fa, ok := st.Addr.(*ssa.FieldAddr); ok && fieldName(fa) == "len" && namedOf(fa.X.Type()) == "Btree" {
						writes = true
					}
				}
			}
		}
		if !writes {
			continue
		}
		n++
		self := ""
		for _, b := range fn.Blocks {
			for _, in := range b.Instrs {
				if ci, ok := in.(ssa.CallInstruction); ok {
					if cf := callee(ci); cf != nil && (cf == fn || origin(cf) == origin(fn)) {
						self = callName(ci)
					}
				}
			}
		}
		good := true
		if self != "" {
			of := c.orderFlow(fn, nil, true, "W|len", "C|"+self)
			for _, b := range fn.Blocks {
				if len(b.Instrs) == 0 {
					continue
				}
				if ret, ok := b.Instrs[len(b.Instrs)-1].(*ssa.Return); ok {
					states, _ := of.States(ret)
					for _, st := range states {
						if st["W|len"] && st["C|"+self] {
							good = false
						}
					}
				}
			}
		}
		c.Add("R20t", fnName(fn), "the size field is updated at most once per activation chain (no size update together with a self-call on one path)", fn.Pos(), good, "a recursive function that changes the size on a path that also recurses counts one structural change several times")
	}
	c.Count("R20t_size_writers", n)
	c.Min("R20t_size_writers", 2)
	comp := c.P.Func("memdb", "SortedSetNode.Comp")
	if comp == nil {
		c.Undecided("R20t", "anchor (*SortedSetNode).Comp")
		return
	}
	ncmp, raw := 0, true
	why := ""
	for _, b := range comp.Blocks {
		for _, in := range b.Instrs {
			bo, ok := in.(*ssa.BinOp)
			if !ok {
				continue
			}
			bt, isB := bo.X.Type().Underlying().(*types.Basic)
			if !isB || bt.Info()&types.IsFloat == 0 {
				continue
			}
			switch bo.Op {
			case token.LSS, token.GTR, token.EQL, token.LEQ, token.GEQ, token.NEQ:
				ncmp++
				for _, side := range []ssa.Value{bo.X, bo.Y} {
					u, ok := side.(*ssa.UnOp)
					isScore := false
					if ok {
						if fa, ok := u.X.(*ssa.FieldAddr); ok && fieldName(fa) == "Score" {
							isScore = true
						}
					}
					if !isScore {
						raw, why = false, "a score comparison operand is "+canon(side)+" (not a stored Score field)"
					}
				}
			default:
				raw, why = false, "arithmetic on scores inside the comparator ("+bo.Op.String()+")"
			}
		}
	}
	c.Add("R20t", fnName(comp), "the comparator orders by the raw stored scores", comp.Pos(), raw && ncmp >= 2, why)
}}
