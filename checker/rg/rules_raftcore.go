package rg

import (
	"fmt"
	"go/token"
	"sort"
	"strings"

	"golang.org/x/tools/go/ssa"
)

const quorumPkg = "go.etcd.io/etcd/raft/v3/quorum"

// fieldWriters returns the names of the functions (in the given package) that store to field `field` of struct type `typ`.
func (c *C) fieldWriters(pkg, typ, field string) []string {
	set := map[string]bool{}
	for _, fn := range c.P.allFuncs(pkg) {
		for _, b := range fn.Blocks {
			for _, in := range b.Instrs {
				st, ok := in.(*ssa.Store)
				if !ok {
					continue
				}
				fa, ok := st.Addr.(*ssa.FieldAddr)
				if !ok || fieldName(fa) != field || namedOf(fa.X.Type()) != typ {
					continue
				}
				root := fn
				for root.Parent() != nil {
					root = root.Parent()
				}
				n := root.Name()
				if root.Signature.Recv() != nil {
					n = namedOf(root.Signature.Recv().Type()) + "." + n
				}
				set[n] = true
			}
		}
	}
	var out []string
	for n := range set {
		out = append(out, n)
	}
	sort.Strings(out)
	return out
}

// R16g: guard dominance and writer sets in the Raft core.
var rR16g = RuleRef{Name: "R16g", Doc: "Raft core guards (pinned mechanisms, not the safety invariants themselves): the commit index is written only by its reviewed writers and commitTo only raises it; term and vote are written only in reset/becomeCandidate/vote granting/loadState; a vote is recorded only after isUpToDate and one of the canVote conditions; only current-term entries are committed by counting; a conflicting append never reaches below the commit index; loadState rejects a commit outside [committed,lastIndex]; joint quorums combine both halves; a candidate tallies only the response type of its own (pre-)candidacy; campaigning scans the whole unapplied window for configuration changes", Run: func(c *C) {
	// writer sets (frozen from the reviewed tree; a new writer must be reviewed)
	want := map[string][]string{
		"raftLog.committed": {"RawNode.Bootstrap", "newLogWithSize", "raft.loadState", "raftLog.commitTo", "raftLog.restore"},
		"raft.Term":         {"raft.loadState", "raft.reset"},
		"raft.Vote":         {"raft.Step", "raft.becomeCandidate", "raft.loadState", "raft.reset"},
	}
	for key, allowed := range want {
		p := strings.SplitN(key, ".", 2)
		got := c.fieldWriters(raftPkg, p[0], p[1])
		var extra []string
		am := map[string]bool{}
		for _, a := range allowed {
			am[a] = true
		}
		for _, g := range got {
			if !am[g] {
				extra = append(extra, g)
			}
		}
		c.Add("R16g", "raft", "writers of "+key+" are the reviewed ones", token.NoPos, len(extra) == 0 && len(got) > 0, fmt.Sprintf("writers found: %v; not reviewed: %v", got, extra))
	}
	obs := []ordOb{
		{Pkg: raftPkg, Fn: "raftLog.commitTo", At: "store:committed", AllEdges: true, NeedAll: []string{"T|cmp:committed<p1"}, What: "the commit index is only ever raised"},
		{Pkg: raftPkg, Fn: "raftLog.maybeCommit", At: "call:commitTo", AllEdges: true, NeedAll: []string{"T|cmp:committed<p1", "T|cmp:p2==zeroTermOnErrCompacted()"}, What: "an index is committed by counting only if its entry carries the given (current) term"},
		{Pkg: raftPkg, Fn: "raftLog.maybeAppend", At: "call:append", AllEdges: true, NeedAll: []string{"T|call:matchTerm", "F|cmp:0==findConflict()", "T|cmp:committed<findConflict()"}, What: "a conflicting suffix is replaced only above the commit index and only when the previous entry matches"},
		{Pkg: raftPkg, Fn: "raftLog.append", At: "call:truncateAndAppend", AllEdges: true, NeedAll: []string{"F|cmp:?<committed"}, What: "append never truncates at or below the commit index"},
		{Pkg: raftPkg, Fn: "raft.loadState", At: "store:committed", AllEdges: true, NeedAll: []string{"F|cmp:Commit<committed", "F|cmp:lastIndex()<Commit"}, What: "a loaded commit index lies within [committed, lastIndex]"},
		{Pkg: raftPkg, Fn: "raft.Step", At: "store:Vote", AllEdges: true, NeedAll: []string{"T|call:isUpToDate"}, NeedAny: []string{"T|cmp:From==Vote", "T|cmp:0==Vote", "T|cmp:Term<Term"}, What: "a vote is recorded only for an up-to-date candidate and only if no conflicting vote was cast"},
		{Pkg: raftPkg, Fn: "stepCandidate", At: "call:poll", AllEdges: true, NeedAll: []string{"T|cmp:?==Type"}, What: "a (pre-)candidate tallies only the response type of its current candidacy (compared with a state-dependent value, not with message-type constants)"},
		{Pkg: raftPkg, Fn: "raft.restore", At: "call:commitTo", AllEdges: true, NeedAll: []string{"T|call:matchTerm"}, What: "a snapshot is answered by fast-forwarding the commit index (instead of being restored) only when the log holds the snapshot's entry: same index AND same term (a log that is merely longer, or ends in a newer term, may hold a divergent uncommitted tail there)"},
		{Pkg: raftPkg, Fn: "raft.hup", At: "call:campaign", AllEdges: true, NeedAll: []string{"C|slice", "C|numOfPendingConf", "F|cmp:2==state"}, What: "campaigning is refused while configuration changes are committed but unapplied"},
	}
	c.checkOrder("R16g", obs)
	// hup scans the whole unapplied window: slice(applied+1, committed+1, noLimit)
	if fn := c.P.Func(raftPkg, "raft.hup"); fn != nil {
		ok := false
		for _, b := range fn.Blocks {
			for _, in := range b.Instrs {
				call, isC := in.(*ssa.Call)
				if !isC || callName(call) != "slice" || len(call.Call.Args) < 4 {
					continue
				}
				lo, hi := canon(call.Call.Args[1]), canon(call.Call.Args[2])
				lim, isK := call.Call.Args[3].(*ssa.Const)
				unlimited := isK && lim.Value != nil && lim.Value.ExactString() == "18446744073709551615"
				// the scanned entries feed numOfPendingConf
				feeds := false
				if call.Referrers() != nil {
					for _, r := range *call.Referrers() {
						if ex, isE := r.(*ssa.Extract); isE && ex.Index == 0 && ex.Referrers() != nil {
							for _, rr := range *ex.Referrers() {
								if c2, isC2 := rr.(*ssa.Call); isC2 && callName(c2) == "numOfPendingConf" {
									feeds = true
								}
							}
						}
					}
				}
				ok = strings.Contains(lo, "applied") && strings.Contains(hi, "committed") && unlimited && feeds
			}
		}
		c.Add("R16g", fnName(fn), "the pending-configuration scan covers (applied, committed] without a size limit", fn.Pos(), ok, "numOfPendingConf must receive raftLog.slice(applied+1, committed+1, noLimit)")
	}
	// raft.maybeCommit passes the current term
	if fn := c.P.Func(raftPkg, "raft.maybeCommit"); fn != nil {
		ok := false
		for _, b := range fn.Blocks {
			for _, in := range b.Instrs {
				if call, isC := in.(*ssa.Call); isC && callName(call) == "maybeCommit" && len(call.Call.Args) >= 3 {
					ok = canon(call.Call.Args[2]) == "recv.Term"
				}
			}
		}
		c.Add("R16g", fnName(fn), "the leader commits by counting with its current term", fn.Pos(), ok, "raftLog.maybeCommit must be called with r.Term")
	} else {
		c.Undecided("R16g", "anchor raft.maybeCommit")
	}
	// joint quorum: both halves
	for _, m := range []string{"JointConfig.VoteResult", "JointConfig.CommittedIndex"} {
		fn := c.P.Func(quorumPkg, m)
		if fn == nil {
			c.Undecided("R16g", "anchor quorum."+m)
			continue
		}
		halves := map[int64]bool{}
		for _, b := range fn.Blocks {
			for _, in := range b.Instrs {
				call, isC := in.(*ssa.Call)
				if !isC || len(call.Call.Args) == 0 {
					continue
				}
				backslice(call.Call.Args[0], func(v ssa.Value) bool {
					switch x := v.(type) {
					case *ssa.IndexAddr:
						if k, ok := constInt(x.Index); ok {
							halves[k] = true
						}
					case *ssa.Index:
						if k, ok := constInt(x.Index); ok {
							halves[k] = true
						}
					}
					return true
				})
			}
		}
		// and the result depends on both: every return's backslice / control reaches both calls (approximated by both being called)
		c.Add("R16g", fnName(fn), "a joint decision consults both majority configurations", fn.Pos(), halves[0] && halves[1], fmt.Sprintf("halves consulted: %v", halves))
	}
	// becomeCandidate votes for itself in a new term
	if fn := c.P.Func(raftPkg, "raft.becomeCandidate"); fn != nil {
		selfVote, termPlus := false, false
		for _, b := range fn.Blocks {
			for _, in := range b.Instrs {
				switch x := in.(type) {
				case *ssa.Store:
					if fa, ok := x.Addr.(*ssa.FieldAddr); ok && fieldName(fa) == "Vote" && canon(x.Val) == "recv.id" {
						selfVote = true
					}
				case *ssa.Call:
					if callName(x) == "reset" && len(x.Call.Args) >= 2 {
						if bo, ok := x.Call.Args[1].(*ssa.BinOp); ok && bo.Op == token.ADD && canon(bo.X) == "recv.Term" {
							if k, ok := constInt(bo.Y); ok && k == 1 {
								termPlus = true
							}
						}
					}
				}
			}
		}
		c.Add("R16g", fnName(fn), "a candidate moves to term+1 and votes for itself", fn.Pos(), selfVote && termPlus, fmt.Sprintf("self vote=%v term+1=%v", selfVote, termPlus))
	}
}}
