package rg

import (
	"fmt"
	"go/token"
	"go/types"
	"sort"
	"strings"

	"golang.org/x/tools/go/ssa"
)

// R0: the commands a property names are registered.
func registeredRule(names ...string) RuleRef {
	return RuleRef{Name: "R0", Doc: "exhaustiveness: every command the property names is registered, to an executor, by a Register* function that main.init calls", Run: func(c *C) {
		for _, n := range names {
			fn := c.Facts.Executors[n]
			c.Add("R0", "memdb", "command "+strings.ToUpper(n)+" is registered", c.Facts.RegSites[n], fn != nil, "no RegisterCommand(\""+n+"\", ...) reachable from main.init")
		}
	}}
}

// R2: nil after an inconsistent test.
var rR2 = RuleRef{Name: "R2", Doc: "contradiction rule: if a function compares a pointer value with nil anywhere, every dereference of that same value (field access, load, method call through it) is dominated by an edge on which it is known to be non-nil", Run: func(c *C) {
	reach := c.requestReach()
	n := 0
	for _, fn := range c.P.allFuncs("memdb", "server", "resp", "util") {
		if !reach[fn] {
			continue
		}
		tested := map[ssa.Value]bool{}
		for _, b := range fn.Blocks {
			for _, in := range b.Instrs {
				if bo, ok := in.(*ssa.BinOp); ok && (bo.Op == token.EQL || bo.Op == token.NEQ) {
					var p ssa.Value
					if isNilConst(bo.Y) {
						p = bo.X
					} else if isNilConst(bo.X) {
						p = bo.Y
					}
					if p != nil {
						if _, isPtr := p.Type().Underlying().(*types.Pointer); isPtr {
							tested[p] = true
						}
					}
				}
			}
		}
		if len(tested) == 0 {
			continue
		}
		nonNilAt := func(p ssa.Value, b *ssa.BasicBlock) bool {
			for x := b; x != nil; x = x.Idom() {
				if len(x.Preds) != 1 {
					continue
				}
				cond, neg, ok := branchCond(x.Preds[0], x)
				if !ok {
					continue
				}
				if bo, ok := cond.(*ssa.BinOp); ok && (bo.Op == token.EQL || bo.Op == token.NEQ) {
					if (bo.X == p && isNilConst(bo.Y)) || (bo.Y == p && isNilConst(bo.X)) {
						if (bo.Op == token.NEQ) != neg {
							return true
						}
					}
				}
			}
			return false
		}
		ord := map[string]int{}
		for _, b := range fn.Blocks {
			for _, in := range b.Instrs {
				var p ssa.Value
				switch x := in.(type) {
				case *ssa.FieldAddr:
					p = x.X
				case *ssa.UnOp:
					if x.Op == token.MUL {
						p = x.X
					}
				case ssa.CallInstruction:
					if cf := callee(x); cf != nil && cf.Signature.Recv() != nil && len(x.Common().Args) > 0 {
						if _, isPtr := cf.Signature.Recv().Type().(*types.Pointer); isPtr {
							p = x.Common().Args[0]
						}
					}
				}
				if p == nil || !tested[p] {
					continue
				}
				// phi of tested value with a constructor on the other edge etc. are different SSA values: only the tested value itself
				n++
				con := "dereference of " + canon(p) + " after a nil test elsewhere"
				ord[con]++
				if ord[con] > 1 {
					con = fmt.Sprintf("%s#%d", con, ord[con])
				}
				c.Add("R2", fnName(fn), con, in.Pos(), nonNilAt(p, b), "the function tests this pointer for nil on another path but dereferences it here without a dominating non-nil edge")
			}
		}
	}
	c.Count("R2_guarded_dereferences", n)
	c.Min("R2_guarded_dereferences", 5)
}}

// R3: unchecked type assertions agree with every writer.
var rR3 = RuleRef{Name: "R3", Doc: "single-result type assertions cannot fail: on values read from a ConcurrentMap the asserted type is the only dynamic type ever stored in that same map field (ttlKeys: *TTLInfo, ChanMap.item: *Chan; the heterogeneous keyspace db must be read with the comma-ok form); elsewhere the operand was built from that type in the same function or the type is the interface's only implementor", Run: func(c *C) {
	reach := c.requestReach()
	// dynamic types stored per map field
	stored := map[string]map[string]bool{}
	mapField := func(recv ssa.Value) string {
		if u, ok := recv.(*ssa.UnOp); ok {
			if fa, ok := u.X.(*ssa.FieldAddr); ok {
				return namedOf(fa.X.Type()) + "." + fieldName(fa)
			}
		}
		// m.deadlines(): an accessor that only returns the map field
		if call, ok := recv.(*ssa.Call); ok && len(call.Call.Args) == 1 {
			if f, isG := thinGetter(callee(call)); isG {
				return namedOf(call.Call.Args[0].Type()) + "." + f
			}
		}
		return ""
	}
	for _, fn := range c.P.allFuncs(firstPartyPkgs...) {
		for _, b := range fn.Blocks {
			for _, in := range b.Instrs {
				ci, ok := in.(ssa.CallInstruction)
				if !ok {
					continue
				}
				cf := callee(ci)
				if cf == nil || !isMethodOf(cf, c.Facts.CMap, "Set", "SetIfExist", "SetIfNotExist") {
					continue
				}
				f := mapField(ci.Common().Args[0])
				if f == "" || len(ci.Common().Args) < 3 {
					continue
				}
				if stored[f] == nil {
					stored[f] = map[string]bool{}
				}
				var dyn func(v ssa.Value, d int)
				dyn = func(v ssa.Value, d int) {
					if d > 5 {
						stored[f]["?"] = true
						return
					}
					switch x := v.(type) {
					case *ssa.MakeInterface:
						stored[f][x.X.Type().String()] = true
					case *ssa.Phi:
						for _, e := range x.Edges {
							dyn(e, d+1)
						}
					case *ssa.Extract, *ssa.Parameter, *ssa.UnOp, *ssa.Call:
						// moved value of interface type: the same set of types as what is already stored
					default:
						stored[f]["?"] = true
					}
				}
				dyn(ci.Common().Args[2], 0)
			}
		}
	}
	n := 0
	for _, fn := range c.P.allFuncs("memdb", "server", "resp", "util") {
		if !reach[fn] {
			continue
		}
		ord := map[string]int{}
		for _, b := range fn.Blocks {
			for _, in := range b.Instrs {
				ta, ok := in.(*ssa.TypeAssert)
				if !ok || ta.CommaOk {
					continue
				}
				n++
				good, why := false, ""
				// operand from a map read?
				var field string
				backslice(ta.X, func(v ssa.Value) bool {
					if call, ok := v.(*ssa.Call); ok {
						if cf := callee(call); cf != nil && isMethodOf(cf, c.Facts.CMap, "Get") {
							field = mapField(call.Call.Args[0])
						}
						return false
					}
					_, isPhi := v.(*ssa.Phi)
					_, isEx := v.(*ssa.Extract)
					return isPhi || isEx || v == ta.X
				})
				// the map is a parameter of a (generic) getter: the map fields handed in at its call sites
				var viaParam []string
				if field == "" {
					backslice(ta.X, func(v ssa.Value) bool {
						if call, ok := v.(*ssa.Call); ok {
							if cf := callee(call); cf != nil && isMethodOf(cf, c.Facts.CMap, "Get") {
								if prm, ok := call.Call.Args[0].(*ssa.Parameter); ok {
									pi := -1
									for i, p := range fn.Params {
										if p == prm {
											pi = i
										}
									}
									sites := 0
									for _, g := range c.P.allFuncs(firstPartyPkgs...) {
										for _, b2 := range g.Blocks {
											for _, in2 := range b2.Instrs {
												if c2, ok := in2.(ssa.CallInstruction); ok && callee(c2) == fn && pi >= 0 && pi < len(c2.Common().Args) {
													sites++
													if f := mapField(c2.Common().Args[pi]); f != "" {
														viaParam = append(viaParam, f)
													} else {
														viaParam = append(viaParam, "?")
													}
												}
											}
										}
									}
									if sites == 0 {
										viaParam = append(viaParam, "?")
									}
								}
							}
							return false
						}
						_, isPhi := v.(*ssa.Phi)
						_, isEx := v.(*ssa.Extract)
						return isPhi || isEx || v == ta.X
					})
				}
				switch {
				case len(viaParam) > 0:
					good = true
					for _, f := range viaParam {
						ts := stored[f]
						if !(len(ts) == 1 && ts[ta.AssertedType.String()]) {
							good = false
							why = "the map handed to this getter at some call site (" + f + ") does not hold only " + ta.AssertedType.String()
						}
					}
				case field != "":
					ts := stored[field]
					if len(ts) == 1 && ts[ta.AssertedType.String()] {
						good = true
					} else {
						var l []string
						for t := range ts {
							l = append(l, t)
						}
						sort.Strings(l)
						why = "map field " + field + " stores " + strings.Join(l, ", ") + ": use the comma-ok form"
					}
				default:
					// a field of a struct literal built in this function: every store into that field has the asserted type
					if u, ok := ta.X.(*ssa.UnOp); ok {
						if fa, ok := u.X.(*ssa.FieldAddr); ok {
							if al, ok := fa.X.(*ssa.Alloc); ok {
								all, any := true, false
								for _, r := range *al.Referrers() {
									fa2, ok := r.(*ssa.FieldAddr)
									if !ok || fa2.Field != fa.Field {
										continue
									}
									for _, rr := range *fa2.Referrers() {
										if st, ok := rr.(*ssa.Store); ok && st.Addr == fa2 {
											any = true
											if mi, ok := st.Val.(*ssa.MakeInterface); !ok || !types.Identical(mi.X.Type(), ta.AssertedType) {
												all = false
											}
										}
									}
								}
								if all && any {
									good = true
								}
							}
						}
					}
					// a record field that holds the asserted type in every record of the program
					if u, ok := ta.X.(*ssa.UnOp); ok && !good {
						if fa, ok := u.X.(*ssa.FieldAddr); ok && c.fieldAlwaysType(fa, ta.AssertedType) {
							good = true
						}
					}
					// built from that type in the same function?
					backslice(ta.X, func(v ssa.Value) bool {
						if mi, ok := v.(*ssa.MakeInterface); ok && types.Identical(mi.X.Type(), ta.AssertedType) {
							good = true
						}
						return !good
					})
					if !good {
						// only implementor of the interface in first-party code
						if it, ok := ta.X.Type().Underlying().(*types.Interface); ok && it.NumMethods() > 0 {
							impl := 0
							for _, pk := range firstPartyPkgs {
								sp := c.P.Pkg(pk)
								if sp == nil {
									continue
								}
								for _, m := range sp.Members {
									if t, ok := m.(*ssa.Type); ok {
										for _, tt := range []types.Type{t.Type(), types.NewPointer(t.Type())} {
											if _, isI := tt.Underlying().(*types.Interface); !isI && types.Implements(tt, it) {
												if types.Identical(tt, ta.AssertedType) {
													impl += 100
												} else if _, isPtr := tt.(*types.Pointer); isPtr && types.Implements(tt.(*types.Pointer).Elem(), it) {
													// pointer to an implementing value type: counted with the value type
												} else {
													impl++
												}
											}
										}
									}
								}
							}
							good = impl == 100
							why = fmt.Sprintf("the asserted type is not the only implementor of the operand's interface (score %d)", impl)
						} else {
							why = "operand of unknown dynamic type"
						}
					}
				}
				con := "assertion " + canon(ta.X) + ".(" + ta.AssertedType.String() + ") cannot fail"
				ord[con]++
				if ord[con] > 1 {
					con = fmt.Sprintf("%s#%d", con, ord[con])
				}
				c.Add("R3", fnName(fn), con, ta.Pos(), good, why)
			}
		}
	}
	c.Count("R3_unchecked_assertions", n)
}}

// R4: allocation sizes derived from parsed client integers are bounded.
var rR4 = RuleRef{Name: "R4", Doc: "allocation sizes derived from an integer parsed from client bytes are bounded: every make() whose length or capacity depends on strconv.ParseInt/Atoi output is dominated by an upper bound against a constant (<= 2^31) or the size of an existing object", Run: func(c *C) {
	reach := c.requestReach()
	n := 0
	for _, fn := range c.P.allFuncs("memdb", "server", "resp", "util") {
		if !reach[fn] {
			continue
		}
		var p *bprover
		ord := 0
		for _, b := range fn.Blocks {
			for _, in := range b.Instrs {
				ms, ok := in.(*ssa.MakeSlice)
				if !ok {
					continue
				}
				for _, sz := range []ssa.Value{ms.Len, ms.Cap} {
					if _, isC := sz.(*ssa.Const); isC {
						continue
					}
					if !derivesFromParse(sz) && !derivesFromField(sz) && !c.derivesFromParsedParam(sz, fn) {
						continue
					}
					n++
					if p == nil {
						p = c.newProver(fn)
					}
					// the size is bounded above at the allocation: what is added is bounded above, what is subtracted is bounded
					// below (end-start+1 is small only if start cannot be hugely negative); lengths of existing objects and
					// constants are fine; a client-controlled integer needs a bound the prover can show here
					bounded := true
					// sizes of existing objects read in this function: len()/Len() results and loads of a field called Len
					var sizes []ssa.Value
					for _, bb := range fn.Blocks {
						for _, ii := range bb.Instrs {
							switch y := ii.(type) {
							case *ssa.UnOp:
								if fa, ok := y.X.(*ssa.FieldAddr); ok && y.Op == token.MUL && fieldName(fa) == "Len" {
									sizes = append(sizes, y)
								}
							case *ssa.Call:
								if bi, ok := y.Call.Value.(*ssa.Builtin); ok && bi.Name() == "len" {
									sizes = append(sizes, y)
								} else if cf := y.Call.StaticCallee(); cf != nil && cf.Name() == "Len" {
									sizes = append(sizes, y)
								}
							}
						}
					}
					proveUpper := func(v ssa.Value) bool {
						if p.ProveLE(p.lin(v), lt{"0", 0}, 1<<31, ms) {
							return true
						}
						for _, sv := range sizes {
							if p.ProveLE(p.lin(v), p.lin(sv), 0, ms) {
								return true
							}
						}
						return false
					}
					proveLower := func(v ssa.Value) bool {
						return p.ProveLE(lt{"0", 0}, p.lin(v), 1<<31, ms)
					}
					isSize := func(v ssa.Value) bool {
						switch x := v.(type) {
						case *ssa.Call:
							if bi, ok := x.Call.Value.(*ssa.Builtin); ok && (bi.Name() == "len" || bi.Name() == "cap" || bi.Name() == "min") {
								return true
							}
							if cf := x.Call.StaticCallee(); cf != nil && cf.Name() == "Len" {
								return true
							}
						case *ssa.UnOp:
							if fa, ok := x.X.(*ssa.FieldAddr); ok && x.Op == token.MUL && fieldName(fa) == "Len" {
								return true
							}
						}
						return false
					}
					var walk func(v ssa.Value, d int, upper bool)
					seenV := map[[2]any]bool{}
					walk = func(v ssa.Value, d int, upper bool) {
						k := [2]any{v, upper}
						if seenV[k] || !bounded {
							return
						}
						seenV[k] = true
						if d > 10 {
							bounded = false
							return
						}
						if _, isC := v.(*ssa.Const); isC || isSize(v) {
							return
						}
						if (upper && proveUpper(v)) || (!upper && proveLower(v)) {
							return
						}
						switch x := v.(type) {
						case *ssa.Extract:
							// a result of a normalising helper (first, last, ok := l.span(start, end)): judged inside the helper,
							// at the returns that can lead here (behind `if !ok { return }` the returns with ok == false cannot)
							call, isCall := x.Tuple.(*ssa.Call)
							cf := (*ssa.Function)(nil)
							if isCall {
								cf = call.Call.StaticCallee()
							}
							if cf == nil || !firstParty(cf) || cf.Blocks == nil {
								bounded = false
								return
							}
							okIdx := -1
							if call.Referrers() != nil {
								for _, r := range *call.Referrers() {
									ex, isEx := r.(*ssa.Extract)
									if !isEx || !isBoolType(ex.Type()) {
										continue
									}
									for dd := ms.Block(); dd != nil && dd.Idom() != nil; dd = dd.Idom() {
										id := dd.Idom()
										if len(dd.Preds) != 1 || dd.Preds[0] != id {
											continue
										}
										if cond, neg, okc := branchCond(id, dd); okc && cond == ssa.Value(ex) && !neg {
											okIdx = ex.Index
										}
									}
								}
							}
							cp := c.newProver(cf)
							var csizes []ssa.Value
							for _, bb := range cf.Blocks {
								for _, ii := range bb.Instrs {
									if y, isU := ii.(*ssa.UnOp); isU && y.Op == token.MUL {
										if fa, isFA := y.X.(*ssa.FieldAddr); isFA && fieldName(fa) == "Len" {
											csizes = append(csizes, y)
										}
									}
									if y, isC := ii.(*ssa.Call); isC {
										if bi, isB := y.Call.Value.(*ssa.Builtin); isB && bi.Name() == "len" {
											csizes = append(csizes, y)
										}
									}
								}
							}
							// a length handed to the helper (clampRange(start, end, l.Len)) is a size inside it
							for pi, prm := range cf.Params {
								if pi < len(call.Call.Args) && isIntType(prm.Type()) {
									if a := call.Call.Args[pi]; isSize(a) || proveUpper(a) {
										csizes = append(csizes, prm)
									}
								}
							}
							for _, bb := range cf.Blocks {
								ret, isRet := bb.Instrs[len(bb.Instrs)-1].(*ssa.Return)
								if !isRet || x.Index >= len(ret.Results) {
									continue
								}
								if okIdx >= 0 && okIdx < len(ret.Results) {
									if k, isK := ret.Results[okIdx].(*ssa.Const); isK && k.Value != nil && k.Value.ExactString() == "false" {
										continue
									}
								}
								rv := ret.Results[x.Index]
								if _, isK := rv.(*ssa.Const); isK {
									continue
								}
								good := false
								if upper {
									good = cp.ProveLE(cp.lin(rv), lt{"0", 0}, 1<<31, ret)
									for _, sv := range csizes {
										good = good || cp.ProveLE(cp.lin(rv), cp.lin(sv), 0, ret)
									}
								} else {
									good = cp.ProveLE(lt{"0", 0}, cp.lin(rv), 1<<31, ret)
								}
								if !good {
									bounded = false
								}
							}
						case *ssa.BinOp:
							switch x.Op {
							case token.ADD:
								walk(x.X, d+1, upper)
								walk(x.Y, d+1, upper)
							case token.SUB:
								walk(x.X, d+1, upper)
								walk(x.Y, d+1, !upper)
							case token.MUL:
								if k, isC := constInt(x.Y); isC && k >= 0 {
									walk(x.X, d+1, upper)
								} else {
									bounded = false
								}
							default:
								bounded = false
							}
						case *ssa.Phi:
							for _, e := range x.Edges {
								walk(e, d+1, upper)
							}
						case *ssa.Convert:
							walk(x.X, d+1, upper)
						default:
							bounded = false
						}
					}
					walk(sz, 0, true)
					ord++
					c.Add("R4", fnName(fn), fmt.Sprintf("allocation size %s bounded#%d", canon(sz), ord), ms.Pos(), bounded, "make() sized by a client-controlled integer without a dominating upper bound")
				}
			}
		}
	}
	c.Count("R4_client_sized_allocations", n)
	c.Min("R4_client_sized_allocations", 2)
}}

// derivesFromField: the size comes from parser state filled from the wire (readState.bulkLen, arrayLen).
func derivesFromField(v ssa.Value) bool {
	found := false
	backslice(v, func(x ssa.Value) bool {
		if fa, ok := x.(*ssa.FieldAddr); ok {
			if n := fieldName(fa); n == "bulkLen" || n == "arrayLen" {
				found = true
			}
		}
		_, isCall := x.(*ssa.Call)
		return !isCall && !found
	})
	return found
}

// R5: no process-terminating call on the request path.
var rR5 = RuleRef{Name: "R5", Doc: "no explicit process exit on a request path: no first-party function reachable from a connection handler, the parser, the apply loop or an executor calls panic, os.Exit, log.Fatal* or log.Panic* (logger.Panic of this repo only logs); the raft loop's own exits are listed separately", Run: func(c *C) {
	reach := c.requestReach()
	n := 0
	for _, fn := range c.P.allFuncs(firstPartyPkgs...) {
		if !reach[fn] {
			continue
		}
		n++
		var bad []string
		for _, b := range fn.Blocks {
			for _, in := range b.Instrs {
				if noReturnCall(in) {
					bad = append(bad, c.pos(in.Pos())+": "+callName(in.(ssa.CallInstruction)))
				}
				if _, ok := in.(*ssa.Panic); ok && in.Pos().IsValid() {
					bad = append(bad, c.pos(in.Pos())+": panic")
				}
			}
		}
		if len(bad) > 0 {
			c.Add("R5", fnName(fn), "no process-terminating call", fn.Pos(), false, strings.Join(bad, "; "))
		}
	}
	c.Add("R5", "first-party", "request-reachable functions scanned for explicit exits", token.NoPos, n > 100, fmt.Sprintf("%d functions", n))
	// the raft loop: exits while publishing entries or snapshotting take the node down. Reported as notes: the properties
	// quantify over crashes and restarts, not over I/O errors (the snapshot-encoding failure is an obligation of R24)
	for _, name := range []string{"RaftNode.publishEntries", "RaftNode.maybeTriggerSnapshot", "RaftProposal.ToBytes"} {
		fn := c.P.Func("raftexample", name)
		if fn == nil {
			continue
		}
		for _, b := range fn.Blocks {
			for _, in := range b.Instrs {
				if noReturnCall(in) {
					c.AddNote("raft path exit: %s calls %s at %s", fnName(fn), callName(in.(ssa.CallInstruction)), c.pos(in.Pos()))
				} else if _, ok := in.(*ssa.Panic); ok && in.Pos().IsValid() {
					c.AddNote("raft path exit: %s panics at %s", fnName(fn), c.pos(in.Pos()))
				}
			}
		}
	}
}}

// R10: lossless carrier on the cluster path.
var rR10 = RuleRef{Name: "R10", Doc: "lossless carrier: the replicated proposal carries the argument vector as [][]byte (encoding/json maps []byte to base64), it is filled from ArrayData.ToCommand through the filter only, and the apply loop passes the decoded vector to the dispatcher unchanged; no string functions (Join/Split/ToStringCommand) on the way", Run: func(c *C) {
	rp := c.P.NamedType("raftexample", "RaftProposal")
	if rp == nil {
		c.Undecided("R10", "anchor raftexample.RaftProposal")
		return
	}
	st := rp.Underlying().(*types.Struct)
	okType := false
	for i := 0; i < st.NumFields(); i++ {
		if st.Field(i).Name() == "Data" {
			okType = st.Field(i).Type().String() == "[][]byte"
		}
	}
	c.Add("R10", "raftexample.RaftProposal", "the Data field is [][]byte", rp.Obj().Pos(), okType, "a string (or joined) carrier cannot delimit arguments and is lossy for non-UTF-8 bytes")
	n := 0
	for _, fn := range c.P.allFuncs("server") {
		for _, b := range fn.Blocks {
			for _, in := range b.Instrs {
				s, ok := in.(*ssa.Store)
				if !ok {
					continue
				}
				fa, ok := s.Addr.(*ssa.FieldAddr)
				if !ok || namedOf(fa.X.Type()) != "RaftProposal" || fieldName(fa) != "Data" {
					continue
				}
				n++
				good, why := true, ""
				var vecOK func(val ssa.Value, depth int)
				vecOK = func(val ssa.Value, depth int) {
					backslice(val, func(v ssa.Value) bool {
						if call, ok := v.(*ssa.Call); ok {
							nm := callName(call)
							if nm == "ToCommand" {
								return false // the parsed argument vector itself
							}
							if nm == "Filter" || nm == "builtin.len" || nm == "builtin.append" {
								return true
							}
							// a first-party helper that hands the vector on: its own [][]byte results are judged the same way
							if cf := callee(call); cf != nil && firstParty(cf) && cf.Blocks != nil && depth < 3 {
								any := false
								for _, b := range cf.Blocks {
									for _, in := range b.Instrs {
										if ret, ok := in.(*ssa.Return); ok {
											for _, alts := range retResults(ret) {
												for _, rv := range alts {
													if rv.Type().String() == "[][]byte" {
														any = true
														vecOK(rv, depth+1)
													}
												}
											}
										}
									}
								}
								if any {
									return false
								}
							}
							good, why = false, "passes through "+nm
							return false
						}
						return good
					})
				}
				vecOK(s.Val, 0)
				c.Add("R10", fnName(fn), "the proposal is filled with the parsed argument vector itself", s.Pos(), good, "proposal data "+why)
			}
		}
	}
	c.Count("R10_proposal_fills", n)
	c.Min("R10_proposal_fills", 1)
	if ap := c.applyLoop(); ap != nil {
		for _, b := range ap.Blocks {
			for _, in := range b.Instrs {
				call, ok := in.(*ssa.Call)
				if !ok {
					continue
				}
				cf := callee(call)
				isDisp := false
				for _, d := range c.Facts.Dispatchers {
					if cf != nil && d.Parent() == cf {
						isDisp = true
					}
				}
				if !isDisp {
					continue
				}
				var cmdArg ssa.Value
				for _, a := range call.Call.Args {
					if a.Type().String() == "[][]byte" {
						cmdArg = a
					}
				}
				good := cmdArg != nil && strings.HasSuffix(canon(cmdArg), ".Data")
				c.Add("R10", fnName(ap), "the committed argument vector reaches the dispatcher unchanged", call.Pos(), good, "dispatcher argument: "+func() string {
					if cmdArg == nil {
						return "none of type [][]byte"
					}
					return canon(cmdArg)
				}())
			}
		}
	}
}}

// R11: socket reads use complete-read primitives; R12p: parser error => state reset.
var rR11 = RuleRef{Name: "R11", Doc: "fragmentation independence, structural part: code reachable from resp.parse consumes the connection only through (*bufio.Reader).ReadBytes/ReadString/ReadSlice and io.ReadFull (complete-unit reads); after reporting a protocol error the parser resets its state before reading on", Run: func(c *C) {
	parse := c.P.Func("resp", "parse")
	if parse == nil {
		c.Undecided("R11", "anchor resp.parse")
		return
	}
	reach := c.reachableFirstParty([]*ssa.Function{parse})
	n := 0
	for fn := range reach {
		if pkgRel(fn) != "resp" {
			continue
		}
		var bad []string
		for _, b := range fn.Blocks {
			for _, in := range b.Instrs {
				ci, ok := in.(ssa.CallInstruction)
				if !ok {
					continue
				}
				cc := ci.Common()
				name := callName(ci)
				if cc.IsInvoke() {
					if name == "Read" && strings.Contains(cc.Value.Type().String(), "io.Reader") {
						bad = append(bad, c.pos(in.Pos())+": bare Read on an io.Reader")
					}
					continue
				}
				cf := cc.StaticCallee()
				if cf == nil || cf.Signature.Recv() == nil {
					if cf != nil && cf.Pkg != nil && cf.Pkg.Pkg.Path() == "io" && (name == "ReadAll" || name == "ReadAtLeast" || name == "Copy") {
						bad = append(bad, c.pos(in.Pos())+": io."+name)
					}
					if cf != nil && cf.Pkg != nil && cf.Pkg.Pkg.Path() == "io" && name == "ReadFull" {
						n++
					}
					continue
				}
				if rn, ok := derefNamed(cf.Signature.Recv().Type()); ok && rn.Obj().Pkg() != nil && rn.Obj().Pkg().Path() == "bufio" && rn.Obj().Name() == "Reader" {
					n++
					switch name {
					case "ReadBytes", "ReadString", "ReadSlice":
					default:
						bad = append(bad, c.pos(in.Pos())+": (*bufio.Reader)."+name)
					}
				}
				if cf.Pkg != nil && cf.Pkg.Pkg.Path() == "io" && name == "ReadFull" {
					n++
				}
			}
		}
		if pkgRel(fn) == "resp" {
			c.Add("R11", fnName(fn), "only complete-read primitives touch the connection", fn.Pos(), len(bad) == 0, strings.Join(bad, "; "))
		}
	}
	c.Count("R11_read_sites", n)
	c.Min("R11_read_sites", 2)
	// parser state reset after a protocol error (the report and the reset may live in helpers)
	var stateCell ssa.Value
	for _, b := range parse.Blocks {
		for _, in := range b.Instrs {
			if al, ok := in.(*ssa.Alloc); ok && namedOf(al.Type()) == "readState" {
				stateCell = al
			}
		}
	}
	if stateCell == nil {
		c.Undecided("R11", "the parser's readState allocation")
		return
	}
	var isErrAlloc func(v ssa.Value, at *ssa.BasicBlock) bool
	isErrSend := func(in ssa.Instruction) bool {
		snd, ok := in.(*ssa.Send)
		if !ok {
			return false
		}
		return isErrAlloc(snd.X, snd.Block())
	}
	// sendsParam: the parameters of a resp helper that it sends on a channel (directly)
	sendsParam := func(fn *ssa.Function) map[int]bool {
		out := map[int]bool{}
		if fn == nil {
			return out
		}
		for _, b := range fn.Blocks {
			for _, in := range b.Instrs {
				if snd, ok := in.(*ssa.Send); ok {
					for i, p := range fn.Params {
						if snd.X == ssa.Value(p) {
							out[i] = true
						}
					}
				}
			}
		}
		return out
	}
	// errHandOff: a call that hands a freshly built error report to a helper which sends it
	errHandOff := func(in ssa.Instruction) bool {
		call, ok := in.(*ssa.Call)
		if !ok {
			return false
		}
		cf := callee(call)
		if cf == nil || !firstParty(cf) || pkgRel(cf) != "resp" {
			return false
		}
		sp := sendsParam(cf)
		for i, a := range call.Call.Args {
			if sp[i] && isErrAlloc(a, call.Block()) {
				return true
			}
		}
		return false
	}
	isErrAlloc = func(v ssa.Value, at *ssa.BasicBlock) bool {
		al, ok := v.(*ssa.Alloc)
		if !ok {
			return false
		}
		for _, r := range *al.Referrers() {
			fa, ok := r.(*ssa.FieldAddr)
			if !ok || fieldName(fa) != "Err" {
				continue
			}
			for _, rr := range *fa.Referrers() {
				if s, ok := rr.(*ssa.Store); ok && !isNilConst(s.Val) {
					if u, ok := s.Val.(*ssa.UnOp); ok {
						if g, ok := u.X.(*ssa.Global); ok && g.Name() == "EOF" {
							return false
						}
					}
					switch s.Val.(type) {
					case *ssa.Call, *ssa.MakeInterface, *ssa.Parameter:
						return true
					}
					for d := at; d != nil; d = d.Idom() {
						if len(d.Preds) == 1 && IsErrEdge(d.Preds[0], d) {
							if cond, _, ok := branchCond(d.Preds[0], d); ok {
								if bo, ok := cond.(*ssa.BinOp); ok && (bo.X == s.Val || bo.Y == s.Val) {
									return true
								}
							}
						}
					}
					return false
				}
			}
		}
		return false
	}
	stateParam := func(fn *ssa.Function) ssa.Value {
		for _, p := range fn.Params {
			if namedOf(p.Type()) == "readState" {
				return p
			}
		}
		return nil
	}
	type summ struct{ pending, resets, sends bool }
	memo := map[*ssa.Function]*summ{}
	var flowOf func(fn *ssa.Function, cell ssa.Value, depth int) (*Flow, *summ)
	flowOf = func(fn *ssa.Function, cell ssa.Value, depth int) (*Flow, *summ) {
		sm := &summ{}
		tr := func(in ssa.Instruction, s Set) (Set, bool) {
			if isErrSend(in) || errHandOff(in) {
				s["ERRSENT|"+c.pos(in.Pos())] = true
				sm.sends = true
			}
			if st, ok := in.(*ssa.Store); ok && cell != nil && st.Addr == cell {
				s = Set{"RESET": true}
			}
			// the same reset spelled field by field (func (s *readState) reset() { s.a = 0; s.b = nil; ... }): complete
			// when every field of the record has received its zero value
			if st, ok := in.(*ssa.Store); ok && cell != nil {
				if fa, ok := st.Addr.(*ssa.FieldAddr); ok && fa.X == cell {
					if pt, ok := cell.Type().Underlying().(*types.Pointer); ok {
						if str, ok := pt.Elem().Underlying().(*types.Struct); ok {
							zero := false
							if k, isC := st.Val.(*ssa.Const); isC {
								zero = k.Value == nil || k.Value.ExactString() == "0" || k.Value.ExactString() == "false" || k.Value.ExactString() == `""`
							}
							key := fmt.Sprintf("Z|%d", fa.Field)
							if zero {
								s[key] = true
								all := true
								for i := 0; i < str.NumFields(); i++ {
									if !s[fmt.Sprintf("Z|%d", i)] {
										all = false
									}
								}
								if all {
									s = Set{"RESET": true}
								}
							} else {
								delete(s, key)
							}
						}
					}
				}
			}
			if call, ok := in.(*ssa.Call); ok && depth < 3 {
				if cf := callee(call); cf != nil && firstParty(cf) && pkgRel(cf) == "resp" && cf != fn {
					if sp := stateParam(cf); sp != nil {
						// only when our own state is what is passed on
						passes := false
						for i, a := range call.Call.Args {
							if i < len(cf.Params) && cf.Params[i] == sp && (a == cell) {
								passes = true
							}
						}
						if passes {
							h := memo[cf]
							if h == nil {
								_, h = flowOf(cf, sp, depth+1)
								memo[cf] = h
							}
							if h.resets {
								s = Set{"RESET": true}
							}
							if h.sends {
								sm.sends = true
							}
							if h.pending {
								s["ERRSENT|"+c.pos(in.Pos())] = true
							}
						}
					}
				}
			}
			return s, false
		}
		fl := &Flow{Fn: fn, Must: false, Entry: Set{}, Transfer: tr}
		fl.Run()
		// summary at returns
		resetsAll, any := true, false
		for _, b := range fn.Blocks {
			if len(b.Instrs) == 0 {
				continue
			}
			if ret, ok := b.Instrs[len(b.Instrs)-1].(*ssa.Return); ok {
				if s, live := fl.Before(ret); live {
					any = true
					for f := range s {
						if strings.HasPrefix(f, "ERRSENT|") {
							sm.pending = true
						}
					}
					if !s["RESET"] || len(s) != 1 {
						resetsAll = false
					}
				}
			}
		}
		sm.resets = resetsAll && any
		return fl, sm
	}
	fl, _ := flowOf(parse, stateCell, 0)
	nSend := 0
	for _, fn := range c.P.allFuncs("resp") {
		for _, b := range fn.Blocks {
			for _, in := range b.Instrs {
				if isErrSend(in) || errHandOff(in) {
					nSend++
				} else if snd, ok := in.(*ssa.Send); ok {
					// a report whose error travels in a record (line.err behind a test of line.kind): it is looked at by
					// the flow above only when the error is visibly non-nil, but it shows that the anchors are still there
					if al, ok := snd.X.(*ssa.Alloc); ok && al.Referrers() != nil {
						for _, r := range *al.Referrers() {
							if fa, ok := r.(*ssa.FieldAddr); ok && fieldName(fa) == "Err" && fa.Referrers() != nil {
								for _, rr := range *fa.Referrers() {
									if st, ok := rr.(*ssa.Store); ok && !isNilConst(st.Val) {
										nSend++
									}
								}
							}
						}
					}
				}
			}
		}
	}
	for _, b := range parse.Blocks {
		for _, in := range b.Instrs {
			if call, ok := in.(*ssa.Call); ok && callName(call) == "readLine" {
				s, live := fl.Before(call)
				var bad []string
				if live {
					for f := range s {
						if strings.HasPrefix(f, "ERRSENT|") {
							bad = append(bad, f)
						}
					}
				}
				sort.Strings(bad)
				c.Add("R11", fnName(parse), "state is reset after every protocol-error report before the next read", call.Pos(), len(bad) == 0, "error reports not followed by a reset of the parser state: "+strings.Join(bad, ", "))
			}
		}
	}
	c.Count("R11_error_reports", nSend)
	c.Min("R11_error_reports", 3)
}}

// R12s: a torn WAL tail is repaired on reopen.
var rR12s = RuleRef{Name: "R12s", Doc: "sibling agreement on the WAL error protocol: the function that replays the WAL at start-up handles io.ErrUnexpectedEOF from ReadAll by closing, calling wal.Repair and reopening (as etcdserver's openWALFromSnapshot does) instead of treating it as fatal", Run: func(c *C) {
	// the function that reads the WAL back at start-up: the raftexample function that calls (*wal.WAL).ReadAll, or, when
	// the read sits in a helper that merely hands the error on, the function that receives that helper's error
	isReadAll := func(ci ssa.CallInstruction) bool {
		if callName(ci) != "ReadAll" {
			return false
		}
		cf := callee(ci)
		return cf != nil && cf.Signature.Recv() != nil && namedOf(cf.Signature.Recv().Type()) == "WAL"
	}
	readers := map[*ssa.Function]bool{} // functions that reach ReadAll (depth <= 2)
	for iter := 0; iter < 3; iter++ {
		for _, f := range c.P.allFuncs("raftexample") {
			for _, b := range f.Blocks {
				for _, in := range b.Instrs {
					if ci, ok := in.(ssa.CallInstruction); ok {
						if isReadAll(ci) || (callee(ci) != nil && readers[callee(ci)]) {
							readers[f] = true
						}
					}
				}
			}
		}
	}
	readsWAL := func(ci ssa.CallInstruction) bool {
		return isReadAll(ci) || (callee(ci) != nil && readers[callee(ci)])
	}
	// among them, the one that decides what to do about the error: it tests an error that comes from a WAL read
	var fn *ssa.Function
	for f := range readers {
		tests := false
		for _, b := range f.Blocks {
			for _, s2 := range b.Succs {
				if !IsErrEdge(b, s2) {
					continue
				}
				cond, _, _ := branchCond(b, s2)
				bo := cond.(*ssa.BinOp)
				for _, side := range []ssa.Value{bo.X, bo.Y} {
					for _, call := range errSourceCalls(side) {
						if readsWAL(call) {
							tests = true
						}
					}
				}
			}
		}
		if !tests {
			continue
		}
		// of two functions that both look at the error (a reader that closes the WAL on failure, and the replay that
		// calls it), the caller decides what happens next
		better := fn == nil
		if fn != nil {
			switch {
			case callsTransitively(f, fn, 0) && !callsTransitively(fn, f, 0):
				better = true
			case callsTransitively(fn, f, 0) && !callsTransitively(f, fn, 0):
				better = false
			default:
				better = f.String() < fn.String()
			}
		}
		if better {
			fn = f
		}
	}
	if fn == nil {
		c.Undecided("R12s", "the function of package raftexample that tests the error of the WAL read at start-up")
		return
	}
	var repair, readAll ssa.Instruction
	cmpEOF := false
	// helpers of the deciding function that do not read the WAL themselves (a repair step handed the error)
	mentions := func(h *ssa.Function) (repairs, cmp bool) {
		for _, g := range helperScope(h, 2) {
			if pkgRel(g) != "raftexample" || readers[g] {
				continue
			}
			for _, b := range g.Blocks {
				for _, in := range b.Instrs {
					if ci, ok := in.(ssa.CallInstruction); ok && callName(ci) == "Repair" {
						repairs = true
					}
					if bo, ok := in.(*ssa.BinOp); ok && (bo.Op == token.EQL || bo.Op == token.NEQ) {
						for _, side := range []ssa.Value{bo.X, bo.Y} {
							if u, ok := side.(*ssa.UnOp); ok {
								if g, ok := u.X.(*ssa.Global); ok && g.Name() == "ErrUnexpectedEOF" {
									cmp = true
								}
							}
						}
					}
				}
			}
		}
		return
	}
	for _, b := range fn.Blocks {
		for _, in := range b.Instrs {
			if ci, ok := in.(ssa.CallInstruction); ok {
				if callName(ci) == "Repair" {
					repair = in
				}
				if readsWAL(ci) {
					readAll = in
				} else if cf := callee(ci); cf != nil && firstParty(cf) && pkgRel(cf) == "raftexample" && cf != fn {
					r, cm := mentions(cf)
					if r && repair == nil {
						repair = in
					}
					cmpEOF = cmpEOF || cm
				}
			}
			if bo, ok := in.(*ssa.BinOp); ok && (bo.Op == token.EQL || bo.Op == token.NEQ) {
				for _, side := range []ssa.Value{bo.X, bo.Y} {
					if u, ok := side.(*ssa.UnOp); ok {
						if g, ok := u.X.(*ssa.Global); ok && g.Name() == "ErrUnexpectedEOF" {
							cmpEOF = true
						}
					}
				}
			}
		}
	}
	c.Add("R12s", fnName(fn), "ReadAll's io.ErrUnexpectedEOF is recognised", fn.Pos(), readAll != nil && cmpEOF, "the replay must distinguish a torn tail from corruption")
	retry := false
	if repair != nil {
		retry = reachesBefore(repair, func(in ssa.Instruction) bool {
			ci, ok := in.(ssa.CallInstruction)
			return ok && readsWAL(ci)
		}, nil)
	}
	c.Add("R12s", fnName(fn), "a torn tail is repaired (wal.Repair) and the WAL is read again", fn.Pos(), repair != nil && retry, "wal.Repair must be called and followed by another ReadAll")
	// ... and the handle that failed to read is closed first: Open holds the file locks of every segment, Repair takes the
	// lock of the last one with a blocking call on a descriptor of its own
	if repair != nil && readAll != nil {
		isClose := func(x ssa.Instruction) bool {
			ci, ok := x.(ssa.CallInstruction)
			if !ok || callName(ci) != "Close" {
				// a reader helper that closes the WAL when its read failed
				if ok2 := ok && callee(ci) != nil && readers[callee(ci)]; ok2 {
					for _, bb := range callee(ci).Blocks {
						for _, ii := range bb.Instrs {
							if c2, isC := ii.(ssa.CallInstruction); isC && callName(c2) == "Close" {
								if cf := callee(c2); cf != nil && cf.Signature.Recv() != nil && namedOf(cf.Signature.Recv().Type()) == "WAL" {
									return true
								}
							}
						}
					}
				}
				return false
			}
			cf := callee(ci)
			return cf != nil && cf.Signature.Recv() != nil && namedOf(cf.Signature.Recv().Type()) == "WAL"
		}
		unclosed := false
		for _, b := range fn.Blocks {
			for _, in := range b.Instrs {
				ci, ok := in.(ssa.CallInstruction)
				if !ok || !readsWAL(ci) {
					continue
				}
				if isClose(in) {
					continue // the reader helper closes on failure itself
				}
				if reachesBefore(in, func(x ssa.Instruction) bool { return x == repair }, isClose) {
					unclosed = true
				}
			}
		}
		c.Add("R12s", fnName(fn), "the WAL that failed to read is closed before wal.Repair runs", repair.Pos(), !unclosed, "a path leads from the failed read to wal.Repair with the WAL still open: Repair waits for a file lock that only the later Close releases")
	}
}}

// R18: nothing blocks the apply loop.
var rR18 = RuleRef{Name: "R18", Doc: "the apply loop cannot block: every executor that can wait (channel operation, select, sleep, ticker) or that hands its connection to the Pub/Sub table is rejected by the cluster command filter before it is proposed (table agreement between the computed set and the names compared in ClusterCmdFilter)", Run: func(c *C) {
	subsIdle := c.listSubscriptionsNeverPopulated()
	blk := c.summarise(func(fn *ssa.Function, in ssa.Instruction) []string {
		if snd, ok := in.(*ssa.Send); ok && subsIdle && sendOnListSubscription(snd) {
			return nil
		}
		if b := blockingOp(in); b != "" && !strings.HasPrefix(b, "net.Conn") {
			return []string{b}
		}
		return nil
	})
	sub := c.P.Func("memdb", "ChanMap.Subscribe")
	usesConn := map[*ssa.Function]bool{}
	for _, fn := range c.Facts.SortedExecutors() {
		for _, b := range fn.Blocks {
			for _, in := range b.Instrs {
				if ci, ok := in.(ssa.CallInstruction); ok && callee(ci) == sub && sub != nil {
					usesConn[fn] = true
				}
			}
		}
	}
	filter := c.P.Func("server", "ClusterCmdFilter")
	rejected := map[string]bool{}
	if filter == nil {
		c.Undecided("R18", "anchor server.ClusterCmdFilter")
	} else {
		rejectedStrings(helperScope(filter, 2), rejected)
	}
	// commands the cluster connection handler executes locally (never proposed)
	for _, h := range c.connHandlers() {
		if !sendsProposal(h) {
			continue
		}
		comparedStrings(helperScope(h, 2), rejected)
	}
	names := make([]string, 0, len(c.Facts.Executors))
	for n := range c.Facts.Executors {
		names = append(names, n)
	}
	sort.Strings(names)
	n := 0
	for _, name := range names {
		fn := c.Facts.Executors[name]
		why := ""
		if s := blk[fn]; len(s) > 0 {
			why = "can block (" + strings.Join(s.Sorted(), ", ") + ")"
		}
		if usesConn[fn] {
			why += " registers its connection with the Pub/Sub table"
		}
		if name == "publish" {
			why += " writes to subscriber connections"
		}
		if why == "" {
			continue
		}
		n++
		// keyed by the command, not by the function that happens to implement it today
		c.Add("R18", "memdb", "command "+strings.ToUpper(name)+" is kept out of the replicated log", c.Facts.RegSites[name], rejected[name], strings.TrimSpace(why)+"; not rejected by ClusterCmdFilter")
	}
	c.Count("R18_blocking_or_conn_executors", n)
	c.Min("R18_blocking_or_conn_executors", 3)
}}

// R23s: connection goroutines never write shared Manager state.
var rR23s = RuleRef{Name: "R23s", Doc: "per-connection selection: no code reachable from a connection handler or the apply loop stores to a field of the shared Manager (the selected database lives in per-connection state); every Manager database slot is a distinct fresh MemDb", Run: func(c *C) {
	roots := c.connHandlers()
	if ap := c.applyLoop(); ap != nil {
		roots = append(roots, ap)
	}
	reach := c.reachableFirstParty(roots)
	var bad []string
	n := 0
	for fn := range reach {
		for _, b := range fn.Blocks {
			for _, in := range b.Instrs {
				st, ok := in.(*ssa.Store)
				if !ok {
					continue
				}
				n++
				if fa, ok := st.Addr.(*ssa.FieldAddr); ok && namedOf(fa.X.Type()) == "Manager" {
					bad = append(bad, c.pos(st.Pos())+": "+fnName(fn)+" stores Manager."+fieldName(fa))
				}
				// ... or to a slot of a table the Manager holds (the database table: a swap re-numbers the databases under
				// connections that cached one of them)
				if ia, ok := st.Addr.(*ssa.IndexAddr); ok {
					x := ia.X
					if sl, ok := x.(*ssa.Slice); ok {
						x = sl.X
					}
					if u, ok := x.(*ssa.UnOp); ok && u.Op == token.MUL {
						if fa, ok := u.X.(*ssa.FieldAddr); ok && namedOf(fa.X.Type()) == "Manager" {
							bad = append(bad, c.pos(st.Pos())+": "+fnName(fn)+" stores a slot of Manager."+fieldName(fa))
						}
					}
				}
			}
		}
	}
	sort.Strings(bad)
	c.Add("R23s", "server", "no store to a shared Manager field from connection-reachable code", token.NoPos, len(bad) == 0 && n > 50, strings.Join(bad, "; "))
	// dispatch uses the connection's own state
	for _, d := range c.Facts.Dispatchers {
		if pkgRel(d.Parent()) != "server" {
			continue
		}
		var dbArg ssa.Value
		for _, a := range d.Call.Args {
			if isNamed(a.Type(), c.Facts.MemDb) {
				dbArg = a
			}
		}
		dbName := ""
		if dbArg != nil {
			dbName = canon(dbArg)
			if call, ok := dbArg.(*ssa.Call); ok && len(call.Call.Args) == 1 {
				if f, isG := thinGetter(callee(call)); isG {
					dbName = canon(call.Call.Args[0]) + "." + f // st.selected() reads st.db
				}
			}
		}
		good := dbArg != nil && strings.HasSuffix(dbName, ".db") && !strings.HasPrefix(dbName, "recv.")
		c.Add("R23s", fnName(d.Parent()), "the executor runs against the database selected by the calling connection", d.Pos(), good, "database operand: "+func() string {
			if dbArg == nil {
				return "none"
			}
			return canon(dbArg)
		}())
	}
	// NewManager: each slot is a fresh NewMemDb()
	if nm := c.P.Func("server", "NewManager"); nm != nil {
		fresh := false
		shared := ""
		for _, b := range nm.Blocks {
			for _, in := range b.Instrs {
				if st, ok := in.(*ssa.Store); ok {
					if _, isIA := st.Addr.(*ssa.IndexAddr); isIA {
						if call, ok := st.Val.(*ssa.Call); ok && callName(call) == "NewMemDb" && isLoopBody(b) {
							fresh = true
							// and the constructor gives the database shard tables of its own: the keyspace maps it stores
							// into the new MemDb come from a constructor that allocates its table (not from one that
							// shares the table of an existing map)
							if why := c.sharedKeyspaceTables(callee(call)); why != "" {
								fresh = false
								shared = why
							}
						}
					}
				}
			}
		}
		c.Add("R23s", fnName(nm), "every database slot receives its own NewMemDb() (no aliasing between numbered databases)", nm.Pos(), fresh, "the slot store must take a NewMemDb() result created inside the loop"+shared)
	}
}}

func isLoopBody(b *ssa.BasicBlock) bool {
	for d := b; d != nil; d = d.Idom() {
		if isLoopHeader(d) {
			return true
		}
	}
	return false
}

// R24: replicated mutations are deterministic; R24b: snapshot representability; restore path.
var rR24 = RuleRef{Name: "R24", Doc: "replica determinism and snapshots: executors (all of which run in the apply loop in cluster mode) must not feed wall-clock time, randomness or Go's map iteration order into stored state; every dynamic type stored in the keyspace must be representable by the snapshot encoder GetSnapshot uses; a function that restores the keyspace from snapshot bytes must exist and be wired to start-up and to the nil-commit signal", Run: func(c *C) {
	rejected := map[string]bool{}
	if filter := c.P.Func("server", "ClusterCmdFilter"); filter != nil {
		rejectedStrings(helperScope(filter, 2), rejected)
	}
	var roots []*ssa.Function
	for name, fn := range c.Facts.Executors {
		if !rejected[name] {
			roots = append(roots, fn)
		}
	}
	sort.Slice(roots, func(i, j int) bool { return roots[i].String() < roots[j].String() })
	execReach := c.reachableFirstParty(roots)
	subsIdle := c.listSubscriptionsNeverPopulated()
	n := 0
	// functions that are only ever started as goroutines (timers) are not part of the applied command
	onlyGo := func(fn *ssa.Function) bool {
		if fn.Parent() != nil {
			_, isGo := firstUseOfClosure(fn.Parent(), fn).(*ssa.Go)
			return isGo
		}
		calls, gos := 0, 0
		for g := range execReach {
			for _, b := range g.Blocks {
				for _, in := range b.Instrs {
					if ci, ok := in.(ssa.CallInstruction); ok && callee(ci) == fn {
						calls++
						if _, isGo := in.(*ssa.Go); isGo {
							gos++
						}
					}
				}
			}
		}
		return calls > 0 && calls == gos
	}
	setTTLfn := c.P.Func("memdb", "MemDb.SetTTL")
	readsDeadline := func(v ssa.Value) bool {
		found := false
		backslice(v, func(y ssa.Value) bool {
			if fa, ok := y.(*ssa.FieldAddr); ok && fieldName(fa) == "value" && namedOf(fa.X.Type()) == "TTLInfo" {
				found = true
			}
			if cl, ok := y.(*ssa.Call); ok {
				if cf := cl.Call.StaticCallee(); cf != nil && firstParty(cf) && cf.Blocks != nil {
					for _, b := range cf.Blocks {
						for _, in := range b.Instrs {
							if fa, ok := in.(*ssa.FieldAddr); ok && fieldName(fa) == "value" && namedOf(fa.X.Type()) == "TTLInfo" {
								found = true
							}
						}
					}
				}
				return false
			}
			return !found
		})
		return found
	}
	purposeOf := func(call *ssa.Call) string {
		purpose := ""
		seen := map[ssa.Value]bool{}
		var fwd func(v ssa.Value, d int)
		fwd = func(v ssa.Value, d int) {
			if seen[v] || d > 8 || v.Referrers() == nil || purpose != "" {
				return
			}
			seen[v] = true
			for _, r := range *v.Referrers() {
				switch x := r.(type) {
				case *ssa.BinOp:
					switch x.Op {
					case token.LSS, token.GTR, token.LEQ, token.GEQ, token.EQL, token.NEQ:
						other := x.X
						if other == v {
							other = x.Y
						}
						if readsDeadline(other) {
							purpose = "the local clock is compared with a stored deadline (lazy expiry / TTL reply)"
						}
					case token.ADD, token.SUB, token.MUL, token.QUO:
						// TTL reply: deadline - now (also when the difference is what a helper returns)
						if x.Op == token.SUB && readsDeadline(x.X) {
							purpose = "the local clock is compared with a stored deadline (lazy expiry / TTL reply)"
						} else {
							fwd(x, d+1)
						}
					}
				case *ssa.Call:
					if cf := x.Call.StaticCallee(); cf != nil {
						if cf == setTTLfn {
							purpose = "a TTL deadline is computed from the local clock (SetTTL argument)"
						} else if cf.Pkg != nil && cf.Pkg.Pkg.Path() == "time" {
							fwd(x, d+1) // .Unix(), .UnixMilli(), Sub ...
						} else if firstParty(cf) && cf.Blocks != nil {
							// handed to a method of TTLInfo, or a helper given the record, that sets it against the deadline
							// (info.expired(now), secondsLeft(rec, now))
							for _, cb := range cf.Blocks {
								for _, ci := range cb.Instrs {
									if fa, ok := ci.(*ssa.FieldAddr); ok && fieldName(fa) == "value" && namedOf(fa.X.Type()) == "TTLInfo" {
										purpose = "the local clock is compared with a stored deadline (lazy expiry / TTL reply)"
									}
								}
							}
						}
					}
				case *ssa.Store:
					if fa, ok := x.Addr.(*ssa.FieldAddr); ok {
						if namedOf(fa.X.Type()) == "StreamID" {
							purpose = "a generated stream ID takes its time part from the local clock"
						}
						if namedOf(fa.X.Type()) == "TTLInfo" {
							purpose = "a TTL deadline is computed from the local clock (SetTTL argument)"
						}
					}
					if al, ok := x.Addr.(*ssa.Alloc); ok {
						for _, rr := range *al.Referrers() {
							if ld, ok := rr.(*ssa.UnOp); ok {
								fwd(ld, d+1)
							}
						}
					}
				case *ssa.Phi, *ssa.Convert, *ssa.Extract, *ssa.MakeInterface:
					fwd(x.(ssa.Value), d+1)
				case *ssa.Return:
					purpose = "returned:" + fnName(call.Parent())
				}
			}
		}
		fwd(call, 0)
		return purpose
	}
	for fn := range execReach {
		if pkgRel(fn) != "memdb" || onlyGo(fn) {
			continue
		}
		for _, b := range fn.Blocks {
			for _, in := range b.Instrs {
				call, ok := in.(*ssa.Call)
				if !ok {
					continue
				}
				cf := call.Call.StaticCallee()
				if cf == nil || cf.Pkg == nil {
					continue
				}
				p := cf.Pkg.Pkg.Path()
				src := ""
				switch {
				case p == "time" && cf.Name() == "Now":
					src = "time.Now"
				case p == "math/rand" || p == "crypto/rand":
					src = p + "." + cf.Name()
				case strings.Contains(p, "google/uuid"):
					src = "uuid." + cf.Name()
				}
				if src == "" {
					continue
				}
				n++
				purpose := ""
				if src == "time.Now" {
					purpose = purposeOf(call)
				}
				if strings.HasPrefix(purpose, "returned:") || purpose == "" {
					// unclassified use: keyed by the function that contains it
					c.Add("R24", fnName(fn), src+" is used on the replicated path (unclassified)", call.Pos(), false, "each replica evaluates this separately when it applies the log entry")
					continue
				}
				c.Add("R24", "memdb", purpose, call.Pos(), false, "each replica evaluates "+src+" separately when it applies the log entry")
			}
		}
	}
	c.Count("R24_nondeterministic_sources", n)
	// first-of-map-iteration in mutators
	for fn := range execReach {
		if pkgRel(fn) != "memdb" || fn.Signature.Recv() == nil || !c.mutates(fn, 0) {
			continue
		}
		for _, b := range fn.Blocks {
			for _, in := range b.Instrs {
				nx, ok := in.(*ssa.Next)
				if !ok {
					continue
				}
				rg, ok := nx.Iter.(*ssa.Range)
				if !ok {
					continue
				}
				if _, isMap := rg.X.Type().Underlying().(*types.Map); !isMap {
					continue
				}
				if subsIdle && inSubscriptionBranch(in) {
					continue
				}
				if subsIdle {
					overSubs := false
					backslice(rg.X, func(y ssa.Value) bool {
						if fa, ok := y.(*ssa.FieldAddr); ok {
							if n := fieldName(fa); n == "LSubscriptions" || n == "RSubscriptions" {
								overSubs = true
							}
							return false
						}
						return true
					})
					if overSubs {
						continue
					}
				}
				// a return inside the loop body: the choice of element depends on iteration order
				early := false
				for _, bb := range fn.Blocks {
					if b.Dominates(bb) && bb != b {
						if _, isRet := bb.Instrs[len(bb.Instrs)-1].(*ssa.Return); isRet {
							// only if the loop can continue otherwise (the return block is inside the loop)
							// the body is the successor taken while the iterator yields elements (the first one)
							if len(b.Succs) == 2 && b.Succs[0].Dominates(bb) {
								early = true
							}
						}
					}
				}
				if early {
					c.Add("R24", fnName(fn), "a mutator picks the first element of a map iteration", in.Pos(), false, "Go randomises map iteration order: each replica removes or changes a different element")
				}
			}
		}
	}
	// R24b: snapshot encoder vs stored types
	gs := c.P.Func("memdb", "MemDb.GetSnapshot")
	if gs == nil {
		c.Undecided("R24", "anchor (*MemDb).GetSnapshot")
		return
	}
	usesJSON := false
	for _, b := range gs.Blocks {
		for _, in := range b.Instrs {
			if call, ok := in.(*ssa.Call); ok {
				if cf := call.Call.StaticCallee(); cf != nil && cf.Pkg != nil && cf.Pkg.Pkg.Path() == "encoding/json" {
					usesJSON = true
				}
			}
		}
	}
	storedTypes := map[string]types.Type{}
	for _, fn := range c.P.allFuncs("memdb") {
		for _, b := range fn.Blocks {
			for _, in := range b.Instrs {
				ci, ok := in.(*ssa.Call)
				if !ok {
					continue
				}
				if a := c.keyspaceAccess(ci); a != nil && a.Map == "db" && a.Write && len(ci.Call.Args) >= 3 {
					var dyn func(v ssa.Value, d int)
					dyn = func(v ssa.Value, d int) {
						if d > 5 {
							return
						}
						switch x := v.(type) {
						case *ssa.MakeInterface:
							storedTypes[x.X.Type().String()] = x.X.Type()
						case *ssa.Phi:
							for _, e := range x.Edges {
								dyn(e, d+1)
							}
						}
					}
					dyn(ci.Call.Args[2], 0)
				}
			}
		}
	}
	c.Count("R24b_stored_value_types", len(storedTypes))
	c.Min("R24b_stored_value_types", 5)
	var tnames []string
	for t := range storedTypes {
		tnames = append(tnames, t)
	}
	sort.Strings(tnames)
	for _, tn := range tnames {
		t := storedTypes[tn]
		ok, why := true, ""
		if !usesJSON {
			ok, why = false, "GetSnapshot no longer uses encoding/json: representability must be re-reviewed (undecided)"
		} else if pt, isPtr := t.(*types.Pointer); isPtr {
			if st, isSt := pt.Elem().Underlying().(*types.Struct); isSt {
				exported, unexported := 0, 0
				for i := 0; i < st.NumFields(); i++ {
					f := st.Field(i)
					if f.Exported() || f.Embedded() {
						exported++
						if strings.Contains(f.Type().String(), "ListNode") {
							ok, why = false, "exported pointer fields form a cycle (Head/Tail of a doubly linked list): json.Marshal fails with 'encountered a cycle'"
						}
						if _, isChan := f.Type().Underlying().(*types.Chan); isChan {
							ok, why = false, "contains a channel"
						}
					} else {
						unexported++
					}
				}
				if ok && unexported > 0 {
					ok, why = false, fmt.Sprintf("state lives in %d unexported field(s): encoded as {} and lost", unexported)
				}
				// exported (embedded) struct parts are encoded recursively: they must not hide their state either
				if ok {
					for i := 0; i < st.NumFields(); i++ {
						ft := st.Field(i).Type()
						if p2, isP := ft.(*types.Pointer); isP {
							ft = p2.Elem()
						}
						if st2, isS := ft.Underlying().(*types.Struct); isS && (st.Field(i).Exported() || st.Field(i).Embedded()) {
							for j := 0; j < st2.NumFields(); j++ {
								if !st2.Field(j).Exported() {
									ok, why = false, "state lives in unexported fields of the embedded "+st.Field(i).Name()+": encoded as {} and lost"
								}
							}
						}
					}
				}
			}
		}
		c.Add("R24", fnName(gs), "snapshot encoder can represent stored type "+strings.ReplaceAll(tn, ModPath+"/", ""), gs.Pos(), ok, why)
	}
	// a failing snapshot encoder must not take the node down
	if mt := c.P.Func("raftexample", "RaftNode.maybeTriggerSnapshot"); mt != nil {
		fatal := ""
		for _, b := range mt.Blocks {
			for _, in := range b.Instrs {
				if !noReturnCall(in) {
					if _, isP := in.(*ssa.Panic); !isP || !in.Pos().IsValid() {
						continue
					}
				}
				// the nearest dominating error test: does it test the snapshot hook's error?
				for d := b; d != nil; d = d.Idom() {
					if len(d.Preds) != 1 {
						continue
					}
					cond, _, ok := branchCond(d.Preds[0], d)
					if !ok {
						continue
					}
					bo, ok := cond.(*ssa.BinOp)
					if !ok {
						continue
					}
					for _, side := range []ssa.Value{bo.X, bo.Y} {
						if ex, ok := side.(*ssa.Extract); ok {
							if call, ok := ex.Tuple.(*ssa.Call); ok && call.Call.StaticCallee() == nil && !call.Call.IsInvoke() {
								if strings.Contains(canon(call.Call.Value), "getSnapshot") {
									fatal = c.pos(in.Pos())
								}
							}
						}
					}
					break
				}
			}
		}
		c.Add("R24", fnName(mt), "a failing snapshot hook does not terminate the node", mt.Pos(), fatal == "", "the error arm of rc.getSnapshot() is a process exit at "+fatal+" (and the hook fails for every stored list)")
	}
	// restore path
	restore := ""
	for _, fn := range c.P.allFuncs("memdb", "server") {
		dec, writes := false, false
		for _, b := range fn.Blocks {
			for _, in := range b.Instrs {
				if call, ok := in.(*ssa.Call); ok {
					if cf := call.Call.StaticCallee(); cf != nil && cf.Pkg != nil && (cf.Pkg.Pkg.Path() == "encoding/json" || cf.Pkg.Pkg.Path() == "encoding/gob") && strings.HasPrefix(cf.Name(), "Unmarshal") {
						dec = true
					}
					if a := c.keyspaceAccess(call); a != nil && a.Map == "db" && a.Write {
						writes = true
					}
				}
			}
		}
		if dec && writes {
			restore = fnName(fn)
		}
	}
	c.Add("R24", "memdb", "a function restores the keyspace from snapshot bytes and is wired to start-up and to the nil commit", token.NoPos, restore != "", "no function decodes a snapshot into MemDb.db; the nil commit that signals 'load the snapshot' is logged and dropped")
}}

// R11e: read-only commands have no write effect.
var readOnlyCmds = []string{"get", "mget", "strlen", "getrange", "exists", "type", "ttl", "keys", "llen", "lindex", "lrange", "lpos", "scard", "sismember", "smembers", "srandmember", "sunion", "sinter", "sdiff", "hget", "hmget", "hgetall", "hkeys", "hvals", "hlen", "hexists", "hstrlen", "hrandfield", "zrange", "zrank", "xrange"}

var rR11e = RuleRef{Name: "R11e", Doc: "read commands have no write effect: the executors registered under read-only command names reach no keyspace write (other than the lazy-expiry removal inside CheckTTL), no TTL update and no mutator call on a stored container", Run: func(c *C) {
	setTTL, delTTL := c.P.Func("memdb", "MemDb.SetTTL"), c.P.Func("memdb", "MemDb.DelTTL")
	n := 0
	for _, name := range readOnlyCmds {
		fn := c.Facts.Executors[name]
		if fn == nil {
			continue
		}
		n++
		var bad []string
		for _, b := range fn.Blocks {
			for _, in := range b.Instrs {
				ci, ok := in.(*ssa.Call)
				if !ok {
					continue
				}
				if a := c.keyspaceAccess(ci); a != nil && a.Write {
					bad = append(bad, c.pos(ci.Pos())+": "+a.Map+"."+a.Method)
					continue
				}
				cf := callee(ci)
				if cf == nil {
					continue
				}
				if cf == setTTL || cf == delTTL {
					bad = append(bad, c.pos(ci.Pos())+": "+cf.Name())
				}
				if firstParty(cf) {
					for j, arg := range ci.Call.Args {
						if _, isCont := c.containerType(arg.Type()); isCont && c.mutates(cf, j) {
							if ks, _ := c.getOrigins(arg); len(ks) > 0 {
								bad = append(bad, c.pos(ci.Pos())+": mutator "+cf.Name()+" on a stored container")
							}
						}
					}
				}
			}
		}
		// ... nor through a helper: the keyspace writes of first-party helpers that are reachable with the constant
		// boolean arguments the executor passes (streamAt(key, create=false) must not reach the branch that stores)
		check := c.P.Func("memdb", "MemDb.CheckTTL")
		for _, b := range fn.Blocks {
			for _, in := range b.Instrs {
				ci, ok := in.(*ssa.Call)
				if !ok {
					continue
				}
				cf := callee(ci)
				if cf == nil || !firstParty(cf) || pkgRel(cf) != "memdb" || cf == check || cf == setTTL || cf == delTTL || c.Facts.ExecNames[cf] != nil {
					continue
				}
				if c.keyspaceAccess(ci) != nil {
					continue
				}
				for _, w := range c.reachableKeyspaceWrites(cf, constArgs(ci), 0, map[*ssa.Function]bool{}) {
					bad = append(bad, c.pos(ci.Pos())+": through "+cf.Name()+": "+w)
				}
			}
		}
		c.Add("R11e", fnName(fn), strings.ToUpper(name)+" changes nothing", fn.Pos(), len(bad) == 0, strings.Join(uniq(bad), "; "))
	}
	c.Count("R11e_read_only_executors", n)
	c.Min("R11e_read_only_executors", 25)
}}

// R1t: the glob matcher's recursion strictly shrinks its pattern.
var rR1t = RuleRef{Name: "R1t", Doc: "termination of the glob matcher: every cycle of calls that leads from the matcher back to itself (directly, or through helpers of its package) hands on a strict suffix of the pattern somewhere (pattern[e:] with e >= 1 proven) and never anything but the pattern or a suffix of it elsewhere, so the recursion depth is bounded by the pattern length", Run: func(c *C) {
	fn := c.P.Func("util", "PattenMatch")
	if fn == nil {
		c.Undecided("R1t", "anchor util.PattenMatch")
		return
	}
	// the functions on a call cycle through the matcher
	reach := func(from *ssa.Function) map[*ssa.Function]bool {
		seen := map[*ssa.Function]bool{}
		var walk func(f *ssa.Function)
		walk = func(f *ssa.Function) {
			for _, b := range f.Blocks {
				for _, in := range b.Instrs {
					if ci, ok := in.(ssa.CallInstruction); ok {
						if cf := callee(ci); cf != nil && cf.Pkg == fn.Pkg && len(cf.Blocks) > 0 && !seen[cf] {
							seen[cf] = true
							walk(cf)
						}
					}
				}
			}
		}
		walk(from)
		return seen
	}
	scc := map[*ssa.Function]bool{}
	for f := range reach(fn) {
		if f == fn || reach(f)[fn] {
			scc[f] = true
		}
	}
	if !scc[fn] {
		// no recursion at all: nothing to bound
		c.Count("R1t_recursive_calls", 0)
		c.Add("R1t", fnName(fn), "the matcher is recursive (the '*' element is matched by trying every split)", fn.Pos(), false, "no call cycle through the matcher was found: the rule's anchor is gone")
		return
	}
	// in each function of the cycle: which parameter is (a suffix of) the pattern. In the matcher it is parameter 0;
	// in a helper it is a parameter that receives the pattern or a suffix of it at every call from the cycle.
	patParam := map[*ssa.Function]int{fn: 0}
	type edge struct {
		from, to *ssa.Function
		call     *ssa.Call
	}
	var edges []edge
	for f := range scc {
		for _, b := range f.Blocks {
			for _, in := range b.Instrs {
				if call, ok := in.(*ssa.Call); ok {
					if cf := callee(call); cf != nil && scc[cf] {
						edges = append(edges, edge{f, cf, call})
					}
				}
			}
		}
	}
	// derived(v, f): v is f's pattern parameter or a suffix of it; strict: a suffix that drops at least one byte
	derived := func(v ssa.Value, f *ssa.Function, at ssa.Instruction) (ok, strict bool) {
		pi, have := patParam[f]
		if !have {
			return false, false
		}
		pr := c.newProver(f)
		for i := 0; i < 4; i++ {
			if v == ssa.Value(f.Params[pi]) {
				return true, strict
			}
			// a library call that returns a suffix of its first argument (leading characters trimmed)
			if call, isCall := v.(*ssa.Call); isCall {
				if cf := call.Call.StaticCallee(); cf != nil && cf.Pkg != nil && (cf.Pkg.Pkg.Path() == "strings" || cf.Pkg.Pkg.Path() == "bytes") && len(call.Call.Args) >= 1 {
					switch cf.Name() {
					case "TrimLeft", "TrimPrefix", "TrimLeftFunc":
						v = call.Call.Args[0]
						continue
					}
				}
				return false, false
			}
			sl, isSl := v.(*ssa.Slice)
			if !isSl || sl.High != nil {
				return false, false
			}
			if sl.Low != nil && pr.ProveLE(lt{"0", 1}, pr.lin(sl.Low), 0, at) {
				strict = true
			}
			v = sl.X
		}
		return false, false
	}
	for iter := 0; iter < 4; iter++ {
		for _, e := range edges {
			if _, have := patParam[e.to]; have {
				continue
			}
			for ai, a := range e.call.Call.Args {
				if ok, _ := derived(a, e.from, e.call); ok && ai < len(e.to.Params) {
					patParam[e.to] = ai
				}
			}
		}
	}
	n := 0
	strictEdge := map[int]bool{}
	for k, e := range edges {
		n++
		pi, have := patParam[e.to]
		good := false
		if have && pi < len(e.call.Call.Args) {
			ok, strict := derived(e.call.Call.Args[pi], e.from, e.call)
			good = ok
			strictEdge[k] = ok && strict
		}
		c.Add("R1t", fnName(e.from), fmt.Sprintf("recursive call #%d hands on the pattern or a suffix of it", n), e.call.Pos(), good, "the pattern argument of a call on the recursion cycle must be the pattern or pattern[e:]")
	}
	// every cycle contains a strict edge: without the strict edges no function of the cycle reaches itself
	cyc := false
	for f := range scc {
		seen := map[*ssa.Function]bool{}
		var walk func(g *ssa.Function) bool
		walk = func(g *ssa.Function) bool {
			for k, e := range edges {
				if e.from != g || strictEdge[k] {
					continue
				}
				if e.to == f {
					return true
				}
				if !seen[e.to] {
					seen[e.to] = true
					if walk(e.to) {
						return true
					}
				}
			}
			return false
		}
		if walk(f) {
			cyc = true
		}
	}
	c.Add("R1t", fnName(fn), "every recursion cycle of the matcher shrinks the pattern strictly", fn.Pos(), !cyc, "a cycle of calls returns to the same function without dropping a pattern byte (pattern[e:] with e >= 1 proven) anywhere")
	c.Count("R1t_recursive_calls", n)
	c.Min("R1t_recursive_calls", 1)
}}

// R17cb: the proposal rendezvous table is guarded.
var rR17cb = RuleRef{Name: "R17cb", Doc: "the table that maps proposal ids to waiting connections is shared by all connection goroutines and the apply goroutine: every access to its map holds its mutex, and nothing is sent on a result channel while the mutex is held", Run: func(c *C) {
	la := c.lockAn()
	n := 0
	// the rendezvous table is found by its shape: a struct of package server that holds a map to channels and a mutex
	isTableMap := func(fa *ssa.FieldAddr) (string, bool) {
		nt, ok := derefNamed(fa.X.Type())
		if !ok || nt.Obj().Pkg() == nil || !strings.HasSuffix(nt.Obj().Pkg().Path(), "/server") {
			return "", false
		}
		st, ok := nt.Underlying().(*types.Struct)
		if !ok {
			return "", false
		}
		mt, ok := st.Field(fa.Field).Type().Underlying().(*types.Map)
		if !ok {
			return "", false
		}
		if _, isChan := mt.Elem().Underlying().(*types.Chan); !isChan {
			return "", false
		}
		for i := 0; i < st.NumFields(); i++ {
			if strings.HasSuffix(st.Field(i).Type().String(), "sync.Mutex") || strings.HasSuffix(st.Field(i).Type().String(), "sync.RWMutex") {
				return nt.Obj().Name() + "." + st.Field(i).Name(), true
			}
		}
		return "", false
	}
	for _, fn := range c.P.allFuncs("server") {
		var bad []string
		touched := false
		lf := la.flow(fn)
		muClass := ""
		for _, b := range fn.Blocks {
			for _, in := range b.Instrs {
				if fa, ok := in.(*ssa.FieldAddr); ok {
					if cl, ok := isTableMap(fa); ok {
						muClass = cl
					}
				}
			}
		}
		for _, b := range fn.Blocks {
			for _, in := range b.Instrs {
				fa, ok := in.(*ssa.FieldAddr)
				if ok {
					_, ok = isTableMap(fa)
				}
				if ok {
					if al, isAl := fa.X.(*ssa.Alloc); isAl && al.Heap {
						continue
					}
					touched = true
					n++
					held, _ := lf.Held(in)
					okHeld := false
					for _, h := range held {
						if h.Class == muClass {
							okHeld = true
						}
					}
					if !okHeld {
						bad = append(bad, c.pos(in.Pos())+": map accessed without "+muClass)
					}
				}
				if _, isSend := in.(*ssa.Send); isSend {
					for _, h := range lf.MayHeld(in) {
						if strings.HasSuffix(h.Class, ".mu") && (muClass == "" || h.Class == muClass) && strings.Contains(h.Class, "Table") {
							bad = append(bad, c.pos(in.Pos())+": channel send while holding "+h.Class)
						}
					}
				}
			}
		}
		if touched {
			c.Add("R17cb", fnName(fn), "rendezvous map accessed under its mutex", fn.Pos(), len(bad) == 0, strings.Join(bad, "; "))
		}
	}
	c.Count("R17cb_map_accesses", n)
	c.Min("R17cb_map_accesses", 3)
	// no raw shared map is passed to the connection handlers any more
	for _, h := range c.connHandlers() {
		for _, p := range h.Params {
			if _, isMap := p.Type().Underlying().(*types.Map); isMap {
				c.Add("R17cb", fnName(h), "no bare map shared between connection goroutines", h.Pos(), false, "parameter "+p.Name()+" is a map written by every connection goroutine")
			}
		}
	}
}}

// rejectedStrings collects the string constants for which the filter (fns[0]; the other functions are the helpers it
// may call) returns a non-nil error on every path: decided by symbolic execution of the filter with "the tested value
// equals the constant", whatever the shape of the test (==, !=, switch, a boolean variable, De Morgan, a predicate helper).
func rejectedStrings(fns []*ssa.Function, out map[string]bool) {
	if len(fns) == 0 {
		return
	}
	consts := map[string]bool{}
	comparedStrings(fns, consts)
	for str := range consts {
		if rejectsFor(fns[0], str) {
			out[str] = true
		}
	}
}

// comparedStrings collects the string constants that the given functions compare a value with (==, != or switch cases,
// or membership in a package-level table with constant string keys).
func comparedStrings(fns []*ssa.Function, out map[string]bool) {
	for _, fn := range fns {
		for _, b := range fn.Blocks {
			for _, in := range b.Instrs {
				if lk, ok := in.(*ssa.Lookup); ok && simC != nil {
					if g, _ := lookupOfGlobalMap(lk); g != nil {
						if ents, ok := simC.globalMapInit(g); ok {
							for _, e := range ents {
								if ks, ok := constString(e.Key); ok {
									out[ks] = true
								}
							}
						}
					}
				}
				if bo, ok := in.(*ssa.BinOp); ok && (bo.Op == token.EQL || bo.Op == token.NEQ) {
					for _, side := range []ssa.Value{bo.X, bo.Y} {
						if s, ok := constString(side); ok {
							out[s] = true
						}
					}
				}
				if call, ok := in.(*ssa.Call); ok {
					if cf := call.Call.StaticCallee(); cf != nil && cf.Pkg != nil && cf.Pkg.Pkg.Path() == "strings" && cf.Name() == "EqualFold" {
						for _, a := range call.Call.Args {
							if s, ok := constString(a); ok {
								out[s] = true
							}
						}
					}
				}
			}
		}
	}
}

// sendsProposal: the handler (or a helper it calls) sends a *RaftProposal on a channel.
func sendsProposal(h *ssa.Function) bool {
	for _, fn := range helperScope(h, 2) {
		for _, b := range fn.Blocks {
			for _, in := range b.Instrs {
				if snd, ok := in.(*ssa.Send); ok && strings.Contains(snd.Chan.Type().String(), "RaftProposal") {
					return true
				}
			}
		}
	}
	return false
}

// predicateConsts: the string constants a function compares something with.
func predicateConsts(fn *ssa.Function) []string {
	m := map[string]bool{}
	comparedStrings([]*ssa.Function{fn}, m)
	var out []string
	for k := range m {
		out = append(out, k)
	}
	sort.Strings(out)
	return out
}

// simulateFor explores a function symbolically for "the value it tests equals str": every comparison of anything
// with a string constant is decided by that (== str); branches on such comparisons (and on booleans built from them,
// including the phi form of || and &&) are followed, any other branch is explored both ways. visit is called for each
// return reached, with an evaluator for values at that point (phis resolved by the edge taken).
func simulateFor(fn *ssa.Function, str string, visit func(ret *ssa.Return, eval func(ssa.Value) (bool, bool), pick func(ssa.Value) ssa.Value)) {
	if fn == nil || fn.Blocks == nil {
		return
	}
	type state struct{ b, prev *ssa.BasicBlock }
	seen := map[state]bool{}
	var run func(b, prev *ssa.BasicBlock, depth int)
	run = func(b, prev *ssa.BasicBlock, depth int) {
		st := state{b, prev}
		if seen[st] || depth > 200 {
			return
		}
		seen[st] = true
		var pick func(v ssa.Value) ssa.Value
		pick = func(v ssa.Value) ssa.Value {
			for d := 0; d < 8; d++ {
				phi, ok := v.(*ssa.Phi)
				if !ok || phi.Block() != b {
					return v
				}
				found := false
				for i, p := range b.Preds {
					if p == prev {
						v, found = phi.Edges[i], true
						break
					}
				}
				if !found {
					return v
				}
			}
			return v
		}
		var eval func(v ssa.Value, d int) (bool, bool)
		eval = func(v ssa.Value, d int) (bool, bool) {
			if d > 8 {
				return false, false
			}
			v = pick(v)
			switch x := v.(type) {
			case *ssa.Const:
				if x.Value == nil {
					return false, false
				}
				return x.Value.ExactString() == "true", true
			case *ssa.UnOp:
				if x.Op == token.NOT {
					r, k := eval(x.X, d+1)
					return !r, k
				}
			case *ssa.BinOp:
				if x.Op == token.EQL || x.Op == token.NEQ {
					for _, side := range []ssa.Value{x.X, x.Y} {
						if cs, ok := constString(side); ok {
							return (cs == str) == (x.Op == token.EQL), true
						}
					}
				}
			case *ssa.Lookup, *ssa.Extract:
				// membership in a package-level set: m[tested] / _, ok := m[tested]
				if g, key := lookupOfGlobalMap(x); g != nil && simC != nil {
					if _, isConst := key.(*ssa.Const); !isConst {
						if ents, ok := simC.globalMapInit(g); ok {
							ex, isEx := x.(*ssa.Extract)
							for _, e := range ents {
								if ks, ok := constString(e.Key); ok && ks == str {
									if isEx && ex.Index == 1 {
										return true, true
									}
									if k, ok := e.Val.(*ssa.Const); ok && k.Value != nil && isBoolType(k.Type()) {
										return k.Value.ExactString() == "true", true
									}
									return false, false
								}
							}
							return false, true // not a member: zero value / ok == false
						}
					}
				}
			case *ssa.Call:
				// a boolean predicate helper applied to the tested value
				if cf := x.Call.StaticCallee(); cf != nil && cf != fn && firstParty(cf) && simDepth < 3 {
					simDepth++
					r, k := predicateTrue(cf, str)
					simDepth--
					if k {
						return r, true
					}
					if len(predicateConsts(cf)) > 0 {
						// it tests strings but not this one on every path: it does not answer true for str
						if f, kf := predicateFalse(cf, str); kf && f {
							return false, true
						}
					}
				}
			}
			return false, false
		}
		last := b.Instrs[len(b.Instrs)-1]
		switch t := last.(type) {
		case *ssa.Return:
			visit(t, func(v ssa.Value) (bool, bool) { return eval(v, 0) }, pick)
		case *ssa.If:
			v, k := eval(t.Cond, 0)
			if !k {
				// a phi of an earlier block: its truth value is not known here; explore both ways
				run(b.Succs[0], b, depth+1)
				run(b.Succs[1], b, depth+1)
				return
			}
			if v {
				run(b.Succs[0], b, depth+1)
			} else {
				run(b.Succs[1], b, depth+1)
			}
		case *ssa.Jump:
			run(b.Succs[0], b, depth+1)
		}
	}
	run(fn.Blocks[0], nil, 0)
}

// predicateTrue: the boolean function answers true on every path for "the tested value equals str".
func predicateTrue(fn *ssa.Function, str string) (result bool, known bool) {
	if fn == nil || fn.Blocks == nil {
		return false, false
	}
	r := fn.Signature.Results()
	if r.Len() != 1 || !isBoolType(r.At(0).Type()) {
		return false, false
	}
	n, allTrue, allKnown := 0, true, true
	simulateFor(fn, str, func(ret *ssa.Return, eval func(ssa.Value) (bool, bool), pick func(ssa.Value) ssa.Value) {
		n++
		v, k := eval(ret.Results[0])
		if !k {
			allKnown = false
		}
		if !v {
			allTrue = false
		}
	})
	if n == 0 || !allKnown {
		return false, false
	}
	return allTrue, true
}

// rejectsFor: every return the error-returning function can reach for "the tested value equals str" hands back a
// non-nil error.
func rejectsFor(fn *ssa.Function, str string) bool {
	if fn == nil || fn.Blocks == nil || !returnsError(fn) {
		return false
	}
	n, all := 0, true
	simulateFor(fn, str, func(ret *ssa.Return, eval func(ssa.Value) (bool, bool), pick func(ssa.Value) ssa.Value) {
		n++
		rr := retResults(ret)
		for _, v := range rr[len(rr)-1] {
			if isNilConst(pick(v)) {
				all = false
			}
		}
	})
	return n > 0 && all
}

var simDepth int

// simC gives the symbolic evaluator access to the program (initialisers of package-level tables).
var simC *C

// predicateFalse: the boolean function answers false on every path for "the tested value equals str".
func predicateFalse(fn *ssa.Function, str string) (bool, bool) {
	r := fn.Signature.Results()
	if fn.Blocks == nil || r.Len() != 1 || !isBoolType(r.At(0).Type()) {
		return false, false
	}
	n, allFalse, allKnown := 0, true, true
	simulateFor(fn, str, func(ret *ssa.Return, eval func(ssa.Value) (bool, bool), pick func(ssa.Value) ssa.Value) {
		n++
		v, k := eval(ret.Results[0])
		if !k {
			allKnown = false
		}
		if v {
			allFalse = false
		}
	})
	if n == 0 || !allKnown {
		return false, false
	}
	return allFalse, true
}

// fieldAlwaysType: whole-program invariant of one unexported interface-typed field of a first-party record: every
// record of that type is built by a literal that sets the field (a store in the block of its allocation), every store
// into the field anywhere stores a value of type want, the field's address is only loaded and stored through, and the
// record type is never embedded by value in another allocation (which would create zero records).
func (c *C) fieldAlwaysType(fa *ssa.FieldAddr, want types.Type) bool {
	pt, ok := fa.X.Type().Underlying().(*types.Pointer)
	if !ok {
		return false
	}
	named, ok := pt.Elem().(*types.Named)
	if !ok {
		return false
	}
	st, ok := named.Underlying().(*types.Struct)
	if !ok || fa.Field >= st.NumFields() || st.Field(fa.Field).Exported() {
		return false
	}
	key := named.String() + "." + st.Field(fa.Field).Name() + ":" + want.String()
	if c.fatMemo == nil {
		c.fatMemo = map[string]bool{}
	}
	if v, ok := c.fatMemo[key]; ok {
		return v
	}
	var containsByValue func(t types.Type, depth int) bool
	containsByValue = func(t types.Type, depth int) bool {
		if depth > 6 {
			return true
		}
		if types.Identical(t, named) {
			return true
		}
		switch u := t.Underlying().(type) {
		case *types.Struct:
			for i := 0; i < u.NumFields(); i++ {
				if containsByValue(u.Field(i).Type(), depth+1) {
					return true
				}
			}
		case *types.Array:
			return containsByValue(u.Elem(), depth+1)
		}
		return false
	}
	res := true
	builders := 0
	for _, fn := range c.P.allFuncs(firstPartyPkgs...) {
		for _, b := range fn.Blocks {
			for _, in := range b.Instrs {
				switch x := in.(type) {
				case *ssa.FieldAddr:
					xp, ok := x.X.Type().Underlying().(*types.Pointer)
					if !ok || !types.Identical(xp.Elem(), named) || x.Field != fa.Field || x.Referrers() == nil {
						continue
					}
					for _, r := range *x.Referrers() {
						switch y := r.(type) {
						case *ssa.UnOp:
						case *ssa.Store:
							mi, ok := y.Val.(*ssa.MakeInterface)
							if y.Addr != ssa.Value(x) || !ok || !types.Identical(mi.X.Type(), want) {
								res = false
							}
						case *ssa.DebugRef:
						default:
							res = false
						}
					}
				case *ssa.Alloc:
					et := x.Type().Underlying().(*types.Pointer).Elem()
					if types.Identical(et, named) {
						set := false
						if x.Referrers() != nil {
							for _, r := range *x.Referrers() {
								if f2, ok := r.(*ssa.FieldAddr); ok && f2.Field == fa.Field && f2.Block() == x.Block() && f2.Referrers() != nil {
									for _, rr := range *f2.Referrers() {
										if s2, ok := rr.(*ssa.Store); ok && s2.Addr == ssa.Value(f2) && s2.Block() == x.Block() {
											set = true
										}
									}
								}
							}
						}
						if !set {
							res = false
						}
						builders++
					} else if containsByValue(et, 0) {
						res = false
					}
				case *ssa.MakeSlice:
					if sl, ok := x.Type().Underlying().(*types.Slice); ok && containsByValue(sl.Elem(), 0) {
						res = false
					}
				case *ssa.MakeMap:
					if mp, ok := x.Type().Underlying().(*types.Map); ok && containsByValue(mp.Elem(), 0) {
						res = false
					}
				case *ssa.MakeChan:
					if ch, ok := x.Type().Underlying().(*types.Chan); ok && containsByValue(ch.Elem(), 0) {
						res = false
					}
				}
				// a zero record as an operand
				for _, op := range in.Operands(nil) {
					if op != nil && *op != nil {
						if k, ok := (*op).(*ssa.Const); ok && types.Identical(k.Type(), named) {
							res = false
						}
					}
				}
			}
		}
	}
	res = res && builders > 0
	c.fatMemo[key] = res
	return res
}

// sharedKeyspaceTables: the MemDb constructor ctor stores, into a keyspace field of the new MemDb, a map whose shard table
// is not allocated for it. Returns a description, or "" when every keyspace map gets a table of its own.
func (c *C) sharedKeyspaceTables(ctor *ssa.Function) string {
	if ctor == nil || len(ctor.Blocks) == 0 || c.Facts.CMap == nil {
		return ""
	}
	// does the map constructor g allocate the table it stores?
	allocatesTable := func(g *ssa.Function) (bool, bool) {
		stores, fresh := false, true
		for _, b := range g.Blocks {
			for _, in := range b.Instrs {
				st, ok := in.(*ssa.Store)
				if !ok {
					continue
				}
				fa, ok := st.Addr.(*ssa.FieldAddr)
				if !ok || !isNamed(fa.X.Type(), c.Facts.CMap) {
					continue
				}
				if _, isSl := st.Val.Type().Underlying().(*types.Slice); !isSl {
					continue
				}
				stores = true
				ok2 := false
				switch v := st.Val.(type) {
				case *ssa.MakeSlice:
					ok2 = true
				case *ssa.Slice:
					_, ok2 = v.X.(*ssa.Alloc)
				}
				if !ok2 {
					fresh = false
				}
			}
		}
		return stores, fresh
	}
	for _, b := range ctor.Blocks {
		for _, in := range b.Instrs {
			st, ok := in.(*ssa.Store)
			if !ok {
				continue
			}
			fa, ok := st.Addr.(*ssa.FieldAddr)
			if !ok || !isNamed(fa.X.Type(), c.Facts.MemDb) || !isNamed(st.Val.Type(), c.Facts.CMap) {
				continue
			}
			call, ok := st.Val.(*ssa.Call)
			if !ok {
				return "; the keyspace map stored into " + fieldName(fa) + " is not made by a constructor call"
			}
			g := callee(call)
			if g == nil || len(g.Blocks) == 0 {
				return "; the constructor of " + fieldName(fa) + " cannot be resolved"
			}
			if stores, fresh := allocatesTable(g); stores && !fresh {
				return "; " + fnName(g) + ", which makes " + fieldName(fa) + ", hands out a map over an existing shard table: the numbered databases share storage"
			}
		}
	}
	return ""
}

// reachableKeyspaceWrites: the keyspace writes (db/ttlKeys Set, Delete ...) in fn and its memdb callees that can be
// reached when the boolean parameters listed in consts have those constant values: branches on such a parameter (or its
// negation) are followed on the matching side only. CheckTTL's lazy removal is not a write of the command.
func (c *C) reachableKeyspaceWrites(fn *ssa.Function, consts map[int][]*ssa.Const, depth int, seen map[*ssa.Function]bool) []string {
	if fn == nil || fn.Blocks == nil || depth > 2 || seen[fn] {
		return nil
	}
	seen[fn] = true
	defer delete(seen, fn)
	check := c.P.Func("memdb", "MemDb.CheckTTL")
	var out []string
	reach := prunedReach(fn, consts)
	for _, b := range fn.Blocks {
		if !reach[b] {
			continue
		}
		for _, in := range b.Instrs {
			ci, ok := in.(*ssa.Call)
			if !ok {
				continue
			}
			if a := c.keyspaceAccess(ci); a != nil {
				if a.Write {
					out = append(out, a.Map+"."+a.Method+" at "+c.pos(ci.Pos()))
				}
				continue
			}
			cf := callee(ci)
			if cf == nil || !firstParty(cf) || pkgRel(cf) != "memdb" || cf == check || c.Facts.ExecNames[cf] != nil {
				continue
			}
			sub := constArgs(ci)
			for i, a := range ci.Call.Args {
				// a parameter of ours that is itself bound to a constant is handed on
				if p, ok := a.(*ssa.Parameter); ok {
					for j, q := range fn.Params {
						if q == p && len(consts[j]) > 0 {
							sub[i] = consts[j]
						}
					}
				}
			}
			out = append(out, c.reachableKeyspaceWrites(cf, sub, depth+1, seen)...)
		}
	}
	return out
}

// derivesFromParsedParam: the size depends on an integer parameter of fn (a method of a stored container, a helper) that
// some call site in memdb binds to a parsed client integer (List.Range(start, end) from LRANGE's Atoi results).
func (c *C) derivesFromParsedParam(v ssa.Value, fn *ssa.Function) bool {
	if c.Facts.ExecNames[fn] != nil {
		return false
	}
	found := false
	backslice(v, func(x ssa.Value) bool {
		if found {
			return false
		}
		if prm, ok := x.(*ssa.Parameter); ok && isIntType(prm.Type()) && prm.Parent() == fn {
			pi := -1
			for i, q := range fn.Params {
				if q == prm {
					pi = i
				}
			}
			for _, g := range c.P.allFuncs("memdb") {
				for _, b := range g.Blocks {
					for _, in := range b.Instrs {
						ci, ok := in.(ssa.CallInstruction)
						if !ok || callee(ci) != fn || pi < 0 || pi >= len(ci.Common().Args) {
							continue
						}
						if derivesFromParse(ci.Common().Args[pi]) {
							found = true
						}
					}
				}
			}
		}
		if call, isCall := x.(*ssa.Call); isCall {
			// the result of a first-party helper that was handed the parameter (first, last, ok := l.span(start, end))
			cf := call.Call.StaticCallee()
			return cf != nil && firstParty(cf) && !found
		}
		return !found
	})
	return found
}
