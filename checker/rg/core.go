package rg

import (
	"encoding/json"
	"fmt"
	"go/token"
	"go/types"
	"os"
	"path/filepath"
	"regexp"
	"sort"
	"strings"
	"time"

	"golang.org/x/tools/go/ssa"
)

// Status of an obligation.
const (
	Discharged = "discharged"
	Excepted   = "excepted"
	Known      = "known"
	Violated   = "violated"
	Note       = "note" // informational, never affects the verdict
)

// Obligation is one rule instance. Key = (Rule, Func, Construct), never a line number.
type Obligation struct {
	Rule      string `json:"rule"`
	Func      string `json:"function"`
	Construct string `json:"construct"`
	Pos       string `json:"pos"`
	Status    string `json:"status"`
	Detail    string `json:"detail,omitempty"`
	Trivial   bool   `json:"-"`
}

func (o *Obligation) Key() string { return o.Rule + "|" + o.Func + "|" + o.Construct }

// Finding is an entry of known_findings.json.
type Finding struct {
	Status    string `json:"status"` // known | fixed
	Property  string `json:"property"`
	Rule      string `json:"rule"`
	Function  string `json:"function"`
	Construct string `json:"construct"`
	What      string `json:"what"`
	Witness   string `json:"witness,omitempty"`
	Commit    string `json:"commit,omitempty"`
}

// Exception is a reviewed exception: one (rule, function, construct) with a reason.
type Exception struct {
	Rule, Func, Construct, Reason string
	used                          bool
}

// C is the per-run checker context.
type C struct {
	callSiteMemo map[*ssa.Function][]ssa.CallInstruction
	hookOwner2   *C
	P               *Program
	Prop            string
	Tier            string
	Obs             []*Obligation
	Counts          map[string]int // named instance counts
	Mins            map[string]int // reviewed minimums for the counts
	Notes           []string
	Facts           *Facts
	known           []Finding
	excepted        []*Exception
	seen            map[string]bool
	la              *lockAnalysis
	retAliasMemo    map[*ssa.Function]map[int]string
	inPlaceMemo     map[string]string
	mwrapMemo       map[*ssa.Function]*[3]string
	enumMemo        map[*types.Named][3]int64
	storedTypesMemo map[string]bool
	pairsDone       bool
	closureRelMemo  map[*ssa.MakeClosure][]*lockEvent
	freshUse        *ssa.BasicBlock // the block of the store a freshness question is asked for (phi edges that cannot reach it are skipped)
	preMemo         map[*ssa.Function][]dfact
	preBusy         map[*ssa.Function]bool
	bce             map[string]bool
	bceErr          error
	aliasMemo       map[string]string
	scope           []string
	wkMemo          map[*ssa.Function][]int
	hookOwner       *C
	rllMemo         map[string]int
	rgpMemo         map[string]int
	viaMemo         map[string]bool
	fatMemo         map[string]bool
	wrapMemo        map[*ssa.Function][4]int
	wrapMeth        map[*ssa.Function]string
	fab             map[*ssa.Parameter][]*ssa.Function
	fabArgOnly      map[*ssa.Function]bool
	rlgMemo         map[string]int
	parMemo         map[*ssa.Function]map[string]int
	parBusy         map[*ssa.Function]bool
	applyLoopFn     *ssa.Function
	sumMemo         map[string]Set
	ctxMemo         map[string]bool
}

func (c *C) Count(name string, n int) { c.Counts[name] += n }

// Min registers a reviewed minimum for a named count; checked at the end of the run.
func (c *C) Min(name string, n int) { c.Mins[name] = n }

func (c *C) pos(p token.Pos) string { return c.P.Pos(p) }

// Add records an obligation; status Violated is downgraded to Excepted/Known when a table entry matches.
func (c *C) Add(rule string, fn string, construct string, pos token.Pos, ok bool, detail string) *Obligation {
	o := &Obligation{Rule: rule, Func: fn, Construct: construct, Pos: c.pos(pos), Detail: detail}
	if len(c.scope) > 0 && pos.IsValid() {
		in := false
		for _, pre := range c.scope {
			if strings.HasPrefix(o.Pos, pre) {
				in = true
			}
		}
		if !in {
			o.Status = Discharged
			return o // outside this property's anchor files: reported under the property that owns the file
		}
	}
	if ok {
		o.Status = Discharged
	} else {
		o.Status = Violated
		for _, e := range c.excepted {
			fnMatch := e.Func == fn || (strings.HasSuffix(e.Func, ".*") && strings.HasPrefix(fn, strings.TrimSuffix(e.Func, "*")))
			if e.Rule == rule && fnMatch && (e.Construct == construct || e.Construct == "*" || e.Construct == normRegs(construct)) {
				o.Status = Excepted
				o.Detail = strings.TrimSpace(detail + " [exception: " + e.Reason + "]")
				e.used = true
				break
			}
		}
		if o.Status == Violated {
			for _, k := range c.known {
				if k.Status == "known" && k.Rule == rule && k.Function == fn && k.Construct == construct {
					o.Status = Known
					o.Detail = strings.TrimSpace(detail + " [known finding: " + k.What + "]")
					break
				}
			}
		}
	}
	// de-duplicate identical keys (e.g. generic instantiations) keeping the worst status
	key := o.Key()
	if c.seen[key] {
		for _, old := range c.Obs {
			if old.Key() == key {
				if rank(o.Status) > rank(old.Status) {
					old.Status, old.Detail, old.Pos = o.Status, o.Detail, o.Pos
				}
				return old
			}
		}
	}
	c.seen[key] = true
	c.Obs = append(c.Obs, o)
	return o
}

func rank(s string) int {
	switch s {
	case Violated:
		return 4
	case Known:
		return 3
	case Excepted:
		return 2
	case Discharged:
		return 1
	}
	return 0
}

// AddNote records an informational line (never a verdict).
func (c *C) AddNote(format string, a ...any) { c.Notes = append(c.Notes, fmt.Sprintf(format, a...)) }

// Undecided records a failure of the analysis itself (anchor missing etc.): always a violation.
func (c *C) Undecided(rule, what string) {
	c.Add(rule, "-", "undecided: "+what, token.NoPos, false, "the analysis could not decide; an analysis that did not see the program decides nothing")
}

func fnName(f *ssa.Function) string {
	if f == nil {
		return "-"
	}
	// strip module path for readability, keep package-qualified receiver form
	s := f.String()
	s = strings.ReplaceAll(s, ModPath+"/", "")
	s = strings.ReplaceAll(s, "go.etcd.io/etcd/", "etcd/")
	return s
}

// ---- evidence ----

type evidence struct {
	PropertyID  string         `json:"property_id"`
	Tier        string         `json:"tier"`
	Seed        int            `json:"seed"`
	Level       string         `json:"level"`
	Coverage    map[string]any `json:"coverage"`
	Assumptions []string       `json:"assumptions"`
	WallS       float64        `json:"wall_s"`
	Violations  int            `json:"violations"`
}

func loadKnown(path string) ([]Finding, error) {
	b, err := os.ReadFile(path)
	if err != nil {
		if os.IsNotExist(err) {
			return nil, nil
		}
		return nil, err
	}
	var fs []Finding
	if err := json.Unmarshal(b, &fs); err != nil {
		return nil, err
	}
	return fs, nil
}

// Finish evaluates counts, prints the verdict lines, writes evidence and replay; returns the exit code.
func (c *C) Finish(verifDir string, start time.Time, seed int, spec *PropSpec) int {
	// minimum instance counts
	names := make([]string, 0, len(c.Mins))
	for n := range c.Mins {
		names = append(names, n)
	}
	sort.Strings(names)
	for _, n := range names {
		got := c.Counts[n]
		// vacuity guard: the reviewed count may shrink when helpers are extracted, but a rule that suddenly matches
		// (almost) nothing decides nothing; the floor is 40 % of the count confirmed by hand, at least 1
		floor := c.Mins[n] * 2 / 5
		if floor < 1 {
			floor = 1
		}
		if n == "packages_loaded" || n == "executors_registered" {
			floor = c.Mins[n]
		}
		c.Add("COUNT", "-", n, token.NoPos, got >= floor, fmt.Sprintf("instances found %d, confirmed by hand %d, floor %d (a rule matching far fewer sites than were confirmed passes vacuously)", got, c.Mins[n], floor))
	}
	// stale exceptions are reported as notes
	for _, e := range c.excepted {
		if !e.used && e.Rule != "" && ruleInSpec(spec, e.Rule) {
			c.AddNote("exception %s|%s|%s matched no site on this tree", e.Rule, e.Func, e.Construct)
		}
	}
	sort.SliceStable(c.Obs, func(i, j int) bool { return c.Obs[i].Key() < c.Obs[j].Key() })
	byStatus := map[string]int{}
	byRule := map[string]map[string]int{}
	distinct := 0
	var viol []*Obligation
	for _, o := range c.Obs {
		byStatus[o.Status]++
		if byRule[o.Rule] == nil {
			byRule[o.Rule] = map[string]int{}
		}
		byRule[o.Rule][o.Status]++
		if !o.Trivial && o.Rule != "COUNT" {
			distinct++
		}
		switch o.Status {
		case Violated:
			viol = append(viol, o)
		case Known:
			fmt.Printf("KNOWN-FINDING: property=%s %s %s %s (%s) %s\n", c.Prop, o.Rule, o.Func, o.Construct, o.Pos, o.Detail)
		}
	}
	// samples: up to 14, spread over rules
	var samples []any
	perRule := map[string]int{}
	funcs := map[string]bool{}
	for _, o := range c.Obs {
		if o.Func != "-" && o.Func != "" {
			funcs[o.Func] = true
		}
	}
	c.Counts["functions_analysed"] = len(funcs)
	for _, o := range c.Obs {
		if perRule[o.Rule] >= 3 || len(samples) >= 14 || o.Rule == "COUNT" {
			continue
		}
		perRule[o.Rule]++
		samples = append(samples, o)
	}
	if len(samples) == 0 {
		samples = append(samples, "no obligations")
	}
	cov := map[string]any{
		"explanation":         spec.Explanation,
		"rules":               spec.RuleDocs,
		"obligations":         len(c.Obs),
		"discharged":          byStatus[Discharged],
		"excepted":            byStatus[Excepted],
		"known":               byStatus[Known],
		"violated":            byStatus[Violated],
		"by_rule":             byRule,
		"evaluations":         len(c.Obs),
		"distinct_nontrivial": distinct,
		"rule":                "one evaluation per rule instance (obligation) found in the source of the analysed tree; distinct = distinct (rule,function,construct) keys, non-trivial = required a proof step (dominating guard, lockset, path search, provenance slice), i.e. not discharged by a constant",
		"samples":             samples,
		"instance_counts":     c.Counts,
		"instance_minimums":   c.Mins,
		"packages_loaded":     c.P.NumPkgs,
		"functions_analysed":  c.Counts["functions_analysed"],
		"exhaustive":          true,
		"checker_cmd":         fmt.Sprintf("bin/rgcheck -prop %s -tier %s", c.Prop, c.Tier),
		"trusted_base":        []string{"go/types + go/ssa (x/tools v0.29.0)", "Go compiler prove pass (bounds-check elimination report)", "rgcheck rule implementations and reviewed tables under /verif/checker", "repo model: keyspace access only through ConcurrentMap methods on MemDb fields"},
		"notes":               c.Notes,
		"repo":                c.P.Repo,
	}
	ev := evidence{PropertyID: c.Prop, Tier: c.Tier, Seed: seed, Level: "other", Coverage: cov,
		Assumptions: spec.Assumptions, WallS: time.Since(start).Seconds(), Violations: len(viol)}
	evDir := filepath.Join(verifDir, "evidence")
	os.MkdirAll(filepath.Join(evDir, "replay"), 0o755)
	b, _ := json.MarshalIndent(ev, "", " ")
	if err := os.WriteFile(filepath.Join(evDir, c.Prop+".json"), b, 0o644); err != nil {
		fmt.Println("cannot write evidence:", err)
		return 2
	}
	fmt.Printf("property=%s tier=%s obligations=%d discharged=%d excepted=%d known=%d violated=%d wall=%.1fs\n", c.Prop, c.Tier,
		len(c.Obs), byStatus[Discharged], byStatus[Excepted], byStatus[Known], byStatus[Violated], time.Since(start).Seconds())
	replay := filepath.Join(evDir, "replay", c.Prop+".json")
	if len(viol) > 0 {
		rb, _ := json.MarshalIndent(map[string]any{"property": c.Prop, "tier": c.Tier, "violations": viol}, "", " ")
		os.WriteFile(replay, rb, 0o644)
		for _, o := range viol {
			fmt.Printf("  %s %s %s :: %s -- %s\n", o.Pos, o.Rule, o.Func, o.Construct, o.Detail)
		}
		fmt.Printf("VIOLATION property=%s replay=%s\n", c.Prop, replay)
		return 1
	}
	os.Remove(replay)
	return 0
}

func ruleInSpec(spec *PropSpec, rule string) bool {
	for _, r := range spec.Rules {
		if r.Name == rule || strings.HasPrefix(rule, r.Name) {
			return true
		}
	}
	return false
}

// finishQuiet writes evidence + replay for a broken run without the normal summary.
func (c *C) finishQuiet(verifDir string, start time.Time, seed int, spec *PropSpec) {
	ev := evidence{PropertyID: c.Prop, Tier: c.Tier, Seed: seed, Level: "other",
		Coverage: map[string]any{"explanation": spec.Explanation, "obligations": len(c.Obs), "violated": len(c.Obs), "samples": []any{c.Obs[0]}, "evaluations": 1, "distinct_nontrivial": 0},
		WallS:    time.Since(start).Seconds(), Violations: len(c.Obs)}
	b, _ := json.MarshalIndent(ev, "", " ")
	os.WriteFile(filepath.Join(verifDir, "evidence", c.Prop+".json"), b, 0o644)
	rb, _ := json.MarshalIndent(map[string]any{"property": c.Prop, "violations": c.Obs}, "", " ")
	os.WriteFile(filepath.Join(verifDir, "evidence", "replay", c.Prop+".json"), rb, 0o644)
}

var regRe = regexp.MustCompile(`\bt\d+\b`)
var innerIdxRe = regexp.MustCompile(`\[[^\[\]]*\]`)

// normRegs replaces SSA register names by t_ and the innermost index expression by [*] so that exception keys
// survive unrelated edits of the function (a range loop rewritten as an index loop, renumbered registers).
func normRegs(s string) string {
	s = regRe.ReplaceAllString(s, "t_")
	if strings.Count(s, "[") >= 2 {
		// only the innermost bracket group of nested indexing
		loc := innerIdxRe.FindAllStringIndex(s, -1)
		for i := len(loc) - 1; i >= 0; i-- {
			inner := s[loc[i][0]:loc[i][1]]
			if strings.Count(s[:loc[i][0]], "[") > strings.Count(s[:loc[i][0]], "]") {
				s = s[:loc[i][0]] + "[*]" + s[loc[i][1]:]
				_ = inner
			}
		}
	}
	return s
}
