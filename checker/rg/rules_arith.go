package rg

import (
	"os"
	"fmt"
	"go/constant"
	"go/token"
	"go/types"
	"math"
	"strings"

	"golang.org/x/tools/go/ssa"
)

func isIntType(t types.Type) bool {
	b, ok := t.Underlying().(*types.Basic)
	return ok && b.Info()&types.IsInteger != 0
}

// derivesFromParse: value derives (locally) from strconv.ParseInt/Atoi/ParseUint.
func derivesFromParse(v ssa.Value) bool { return derivesFromParseD(v, 0) }

// fieldStoreMemo: per struct field (its *types.Var), the values stored into it anywhere in its package, and whether an
// address of the field is handed to something else (a table of targets: {"ex": {&o.ex, &o.exval}}).
var fieldStoreMemo = map[*types.Var]*fieldStores{}

type fieldStores struct {
	vals    []ssa.Value
	escapes bool
}

func storesIntoField(fv *types.Var, from *ssa.Function) *fieldStores {
	if r, ok := fieldStoreMemo[fv]; ok {
		return r
	}
	r := &fieldStores{}
	fieldStoreMemo[fv] = r
	if from == nil || from.Pkg == nil {
		return r
	}
	var fns []*ssa.Function
	var add func(f *ssa.Function)
	add = func(f *ssa.Function) {
		fns = append(fns, f)
		for _, a := range f.AnonFuncs {
			add(a)
		}
	}
	for _, m := range from.Pkg.Members {
		switch x := m.(type) {
		case *ssa.Function:
			add(x)
		case *ssa.Type:
			for _, t := range []types.Type{x.Type(), types.NewPointer(x.Type())} {
				ms := from.Prog.MethodSets.MethodSet(t)
				for i := 0; i < ms.Len(); i++ {
					if f := from.Prog.MethodValue(ms.At(i)); f != nil && f.Pkg == from.Pkg {
						add(f)
					}
				}
			}
		}
	}
	seen := map[*ssa.Function]bool{}
	for _, f := range fns {
		if seen[f] {
			continue
		}
		seen[f] = true
		for _, b := range f.Blocks {
			for _, in := range b.Instrs {
				fa, ok := in.(*ssa.FieldAddr)
				if !ok || fa.Referrers() == nil {
					continue
				}
				st, ok := fa.X.Type().Underlying().(*types.Pointer)
				if !ok {
					continue
				}
				str, ok := st.Elem().Underlying().(*types.Struct)
				if !ok || fa.Field >= str.NumFields() || str.Field(fa.Field) != fv {
					continue
				}
				for _, rr := range *fa.Referrers() {
					switch y := rr.(type) {
					case *ssa.Store:
						if y.Addr == ssa.Value(fa) {
							r.vals = append(r.vals, y.Val)
						} else {
							r.escapes = true
						}
					case *ssa.UnOp, *ssa.DebugRef:
					default:
						r.escapes = true
					}
				}
			}
		}
	}
	return r
}

func derivesFromParseD(v ssa.Value, depth int) bool {
	found := false
	// a number kept in a field of an options record: parsed if something parsed is stored into that field somewhere in
	// the package, or if the field's address is handed out (a table of option targets) and the function that fills
	// through such addresses parses
	viaField := func(fv *types.Var, from *ssa.Function) bool {
		if depth >= 2 || !isIntType(fv.Type()) {
			return false
		}
		fs := storesIntoField(fv, from)
		for _, sv := range fs.vals {
			if derivesFromParseD(sv, depth+1) {
				return true
			}
		}
		return fs.escapes
	}
	backslice(v, func(x ssa.Value) bool {
		switch y := x.(type) {
		case *ssa.UnOp:
			if fa, ok := y.X.(*ssa.FieldAddr); ok && y.Op == token.MUL {
				if pt, ok := fa.X.Type().Underlying().(*types.Pointer); ok {
					if str, ok := pt.Elem().Underlying().(*types.Struct); ok && fa.Field < str.NumFields() && firstPartyType(pt.Elem()) {
						if viaField(str.Field(fa.Field), y.Parent()) {
							found = true
						}
					}
				}
			}
			// a local whose address sits in a table of option targets ({"ex": {&ex, &exval}}) and is filled through it by
			// a function that parses
			if al, ok := y.X.(*ssa.Alloc); ok && y.Op == token.MUL && isIntType(y.Type()) && al.Referrers() != nil && depth < 2 {
				escapes := false
				for _, r := range *al.Referrers() {
					switch z := r.(type) {
					case *ssa.Store:
						if z.Addr != ssa.Value(al) {
							escapes = true
						}
					case *ssa.UnOp, *ssa.DebugRef:
					default:
						escapes = true
					}
				}
				if escapes && parsesSomewhere(y.Parent()) {
					found = true
				}
			}
		case *ssa.Field:
			if str, ok := y.X.Type().Underlying().(*types.Struct); ok && y.Field < str.NumFields() && firstPartyType(y.X.Type()) {
				if viaField(str.Field(y.Field), y.Parent()) {
					found = true
				}
			}
		}
		if found {
			return false
		}
		if call, ok := x.(*ssa.Call); ok {
			if cf := call.Call.StaticCallee(); cf != nil && cf.Pkg != nil && cf.Pkg.Pkg.Path() == "strconv" &&
				(cf.Name() == "ParseInt" || cf.Name() == "Atoi" || cf.Name() == "ParseUint") {
				found = true
			} else if cf != nil && firstParty(cf) && cf.Blocks != nil && depth < 2 {
				// a helper that reads the stored number (loadInteger(m, key)): some integer result of it is parsed text
				for _, b := range cf.Blocks {
					if ret, ok := b.Instrs[len(b.Instrs)-1].(*ssa.Return); ok {
						for _, rv := range ret.Results {
							if isIntType(rv.Type()) && derivesFromParseD(rv, depth+1) {
								found = true
							}
						}
					}
				}
			}
			return false
		}
		return !found
	})
	return found
}

// flowsToFormat: the value is (transitively, within the function) formatted back to text (i.e. it is a stored numeric update).
func flowsToFormat(v ssa.Value) bool {
	seen := map[ssa.Value]bool{}
	var walk func(v ssa.Value, d int) bool
	walk = func(v ssa.Value, d int) bool {
		if seen[v] || d > 8 || v.Referrers() == nil {
			return false
		}
		seen[v] = true
		for _, r := range *v.Referrers() {
			switch x := r.(type) {
			case *ssa.Call:
				if cf := x.Call.StaticCallee(); cf != nil && cf.Pkg != nil && cf.Pkg.Pkg.Path() == "strconv" && (strings.HasPrefix(cf.Name(), "Format") || cf.Name() == "Itoa" || strings.HasPrefix(cf.Name(), "Append")) {
					return true
				}
				// handed to a helper that writes the number back (storeInteger(m, key, n))
				if cf := x.Call.StaticCallee(); cf != nil && firstParty(cf) && cf.Blocks != nil && d < 6 {
					for i, a := range x.Call.Args {
						if a == v && i < len(cf.Params) && walk(cf.Params[i], d+3) {
							return true
						}
					}
				}
			case *ssa.Phi:
				if walk(x, d+1) {
					return true
				}
			case *ssa.Convert:
				if walk(x, d+1) {
					return true
				}
			case *ssa.Store:
				if al, ok := x.Addr.(*ssa.Alloc); ok {
					for _, rr := range *al.Referrers() {
						if ld, ok := rr.(*ssa.UnOp); ok && walk(ld, d+1) {
							return true
						}
					}
				}
			}
		}
		return false
	}
	return walk(v, 0)
}

func bigConst(v ssa.Value) (hi, lo bool) {
	c, ok := v.(*ssa.Const)
	if !ok || c.Value == nil || c.Value.Kind() != constant.Int {
		return
	}
	if i, exact := constant.Int64Val(c.Value); exact {
		hi = i >= math.MaxInt64-1
		lo = i <= math.MinInt64+1
	}
	return
}

// guardKinds inspects all comparisons in fn that mention one of the operands and an extreme constant, whose
// "overflow" edge cannot reach the arithmetic instruction.
func overflowGuards(fn *ssa.Function, arith ssa.Instruction, operands []ssa.Value) (hi, lo bool) {
	// the values an operand can be: itself, and for a phi (delta := 1; if withAmount { delta = amount }) its incoming
	// values other than small constants
	opVals := map[ssa.Value]bool{}
	var expand func(v ssa.Value, d int)
	expand = func(v ssa.Value, d int) {
		if opVals[v] || d > 4 {
			return
		}
		opVals[v] = true
		switch x := v.(type) {
		case *ssa.Phi:
			for _, e := range x.Edges {
				if h, l := bigConst(e); h || l {
					continue
				}
				expand(e, d+1)
			}
		case *ssa.Convert:
			expand(x.X, d+1)
		}
	}
	for _, o := range operands {
		expand(o, 0)
	}
	isOperand := func(v ssa.Value) bool {
		f := false
		backslice(v, func(x ssa.Value) bool {
			if opVals[x] {
				f = true
			}
			_, isCall := x.(*ssa.Call)
			return !f && !isCall
		})
		return f
	}
	extreme := func(v ssa.Value) (h, l bool) {
		backslice(v, func(x ssa.Value) bool {
			a, b := bigConst(x)
			h = h || a
			l = l || b
			_, isCall := x.(*ssa.Call)
			return !isCall
		})
		return
	}
	reach := func(from, target *ssa.BasicBlock) bool {
		seen := map[*ssa.BasicBlock]bool{}
		var dfs func(b *ssa.BasicBlock) bool
		dfs = func(b *ssa.BasicBlock) bool {
			if b == target {
				return true
			}
			if seen[b] {
				return false
			}
			seen[b] = true
			for _, s := range b.Succs {
				if dfs(s) {
					return true
				}
			}
			return false
		}
		return dfs(from)
	}
	for _, b := range fn.Blocks {
		if len(b.Instrs) == 0 {
			continue
		}
		iff, ok := b.Instrs[len(b.Instrs)-1].(*ssa.If)
		if !ok {
			continue
		}
		// the comparisons this branch decides on: the condition itself, or -- for a boolean variable that collects the
		// verdict of several comparisons (overflow := false; switch { case inc > 0: overflow = v > Max-inc; .. }) -- every
		// comparison that can flow into it; such a variable must send its true edge away from the arithmetic
		var cmps []*ssa.BinOp
		viaFlag := false
		// the test handed to a predicate (if addOverflows(cur, delta) { return errOverflow }): the bounds it compares with
		{
			cv := iff.Cond
			for {
				u, isNot := cv.(*ssa.UnOp)
				if !isNot || u.Op != token.NOT {
					break
				}
				cv = u.X
			}
			if pc, isCall := cv.(*ssa.Call); isCall {
				if cf := pc.Call.StaticCallee(); cf != nil && firstParty(cf) && cf.Blocks != nil && len(cf.Blocks) <= 12 {
					takes := false
					for _, a := range pc.Call.Args {
						if isOperand(a) {
							takes = true
						}
					}
					if takes && (b.Dominates(arith.Block()) || reach(b, arith.Block())) && (!reach(b.Succs[0], arith.Block()) || !reach(b.Succs[1], arith.Block())) {
						for _, cb := range cf.Blocks {
							for _, ci := range cb.Instrs {
								if bo, ok := ci.(*ssa.BinOp); ok {
									switch bo.Op {
									case token.GTR, token.LSS, token.GEQ, token.LEQ:
										h1, l1 := extreme(bo.X)
										h2, l2 := extreme(bo.Y)
										hi = hi || h1 || h2
										lo = lo || l1 || l2
									}
								}
							}
						}
					}
				}
			}
		}
		if bo, ok := iff.Cond.(*ssa.BinOp); ok {
			cmps = []*ssa.BinOp{bo}
		} else if phi, ok := iff.Cond.(*ssa.Phi); ok {
			seenV := map[ssa.Value]bool{}
			var collect func(v ssa.Value)
			collect = func(v ssa.Value) {
				if seenV[v] {
					return
				}
				seenV[v] = true
				switch x := v.(type) {
				case *ssa.Phi:
					for _, e := range x.Edges {
						collect(e)
					}
				case *ssa.BinOp:
					cmps = append(cmps, x)
				}
			}
			collect(phi)
			viaFlag = true
		}
		for _, bo := range cmps {
			switch bo.Op {
			case token.GTR, token.LSS, token.GEQ, token.LEQ, token.EQL, token.NEQ:
			default:
				continue
			}
			var h, l bool
			if isOperand(bo.X) {
				h, l = extreme(bo.Y)
			}
			if isOperand(bo.Y) {
				h2, l2 := extreme(bo.X)
				h, l = h || h2, l || l2
			}
			if !h && !l {
				continue
			}
			// one of the two edges must be an "overflow" edge that never reaches the arithmetic
			if !b.Dominates(arith.Block()) && !reach(b, arith.Block()) {
				continue
			}
			rejects := !reach(b.Succs[0], arith.Block()) || !reach(b.Succs[1], arith.Block())
			if viaFlag {
				rejects = !reach(b.Succs[0], arith.Block())
			}
			if !rejects {
				continue
			}
			hi = hi || h
			lo = lo || l
		}
	}
	return
}

var rR19 = RuleRef{Name: "R19", Doc: "checked arithmetic: every integer +/-/negation whose operand derives from a parsed client integer and whose result is written back as a stored number is protected by overflow guards (comparisons of an operand against MaxInt64/MinInt64-derived bounds whose overflow edge cannot reach the arithmetic)", Run: func(c *C) {
	n := 0
	for _, fn := range c.P.allFuncs("memdb") {
		ord := map[string]int{}
		for _, b := range fn.Blocks {
			for _, in := range b.Instrs {
				var operands []ssa.Value
				var res ssa.Value
				needHi, needLo := true, true
				what := ""
				switch x := in.(type) {
				case *ssa.BinOp:
					if (x.Op != token.ADD && x.Op != token.SUB) || !isIntType(x.Type()) {
						continue
					}
					operands, res, what = []ssa.Value{x.X, x.Y}, x, "integer "+x.Op.String()
					if k, ok := constInt(x.Y); ok {
						// +k only overflows upward for k>0, -k only downward
						up := (x.Op == token.ADD) == (k > 0)
						needHi, needLo = up, !up
					}
				case *ssa.UnOp:
					if x.Op != token.SUB || !isIntType(x.Type()) {
						continue
					}
					operands, res, what = []ssa.Value{x.X}, x, "integer negation"
					needHi, needLo = false, true
				default:
					continue
				}
				parsed := false
				for _, o := range operands {
					if derivesFromParse(o) {
						parsed = true
					}
				}
				if !parsed || !flowsToFormat(res) {
					continue
				}
				n++
				hi, lo := overflowGuards(fn, in, operands)
				ok := (!needHi || hi) && (!needLo || lo)
				con := what + " on a parsed client integer"
				ord[con]++
				if ord[con] > 1 {
					con = fmt.Sprintf("%s#%d", con, ord[con])
				}
				c.Add("R19", fnName(fn), con, in.Pos(), ok, fmt.Sprintf("upper guard needed=%v found=%v, lower guard needed=%v found=%v", needHi, hi, needLo, lo))
			}
		}
	}
	c.Count("R19_stored_integer_updates", n)
	c.Min("R19_stored_integer_updates", 5)
}}

// R19w: arithmetic on client integers does not wrap.
var rR19w = RuleRef{Name: "R19w", Doc: "no wrap-around on client integers: an integer addition or subtraction in the command layer one of whose operands derives from a number parsed out of the client's text is shown not to overflow -- for x+y either an operand is known non-positive or both are bounded above, and either an operand is known non-negative or both are bounded below (x-y likewise with y's sign turned); `end++` on a raw parsed index turns MaxInt64 into MinInt64 and the range checks that follow accept what they should clamp. Updates of stored numbers are R19's", Run: func(c *C) {
	n := 0
	const big = int64(1) << 62
	for _, fn := range c.P.allFuncs("memdb") {
		var pr *bprover
		ord := map[string]int{}
		for _, b := range fn.Blocks {
			for _, in := range b.Instrs {
				x, ok := in.(*ssa.BinOp)
				if !ok || (x.Op != token.ADD && x.Op != token.SUB) || !isSignedInt(x.Type()) || intWidth(x.Type()) < 64 {
					continue
				}
				if !derivesFromParse(x.X) && !derivesFromParse(x.Y) {
					continue
				}
				if flowsToFormat(x) {
					continue // R19
				}
				// MaxInt64 - n, MinInt64 + n: the bound of an overflow guard; it cannot wrap for the sign the guard is for,
				// and whether the guard is the right one is R19's question
				if h, l := bigConst(x.X); h || l {
					continue
				}
				if h, l := bigConst(x.Y); h || l {
					continue
				}
				n++
				if pr == nil {
					pr = c.newProver(fn)
				}
				zero := lt{"0", 0}
				// a quotient by a constant of at least four is within 2^62 whatever was divided
				small := func(v ssa.Value) bool {
					for {
						if cv, ok := v.(*ssa.Convert); ok && isSignedInt(cv.X.Type()) {
							v = cv.X
							continue
						}
						break
					}
					if q, ok := v.(*ssa.BinOp); ok && q.Op == token.QUO {
						if k, ok := constInt(q.Y); ok && (k >= 4 || k <= -4) {
							return true
						}
					}
					return false
				}
				le0 := func(v ssa.Value) bool { return pr.ProveLE(pr.lin(v), zero, 0, x) }
				ge0 := func(v ssa.Value) bool { return clockValue(v) || pr.ProveLE(zero, pr.lin(v), 0, x) }
				vouched := func(v ssa.Value, above bool) bool {
					if fv := recordFieldOf(v); fv != nil {
						return fieldGuarded(fv, fn, above)
					}
					return false
				}
				leBig := func(v ssa.Value) bool {
					return small(v) || clockValue(v) || vouched(v, true) || pr.ProveLE(pr.lin(v), zero, big, x)
				}
				geBig := func(v ssa.Value) bool {
					return small(v) || clockValue(v) || vouched(v, false) || pr.ProveLE(zero, pr.lin(v), big, x)
				}
				var okHi, okLo bool
				if x.Op == token.ADD {
					okHi = le0(x.X) || le0(x.Y) || (leBig(x.X) && leBig(x.Y))
					okLo = ge0(x.X) || ge0(x.Y) || (geBig(x.X) && geBig(x.Y))
				} else {
					// x - y: wraps upward when x large and y very negative, downward when x very negative and y large
					okHi = le0(x.X) || ge0(x.Y) || (leBig(x.X) && geBig(x.Y))
					okLo = ge0(x.X) || le0(x.Y) || (geBig(x.X) && leBig(x.Y))
				}
				con := "integer " + x.Op.String() + " on a parsed client integer does not wrap"
				ord[con]++
				if ord[con] > 1 {
					con = fmt.Sprintf("%s#%d", con, ord[con])
				}
				if os.Getenv("RG_DBG_R19W") != "" {
					fmt.Fprintf(os.Stderr, "R19w %s %s hi=%v lo=%v le0X=%v le0Y=%v bigX=%v bigY=%v smallY=%v linY=%v absurd=%v\n", fnName(fn), c.pos(x.Pos()), okHi, okLo, le0(x.X), le0(x.Y), leBig(x.X), leBig(x.Y), small(x.Y), pr.lin(x.Y), pr.ProveLE(zero, zero, -1, x))
				}
				c.Add("R19w", fnName(fn), con, x.Pos(), okHi && okLo, fmt.Sprintf("%s: no upward wrap shown=%v, no downward wrap shown=%v", siteExprBin(x), okHi, okLo))
			}
		}
	}
	c.Count("R19w_client_integer_sums", n)
	c.Min("R19w_client_integer_sums", 3)
}}

func siteExprBin(x *ssa.BinOp) string {
	return fmt.Sprintf("%s %s %s", x.X.Name(), x.Op.String(), x.Y.Name())
}

// clockValue: the current unix time in seconds or milliseconds (time.Now().Unix(), UnixMilli()): far inside 2^62.
func clockValue(v ssa.Value) bool {
	call, ok := v.(*ssa.Call)
	if !ok {
		return false
	}
	cf := call.Call.StaticCallee()
	if cf == nil || cf.Pkg == nil || cf.Pkg.Pkg.Path() != "time" {
		return false
	}
	switch cf.Name() {
	case "Unix", "UnixMilli":
		return cf.Signature.Recv() != nil
	}
	return false
}

// firstPartyType: a named type declared in the repository's own packages.
func firstPartyType(t types.Type) bool {
	n, ok := t.(*types.Named)
	if !ok {
		if a, isAlias := t.(*types.Alias); isAlias {
			n, ok = types.Unalias(a).(*types.Named)
		}
		if !ok {
			return false
		}
	}
	return n.Obj() != nil && n.Obj().Pkg() != nil && strings.HasPrefix(n.Obj().Pkg().Path(), ModPath)
}

// parsesSomewhere: fn (or a closure of it) calls strconv.ParseInt/Atoi/ParseUint.
func parsesSomewhere(fn *ssa.Function) bool {
	if fn == nil {
		return false
	}
	fns := []*ssa.Function{fn}
	fns = append(fns, fn.AnonFuncs...)
	for _, f := range fns {
		for _, b := range f.Blocks {
			for _, in := range b.Instrs {
				if call, ok := in.(*ssa.Call); ok {
					if cf := call.Call.StaticCallee(); cf != nil && cf.Pkg != nil && cf.Pkg.Pkg.Path() == "strconv" && (cf.Name() == "ParseInt" || cf.Name() == "Atoi" || cf.Name() == "ParseUint") {
						return true
					}
				}
			}
		}
	}
	return false
}

// fieldGuarded: every parsed value stored into record field fv (anywhere in its package) is range-checked by the function
// that stores it: that function compares the stored value, or a load of the same field, with a constant of at most 2^62
// in magnitude, and the out-of-range outcome of the comparison reaches no return that reports success (last result nil).
// above=true asks for an upper bound, false for a lower one. This is how an options parser that fills a record
// (parseSetOptions) vouches for the numbers the executor adds up later.
func fieldGuarded(fv *types.Var, from *ssa.Function, above bool) bool {
	fs := storesIntoField(fv, from)
	if fs.escapes || len(fs.vals) == 0 {
		return false
	}
	const big = int64(1) << 62
	for _, sv := range fs.vals {
		if !derivesFromParseD(sv, 1) {
			if _, isC := sv.(*ssa.Const); isC {
				continue
			}
			if !derivesFromParseD(sv, 0) {
				continue
			}
		}
		in, ok := sv.(ssa.Instruction)
		if !ok {
			return false
		}
		g := in.Parent()
		// the values that stand for the stored number in g: sv itself and loads of the field
		stands := func(v ssa.Value) bool {
			for {
				if cv, ok := v.(*ssa.Convert); ok {
					v = cv.X
					continue
				}
				break
			}
			if v == sv {
				return true
			}
			if u, ok := v.(*ssa.UnOp); ok && u.Op == token.MUL {
				if fa, ok := u.X.(*ssa.FieldAddr); ok {
					if pt, ok := fa.X.Type().Underlying().(*types.Pointer); ok {
						if st, ok := pt.Elem().Underlying().(*types.Struct); ok && fa.Field < st.NumFields() && st.Field(fa.Field) == fv {
							return true
						}
					}
				}
			}
			return false
		}
		succeeds := func(b *ssa.BasicBlock) bool {
			seen := map[*ssa.BasicBlock]bool{}
			var dfs func(x *ssa.BasicBlock) bool
			dfs = func(x *ssa.BasicBlock) bool {
				if seen[x] {
					return false
				}
				seen[x] = true
				if ret, ok := x.Instrs[len(x.Instrs)-1].(*ssa.Return); ok {
					if len(ret.Results) == 0 {
						return true
					}
					rr := retResults(ret)
					for _, v := range rr[len(rr)-1] {
						if isNilConst(v) {
							return true
						}
						if _, isC := v.(*ssa.Const); !isC {
							if _, isCall := v.(*ssa.Call); !isCall {
								if _, isMI := v.(*ssa.MakeInterface); !isMI {
									return true // a computed last result: may be success
								}
							}
						}
					}
					return false
				}
				for _, s := range x.Succs {
					if dfs(s) {
						return true
					}
				}
				return false
			}
			return dfs(b)
		}
		guarded := false
		for _, b := range g.Blocks {
			iff, ok := b.Instrs[len(b.Instrs)-1].(*ssa.If)
			if !ok {
				continue
			}
			// the comparisons that decide this branch (through || and && phis)
			var cmps []*ssa.BinOp
			seenV := map[ssa.Value]bool{}
			var collect func(v ssa.Value)
			collect = func(v ssa.Value) {
				if seenV[v] {
					return
				}
				seenV[v] = true
				switch x := v.(type) {
				case *ssa.BinOp:
					cmps = append(cmps, x)
				case *ssa.Phi:
					for _, e := range x.Edges {
						collect(e)
					}
				}
			}
			collect(iff.Cond)
			for _, bo := range cmps {
				var k int64
				var kOK, numLeft bool
				if c, ok := constInt(bo.Y); ok && stands(bo.X) {
					k, kOK, numLeft = c, true, true
				} else if c, ok := constInt(bo.X); ok && stands(bo.Y) {
					k, kOK, numLeft = c, true, false
				}
				if !kOK || k > big || k < -big {
					continue
				}
				op := bo.Op
				if !numLeft { // c op x  ==  x op' c
					switch op {
					case token.LSS:
						op = token.GTR
					case token.LEQ:
						op = token.GEQ
					case token.GTR:
						op = token.LSS
					case token.GEQ:
						op = token.LEQ
					}
				}
				// which outcome is "out of range" on the side asked for
				var outEdge int // index into Succs of the out-of-range outcome of this comparison being true (0) or false (1)
				switch {
				case above && (op == token.GTR || op == token.GEQ):
					outEdge = 0
				case above && (op == token.LSS || op == token.LEQ):
					outEdge = 1
				case !above && (op == token.LSS || op == token.LEQ):
					outEdge = 0
				case !above && (op == token.GTR || op == token.GEQ):
					outEdge = 1
				default:
					continue
				}
				if ssa.Value(bo) == iff.Cond {
					if !succeeds(b.Succs[outEdge]) {
						guarded = true
					}
				} else if outEdge == 0 {
					// an operand of a || chain: the branch is taken to its true side when this comparison holds
					if !succeeds(b.Succs[0]) {
						guarded = true
					}
				}
			}
		}
		if !guarded {
			return false
		}
	}
	return true
}

// recordFieldOf: v is a load of (or a Field access to) an integer field of a first-party record; the field.
func recordFieldOf(v ssa.Value) *types.Var {
	for {
		if cv, ok := v.(*ssa.Convert); ok {
			v = cv.X
			continue
		}
		break
	}
	switch y := v.(type) {
	case *ssa.UnOp:
		if fa, ok := y.X.(*ssa.FieldAddr); ok && y.Op == token.MUL {
			if pt, ok := fa.X.Type().Underlying().(*types.Pointer); ok {
				if st, ok := pt.Elem().Underlying().(*types.Struct); ok && fa.Field < st.NumFields() && firstPartyType(pt.Elem()) {
					return st.Field(fa.Field)
				}
			}
		}
	case *ssa.Field:
		if st, ok := y.X.Type().Underlying().(*types.Struct); ok && y.Field < st.NumFields() && firstPartyType(y.X.Type()) {
			return st.Field(y.Field)
		}
	}
	return nil
}
