package rg

import (
	"fmt"
	"go/constant"
	"go/token"
	"go/types"
	"math"
	"strings"

	"golang.org/x/tools/go/ssa"
)

func isIntType(t types.Type) bool {
	b, ok := t.Underlying().(*types.Basic)
	return ok && b.Info()&types.IsInteger != 0
}

// derivesFromParse: value derives (locally) from strconv.ParseInt/Atoi/ParseUint.
func derivesFromParse(v ssa.Value) bool { return derivesFromParseD(v, 0) }

func derivesFromParseD(v ssa.Value, depth int) bool {
	found := false
	backslice(v, func(x ssa.Value) bool {
		if call, ok := x.(*ssa.Call); ok {
			if cf := call.Call.StaticCallee(); cf != nil && cf.Pkg != nil && cf.Pkg.Pkg.Path() == "strconv" &&
				(cf.Name() == "ParseInt" || cf.Name() == "Atoi" || cf.Name() == "ParseUint") {
				found = true
			} else if cf != nil && firstParty(cf) && cf.Blocks != nil && depth < 2 {
				// a helper that reads the stored number (loadInteger(m, key)): some integer result of it is parsed text
				for _, b := range cf.Blocks {
					if ret, ok := b.Instrs[len(b.Instrs)-1].(*ssa.Return); ok {
						for _, rv := range ret.Results {
							if isIntType(rv.Type()) && derivesFromParseD(rv, depth+1) {
								found = true
							}
						}
					}
				}
			}
			return false
		}
		return !found
	})
	return found
}

// flowsToFormat: the value is (transitively, within the function) formatted back to text (i.e. it is a stored numeric update).
func flowsToFormat(v ssa.Value) bool {
	seen := map[ssa.Value]bool{}
	var walk func(v ssa.Value, d int) bool
	walk = func(v ssa.Value, d int) bool {
		if seen[v] || d > 8 || v.Referrers() == nil {
			return false
		}
		seen[v] = true
		for _, r := range *v.Referrers() {
			switch x := r.(type) {
			case *ssa.Call:
				if cf := x.Call.StaticCallee(); cf != nil && cf.Pkg != nil && cf.Pkg.Pkg.Path() == "strconv" && (strings.HasPrefix(cf.Name(), "Format") || cf.Name() == "Itoa" || strings.HasPrefix(cf.Name(), "Append")) {
					return true
				}
				// handed to a helper that writes the number back (storeInteger(m, key, n))
				if cf := x.Call.StaticCallee(); cf != nil && firstParty(cf) && cf.Blocks != nil && d < 6 {
					for i, a := range x.Call.Args {
						if a == v && i < len(cf.Params) && walk(cf.Params[i], d+3) {
							return true
						}
					}
				}
			case *ssa.Phi:
				if walk(x, d+1) {
					return true
				}
			case *ssa.Convert:
				if walk(x, d+1) {
					return true
				}
			case *ssa.Store:
				if al, ok := x.Addr.(*ssa.Alloc); ok {
					for _, rr := range *al.Referrers() {
						if ld, ok := rr.(*ssa.UnOp); ok && walk(ld, d+1) {
							return true
						}
					}
				}
			}
		}
		return false
	}
	return walk(v, 0)
}

func bigConst(v ssa.Value) (hi, lo bool) {
	c, ok := v.(*ssa.Const)
	if !ok || c.Value == nil || c.Value.Kind() != constant.Int {
		return
	}
	if i, exact := constant.Int64Val(c.Value); exact {
		hi = i >= math.MaxInt64-1
		lo = i <= math.MinInt64+1
	}
	return
}

// guardKinds inspects all comparisons in fn that mention one of the operands and an extreme constant, whose
// "overflow" edge cannot reach the arithmetic instruction.
func overflowGuards(fn *ssa.Function, arith ssa.Instruction, operands []ssa.Value) (hi, lo bool) {
	// the values an operand can be: itself, and for a phi (delta := 1; if withAmount { delta = amount }) its incoming
	// values other than small constants
	opVals := map[ssa.Value]bool{}
	var expand func(v ssa.Value, d int)
	expand = func(v ssa.Value, d int) {
		if opVals[v] || d > 4 {
			return
		}
		opVals[v] = true
		switch x := v.(type) {
		case *ssa.Phi:
			for _, e := range x.Edges {
				if h, l := bigConst(e); h || l {
					continue
				}
				expand(e, d+1)
			}
		case *ssa.Convert:
			expand(x.X, d+1)
		}
	}
	for _, o := range operands {
		expand(o, 0)
	}
	isOperand := func(v ssa.Value) bool {
		f := false
		backslice(v, func(x ssa.Value) bool {
			if opVals[x] {
				f = true
			}
			_, isCall := x.(*ssa.Call)
			return !f && !isCall
		})
		return f
	}
	extreme := func(v ssa.Value) (h, l bool) {
		backslice(v, func(x ssa.Value) bool {
			a, b := bigConst(x)
			h = h || a
			l = l || b
			_, isCall := x.(*ssa.Call)
			return !isCall
		})
		return
	}
	reach := func(from, target *ssa.BasicBlock) bool {
		seen := map[*ssa.BasicBlock]bool{}
		var dfs func(b *ssa.BasicBlock) bool
		dfs = func(b *ssa.BasicBlock) bool {
			if b == target {
				return true
			}
			if seen[b] {
				return false
			}
			seen[b] = true
			for _, s := range b.Succs {
				if dfs(s) {
					return true
				}
			}
			return false
		}
		return dfs(from)
	}
	for _, b := range fn.Blocks {
		if len(b.Instrs) == 0 {
			continue
		}
		iff, ok := b.Instrs[len(b.Instrs)-1].(*ssa.If)
		if !ok {
			continue
		}
		// the comparisons this branch decides on: the condition itself, or -- for a boolean variable that collects the
		// verdict of several comparisons (overflow := false; switch { case inc > 0: overflow = v > Max-inc; .. }) -- every
		// comparison that can flow into it; such a variable must send its true edge away from the arithmetic
		var cmps []*ssa.BinOp
		viaFlag := false
		if bo, ok := iff.Cond.(*ssa.BinOp); ok {
			cmps = []*ssa.BinOp{bo}
		} else if phi, ok := iff.Cond.(*ssa.Phi); ok {
			seenV := map[ssa.Value]bool{}
			var collect func(v ssa.Value)
			collect = func(v ssa.Value) {
				if seenV[v] {
					return
				}
				seenV[v] = true
				switch x := v.(type) {
				case *ssa.Phi:
					for _, e := range x.Edges {
						collect(e)
					}
				case *ssa.BinOp:
					cmps = append(cmps, x)
				}
			}
			collect(phi)
			viaFlag = true
		}
		for _, bo := range cmps {
			switch bo.Op {
			case token.GTR, token.LSS, token.GEQ, token.LEQ, token.EQL, token.NEQ:
			default:
				continue
			}
			var h, l bool
			if isOperand(bo.X) {
				h, l = extreme(bo.Y)
			}
			if isOperand(bo.Y) {
				h2, l2 := extreme(bo.X)
				h, l = h || h2, l || l2
			}
			if !h && !l {
				continue
			}
			// one of the two edges must be an "overflow" edge that never reaches the arithmetic
			if !b.Dominates(arith.Block()) && !reach(b, arith.Block()) {
				continue
			}
			rejects := !reach(b.Succs[0], arith.Block()) || !reach(b.Succs[1], arith.Block())
			if viaFlag {
				rejects = !reach(b.Succs[0], arith.Block())
			}
			if !rejects {
				continue
			}
			hi = hi || h
			lo = lo || l
		}
	}
	return
}

var rR19 = RuleRef{Name: "R19", Doc: "checked arithmetic: every integer +/-/negation whose operand derives from a parsed client integer and whose result is written back as a stored number is protected by overflow guards (comparisons of an operand against MaxInt64/MinInt64-derived bounds whose overflow edge cannot reach the arithmetic)", Run: func(c *C) {
	n := 0
	for _, fn := range c.P.allFuncs("memdb") {
		ord := map[string]int{}
		for _, b := range fn.Blocks {
			for _, in := range b.Instrs {
				var operands []ssa.Value
				var res ssa.Value
				needHi, needLo := true, true
				what := ""
				switch x := in.(type) {
				case *ssa.BinOp:
					if (x.Op != token.ADD && x.Op != token.SUB) || !isIntType(x.Type()) {
						continue
					}
					operands, res, what = []ssa.Value{x.X, x.Y}, x, "integer "+x.Op.String()
					if k, ok := constInt(x.Y); ok {
						// +k only overflows upward for k>0, -k only downward
						up := (x.Op == token.ADD) == (k > 0)
						needHi, needLo = up, !up
					}
				case *ssa.UnOp:
					if x.Op != token.SUB || !isIntType(x.Type()) {
						continue
					}
					operands, res, what = []ssa.Value{x.X}, x, "integer negation"
					needHi, needLo = false, true
				default:
					continue
				}
				parsed := false
				for _, o := range operands {
					if derivesFromParse(o) {
						parsed = true
					}
				}
				if !parsed || !flowsToFormat(res) {
					continue
				}
				n++
				hi, lo := overflowGuards(fn, in, operands)
				ok := (!needHi || hi) && (!needLo || lo)
				con := what + " on a parsed client integer"
				ord[con]++
				if ord[con] > 1 {
					con = fmt.Sprintf("%s#%d", con, ord[con])
				}
				c.Add("R19", fnName(fn), con, in.Pos(), ok, fmt.Sprintf("upper guard needed=%v found=%v, lower guard needed=%v found=%v", needHi, hi, needLo, lo))
			}
		}
	}
	c.Count("R19_stored_integer_updates", n)
	c.Min("R19_stored_integer_updates", 5)
}}
