package rg

import (
	"fmt"
	"go/constant"
	"go/token"
	"go/types"
	"sort"
	"strings"

	"golang.org/x/tools/go/ssa"
)

// ---------- R15 (extension): memory of a stored container that leaves it through a getter ----------

// internalAlias reports which results of the container method cf are the receiver's own map or slice (possibly re-sliced):
// memory that a writer of the container changes in place. Result index -> field name.
func (c *C) internalAlias(cf *ssa.Function) map[int]string {
	cf = origin(cf)
	if c.retAliasMemo == nil {
		c.retAliasMemo = map[*ssa.Function]map[int]string{}
	}
	if r, ok := c.retAliasMemo[cf]; ok {
		return r
	}
	c.retAliasMemo[cf] = nil
	if cf == nil || cf.Blocks == nil || cf.Signature.Recv() == nil || len(cf.Params) == 0 {
		return nil
	}
	if _, ok := c.containerType(cf.Params[0].Type()); !ok {
		return nil
	}
	recv := cf.Params[0]
	var fieldOf func(v ssa.Value, seen map[ssa.Value]bool) string
	fieldOf = func(v ssa.Value, seen map[ssa.Value]bool) string {
		if v == nil || seen[v] {
			return ""
		}
		seen[v] = true
		switch x := v.(type) {
		case *ssa.Slice:
			return fieldOf(x.X, seen)
		case *ssa.ChangeType:
			return fieldOf(x.X, seen)
		case *ssa.Phi:
			for _, e := range x.Edges {
				if f := fieldOf(e, seen); f != "" {
					return f
				}
			}
		case *ssa.UnOp:
			if x.Op != token.MUL {
				return ""
			}
			if fa, ok := x.X.(*ssa.FieldAddr); ok {
				// the field of the receiver itself or of a record the receiver holds
				root := fa.X
				name := fieldName(fa)
				for d := 0; d < 3; d++ {
					if root == ssa.Value(recv) {
						return name
					}
					if u, ok := root.(*ssa.UnOp); ok && u.Op == token.MUL {
						if fa2, ok := u.X.(*ssa.FieldAddr); ok {
							name = fieldName(fa2) + "." + name
							root = fa2.X
							continue
						}
					}
					if fa2, ok := root.(*ssa.FieldAddr); ok {
						name = fieldName(fa2) + "." + name
						root = fa2.X
						continue
					}
					break
				}
			}
			if al, ok := x.X.(*ssa.Alloc); ok {
				// a local that one of its stores fills with the field
				for _, r := range *al.Referrers() {
					if st, ok := r.(*ssa.Store); ok && st.Addr == ssa.Value(al) {
						if f := fieldOf(st.Val, seen); f != "" {
							return f
						}
					}
				}
			}
		}
		return ""
	}
	out := map[int]string{}
	for _, b := range cf.Blocks {
		for _, in := range b.Instrs {
			ret, ok := in.(*ssa.Return)
			if !ok {
				continue
			}
			for i, r := range ret.Results {
				switch r.Type().Underlying().(type) {
				case *types.Map, *types.Slice:
				default:
					continue
				}
				if f := fieldOf(r, map[ssa.Value]bool{}); f != "" {
					out[i] = f
				}
			}
		}
	}
	if len(out) == 0 {
		out = nil
	}
	c.retAliasMemo[cf] = out
	return out
}

// writtenInPlace: some function of package memdb stores into an element of the slice kept in field `field` of the
// container type tn, copies into it or sorts it. Appending and re-slicing leave the elements a reader already holds alone.
func (c *C) writtenInPlace(tn string, field string) (bool, string) {
	key := tn + "." + field
	if c.inPlaceMemo == nil {
		c.inPlaceMemo = map[string]string{}
		last := func(f string) string {
			if i := strings.LastIndex(f, "."); i >= 0 {
				return f[i+1:]
			}
			return f
		}
		_ = last
		for _, fn := range c.P.allFuncs("memdb") {
			for _, b := range fn.Blocks {
				for _, in := range b.Instrs {
					var target ssa.Value
					what := ""
					switch x := in.(type) {
					case *ssa.Store:
						if ia, ok := x.Addr.(*ssa.IndexAddr); ok {
							target, what = ia.X, "element store"
						}
					case *ssa.Call:
						if bi, ok := x.Call.Value.(*ssa.Builtin); ok && bi.Name() == "copy" && len(x.Call.Args) == 2 {
							target, what = x.Call.Args[0], "copy into"
						} else if cf := x.Call.StaticCallee(); cf != nil && cf.Pkg != nil && (cf.Pkg.Pkg.Path() == "sort" || cf.Pkg.Pkg.Path() == "slices") && len(x.Call.Args) > 0 {
							target, what = x.Call.Args[0], cf.Pkg.Pkg.Name()+"."+cf.Name()
						}
					}
					if target == nil {
						continue
					}
					// strip re-slicing and interface wrapping
					for d := 0; d < 6; d++ {
						switch y := target.(type) {
						case *ssa.Slice:
							target = y.X
							continue
						case *ssa.MakeInterface:
							target = y.X
							continue
						case *ssa.ChangeType:
							target = y.X
							continue
						}
						break
					}
					u, ok := target.(*ssa.UnOp)
					if !ok || u.Op != token.MUL {
						continue
					}
					fa, ok := u.X.(*ssa.FieldAddr)
					if !ok {
						continue
					}
					n, ok := derefNamed(fa.X.Type())
					if !ok {
						continue
					}
					k := n.Obj().Name() + "." + fieldName(fa)
					if _, done := c.inPlaceMemo[k]; !done {
						c.inPlaceMemo[k] = what + " in " + fnName(fn) + " (" + c.pos(in.Pos()) + ")"
					}
				}
			}
		}
	}
	if w, ok := c.inPlaceMemo[key]; ok {
		return true, w
	}
	// a nested field name a.b: the last component decides, whatever record holds it
	if i := strings.LastIndex(field, "."); i >= 0 {
		for k, w := range c.inPlaceMemo {
			if strings.HasSuffix(k, "."+field[i+1:]) {
				return true, w
			}
		}
	}
	return false, ""
}

// aliasSites: uses of a container's own map or slice, handed out by one of its methods, inside fn. Each needs the key's
// stripe like the method call that produced it: a `range` over the live map of a hash after the unlock iterates memory
// that HSET of another client is writing.
func (la *lockAnalysis) aliasSites(fn *ssa.Function, name func(string) string) []lockSite {
	c := la.c
	var out []lockSite
	for _, b := range fn.Blocks {
		for _, in := range b.Instrs {
			call, ok := in.(*ssa.Call)
			if !ok {
				continue
			}
			cf := callee(call)
			if cf == nil || !firstParty(cf) || len(call.Call.Args) == 0 {
				continue
			}
			al := c.internalAlias(cf)
			if len(al) == 0 {
				continue
			}
			tn, ok := c.containerType(call.Call.Args[0].Type())
			if !ok {
				continue
			}
			keys, _ := c.originKeys(call.Call.Args[0])
			if len(keys) == 0 {
				continue
			}
			// the values that stand for the handed-out memory
			vals := map[ssa.Value]string{}
			var add func(v ssa.Value, f string)
			add = func(v ssa.Value, f string) {
				if _, ok := vals[v]; ok {
					return
				}
				vals[v] = f
				if v.Referrers() == nil {
					return
				}
				for _, r := range *v.Referrers() {
					switch y := r.(type) {
					case *ssa.Slice:
						if y.X == v {
							add(y, f)
						}
					case *ssa.Phi:
						add(y, f)
					case *ssa.ChangeType:
						add(y, f)
					case *ssa.Range:
						add(y, f)
					}
				}
			}
			if call.Call.Signature().Results().Len() == 1 {
				if f, ok := al[0]; ok {
					add(call, f)
				}
			} else if call.Referrers() != nil {
				for _, r := range *call.Referrers() {
					if ex, ok := r.(*ssa.Extract); ok {
						if f, ok := al[ex.Index]; ok {
							add(ex, f)
						}
					}
				}
			}
			type use struct {
				in   ssa.Instruction
				what string
				w    bool
			}
			var uses []use
			for v, f := range vals {
				if _, isMap := v.Type().Underlying().(*types.Map); !isMap {
					if _, isIter := v.(*ssa.Range); !isIter {
						if inplace, _ := c.writtenInPlace(tn, f); !inplace {
							continue // elements behind a handed-out slice header are never rewritten
						}
					}
				}
				if v.Referrers() == nil {
					continue
				}
				for _, r := range *v.Referrers() {
					switch y := r.(type) {
					case *ssa.Next:
						if y.Iter == v {
							uses = append(uses, use{y, "iteration over", false})
						}
					case *ssa.Lookup:
						if y.X == v {
							uses = append(uses, use{y, "lookup in", false})
						}
					case *ssa.MapUpdate:
						if y.Map == v {
							uses = append(uses, use{y, "update of", true})
						}
					case *ssa.IndexAddr:
						if y.X == v {
							uses = append(uses, use{y, "element of", false})
						}
					case *ssa.Index:
						if y.X == v {
							uses = append(uses, use{y, "element of", false})
						}
					}
				}
			}
			sort.Slice(uses, func(i, j int) bool { return uses[i].in.Pos() < uses[j].in.Pos() })
			for _, u := range uses {
				f := ""
				for _, ff := range al {
					f = ff
				}
				for _, k := range keys {
					out = append(out, lockSite{Fn: fn, In: u.in, Construct: name(fmt.Sprintf("%s %s.%s handed out by %s, value of %s", u.what, tn, f, cf.Name(), k)), Key: k, Write: u.w, Kind: "value", PosHint: call.Pos()})
				}
			}
		}
	}
	return out
}

// ---------- R17x: the cancel channel of a deadline record is closed by whoever removes the record ----------

var rR17x = RuleRef{Name: "R17x", Doc: "a deadline record's cancel channel is closed once: every close(info.cancel) acts on a record that was read from ttlKeys in the same hold of the key's stripe in which it is closed (or, in a helper that leaves locking to its callers, with no stripe operation of its own in between; a record handed in as a parameter is followed to the call sites). Closing a record read before the stripe was taken closes a channel that SetTTL, DelTTL or another CheckTTL may have closed in the meantime: `close of closed channel` in a connection goroutine ends the process", Run: func(c *C) {
	la := c.lockAn()
	n := 0
	fns := c.P.allFuncs("memdb")
	// origins of the record v, used (closed, or passed on towards the close) at instruction `use` of function fn
	var origins func(v ssa.Value, use ssa.Instruction, fn *ssa.Function, depth int, seen map[ssa.Value]bool, bad *[]string, nOrigins *int)
	origins = func(v ssa.Value, use ssa.Instruction, fn *ssa.Function, depth int, seen map[ssa.Value]bool, bad *[]string, nOrigins *int) {
		if v == nil || seen[v] {
			return
		}
		seen[v] = true
		lf := la.flow(fn)
		switch x := v.(type) {
		case *ssa.Phi:
			for _, e := range x.Edges {
				origins(e, use, fn, depth, seen, bad, nOrigins)
			}
		case *ssa.Extract:
			origins(x.Tuple, use, fn, depth, seen, bad, nOrigins)
		case *ssa.TypeAssert:
			origins(x.X, use, fn, depth, seen, bad, nOrigins)
		case *ssa.ChangeType:
			origins(x.X, use, fn, depth, seen, bad, nOrigins)
		case *ssa.MakeInterface:
			origins(x.X, use, fn, depth, seen, bad, nOrigins)
		case *ssa.UnOp:
			if al, ok := x.X.(*ssa.Alloc); ok && x.Op == token.MUL {
				for _, r := range *al.Referrers() {
					if st, ok := r.(*ssa.Store); ok && st.Addr == ssa.Value(al) {
						origins(st.Val, use, fn, depth, seen, bad, nOrigins)
					}
				}
				return
			}
			*bad = append(*bad, "the record comes from memory the analysis does not follow ("+x.String()+")")
		case *ssa.Const:
		case *ssa.Call:
			var key ssa.Value
			if a := c.keyspaceAccess(x); a != nil && a.Map == "ttlKeys" && !a.Write {
				key = a.Key
			} else if cf := callee(x); cf != nil && firstParty(cf) {
				if pi := c.ttlLookupHelper(cf); pi >= 0 && pi < len(x.Call.Args) {
					key = x.Call.Args[pi]
				}
			}
			if key == nil {
				*bad = append(*bad, "the record is the result of "+x.Call.Value.Name()+", not of a lookup in ttlKeys by key")
				return
			}
			*nOrigins++
			k := canon(key)
			var hg, hc *heldLock
			heldG, _ := lf.Held(x)
			for i := range heldG {
				if covers(heldG[i], k) {
					hg = &heldG[i]
				}
			}
			heldC, _ := lf.Held(use)
			for i := range heldC {
				if covers(heldC[i], k) {
					hc = &heldC[i]
				}
			}
			switch {
			case hg == nil && hc == nil:
				// locking is left to the callers (R15 turns that into an obligation at every call site): the function
				// itself must not operate the stripe between the read and the close
				for _, h := range lf.MayHeld(use) {
					if covers(h, k) {
						*bad = append(*bad, fmt.Sprintf("the record was read at %s without the stripe, which may be held at the close", c.pos(x.Pos())))
					}
				}
			case hg == nil:
				*bad = append(*bad, fmt.Sprintf("the record closed under %s(%s) was read at %s before the stripe was acquired", hc.Mode, hc.Key, c.pos(x.Pos())))
			case hc == nil:
				*bad = append(*bad, fmt.Sprintf("the record was read at %s under the stripe, which is no longer held at the close", c.pos(x.Pos())))
			case hg.Site != hc.Site:
				*bad = append(*bad, fmt.Sprintf("the record was read at %s in another hold of the stripe (acquired at %s) than the one the close is made in (%s)", c.pos(x.Pos()), hg.Site, hc.Site))
			case hc.Mode != "W":
				*bad = append(*bad, "the close is made under a read lock: two readers can both close")
			}
		case *ssa.Parameter:
			// a helper that is handed the record: it must not operate a stripe itself before the close, and every
			// call site must hand it a record read in the hold the call is made in
			if depth >= 3 {
				*bad = append(*bad, "the record is handed down through more than three helpers")
				return
			}
			for _, h := range lf.MayHeld(use) {
				if !strings.HasSuffix(h.Site, "entry") {
					*bad = append(*bad, fmt.Sprintf("%s takes %s(%s) itself before it closes the record it was handed", fnName(fn), h.Mode, h.Key))
				}
			}
			pi := -1
			for i, p := range fn.Params {
				if p == x {
					pi = i
				}
			}
			sites := 0
			for _, g := range fns {
				for _, b := range g.Blocks {
					for _, in := range b.Instrs {
						ci, ok := in.(ssa.CallInstruction)
						if !ok || callee(ci) != fn || pi >= len(ci.Common().Args) {
							continue
						}
						if _, isGo := in.(*ssa.Go); isGo {
							*bad = append(*bad, "the helper is started as a goroutine at "+c.pos(in.Pos()))
							continue
						}
						sites++
						origins(ci.Common().Args[pi], in, g, depth+1, map[ssa.Value]bool{}, bad, nOrigins)
					}
				}
			}
			if sites == 0 {
				*bad = append(*bad, "no call site of "+fnName(fn)+" found for the record parameter "+x.Name())
			}
		default:
			*bad = append(*bad, "the record comes from "+v.String())
		}
	}
	for _, fn := range fns {
		for _, b := range fn.Blocks {
			for _, in := range b.Instrs {
				call, ok := in.(*ssa.Call)
				if !ok {
					continue
				}
				bi, ok := call.Call.Value.(*ssa.Builtin)
				if !ok || bi.Name() != "close" || len(call.Call.Args) != 1 {
					continue
				}
				u, ok := call.Call.Args[0].(*ssa.UnOp)
				if !ok {
					continue
				}
				fa, ok := u.X.(*ssa.FieldAddr)
				if !ok || namedOf(fa.X.Type()) != "TTLInfo" {
					continue
				}
				n++
				var bad []string
				nOrigins := 0
				origins(fa.X, call, fn, 0, map[ssa.Value]bool{}, &bad, &nOrigins)
				if nOrigins == 0 && len(bad) == 0 {
					bad = append(bad, "no lookup of the record found")
				}
				c.Add("R17x", fnName(fn), "close of a deadline record's cancel channel acts on a record read in the same hold", call.Pos(), len(bad) == 0, strings.Join(uniq(bad), "; "))
			}
		}
	}
	c.Count("R17x_cancel_closes", n)
	c.Min("R17x_cancel_closes", 2)
}}

// ttlLookupHelper: fn looks a deadline record up by one of its parameters (ttlKeys.Get(param i)); returns i or -1.
func (c *C) ttlLookupHelper(fn *ssa.Function) int {
	if fn == nil || fn.Blocks == nil || pkgRel(fn) != "memdb" {
		return -1
	}
	pi := -1
	for _, b := range fn.Blocks {
		for _, in := range b.Instrs {
			if call, ok := in.(*ssa.Call); ok {
				if ga := c.keyspaceAccess(call); ga != nil && ga.Map == "ttlKeys" && !ga.Write {
					pi = paramIndex(fn, canon(ga.Key))
				}
			}
		}
	}
	return pi
}

// ---------- R6c: a lock is shared, never copied ----------

// lockBearing: t holds a sync lock (or another no-copy value of package sync / sync/atomic) by value.
func lockBearing(t types.Type, seen map[types.Type]bool) string {
	if t == nil || seen[t] {
		return ""
	}
	seen[t] = true
	if n, ok := t.(*types.Named); ok && n.Obj().Pkg() != nil {
		switch n.Obj().Pkg().Path() + "." + n.Obj().Name() {
		case "sync.Mutex", "sync.RWMutex", "sync.WaitGroup", "sync.Cond", "sync.Once", "sync.Map", "sync.Pool":
			return n.Obj().Pkg().Name() + "." + n.Obj().Name()
		}
	}
	switch u := t.Underlying().(type) {
	case *types.Struct:
		for i := 0; i < u.NumFields(); i++ {
			if w := lockBearing(u.Field(i).Type(), seen); w != "" {
				return w
			}
		}
	case *types.Array:
		return lockBearing(u.Elem(), seen)
	}
	return ""
}

var rR6c = RuleRef{Name: "R6c", Doc: "a lock is shared, never copied: no first-party function on the request path loads, passes, returns, ranges over or stores by value a struct that holds a sync.Mutex/RWMutex (the stripe table, map shards, channel tables, streams). A shard copied out of its table -- `s := m.table[i]` after the table changed from []*shard to []shard -- locks a private copy of the mutex while it works on the shared map: mutual exclusion is gone although every Lock is still paired with its Unlock", Run: func(c *C) {
	nTypes, nFns := 0, 0
	seenT := map[string]bool{}
	for _, fn := range c.P.allFuncs("memdb", "server", "resp", "util") {
		if fn.Blocks == nil {
			continue
		}
		nFns++
		var bad []string
		note := func(in ssa.Instruction, what string, t types.Type) {
			if w := lockBearing(t, map[types.Type]bool{}); w != "" {
				bad = append(bad, fmt.Sprintf("%s: %s copies a value of type %s, which holds a %s", c.pos(in.Pos()), what, types.TypeString(t, func(p *types.Package) string { return p.Name() }), w))
			}
		}
		for _, p := range fn.Params {
			if w := lockBearing(p.Type(), map[types.Type]bool{}); w != "" {
				bad = append(bad, fmt.Sprintf("parameter %s is passed by value and holds a %s", p.Name(), w))
			}
		}
		for _, b := range fn.Blocks {
			for _, in := range b.Instrs {
				switch x := in.(type) {
				case *ssa.UnOp:
					if al, ok := x.X.(*ssa.Alloc); ok && al.Comment == "complit" && x.Op == token.MUL {
						continue // a composite literal being moved to its place: the lock in it has never been used
					}
					if x.Op == token.MUL {
						// a load that only feeds field selection of an addressable operand never shows up as a load of the whole struct in go/ssa
						note(x, "load", x.Type())
					}
				case *ssa.Store:
					if _, isAlloc := x.Val.(*ssa.Alloc); !isAlloc {
						if _, zero := x.Val.(*ssa.Const); !zero {
							if ld, ok := x.Val.(*ssa.UnOp); ok {
								if al, ok := ld.X.(*ssa.Alloc); ok && al.Comment == "complit" {
									continue
								}
							}
							note(x, "store", x.Val.Type())
						}
					}
				case *ssa.Index:
					note(x, "element read", x.Type())
				case *ssa.Lookup:
					note(x, "map read", x.Type())
				case *ssa.Next:
					if tup, ok := x.Type().(*types.Tuple); ok && tup.Len() == 3 {
						note(x, "range", tup.At(2).Type())
					}
				case *ssa.Alloc:
					if pt, ok := x.Type().Underlying().(*types.Pointer); ok {
						if w := lockBearing(pt.Elem(), map[types.Type]bool{}); w != "" {
							k := types.TypeString(pt.Elem(), nil)
							if !seenT[k] {
								seenT[k] = true
								nTypes++
							}
						}
					}
				}
			}
		}
		if len(bad) > 0 {
			c.Add("R6c", fnName(fn), "no lock-bearing value is copied", fn.Pos(), false, strings.Join(uniq(bad), "; "))
		}
	}
	// the types the rule is about: every first-party struct that holds a lock by value
	for _, pkg := range []string{"memdb", "server", "resp", "util"} {
		sp := c.P.Pkg(pkg)
		if sp == nil {
			continue
		}
		for _, m := range sp.Members {
			if tn, ok := m.(*ssa.Type); ok {
				if w := lockBearing(tn.Type(), map[types.Type]bool{}); w != "" {
					k := types.TypeString(tn.Type(), nil)
					if !seenT[k] {
						seenT[k] = true
						nTypes++
					}
					c.Add("R6c", pkg+"."+tn.Name(), "lock-bearing type is only handled by reference", tn.Pos(), true, "holds a "+w+" by value; no function loads, stores, passes or ranges over a value of it")
				}
			}
		}
	}
	c.Add("R6c", "first-party", "no function copies a lock-bearing value", token.NoPos, true, fmt.Sprintf("%d functions scanned", nFns))
	c.Count("R6c_lock_bearing_types", nTypes)
	c.Min("R6c_lock_bearing_types", 1)
}}

// ---------- R19a: nothing is appended to shared memory without storing the result back ----------

var rR19a = RuleRef{Name: "R19a", Doc: "no message is assembled in memory that other goroutines assemble theirs in: `append(x.f, ...)` whose first operand is a slice kept in a field of a shared object (or a global), and whose result is not stored back into that field, writes into the spare capacity of x.f's array whenever there is some -- two publishers that build their frame as append(c.header, payload...) overwrite each other's payload. The first operand is fine when it is local, a parameter, or cut with a capacity limit (s[:n:n])", Run: func(c *C) {
	n := 0
	for _, fn := range c.P.allFuncs("memdb", "resp", "server", "util") {
		for _, b := range fn.Blocks {
			for _, in := range b.Instrs {
				call, ok := in.(*ssa.Call)
				if !ok {
					continue
				}
				bi, ok := call.Call.Value.(*ssa.Builtin)
				if !ok || bi.Name() != "append" || len(call.Call.Args) < 1 {
					continue
				}
				base := call.Call.Args[0]
				capped := false
				for d := 0; d < 5; d++ {
					if sl, ok := base.(*ssa.Slice); ok {
						if sl.Max != nil {
							capped = true
						}
						base = sl.X
						continue
					}
					if ct, ok := base.(*ssa.ChangeType); ok {
						base = ct.X
						continue
					}
					break
				}
				u, ok := base.(*ssa.UnOp)
				if !ok || u.Op != token.MUL {
					continue
				}
				var home ssa.Value
				what := ""
				switch a := u.X.(type) {
				case *ssa.FieldAddr:
					if rootOf(a.X) == -3 {
						continue // a record built in this function
					}
					home, what = a, namedOf(a.X.Type())+"."+fieldName(a)
				case *ssa.Global:
					home, what = a, "global "+a.Name()
				default:
					continue
				}
				n++
				if capped {
					c.Add("R19a", fnName(fn), "append to "+what+" cannot write into shared capacity", call.Pos(), true, "first operand cut with a capacity limit")
					continue
				}
				// the result goes back to where the operand came from
				back := false
				var follow func(v ssa.Value, d int)
				follow = func(v ssa.Value, d int) {
					if v.Referrers() == nil || d > 3 {
						return
					}
					for _, r := range *v.Referrers() {
						switch y := r.(type) {
						case *ssa.Store:
							if y.Val == v && sameAddr(y.Addr, home) {
								back = true
							}
						case *ssa.Phi:
							follow(y, d+1)
						case *ssa.Call:
							if b2, ok := y.Call.Value.(*ssa.Builtin); ok && b2.Name() == "append" && len(y.Call.Args) > 0 && y.Call.Args[0] == v {
								follow(y, d+1)
							}
						}
					}
				}
				follow(call, 0)
				c.Add("R19a", fnName(fn), "append to "+what+" is stored back into it", call.Pos(), back, "the result of append("+what+", ...) is used elsewhere: when "+what+" has spare capacity the appended bytes land in memory that every other user of "+what+" appends to as well")
			}
		}
	}
	c.Count("R19a_appends_to_shared_slices", n)
}}

// sameAddr: two address expressions name the same field of the same object (or the same global).
func sameAddr(a, b ssa.Value) bool {
	if a == b {
		return true
	}
	fa, ok1 := a.(*ssa.FieldAddr)
	fb, ok2 := b.(*ssa.FieldAddr)
	if ok1 && ok2 {
		return fa.Field == fb.Field && (fa.X == fb.X || canon(fa.X) == canon(fb.X))
	}
	return false
}

// ---------- R17k: an enumeration of the keyspace visits every shard and every key in it ----------

var rR17k = RuleRef{Name: "R17k", Doc: "the enumerations of the sharded map (Keys for KEYS, KeyVals for the snapshot, and whatever else walks ConcurrentMap.table) visit every shard and every entry of it: their loops are left only when the range is exhausted. An exit as soon as `enough` keys were collected, enough being the atomic counter read before the walk, drops keys of later shards whenever another client adds one to an earlier shard in between", Run: func(c *C) {
	n := 0
	for _, fn := range c.P.allFuncs("memdb") {
		if !isMethodOf(fn, c.Facts.CMap) || fn.Blocks == nil {
			continue
		}
		loops := naturalLoops(fn)
		var heads []*ssa.BasicBlock
		for head := range loops {
			heads = append(heads, head)
		}
		sort.Slice(heads, func(i, j int) bool { return heads[i].Index < heads[j].Index })
		// the loops over the shard table, and the loops nested in them
		var tableLoops []*ssa.BasicBlock
		for _, head := range heads {
			for b := range loops[head] {
				for _, in := range b.Instrs {
					var x ssa.Value
					switch y := in.(type) {
					case *ssa.IndexAddr:
						x = y.X
					case *ssa.Index:
						x = y.X
					}
					if x != nil && isFieldLoad(x, c.Facts.CMap, "table") {
						tableLoops = append(tableLoops, head)
					}
				}
			}
		}
		if len(tableLoops) == 0 {
			continue
		}
		k := 0
		for _, head := range heads {
			inTable := false
			for _, th := range tableLoops {
				if loops[th][head] {
					inTable = true
				}
			}
			if !inTable {
				continue
			}
			n++
			k++
			body := loops[head]
			var bad []string
			for b := range body {
				if b == head {
					continue
				}
				for _, sc := range b.Succs {
					if !body[sc] {
						bad = append(bad, c.pos(blockPos(b))+": the walk is left before the range is exhausted")
					}
				}
			}
			// the header's own test is the range test: an index against a length, or the ok of a map iterator
			if iff, ok := head.Instrs[len(head.Instrs)-1].(*ssa.If); ok {
				okCond := false
				switch cnd := iff.Cond.(type) {
				case *ssa.BinOp:
					if cnd.Op == token.LSS {
						if call, ok := cnd.Y.(*ssa.Call); ok {
							if bi, ok := call.Call.Value.(*ssa.Builtin); ok && bi.Name() == "len" {
								okCond = true
							}
						}
					}
				case *ssa.Extract:
					if _, ok := cnd.Tuple.(*ssa.Next); ok && cnd.Index == 0 {
						okCond = true
					}
				}
				if !okCond {
					bad = append(bad, c.pos(iff.Cond.Pos())+": the loop condition is not the exhaustion of the range")
				}
			}
			c.Add("R17k", fnName(fn), fmt.Sprintf("enumeration loop #%d runs to the end of its range", k), fn.Pos(), len(bad) == 0, strings.Join(uniq(bad), "; "))
		}
	}
	c.Count("R17k_enumeration_loops", n)
	c.Min("R17k_enumeration_loops", 2)
}}

// blockPos: a source position inside b (the last instruction that has one; else one of its predecessors' branch conditions).
func blockPos(b *ssa.BasicBlock) token.Pos {
	for i := len(b.Instrs) - 1; i >= 0; i-- {
		if p := b.Instrs[i].Pos(); p.IsValid() {
			return p
		}
		if iff, ok := b.Instrs[i].(*ssa.If); ok && iff.Cond.Pos().IsValid() {
			return iff.Cond.Pos()
		}
	}
	for _, p := range b.Preds {
		if len(p.Instrs) > 0 {
			if iff, ok := p.Instrs[len(p.Instrs)-1].(*ssa.If); ok && iff.Cond.Pos().IsValid() {
				return iff.Cond.Pos()
			}
		}
	}
	return token.NoPos
}

// ---------- R18i: XADD reports the ID the entry was stored under ----------

var rR18i = RuleRef{Name: "R18i", Doc: "XADD reports the ID the entry is listed under: the bulk reply of the XADD executor is rendered from the StreamID value that was handed to the stream's append method (a StreamID method turns it into text) and no byte of it comes from the argument vector. Echoing the client's own spelling of an explicit ID (007-01, +12-3) reports an ID XRANGE never shows", Run: func(c *C) {
	ex := c.Facts.Executors["xadd"]
	if ex == nil {
		c.Undecided("R18i", "executor of xadd")
		return
	}
	// the IDs handed to a Stream method that stores (mutator with a *StreamID argument)
	stored := map[string]bool{}
	var storeBlocks []*ssa.BasicBlock
	for _, b := range ex.Blocks {
		for _, in := range b.Instrs {
			call, ok := in.(*ssa.Call)
			if !ok {
				continue
			}
			cf := callee(call)
			if cf == nil || cf.Signature.Recv() == nil || namedOf(cf.Signature.Recv().Type()) != "Stream" || !c.mutates(cf, 0) {
				continue
			}
			for _, a := range call.Call.Args[1:] {
				if namedOf(a.Type()) == "StreamID" {
					stored[canon(a)] = true
					storeBlocks = append(storeBlocks, b)
				}
			}
		}
	}
	if len(stored) == 0 {
		c.Undecided("R18i", "the call in the xadd executor that appends the entry (a mutating Stream method taking a StreamID)")
		return
	}
	n := 0
	for _, b := range ex.Blocks {
		ret, ok := b.Instrs[len(b.Instrs)-1].(*ssa.Return)
		if !ok {
			continue
		}
		after := false
		for _, sb := range storeBlocks {
			if sb == b || reaches(sb, b, nil) {
				after = true
			}
		}
		if !after {
			continue // nothing was stored on the way here
		}
		for _, v := range returnedValues(ret) {
			var replies []ssa.Value
			var flat func(v ssa.Value, d int)
			seenP := map[ssa.Value]bool{}
			flat = func(v ssa.Value, d int) {
				if seenP[v] || d > 6 {
					return
				}
				seenP[v] = true
				if phi, ok := v.(*ssa.Phi); ok {
					for _, e := range phi.Edges {
						flat(e, d+1)
					}
					return
				}
				replies = append(replies, v)
			}
			flat(v, 0)
			for _, r := range replies {
				mi, ok := r.(*ssa.MakeInterface)
				if !ok || namedOf(mi.X.Type()) != "BulkData" {
					continue
				}
				n++
				fromStored, fromArgs := false, ""
				var other []string
				backslice(mi.X, func(x ssa.Value) bool {
					switch y := x.(type) {
					case *ssa.Call:
						if cf := callee(y); cf != nil && cf.Signature.Recv() != nil && namedOf(cf.Signature.Recv().Type()) == "StreamID" && len(y.Call.Args) > 0 {
							if stored[canon(y.Call.Args[0])] {
								fromStored = true
							} else {
								other = append(other, "rendered from "+canon(y.Call.Args[0])+", which is not the ID handed to the stream")
							}
							return false
						}
					case *ssa.Parameter:
						if _, ok := y.Type().Underlying().(*types.Slice); ok && y.Parent() == ex {
							fromArgs = y.Name()
						}
					case *ssa.UnOp:
						// a local cell: look at what is stored into it
						if al, ok := y.X.(*ssa.Alloc); ok && y.Op == token.MUL {
							for _, rr := range *al.Referrers() {
								if st, ok := rr.(*ssa.Store); ok && st.Addr == ssa.Value(al) {
									backslice(st.Val, func(z ssa.Value) bool {
										if p, ok := z.(*ssa.Parameter); ok && p.Parent() == ex {
											if _, ok := p.Type().Underlying().(*types.Slice); ok {
												fromArgs = p.Name()
											}
										}
										return true
									})
								}
							}
						}
					}
					return true
				})
				var bad []string
				if fromArgs != "" {
					bad = append(bad, "bytes of the argument vector ("+fromArgs+") reach the reported ID")
				}
				if !fromStored {
					bad = append(bad, "the reply is not rendered from the StreamID handed to the stream")
				}
				bad = append(bad, other...)
				c.Add("R18i", fnName(ex), "the reported ID is the stored ID", ret.Pos(), len(bad) == 0, strings.Join(uniq(bad), "; "))
			}
		}
	}
	c.Count("R18i_id_replies", n)
	c.Min("R18i_id_replies", 1)
}}

// ---------- R8m: a message pushed to another client's connection is one Write ----------

// connWritesOutsideHandlers collects, per function of package memdb, the events that write to a connection value:
// Write invoked on it, or a helper that writes to the connection it is given.
var rR8m = RuleRef{Name: "R8m", Doc: "one pushed message, one Write: code outside the connection handlers (the publishers of Pub/Sub) writes at most once to a given connection on any path -- a helper that is handed a connection writes to it at most once, a Write inside a loop is made on a connection picked by that loop's own iteration, and no second Write on the same connection follows. The subscriber's own handler and other publishers write to the same socket from their goroutines; only a single Write call is atomic, so a frame sent as head, payload and tail lets a reply land inside the announced bulk", Run: func(c *C) {
	n := 0
	writesTo := func(in ssa.Instruction) ssa.Value {
		ci, ok := in.(ssa.CallInstruction)
		if !ok {
			return nil
		}
		cc := ci.Common()
		if cc.IsInvoke() && isNetConn(cc.Value.Type()) && cc.Method.Name() == "Write" {
			return cc.Value
		}
		return nil
	}
	// helpers: number of writes on their own connection parameter
	helperMany := map[*ssa.Function]bool{}
	helperWrites := map[*ssa.Function]*ssa.Parameter{}
	fns := c.P.allFuncs("memdb")
	for _, fn := range fns {
		p := connParam(fn)
		if p == nil || fn.Blocks == nil {
			continue
		}
		sum, _ := c.connWriteSummary(fn, 0)
		if sum == nil || (len(sum) == 1 && sum["0"]) {
			continue
		}
		helperWrites[fn] = p
		n++
		many := sum["2"]
		helperMany[fn] = many
		c.Add("R8m", fnName(fn), "a helper writes at most once to the connection it is given", fn.Pos(), !many, "some path makes more than one Write call on "+p.Name())
	}
	for _, fn := range fns {
		if fn.Blocks == nil {
			continue
		}
		type ev struct {
			in ssa.Instruction
			v  ssa.Value
		}
		var evs []ev
		for _, b := range fn.Blocks {
			for _, in := range b.Instrs {
				if v := writesTo(in); v != nil {
					evs = append(evs, ev{in, v})
					continue
				}
				if ci, ok := in.(ssa.CallInstruction); ok {
					if cf := callee(ci); cf != nil {
						if p := helperWrites[cf]; p != nil {
							for i, a := range ci.Common().Args {
								if i < len(cf.Params) && cf.Params[i] == p {
									evs = append(evs, ev{in, a})
								}
							}
						}
					}
				}
			}
		}
		if len(evs) == 0 {
			continue
		}
		loops := naturalLoops(fn)
		for _, e := range evs {
			if pp, ok := e.v.(*ssa.Parameter); ok && helperWrites[fn] == pp {
				continue // counted by the summary above
			}
			n++
			var bad []string
			// picked by the innermost... by every enclosing loop's own iteration
			for head, body := range loops {
				if !body[e.in.Block()] {
					continue
				}
				def, isInstr := e.v.(ssa.Instruction)
				if !isInstr || !body[def.Block()] {
					bad = append(bad, fmt.Sprintf("the loop at %s writes to the same connection on every iteration", c.pos(blockPos(head))))
				}
			}
			for _, o := range evs {
				if o.in == e.in || o.v != e.v {
					continue
				}
				if (o.in.Block() == e.in.Block() && instrIndex(o.in) > instrIndex(e.in)) || (o.in.Block() != e.in.Block() && reaches(e.in.Block(), o.in.Block(), nil)) {
					bad = append(bad, "a second write to the same connection follows at "+c.pos(o.in.Pos()))
				}
			}
			c.Add("R8m", fnName(fn), "one Write per connection and message ("+canon(e.v)+")", e.in.Pos(), len(bad) == 0, strings.Join(uniq(bad), "; "))
		}
	}
	c.Count("R8m_push_writes", n)
	c.Min("R8m_push_writes", 1)
}}

func instrIndex(in ssa.Instruction) int {
	for i, x := range in.Block().Instrs {
		if x == in {
			return i
		}
	}
	return -1
}

// ---------- R20e: the last line of the configuration file counts ----------

var rR20e = RuleRef{Name: "R20e", Doc: "every line of the configuration file is applied, the last one included: bufio's ReadString/ReadBytes return the final, unterminated line TOGETHER with io.EOF, so between a read and a successful return of the reader loop the line must have been handed to what parses it (or be known to be empty). The shipped configuration files end in `databases 16` without a newline: a loop that tests the error first and returns on io.EOF drops that line and SELECT accepts the default 16 databases whatever the file says", Run: func(c *C) {
	n := 0
	for _, fn := range c.P.allFuncs("config") {
		for _, b := range fn.Blocks {
			for _, in := range b.Instrs {
				call, ok := in.(*ssa.Call)
				if !ok {
					continue
				}
				cf := call.Call.StaticCallee()
				if cf == nil || cf.Pkg == nil || cf.Pkg.Pkg.Path() != "bufio" || (cf.Name() != "ReadString" && cf.Name() != "ReadBytes") {
					continue
				}
				n++
				isRead := func(x ssa.Instruction) bool {
					if cl, ok := x.(*ssa.Call); ok {
						if f := cl.Call.StaticCallee(); f != nil && f.Pkg != nil && f.Pkg.Pkg.Path() == "bufio" && (f.Name() == "ReadString" || f.Name() == "ReadBytes") {
							return true
						}
					}
					return false
				}
				// values derived from the line
				line := map[ssa.Value]bool{}
				var derive func(v ssa.Value)
				derive = func(v ssa.Value) {
					if line[v] || v.Referrers() == nil {
						return
					}
					line[v] = true
					for _, r := range *v.Referrers() {
						switch y := r.(type) {
						case *ssa.Slice:
							derive(y)
						case *ssa.Convert:
							derive(y)
						case *ssa.ChangeType:
							derive(y)
						case *ssa.Phi:
							derive(y)
						case *ssa.Call:
							if f := y.Call.StaticCallee(); f != nil && f.Pkg != nil && !firstParty(f) {
								if bt, ok := y.Type().Underlying().(*types.Basic); ok && bt.Info()&types.IsString != 0 {
									derive(y) // TrimSpace, ToLower, ...: still the line
								} else if sl, ok := y.Type().Underlying().(*types.Slice); ok {
									if bt, ok := sl.Elem().Underlying().(*types.Basic); ok && bt.Kind() == types.Byte {
										derive(y)
									}
								}
							}
						}
					}
				}
				if call.Referrers() != nil {
					for _, r := range *call.Referrers() {
						if ex, ok := r.(*ssa.Extract); ok && ex.Index == 0 {
							derive(ex)
						}
					}
				}
				consumes := func(x ssa.Instruction) bool {
					cl, ok := x.(*ssa.Call)
					if !ok {
						return false
					}
					if _, isB := cl.Call.Value.(*ssa.Builtin); isB {
						return false
					}
					uses := false
					for _, a := range cl.Call.Args {
						if line[a] {
							uses = true
						}
					}
					if !uses {
						return false
					}
					if line[cl] {
						return false // only another spelling of the line
					}
					if bt, ok := cl.Type().Underlying().(*types.Basic); ok && bt.Info()&types.IsBoolean != 0 {
						if f := cl.Call.StaticCallee(); f == nil || !firstParty(f) {
							return false // HasPrefix and the like look at the line, they do not apply it
						}
					}
					return true
				}
				// an edge on which the line is known to be empty
				emptyEdge := func(from, to *ssa.BasicBlock) bool {
					cond, neg, ok := branchCond(from, to)
					if !ok {
						return false
					}
					val := !neg
					bo, ok := cond.(*ssa.BinOp)
					if !ok {
						return false
					}
					isLen := func(v ssa.Value) bool {
						if cl, ok := v.(*ssa.Call); ok {
							if bi, ok := cl.Call.Value.(*ssa.Builtin); ok && bi.Name() == "len" && line[cl.Call.Args[0]] {
								return true
							}
						}
						return false
					}
					if isLen(bo.X) {
						if k, ok := constInt(bo.Y); ok {
							switch {
							case bo.Op == token.EQL && k == 0 && val, bo.Op == token.NEQ && k == 0 && !val, bo.Op == token.GTR && k == 0 && !val, bo.Op == token.LSS && k == 1 && val, bo.Op == token.GEQ && k == 1 && !val, bo.Op == token.LEQ && k == 0 && val:
								return true
							}
						}
					}
					if line[bo.X] {
						if s, ok := constString(bo.Y); ok && s == "" {
							if (bo.Op == token.EQL && val) || (bo.Op == token.NEQ && !val) {
								return true
							}
						}
					}
					return false
				}
				var bad []string
				// what is known about boolean loop flags on the path walked (for atEOF := false; !atEOF; { .. atEOF = err == io.EOF }):
				// the branches that dominate the read, then every branch taken; a phi takes the fact of the value that comes in
				// over the edge walked
				type facts map[ssa.Value]bool
				boolFact := func(f facts, v ssa.Value) (bool, bool) {
					neg := false
					for {
						if u, ok := v.(*ssa.UnOp); ok && u.Op == token.NOT {
							v, neg = u.X, !neg
							continue
						}
						break
					}
					if k, ok := v.(*ssa.Const); ok && k.Value != nil && k.Value.Kind() == constant.Bool {
						return constant.BoolVal(k.Value) != neg, true
					}
					if val, ok := f[v]; ok {
						return val != neg, true
					}
					return false, false
				}
				learn := func(f facts, cond ssa.Value, val bool) {
					for {
						if u, ok := cond.(*ssa.UnOp); ok && u.Op == token.NOT {
							cond, val = u.X, !val
							continue
						}
						break
					}
					if _, isPhi := cond.(*ssa.Phi); isPhi {
						f[cond] = val
					}
				}
				start := facts{}
				for d := b; d != nil && d.Idom() != nil; d = d.Idom() {
					id := d.Idom()
					if iff, ok := id.Instrs[len(id.Instrs)-1].(*ssa.If); ok && len(d.Preds) == 1 && d.Preds[0] == id {
						learn(start, iff.Cond, id.Succs[0] == d)
					}
				}
				key := func(b *ssa.BasicBlock, f facts) string {
					var ks []string
					for v, val := range f {
						ks = append(ks, fmt.Sprintf("%s=%v", v.Name(), val))
					}
					sort.Strings(ks)
					return fmt.Sprintf("%d|%s", b.Index, strings.Join(ks, ","))
				}
				seen := map[string]bool{}
				var scan func(b *ssa.BasicBlock, start int, f facts)
				scan = func(b *ssa.BasicBlock, start int, f facts) {
					for i := start; i < len(b.Instrs); i++ {
						x := b.Instrs[i]
						if consumes(x) || isRead(x) || noReturnCall(x) {
							return
						}
						if ret, ok := x.(*ssa.Return); ok {
							okRet := false
							for _, v := range returnedValues(ret) {
								if isErrorType(v.Type()) && isNilConst(v) {
									okRet = true
								}
							}
							if len(ret.Results) == 0 {
								okRet = true
							}
							if okRet {
								bad = append(bad, "a path from the read reaches the successful return at "+c.pos(ret.Pos())+" without handing the line to anything")
							}
							return
						}
					}
					iff, _ := b.Instrs[len(b.Instrs)-1].(*ssa.If)
					for si, s := range b.Succs {
						if emptyEdge(b, s) {
							continue
						}
						if iff != nil && b.Succs[0] != b.Succs[1] {
							if val, ok := boolFact(f, iff.Cond); ok && val != (si == 0) {
								continue // the flag is known to send this path the other way
							}
						}
						nf := facts{}
						for v, val := range f {
							if in, ok := v.(ssa.Instruction); ok && in.Block() == s {
								continue // recomputed on entry
							}
							nf[v] = val
						}
						if iff != nil && b.Succs[0] != b.Succs[1] {
							learn(nf, iff.Cond, si == 0)
						}
						pi := -1
						for k, p := range s.Preds {
							if p == b {
								pi = k
							}
						}
						for _, in := range s.Instrs {
							phi, ok := in.(*ssa.Phi)
							if !ok {
								break
							}
							if pi >= 0 {
								if val, ok := boolFact(f, phi.Edges[pi]); ok {
									nf[phi] = val
								}
							}
						}
						k := key(s, nf)
						if seen[k] {
							continue
						}
						seen[k] = true
						scan(s, 0, nf)
					}
				}
				scan(b, instrIndex(call)+1, start)
				c.Add("R20e", fnName(fn), "a line read with io.EOF is still applied", call.Pos(), len(bad) == 0, strings.Join(uniq(bad), "; "))
			}
		}
	}
	c.Count("R20e_line_reads", n)
	c.Min("R20e_line_reads", 1)
}}

// ---------- R16n: a damaged snapshot file never ends the search for an intact one ----------

var rR16n = RuleRef{Name: "R16n", Doc: "a damaged newest snapshot file falls back to the newest intact one, whatever the damage looks like: in the snap package, a loop that loads snapshot files one after the other (it calls a function of the package that returns (*Snapshot, error)) is never left with an error because one file failed to load -- the only returns reachable from inside the loop without going through its regular end are successful ones. Sorting load errors into `damaged content` and `other` sends every error the sorter does not know (protobuf framing errors of a flipped byte) to the caller, and the node cannot start although an older intact snapshot exists", Run: func(c *C) {
	n := 0
	for _, fn := range c.P.allFuncs(snapPkg) {
		if fn.Blocks == nil {
			continue
		}
		loops := naturalLoops(fn)
		var heads []*ssa.BasicBlock
		for head := range loops {
			heads = append(heads, head)
		}
		sort.Slice(heads, func(i, j int) bool { return heads[i].Index < heads[j].Index })
		k := 0
		for _, head := range heads {
			body := loops[head]
			loads := false
			for b := range body {
				for _, in := range b.Instrs {
					call, ok := in.(*ssa.Call)
					if !ok {
						continue
					}
					cf := callee(call)
					if cf == nil || cf.Pkg == nil || cf.Pkg.Pkg.Path() != snapPkg {
						continue
					}
					r := cf.Signature.Results()
					if r.Len() == 2 && namedOf(r.At(0).Type()) == "Snapshot" && isErrorType(r.At(1).Type()) {
						loads = true
					}
				}
			}
			if !loads {
				continue
			}
			n++
			k++
			normal := map[*ssa.BasicBlock]bool{}
			for _, e := range head.Succs {
				if !body[e] {
					normal[e] = true
				}
			}
			var bad []string
			seen := map[*ssa.BasicBlock]bool{}
			var dfs func(b *ssa.BasicBlock)
			dfs = func(b *ssa.BasicBlock) {
				if seen[b] || normal[b] || body[b] {
					return
				}
				seen[b] = true
				if ret, ok := b.Instrs[len(b.Instrs)-1].(*ssa.Return); ok {
					for _, v := range ret.Results {
						if isErrorType(v.Type()) && !isNilConst(v) {
							bad = append(bad, c.pos(ret.Pos())+": the search ends with an error while files are left to try")
						}
					}
					return
				}
				for _, s := range b.Succs {
					dfs(s)
				}
			}
			for b := range body {
				if b == head {
					continue
				}
				for _, s := range b.Succs {
					if !body[s] {
						dfs(s)
					}
				}
			}
			c.Add("R16n", fnName(fn), fmt.Sprintf("snapshot search loop #%d tries every file before it gives up", k), fn.Pos(), len(bad) == 0, strings.Join(uniq(bad), "; "))
		}
	}
	c.Count("R16n_snapshot_search_loops", n)
	c.Min("R16n_snapshot_search_loops", 1)
}}

// ---------- R16y: what counts as applied is what was handed to the state machine ----------

var rR16y = RuleRef{Name: "R16y", Doc: "the keyspace lives in memory and is rebuilt after a restart by executing the committed log again, so nothing may be counted as applied that was not published to the apply loop in this process: every store to RaftNode.appliedIndex takes the Index of a published entry or of a snapshot's metadata, and the raft.Config the node is started with leaves Applied unset (or gives it such an index). Starting from the persisted commit index -- the usual idiom for a durable state machine -- makes raft skip every earlier entry: the restarted replica serves an empty keyspace", Run: func(c *C) {
	n := 0
	goodSource := func(v ssa.Value) (bool, string) {
		ok := true
		why := ""
		seen := map[ssa.Value]bool{}
		var walk func(v ssa.Value)
		walk = func(v ssa.Value) {
			if v == nil || seen[v] || !ok {
				return
			}
			seen[v] = true
			switch x := v.(type) {
			case *ssa.Const:
				if k, isInt := constInt(x); !isInt || k != 0 {
					ok, why = false, "a constant other than 0"
				}
			case *ssa.Phi:
				for _, e := range x.Edges {
					walk(e)
				}
			case *ssa.UnOp:
				if x.Op != token.MUL {
					ok, why = false, x.String()
					return
				}
				if fa, isFA := x.X.(*ssa.FieldAddr); isFA {
					owner := namedOf(fa.X.Type())
					f := fieldName(fa)
					switch {
					case f == "Index" && (owner == "Entry" || owner == "SnapshotMetadata"):
					case owner == "RaftNode" && (f == "appliedIndex" || f == "snapshotIndex"):
					default:
						ok, why = false, owner+"."+f
					}
					return
				}
				if al, isAl := x.X.(*ssa.Alloc); isAl {
					for _, r := range *al.Referrers() {
						if st, isSt := r.(*ssa.Store); isSt && st.Addr == ssa.Value(al) {
							walk(st.Val)
						}
					}
					return
				}
				ok, why = false, x.String()
			case *ssa.Field:
				owner := namedOf(x.X.Type())
				f := ""
				if st, isSt := x.X.Type().Underlying().(*types.Struct); isSt {
					f = st.Field(x.Field).Name()
				}
				if !(f == "Index" && (owner == "Entry" || owner == "SnapshotMetadata")) {
					ok, why = false, owner+"."+f
				}
			default:
				ok, why = false, v.String()
			}
		}
		walk(v)
		return ok, why
	}
	for _, fn := range c.P.allFuncs("raftexample") {
		for _, b := range fn.Blocks {
			for _, in := range b.Instrs {
				st, isSt := in.(*ssa.Store)
				if !isSt {
					continue
				}
				fa, isFA := st.Addr.(*ssa.FieldAddr)
				if !isFA {
					continue
				}
				owner, f := namedOf(fa.X.Type()), fieldName(fa)
				switch {
				case owner == "RaftNode" && f == "appliedIndex":
					n++
					good, why := goodSource(st.Val)
					c.Add("R16y", fnName(fn), "appliedIndex takes the index of a published entry or snapshot", st.Pos(), good, "the stored value comes from "+why)
				case owner == "Config" && f == "Applied":
					n++
					good, why := goodSource(st.Val)
					c.Add("R16y", fnName(fn), "raft is not told that entries were applied which this process never executed", st.Pos(), good, "Config.Applied comes from "+why)
				}
			}
		}
	}
	c.Count("R16y_applied_stores", n)
	c.Min("R16y_applied_stores", 2)
}}

// ---------- R16d: the embedding application deletes nothing from the log and snapshot directories ----------

var rR16d = RuleRef{Name: "R16d", Doc: "what the WAL still needs is decided by the WAL: no code of the embedding application (packages raftexample and server) removes, renames or truncates a file whose path derives from the node's WAL or snapshot directory, and none starts etcd's file purger on them. ReleaseLockTo only unlocks segments; a snapshot received from the leader is saved BEFORE the hard state that commits it, so purging the unlocked segments at that point removes the node's previous snapshot record and, after a crash, the node can never start again", Run: func(c *C) {
	n, nd := 0, 0
	var bad []string
	for _, fn := range c.P.allFuncs("raftexample", "server") {
		for _, b := range fn.Blocks {
			for _, in := range b.Instrs {
				ci, ok := in.(ssa.CallInstruction)
				if !ok {
					continue
				}
				cf := ci.Common().StaticCallee()
				if cf == nil || cf.Pkg == nil {
					continue
				}
				p := cf.Pkg.Pkg.Path()
				destructive := false
				switch {
				case p == "os" && (cf.Name() == "Remove" || cf.Name() == "RemoveAll" || cf.Name() == "Rename" || cf.Name() == "Truncate"):
					destructive = true
				case strings.HasSuffix(p, "/fileutil") && strings.HasPrefix(cf.Name(), "Purge"):
					destructive = true
				}
				if !destructive {
					continue
				}
				nd++
				for _, a := range ci.Common().Args {
					dir := ""
					seen := map[ssa.Value]bool{}
					var walk func(v ssa.Value, d int)
					walk = func(v ssa.Value, d int) {
						if v == nil || seen[v] || d > 12 {
							return
						}
						seen[v] = true
						if fa, ok := v.(*ssa.FieldAddr); ok && namedOf(fa.X.Type()) == "RaftNode" {
							if f := fieldName(fa); f == "waldir" || f == "snapdir" {
								dir = f
							}
						}
						if al, ok := v.(*ssa.Alloc); ok {
							// a cell or a varargs array: what is stored into it
							for _, r := range *al.Referrers() {
								switch y := r.(type) {
								case *ssa.Store:
									if y.Addr == ssa.Value(al) {
										walk(y.Val, d+1)
									}
								case *ssa.IndexAddr:
									for _, rr := range *y.Referrers() {
										if st, ok := rr.(*ssa.Store); ok && st.Addr == ssa.Value(y) {
											walk(st.Val, d+1)
										}
									}
								}
							}
						}
						if x, ok := v.(ssa.Instruction); ok {
							for _, op := range x.Operands(nil) {
								if *op != nil {
									walk(*op, d+1)
								}
							}
						}
					}
					walk(a, 0)
					if dir != "" {
						bad = append(bad, c.pos(in.Pos())+": "+fnName(fn)+" calls "+cf.Pkg.Pkg.Name()+"."+cf.Name()+" on a path under RaftNode."+dir)
					}
				}
			}
		}
		n++
	}
	c.Add("R16d", "raftexample", "no file of the WAL or snapshot directory is removed, renamed or truncated by the application", token.NoPos, len(bad) == 0, strings.Join(uniq(bad), "; "))
	c.Count("R16d_functions_scanned", n)
	c.Count("R16d_destructive_file_calls", nd)
	c.Min("R16d_functions_scanned", 20)
}}

// ---------- R23a: the apply loop keeps one selection for the whole log ----------

var rR23a = RuleRef{Name: "R23a", Doc: "the database selected by a replicated SELECT is part of the replicated state: the apply loop creates its connection state once, before it starts receiving commit batches, never inside the loop. How raft cuts the log into batches depends on timing (one entry at a time on a live node, the whole log at once after a restart); a state created per batch makes the same log put the same SET into different databases on different nodes", Run: func(c *C) {
	ap := c.applyLoop()
	if ap == nil {
		c.Undecided("R23a", "the apply loop")
		return
	}
	loops := naturalLoops(ap)
	n := 0
	for _, b := range ap.Blocks {
		for _, in := range b.Instrs {
			call, ok := in.(*ssa.Call)
			if !ok {
				continue
			}
			if namedOf(call.Type()) != "connState" {
				continue
			}
			if _, isPtr := call.Type().(*types.Pointer); !isPtr {
				if _, isNamed := call.Type().(*types.Named); !isNamed {
					continue
				}
			}
			n++
			inLoop := ""
			for head, body := range loops {
				if body[b] {
					inLoop = c.pos(blockPos(head))
				}
			}
			c.Add("R23a", fnName(ap), "the apply loop's connection state is created outside the commit loop", call.Pos(), inLoop == "", "created once per iteration of the loop at "+inLoop)
		}
	}
	c.Count("R23a_apply_states", n)
	c.Min("R23a_apply_states", 1)
}}

// ---------- R16z: what a vote may be overwritten with; what a heartbeat may commit ----------

var rR16z = RuleRef{Name: "R16z", Doc: "two pinned mechanisms of the Raft library. (1) A recorded vote is given up only together with the term: every store to raft.Vote stores the persisted vote (HardState.Vote), the sender of a granted request, the node's own id, or -- the constant None -- is control-dependent on a comparison that reads raft.Term. Clearing a loaded vote because its holder is not in the configuration the node came up with (the snapshot's, before the log's membership changes are re-applied) lets the node vote twice in one term. (2) The commit index a leader puts into a heartbeat is min(Progress.Match, committed): no other field of the follower's Progress reaches it. Next-1 is a probe anchor, not an agreed position; a follower told to commit up to it commits its own divergent entry", Run: func(c *C) {
	n := 0
	for _, fn := range c.P.allFuncs(raftPkg) {
		for _, b := range fn.Blocks {
			for _, in := range b.Instrs {
				st, ok := in.(*ssa.Store)
				if !ok {
					continue
				}
				fa, ok := st.Addr.(*ssa.FieldAddr)
				if !ok || namedOf(fa.X.Type()) != "raft" || fieldName(fa) != "Vote" {
					continue
				}
				n++
				good, why := false, ""
				switch v := st.Val.(type) {
				case *ssa.Const:
					// control dependence on a test of the term
					for d := b; d != nil && !good; d = d.Idom() {
						id := d.Idom()
						if id == nil || len(id.Instrs) == 0 {
							continue
						}
						if iff, isIf := id.Instrs[len(id.Instrs)-1].(*ssa.If); isIf {
							backslice(iff.Cond, func(x ssa.Value) bool {
								if f, ok := x.(*ssa.FieldAddr); ok && namedOf(f.X.Type()) == "raft" && fieldName(f) == "Term" {
									good = true
								}
								return true
							})
						}
					}
					why = "the vote is cleared without a test of the term"
				case *ssa.UnOp:
					if f, ok := v.X.(*ssa.FieldAddr); ok {
						owner, name := namedOf(f.X.Type()), fieldName(f)
						good = (owner == "HardState" && name == "Vote") || (owner == "Message" && name == "From") || (owner == "raft" && name == "id")
						why = "the stored value is " + owner + "." + name
					}
				case *ssa.Field:
					owner := namedOf(v.X.Type())
					name := ""
					if stt, ok := v.X.Type().Underlying().(*types.Struct); ok {
						name = stt.Field(v.Field).Name()
					}
					good = (owner == "HardState" && name == "Vote") || (owner == "Message" && name == "From")
					why = "the stored value is " + owner + "." + name
				default:
					why = "the stored value is " + st.Val.String()
				}
				c.Add("R16z", fnName(fn), "a vote is overwritten only by a persisted vote, a granted candidate, the node itself, or cleared with the term", st.Pos(), good, why)
			}
		}
	}
	c.Count("R16z_vote_stores", n)
	c.Min("R16z_vote_stores", 3)
	// heartbeat commit
	hb := c.P.Func(raftPkg, "raft.sendHeartbeat")
	if hb == nil {
		c.Undecided("R16z", "anchor raft.sendHeartbeat")
		return
	}
	found := false
	for _, b := range hb.Blocks {
		for _, in := range b.Instrs {
			st, ok := in.(*ssa.Store)
			if !ok {
				continue
			}
			fa, ok := st.Addr.(*ssa.FieldAddr)
			if !ok || namedOf(fa.X.Type()) != "Message" || fieldName(fa) != "Commit" {
				continue
			}
			found = true
			usesMin, match, committed := false, false, false
			var other []string
			backslice(st.Val, func(x ssa.Value) bool {
				switch y := x.(type) {
				case *ssa.Call:
					if cf := callee(y); cf != nil && cf.Name() == "min" {
						usesMin = true
					} else if bi, ok := y.Call.Value.(*ssa.Builtin); ok && bi.Name() == "min" {
						usesMin = true
					}
				case *ssa.FieldAddr:
					owner, name := namedOf(y.X.Type()), fieldName(y)
					switch {
					case owner == "Progress" && name == "Match":
						match = true
					case owner == "Progress":
						other = append(other, "Progress."+name)
					case owner == "raftLog" && name == "committed":
						committed = true
					}
				}
				return true
			})
			var bad []string
			if !usesMin || !match || !committed {
				bad = append(bad, "the commit is not min(Progress.Match, raftLog.committed)")
			}
			for _, o := range uniq(other) {
				bad = append(bad, o+" reaches the commit index of the heartbeat")
			}
			c.Add("R16z", fnName(hb), "a heartbeat commits no further than the follower's Match", st.Pos(), len(bad) == 0, strings.Join(bad, "; "))
		}
	}
	if !found {
		c.Undecided("R16z", "the store of Message.Commit in raft.sendHeartbeat")
	}
}}

// commaOkLookup: cond is the ok of a comma-ok map lookup -- directly, or as the result of a first-party boolean helper
// whose every return is the ok of `param.field[keyParam]` (s.has(key)). Returns the canonical names of the map and the
// key in the caller's terms, and the map value (in the helper's terms when a helper is involved) for type tests.
func commaOkLookup(cond ssa.Value) (mapCanon, keyCanon string, table ssa.Value, ok bool) {
	// the ok kept in a variable cell (a named result): what was last stored into it in the block that tests it
	if u, isU := cond.(*ssa.UnOp); isU && u.Op == token.MUL {
		if al, isAl := u.X.(*ssa.Alloc); isAl {
			var last ssa.Value
			for _, in := range u.Block().Instrs {
				if in == ssa.Instruction(u) {
					break
				}
				if st, isSt := in.(*ssa.Store); isSt && st.Addr == ssa.Value(al) {
					last = st.Val
				}
			}
			if last != nil {
				return commaOkLookup(last)
			}
		}
	}
	if ex, isEx := cond.(*ssa.Extract); isEx && ex.Index == 1 {
		if lk, isLk := ex.Tuple.(*ssa.Lookup); isLk && lk.CommaOk {
			return canon(lk.X), canon(lk.Index), lk.X, true
		}
		return "", "", nil, false
	}
	call, isCall := cond.(*ssa.Call)
	if !isCall {
		return "", "", nil, false
	}
	cf := callee(call)
	if cf == nil || !firstParty(cf) || cf.Blocks == nil || len(cf.Blocks) > 3 || cf.Signature.Results().Len() != 1 || !isBoolType(cf.Signature.Results().At(0).Type()) {
		return "", "", nil, false
	}
	var lk *ssa.Lookup
	for _, b := range cf.Blocks {
		for _, in := range b.Instrs {
			switch x := in.(type) {
			case *ssa.Return:
				ex, isEx := x.Results[0].(*ssa.Extract)
				if !isEx || ex.Index != 1 {
					return "", "", nil, false
				}
				l, isLk := ex.Tuple.(*ssa.Lookup)
				if !isLk || !l.CommaOk || (lk != nil && lk != l) {
					return "", "", nil, false
				}
				lk = l
			case ssa.CallInstruction:
				return "", "", nil, false
			case *ssa.Store, *ssa.MapUpdate:
				return "", "", nil, false
			}
		}
	}
	if lk == nil {
		return "", "", nil, false
	}
	// map = <param r>.<field...>, key = <param k>
	names := map[string]string{}
	for i, p := range cf.Params {
		if i < len(call.Call.Args) {
			names[paramCanon(p)] = canon(call.Call.Args[i])
		}
	}
	mc, kc := canon(lk.X), canon(lk.Index)
	rm, rk := renameIdents(mc, names), renameIdents(kc, names)
	if _, isP := lk.Index.(*ssa.Parameter); !isP {
		return "", "", nil, false
	}
	return rm, rk, lk.X, true
}

// freshID: v is an identifier that cannot be in any table yet -- the result of a uuid generator (possibly converted to a
// string), or a parameter that every call site binds to such a value.
func (c *C) freshID(v ssa.Value, depth int) bool {
	if depth > 3 {
		return false
	}
	switch x := v.(type) {
	case *ssa.Call:
		if cf := x.Call.StaticCallee(); cf != nil && cf.Pkg != nil && strings.HasSuffix(cf.Pkg.Pkg.Path(), "/uuid") {
			return true
		}
		// uuid.New().String(): a method of the uuid type on a fresh value
		if cf := x.Call.StaticCallee(); cf != nil && cf.Signature.Recv() != nil && len(x.Call.Args) > 0 {
			if n, ok := derefNamed(cf.Signature.Recv().Type()); ok && n.Obj().Pkg() != nil && strings.HasSuffix(n.Obj().Pkg().Path(), "/uuid") {
				return c.freshID(x.Call.Args[0], depth+1)
			}
		}
	case *ssa.Convert:
		return c.freshID(x.X, depth+1)
	case *ssa.ChangeType:
		return c.freshID(x.X, depth+1)
	case *ssa.Parameter:
		fn := x.Parent()
		pi := -1
		for i, p := range fn.Params {
			if p == x {
				pi = i
			}
		}
		sites := 0
		for _, g := range c.P.allFuncs("memdb", "server") {
			for _, b := range g.Blocks {
				for _, in := range b.Instrs {
					ci, ok := in.(ssa.CallInstruction)
					if !ok || callee(ci) != fn || pi < 0 || pi >= len(ci.Common().Args) {
						continue
					}
					sites++
					if !c.freshID(ci.Common().Args[pi], depth+1) {
						return false
					}
				}
			}
		}
		return sites > 0
	}
	return false
}

// thinGetter: fn is a method that does nothing but return a field of its receiver (func (s *connState) selected() *MemDb
// { return s.db }); returns the field's name.
func thinGetter(fn *ssa.Function) (string, bool) {
	if fn == nil || fn.Blocks == nil || len(fn.Blocks) != 1 || fn.Signature.Recv() == nil || len(fn.Params) != 1 || fn.Signature.Results().Len() != 1 {
		return "", false
	}
	field := ""
	for _, in := range fn.Blocks[0].Instrs {
		switch x := in.(type) {
		case *ssa.FieldAddr:
			if x.X != ssa.Value(fn.Params[0]) {
				return "", false
			}
			field = fieldName(x)
		case *ssa.UnOp, *ssa.DebugRef:
		case *ssa.Return:
			u, ok := x.Results[0].(*ssa.UnOp)
			if !ok {
				return "", false
			}
			if _, ok := u.X.(*ssa.FieldAddr); !ok {
				return "", false
			}
		default:
			return "", false
		}
	}
	return field, field != ""
}

// stripBoolCompare: `present == true`, `present != false` (a switch on a boolean) are tests of `present`.
func stripBoolCompare(cond ssa.Value, neg bool) (ssa.Value, bool) {
	for d := 0; d < 3; d++ {
		bo, ok := cond.(*ssa.BinOp)
		if !ok || (bo.Op != token.EQL && bo.Op != token.NEQ) {
			return cond, neg
		}
		var other ssa.Value
		var k *ssa.Const
		if kk, isK := bo.Y.(*ssa.Const); isK {
			other, k = bo.X, kk
		} else if kk, isK := bo.X.(*ssa.Const); isK {
			other, k = bo.Y, kk
		}
		if k == nil || k.Value == nil || !isBoolType(k.Type()) {
			return cond, neg
		}
		truth := k.Value.ExactString() == "true"
		// other == true: same; other == false: negated; != flips again
		if (bo.Op == token.EQL) != truth {
			neg = !neg
		}
		cond = other
	}
	return cond, neg
}
